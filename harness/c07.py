"""C07 -- Every emitted font is structurally valid for its consumers."""
import random

from harness import build, common, e2e, fontcheck
from harness.c04 import ALL_FORMATS, gen_sequences, png_for
from harness.common import Report, eval_bad_indices, proof_gate, report_failure

IMPORTS = ["Model.Validity Corr.Common Corr.C07"]


GRAD = ('<linearGradient id="g" gradientUnits="userSpaceOnUse" x1="10" y1="10" x2="90" y2="90">'
        '<stop offset="0" stop-color="red"/><stop offset="1" stop-color="blue"/></linearGradient>')
# directed source sets that run first: (name, formats, sources)
CORPUS = [
    # two glyphs that share no outline (separate OT-SVG documents) but use the same gradient: every document must
    # define what it references
    ("shared-gradient", ["picosvg", "picosvgz"], [
        f'<svg xmlns="http://www.w3.org/2000/svg" viewBox="0 0 100 100"><defs>{GRAD}</defs><path d="M10,10 L90,10 L90,90 L10,90 Z" fill="url(#g)"/></svg>',
        f'<svg xmlns="http://www.w3.org/2000/svg" viewBox="0 0 100 100"><defs>{GRAD}</defs><path d="M50,10 L90,90 L10,90 Z" fill="url(#g)"/></svg>',
        f'<svg xmlns="http://www.w3.org/2000/svg" viewBox="0 0 100 100"><defs>{GRAD}</defs><path d="M20,20 L80,20 L80,80 L20,80 Z" fill="url(#g)" opacity="0.5"/><path d="M10,50 L50,90 L10,90 Z" fill="red"/></svg>',
    ]),
    # glyphs that share nothing, whose glyph-name order differs from their input order: the SVG records must
    # still come in glyph-id order
    ("unshared-name-order", ["picosvg", "untouchedsvg"], [
        '<svg xmlns="http://www.w3.org/2000/svg" viewBox="0 0 100 100"><path d="M10,10 L90,10 L90,90 L10,90 Z" fill="red"/></svg>',
        '<svg xmlns="http://www.w3.org/2000/svg" viewBox="0 0 100 100"><path d="M50,10 L90,90 L10,90 Z" fill="blue"/></svg>',
        '<svg xmlns="http://www.w3.org/2000/svg" viewBox="0 0 100 100"><path d="M10,50 L50,10 L90,50 L50,95 Z" fill="#00ff00"/></svg>',
    ], [(0x1F600,), (0x42,), (0x2A, 0xFE0F)]),
    # two glyphs sharing an outline where the glyph given first sorts later by glyph name (g_1f600 > e000), plus
    # one that shares nothing: the shared path belongs in <defs>, no glyph may reference into another
    ("shared-shape-name-order", ["picosvg", "picosvgz"], [
        '<svg xmlns="http://www.w3.org/2000/svg" viewBox="0 0 100 100"><path d="M10,10 L60,10 L60,60 L10,60 Z" fill="red"/></svg>',
        '<svg xmlns="http://www.w3.org/2000/svg" viewBox="0 0 100 100"><path d="M30,30 L80,30 L80,80 L30,80 Z" fill="blue"/><path d="M5,5 L25,5 L15,25 Z" fill="#00ff00"/></svg>',
        '<svg xmlns="http://www.w3.org/2000/svg" viewBox="0 0 100 100"><path d="M10,50 L50,10 L90,50 L50,95 Z" fill="#123456"/></svg>',
    ], [(0x1F600,), (0xE000,), (0x1F601,)]),
]


CORPUS.append(("bitmap-gaps", ["cbdt", "sbix"], [
    '<svg xmlns="http://www.w3.org/2000/svg" viewBox="0 0 100 100"><path d="M10,10 L90,10 L90,90 L10,90 Z" fill="red"/></svg>',
    '<svg xmlns="http://www.w3.org/2000/svg" viewBox="0 0 100 100"><path d="M50,10 L90,90 L10,90 Z" fill="blue"/></svg>',
    '<svg xmlns="http://www.w3.org/2000/svg" viewBox="0 0 100 100"><path d="M10,50 L50,10 L90,50 L50,95 Z" fill="#00ff00"/></svg>',
], [(), (0x1F600,), (0x1F601,)]))  # coloured art for .notdef (glyph 0), blank space (glyph 1), two emoji: bitmaps at glyph ids 0, 2, 3


def run_e2e(report, n_fonts, rng):
    lits, metas = [], []
    plan = [(fmt, c[0], (c[2], c[3] if len(c) > 3 else None)) for c in CORPUS for fmt in c[1]] + [(ALL_FORMATS[i % len(ALL_FORMATS)], None, None) for i in range(n_fonts)]
    for i, (fmt, corpus_name, corpus_texts) in enumerate(plan):
        bitmap = fmt in ("cbdt", "sbix")
        over = e2e.gen_config(rng, fmt)
        otf = fmt.startswith("cff")
        over["output_file"] = "Font.otf" if otf else "Font.ttf"
        if bitmap:
            over["bitmap_resolution"] = 32
        if corpus_texts is not None:
            over = dict(color_format=fmt, output_file="Font.ttf", **(dict(bitmap_resolution=32) if bitmap else {}))
            texts, cps_list = corpus_texts
            cps_list = cps_list or [(0x1F600 + k,) for k in range(len(texts))]
            srcs = [(build.filename_for(c) if c else "notdef.svg", t, c) for t, c in zip(texts, cps_list)]
        elif rng.random() < 0.5:
            docs, srcs = e2e.gen_sources(rng, n=rng.randint(1, 6), var_opaque=fmt.endswith("_0"))
            if rng.random() < 0.5:  # sequences too, so GSUB is present while glyphs are reshuffled
                seqs = gen_sequences(rng)[: len(srcs)]
                srcs = [(build.filename_for(s), t, s) for (fn, t, cps), s in zip(srcs, seqs)]
        else:
            docs, srcs = e2e.gen_sources(rng, n=rng.randint(2, 8), solid_only=True, var_opaque=True)
        if bitmap:
            srcs = [(fn, t, cps, png_for(k, rng.choice([32, 16, 48]), 32)) for k, (fn, t, cps) in enumerate(srcs)]
            if rng.random() < 0.5 and corpus_name != "bitmap-gaps":
                # gaps between colour glyphs: extra sequence-only codepoints create blanks in between
                srcs = [(build.filename_for((0x1F600 + 2 * k, 0x200D, 0x1F3FB + k)), t, (0x1F600 + 2 * k, 0x200D, 0x1F3FB + k), p) for k, (fn, t, cps, p) in enumerate(srcs)]
        case = dict(kind="e2e", format=fmt, config={k: str(v) for k, v in over.items()}, sources=[s[1] for s in srcs])
        try:
            font, cfg, picos, data = build.build_inprocess(over, srcs)
        except Exception as ex:
            case["error"] = f"{type(ex).__name__}: {ex}"
            report_failure(report, f"build_{i}", case)
            return
        report.hist("e2e.format", fmt)
        report.hist("e2e.kind", "corpus " + corpus_name if corpus_name else "generated")
        probs, f1 = fontcheck.roundtrip_problems(data)
        if f1 is not None:
            probs += fontcheck.svg_doc_problems(f1)
            probs += fontcheck.post_problems(f1, cfg.keep_glyph_names or False, truetype=not otf)
            lit, info = fontcheck.abstract(f1)
            lits.append(lit)
            metas.append(dict(case, tables=info))
        report.count(("font", fmt, tuple(s[1] for s in srcs), str(sorted(over.items(), key=lambda kv: kv[0]))), True)
        if probs:
            case["problems"] = probs[:6]
            report_failure(report, f"e2e_{i}", case)
            return
    bad = eval_bad_indices(IMPORTS, "", "font_abs", lits, ["font_valid"], tag="fonts", shard=60)
    report.notes["fonts_checked_by_coq_predicates"] = len(lits)
    for i in bad["font_valid"]:
        report_failure(report, f"tables_{i}", dict(metas[i], problems=["Model.Validity.font_valid is false on the abstracted tables"]))
        break
    if metas:
        report.sample(dict(format=metas[0]["format"], tables=metas[0]["tables"]))


def run_maximum_color(report, n, rng):
    """the fonts maximum_color writes are emitted fonts too: same validation"""
    from concurrent.futures import ThreadPoolExecutor

    from harness import c12

    kinds = ["picosvg", "glyf_colr_1", "untouchedsvg", "glyf_colr_0"]
    plans = []
    for i in range(n):
        sub = random.Random(rng.getrandbits(48))
        kind = kinds[i % len(kinds)]
        flags = (["--colr_version", str(sub.choice([0, 1]))] if kind.endswith("svg") and sub.random() < 0.5 else []) + (["--keep_glyph_names"] if sub.random() < 0.5 else [])
        if i % 2 == 1:
            flags = [f for f in flags if f != "--keep_glyph_names"] + ["--bitmaps"]  # bitmaps without names: post must be 3
        plans.append((i, kind, sub, flags))

    plans.append((n, "picosvg with a glyph that paints nothing", random.Random(rng.getrandbits(48)), ["--bitmaps"]))
    # coloured .notdef: the colour glyphs are two runs of glyph ids (one CBLC strike per run, several SVG documents)
    plans.append((n + 1, "glyf_colr_1 with a coloured .notdef", random.Random(rng.getrandbits(48)), ["--bitmaps"]))
    plans.append((n + 2, "picosvg with a coloured .notdef", random.Random(rng.getrandbits(48)), ["--bitmaps", "--keep_glyph_names"]))

    def empty_in_the_middle():
        H = '<svg xmlns="http://www.w3.org/2000/svg" viewBox="0 0 100 100">'
        texts = [H + '<path d="M10,10 L50,10 L50,50 L10,50 Z" fill="red"/></svg>', H + "<defs/></svg>",
                 H + '<path d="M40,40 L80,40 L80,80 L40,80 Z" fill="blue"/></svg>',  # the first one's square, moved: one sharing group
                 H + '<path d="M50,10 L90,90 L10,90 Z" fill="#00aa00"/></svg>', H + '<path d="M10,50 L50,10 L90,50 L50,95 Z" fill="#123456"/></svg>']
        srcs = [(build.filename_for((0x1F600 + k,)), t, (0x1F600 + k,)) for k, t in enumerate(texts)]
        over = dict(color_format="picosvg", upem=1000, ascender=800, descender=-200, width=1000, output_file="Font.ttf")
        font, cfg, picos, data = build.build_inprocess(over, srcs)
        return data, dict(format="picosvg", config={k: str(v) for k, v in over.items()}, sources=texts, glyph_order=font.getGlyphOrder())

    def work(plan):
        i, kind, sub, flags = plan
        if kind.startswith("picosvg with a glyph"):
            data, info = empty_in_the_middle()
            rc, log, out = c12.run_maximum_color(data, flags)
            return plan, info, rc, log, out
        if kind.endswith("coloured .notdef"):
            data, info = c12.notdef_font(sub, kind.split()[0])
        else:
            data, info = c12.nanoemoji_font(sub, kind, v0_expressible="0" in flags, bitmaps="--bitmaps" in flags)
        rc, log, out = c12.run_maximum_color(data, flags)
        return plan, info, rc, log, out

    with ThreadPoolExecutor(4) as ex:
        results = list(ex.map(work, plans))
    lits, metas = [], []
    for (i, kind, sub, flags), info, rc, log, out in results:
        case = dict(kind="e2e", tool="maximum_color", input=kind, flags=flags, **info)
        report.hist("maximum_color.input", kind)
        if rc != 0 and "--bitmaps" in flags and ("Bitmap is too big for CBDT" in log or "does not fit in format b for" in log):
            report.hist("maximum_color.outcome", "rejected: CBDT format limit")
            continue
        if rc != 0 or out is None:
            case.update(problems=["maximum_color failed"], log=log[-1500:])
            report_failure(report, f"maxcolor_{i}", case)
            return
        probs, f1 = fontcheck.roundtrip_problems(out)
        if f1 is not None:
            probs += fontcheck.svg_doc_problems(f1)
            probs += fontcheck.post_problems(f1, "--keep_glyph_names" in flags)
            if "COLR" in f1 and "CPAL" not in f1:
                probs.append("COLR without CPAL: every palette index is out of range")
            lit, tinfo = fontcheck.abstract(f1)
            lits.append(lit)
            metas.append(dict(case, tables=tinfo))
        report.count(("maxcolor", kind, tuple(flags), str(info.get("sources"))), True)
        if probs:
            case["problems"] = probs[:6]
            report_failure(report, f"maxcolor_{i}", case)
            return
    bad = eval_bad_indices(IMPORTS, "", "font_abs", lits, ["font_valid"], tag="maxcolor", shard=60)
    for i in bad["font_valid"]:
        report_failure(report, f"maxcolor_tables_{i}", dict(metas[i], problems=["Model.Validity.font_valid is false on the abstracted tables"]))
        break


def main(argv):
    common.setup_env()
    tier = common.tier_from_args(argv)
    report = Report("C07", tier, common.seed_from_env())
    report.rule = (
        "generated source sets (vector sources with reuse and sequences; bitmap sets with and without gid gaps) x "
        "configurations x all 13 colour formats (.ttf, .otf for CFF flavours): every font is loaded with lazy=False, fully "
        "decompiled, re-saved, reloaded and compared table by table; its tables are abstracted and the executable Coq "
        "predicates (SVG document list, COLR records/indices, CBLC strikes, glyph-set agreement) evaluated; SVG documents "
        "checked for unique ids, in-document hrefs, no cross-glyph references; post format"
    )
    st = proof_gate(report)
    rng = random.Random(report.seed)
    run_e2e(report, 26 if tier == "quick" else 650, rng)
    if not report.violations:
        run_maximum_color(report, 4 if tier == "quick" else 40, rng)
    if not st["proof_ok"] and not report.violations:
        report.violation("proof", dict(kind="proof", theorem="Props/C07.v", detail=report.notes.get("proof_failure")), found_input=False)
    report.open_obligations = [
        "COLR record sorting, maxp/hmtx/cmap agreement and binary round trip are produced by ufo2ft/fontTools: checked on every generated font, not modelled",
        "fonts written by maximum_color: a few per run here, the bulk in the C12 check (same functions)",
    ]
    return report.finish()
