"""C07 -- Every emitted font is structurally valid for its consumers."""
import random

from harness import build, common, e2e, fontcheck
from harness.c04 import ALL_FORMATS, gen_sequences, png_for
from harness.common import Report, eval_bad_indices, proof_gate, report_failure

IMPORTS = ["Model.Validity Corr.Common Corr.C07"]


def run_e2e(report, n_fonts, rng):
    lits, metas = [], []
    for i in range(n_fonts):
        fmt = ALL_FORMATS[i % len(ALL_FORMATS)]
        bitmap = fmt in ("cbdt", "sbix")
        over = e2e.gen_config(rng, fmt)
        otf = fmt.startswith("cff")
        over["output_file"] = "Font.otf" if otf else "Font.ttf"
        if bitmap:
            over["bitmap_resolution"] = 32
        if rng.random() < 0.5:
            docs, srcs = e2e.gen_sources(rng, n=rng.randint(1, 6), var_opaque=fmt.endswith("_0"))
            if rng.random() < 0.5:  # sequences too, so GSUB is present while glyphs are reshuffled
                seqs = gen_sequences(rng)[: len(srcs)]
                srcs = [(build.filename_for(s), t, s) for (fn, t, cps), s in zip(srcs, seqs)]
        else:
            docs, srcs = e2e.gen_sources(rng, n=rng.randint(2, 8), solid_only=True, var_opaque=True)
        if bitmap:
            srcs = [(fn, t, cps, png_for(k, rng.choice([32, 16, 48]), 32)) for k, (fn, t, cps) in enumerate(srcs)]
            if rng.random() < 0.5:
                # gaps between colour glyphs: extra sequence-only codepoints create blanks in between
                srcs = [(build.filename_for((0x1F600 + 2 * k, 0x200D, 0x1F3FB + k)), t, (0x1F600 + 2 * k, 0x200D, 0x1F3FB + k), p) for k, (fn, t, cps, p) in enumerate(srcs)]
        case = dict(kind="e2e", format=fmt, config={k: str(v) for k, v in over.items()}, sources=[s[1] for s in srcs])
        try:
            font, cfg, picos, data = build.build_inprocess(over, srcs)
        except Exception as ex:
            case["error"] = f"{type(ex).__name__}: {ex}"
            report_failure(report, f"build_{i}", case)
            return
        report.hist("e2e.format", fmt)
        probs, f1 = fontcheck.roundtrip_problems(data)
        if f1 is not None:
            probs += fontcheck.svg_doc_problems(f1)
            probs += fontcheck.post_problems(f1, cfg.keep_glyph_names or False, truetype=not otf)
            lit, info = fontcheck.abstract(f1)
            lits.append(lit)
            metas.append(dict(case, tables=info))
        report.count(("font", fmt, tuple(s[1] for s in srcs), str(sorted(over.items(), key=lambda kv: kv[0]))), True)
        if probs:
            case["problems"] = probs[:6]
            report_failure(report, f"e2e_{i}", case)
            return
    bad = eval_bad_indices(IMPORTS, "", "font_abs", lits, ["font_valid"], tag="fonts", shard=60)
    report.notes["fonts_checked_by_coq_predicates"] = len(lits)
    for i in bad["font_valid"]:
        report_failure(report, f"tables_{i}", dict(metas[i], problems=["Model.Validity.font_valid is false on the abstracted tables"]))
        break
    if metas:
        report.sample(dict(format=metas[0]["format"], tables=metas[0]["tables"]))


def main(argv):
    common.setup_env()
    tier = common.tier_from_args(argv)
    report = Report("C07", tier, common.seed_from_env())
    report.rule = (
        "generated source sets (vector sources with reuse and sequences; bitmap sets with and without gid gaps) x "
        "configurations x all 13 colour formats (.ttf, .otf for CFF flavours): every font is loaded with lazy=False, fully "
        "decompiled, re-saved, reloaded and compared table by table; its tables are abstracted and the executable Coq "
        "predicates (SVG document list, COLR records/indices, CBLC strikes, glyph-set agreement) evaluated; SVG documents "
        "checked for unique ids, in-document hrefs, no cross-glyph references; post format"
    )
    st = proof_gate(report)
    rng = random.Random(report.seed)
    run_e2e(report, 26 if tier == "quick" else 650, rng)
    if not st["proof_ok"] and not report.violations:
        report.violation("proof", dict(kind="proof", theorem="Props/C07.v", detail=report.notes.get("proof_failure")), found_input=False)
    report.open_obligations = [
        "COLR record sorting, maxp/hmtx/cmap agreement and binary round trip are produced by ufo2ft/fontTools: checked on every generated font, not modelled",
        "fonts written by maximum_color are validated by the same functions in the C12 check",
    ]
    return report.finish()
