"""Fault injection for C09, active only when VERIF_FAULT is set (JSON):
  {"module": "nanoemoji.write_font", "target": "<substring of the step's argv>",
   "mode": "fail" | "truncate_kill" | "kill_before" | "kill_during_ninja_write",
   "output": "<file to truncate, relative to the step's cwd>", "marker": "<file touched when the fault fires>",
   "bytes": <n, for kill_during_ninja_write>}
It is imported by every `python -m ...` step ninja starts and by the driver itself, because the
harness puts this directory first on PYTHONPATH.  Nothing here is used when VERIF_FAULT is unset."""
import os
import sys


def _install():
    import json

    raw = os.environ.get("VERIF_FAULT")
    if not raw:
        return
    try:
        plan = json.loads(raw)
    except ValueError:
        return
    orig = list(getattr(sys, "orig_argv", []))
    if "-m" not in orig:
        return
    k = orig.index("-m")
    mod = orig[k + 1] if k + 1 < len(orig) else None
    rest = " ".join(orig[k + 2:])
    if mod != plan.get("module") or plan.get("target", "") not in rest:
        return
    marker = plan.get("marker")

    def fired():
        if marker:
            with open(marker, "a") as f:
                f.write(f"{mod} {plan.get('mode')}\n")

    mode = plan.get("mode")
    import signal

    if mode == "fail":
        fired()
        sys.stderr.write("verif: injected failure\n")
        os._exit(9)
    if mode == "kill_before":
        fired()
        os.kill(os.getpid(), signal.SIGKILL)
    if mode == "truncate_kill":
        import atexit

        out = plan.get("output")

        def finish():
            fired()
            try:
                if out and os.path.isfile(out):
                    n = os.path.getsize(out)
                    if plan.get("keep_lines") is not None:
                        with open(out, "rb") as f:
                            lines = f.read().splitlines(True)
                        n = 2 * sum(len(l) for l in lines[: int(plan["keep_lines"])])
                    with open(out, "r+b") as f:
                        f.truncate(n // 2)
                elif out:
                    with open(out, "wb") as f:
                        f.write(b"\x00\x01")
            finally:
                os.kill(os.getpid(), signal.SIGKILL)

        atexit.register(finish)
        return
    if mode == "kill_during_ninja_write":
        import builtins

        limit = int(plan.get("bytes", 200))
        real_open = builtins.open

        class Dying:
            def __init__(self, f):
                self._f, self._n = f, 0

            def write(self, s):
                room = limit - self._n
                if len(s) >= room:
                    self._f.write(s[:room])
                    self._f.flush()
                    fired()
                    os.kill(os.getpid(), signal.SIGKILL)
                self._n += len(s)
                return self._f.write(s)

            def __getattr__(self, a):
                return getattr(self._f, a)

            def __enter__(self):
                return self

            def __exit__(self, *a):
                return self._f.__exit__(*a)

        def fake_open(file, mode="r", *a, **kw):
            f = real_open(file, mode, *a, **kw)
            if str(file).endswith("build.ninja") and "w" in mode:
                return Dying(f)
            return f

        builtins.open = fake_open


_install()
