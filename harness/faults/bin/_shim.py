#!/venv/bin/python
"""PATH shim for the external tools ninja runs (picosvg, resvg, pngquant): behaves like the real
tool unless VERIF_FAULT names it (JSON: {"tool": name, "target": substring of argv, "mode":
"fail"|"truncate_kill", "output": file, "marker": file})."""
import json
import os
import signal
import subprocess
import sys

name = sys.argv[1]
real = "/venv/bin/" + name
args = sys.argv[2:]
plan = None
try:
    plan = json.loads(os.environ.get("VERIF_FAULT") or "null")
except ValueError:
    pass
# a standing behaviour of the tool (not a fault): e.g. pngquant declining a file with exit 99, in every
# invocation including the clean reference build
try:
    beh = json.loads(os.environ.get("VERIF_BEHAVIOUR") or "null")
except ValueError:
    beh = None
if beh and beh.get("tool") == name and beh.get("target", "") in " ".join(args):
    sys.exit(int(beh.get("exit", 99)))
if not plan or plan.get("tool") != name or plan.get("target", "") not in " ".join(args):
    os.execv(real, [real] + args)


def fired():
    if plan.get("marker"):
        with open(plan["marker"], "a") as f:
            f.write(f"{name} {plan.get('mode')}\n")


if plan.get("mode") == "fail":
    fired()
    sys.stderr.write("verif: injected failure\n")
    sys.exit(7)
# truncate_kill: let the tool write its output, cut it in half, die by SIGKILL
subprocess.run([real] + args)
fired()
out = plan.get("output")
if out and os.path.isfile(out):
    n = os.path.getsize(out)
    with open(out, "r+b") as f:
        f.truncate(n // 2)
os.kill(os.getpid(), signal.SIGKILL)
