"""C02 -- OT-SVG glyph documents render the same picture as their sources."""
import random

from harness import build, common, e2e, picture
from harness.common import Report, known_ids, proof_gate, report_failure


def svg_docs(font):
    """[(text, first gid, last gid)] of the reloaded SVG table."""
    return [(d.data if hasattr(d, "data") else d[0], d.startGlyphID if hasattr(d, "startGlyphID") else d[1], d.endGlyphID if hasattr(d, "endGlyphID") else d[2]) for d in font["SVG "].docList]


def check_otsvg_glyphs(font, cfg, srcs, picos, raw):
    """Returns (n, problems, f1_suspect)"""
    docs = svg_docs(font)
    out = []
    n = 0
    for (fn, text, cps), pico in zip(srcs, picos):
        src_text = pico if pico is not None else text
        vb = e2e.viewbox_of_pico(src_text)
        g = e2e.glyph_for(font, cps)
        probs = []
        if g is None:
            out.append(dict(source=fn, problems=["codepoint not in cmap"]))
            continue
        gid = font.getGlyphID(g)
        adv = font["hmtx"][g][0]
        if adv != e2e.expected_advance(cfg, vb):
            probs.append(f"advance {adv} != {e2e.expected_advance(cfg, vb)}")
        covering = [d for d in docs if d[1] <= gid <= d[2]]
        if len(covering) != 1:
            probs.append(f"{len(covering)} SVG documents cover glyph id {gid}")
        else:
            place = picture.place_font(vb, cfg.ascender, cfg.descender, adv, e2e.user_affine(cfg))
            exp = picture.expected_picture(src_text, place)
            act, p2 = picture.otsvg_picture(covering[0][0], gid)
            probs += p2
            base, extra = e2e.eps_for(cfg, vb)
            su = max(1.0, picture.anorm(e2e.user_affine(cfg)))
            # OT-SVG keeps curves and 3-decimal coordinates in viewBox units: no outline quantisation
            s = (cfg.ascender - cfg.descender) / vb[3]
            eps = 0.01 * s + (max(cfg.reuse_tolerance, 0.0) * 1.5 + 0.003) * s + 0.05
            strict = picture.compare_pictures(exp, act, eps=eps * su, extra_eps=0.0, unit_tol=0.02 * s + 0.05, palette_check=False, use_slack=True)
            probs += strict
            rounding_only = []
            if not strict:
                # second pass without the slack that 3-decimal rounding of use/group transforms explains
                rounding_only = picture.compare_pictures(exp, act, eps=eps * su + 2.0, extra_eps=0.0, unit_tol=0.02 * s + 2.0, palette_check=False, use_slack=False)
        n += 1
        if probs:
            out.append(dict(source=fn, glyph=g, gid=gid, problems=probs[:5], document=covering[0][0] if len(covering) == 1 else None, source_text=src_text))
        elif len(covering) == 1 and rounding_only:
            out.append(dict(source=fn, glyph=g, gid=gid, problems=rounding_only[:3], rounding_only=True, document=covering[0][0], source_text=src_text))
    return n, out


def f6_case(cfg):
    """known finding F6: the user transform is applied unconjugated in y-down space; it agrees
    with the font-space placement only when it commutes with the mirror (b = c = f = 0)."""
    t = e2e.user_affine(cfg)
    return abs(t[1]) > 1e-12 or abs(t[2]) > 1e-12 or abs(t[5]) > 1e-12


def f1_case(problem_entry):
    """known finding F1: _tidy_use_elements moved a paint attribute from the <use> elements onto
    a target that is itself rendered in place (not in <defs>)."""
    from lxml import etree

    doc = problem_entry.get("document")
    if not doc or not all(("colour" in p or "alpha" in p or "fill kind" in p or "stop" in p) for p in problem_entry["problems"]):
        return False
    root = etree.fromstring(doc.encode() if isinstance(doc, str) else doc)
    ns = picture.SVGNS
    defs_ids = {el.get("id") for d in root.iter(ns + "defs") for el in d}
    for use in root.iter(ns + "use"):
        href = (use.get(picture.XLINK) or "")[1:]
        if href and href not in defs_ids:
            return True
    return False


def run_e2e(report, n_fonts, rng):
    formats = ["picosvg", "picosvg", "untouchedsvg", "picosvgz", "picosvg", "untouchedsvgz"]
    H = '<svg xmlns="http://www.w3.org/2000/svg" viewBox="0 0 100 100"'
    # directed sources first: paint inherited from the root element or a group (icon-set style)
    inherited = [
        H + ' fill="red"><path d="M10,10 L40,10 L40,40 L10,40 Z"/><path d="M50,50 L80,50 L80,70 Z" fill="blue"/></svg>',
        H + '><g fill="#00ff00"><path d="M10,60 L40,60 L40,90 L10,90 Z"/><g fill="blue"><path d="M50,10 L90,10 L70,45 Z"/></g></g></svg>',
    ]
    directed = [(f, [(build.filename_for((0x1F600 + k,)), t, (0x1F600 + k,)) for k, t in enumerate(inherited)], None, dict()) for f in ("untouchedsvg", "untouchedsvgz", "picosvg")]
    # two opacity groups with equal content, siblings inside an outer opacity group (stacking a translucent layer twice to
    # deepen it): they are two nodes, drawn one over the other (F29, fixed: they were merged into one group); next to it
    # the same pair as top-level layers and a pair that differs in one colour
    twin = '<g opacity="0.5"><path d="M30,30 L70,30 L70,70 L30,70 Z" fill="#ff0000"/><path d="M50,50 L90,50 L90,90 L50,90 Z" fill="#0000ff"/></g>'
    twins = [
        H + '><g opacity="0.9"><path d="M5,5 L25,5 L25,25 L5,25 Z" fill="#00ff00"/>' + twin + twin + "</g></svg>",
        H + ">" + twin + twin + "</svg>",
        H + '><g opacity="0.8">' + twin + twin.replace("#0000ff", "#0000cc") + '<path d="M5,70 L25,70 L25,95 Z" fill="#333333"/></g></svg>',
    ]
    for f in ("picosvg", "untouchedsvg"):
        directed.append((f, [(build.filename_for((0x1F610 + k,)), t, (0x1F610 + k,)) for k, t in enumerate(twins)], None, dict()))
    # sets of the reuse corpus in which sharing of gradients and regrouping of glyphs interact (round 7)
    from harness.c06 import CORPUS_SETS

    for name, fmts, tol, texts in CORPUS_SETS:
        if name in ("radials-differing-in-transform-only", "one-gradient-many-shapes", "loner-between-sharers", "second-use-squashed-radial"):
            directed.append(("picosvg", [(build.filename_for((0x1F630 + k,)), t, (0x1F630 + k,)) for k, t in enumerate(texts)], None, dict(reuse_tolerance=tol)))
    # a raw source that already carries id="glyph2" (an SVG lifted out of another OT-SVG font) and is given glyph id 2 (F38)
    own_id = H + '><g id="glyph2"><path d="M10,10 L40,10 L40,40 L10,40 Z" fill="red"/></g><path d="M50,50 L80,50 L80,70 Z" fill="blue"/></svg>'
    directed.append(("untouchedsvg", [(build.filename_for((0x1F620,)), own_id, (0x1F620,))], None, dict()))
    # the same oracle on fonts built by the real command line, options by flag and by file (zeros included)
    docs, s1 = e2e.gen_sources(rng, n=3)
    directed.append(("picosvg", s1, "flag", dict(upem=1000, ascender=1000, descender=0, width=0)))
    docs, s2 = e2e.gen_sources(rng, n=2)
    directed.append(("untouchedsvg", s2, "file", dict(upem=1024, ascender=900, descender=0, width=1024, reuse_tolerance=-1.0)))
    via = None
    for i in range(len(directed) + n_fonts):
        via = None
        if i < len(directed):
            fmt, srcs, via, extra = directed[i]
            over = dict(color_format=fmt, **extra)
        else:
            fmt = formats[i % len(formats)]
            over = e2e.gen_config(rng, fmt)
            over["pretty_print"] = rng.random() < 0.5
            docs, srcs = e2e.gen_sources(rng, n=rng.randint(1, 6))
        raw = fmt.startswith("untouched")
        case = dict(kind="e2e", format=fmt, config={k: str(v) for k, v in over.items()}, sources=[s[1] for s in srcs])
        try:
            font, cfg, picos, data = build.build_cli(over, srcs, via) if via else build.build_inprocess(over, srcs)
        except Exception as ex:
            case["error"] = f"{type(ex).__name__}: {ex}"
            report_failure(report, f"e2e_build_{i}", case)
            return
        report.hist("e2e.built_by", "command line, options by " + via if via else "in process")
        n, problems = check_otsvg_glyphs(font, cfg, srcs, picos, raw)
        report.count(("e2e", fmt, tuple(s[1] for s in srcs), str(sorted(over.items(), key=lambda kv: kv[0]))), n > 0, n)
        report.hist("e2e.format", fmt)
        report.hist("e2e.documents", len(svg_docs(font)))
        report.hist("e2e.user_transform", "yes" if "transform" in over else "no")
        for pe in problems:
            fid = None
            if raw and f'id="glyph{pe.get("gid")}"' in (pe.get("source_text") or "") and any("elements with id glyph" in x or "duplicate ids" in x for x in pe["problems"]):
                fid = "F38-untouched-source-carries-glyph-id"
            elif pe.get("rounding_only"):
                fid = "F12-otsvg-use-rounding"
            elif "transform" in over and f6_case(cfg):
                fid = "F6-otsvg-user-transform"
            elif not raw and f1_case(pe):
                fid = "F1-tidy-use-inplace-donor"
            case2 = dict(case, source=pe["source"], problems=pe["problems"], document=pe.get("document"))
            if report_failure(report, f"e2e_{i}", case2, fid):
                return
    report.sample(dict(kind="e2e", format=fmt, config={k: str(v) for k, v in over.items()}, source=srcs[0][1]))

    # witnesses of the known / fixed findings, re-run on every check
    from picosvg.svg_transform import Affine2D

    sq = '<svg xmlns="http://www.w3.org/2000/svg" viewBox="0 0 100 100"><defs/><path d="M10,10 L40,10 L40,40 L10,40 Z"/><path d="M50,50 L80,50 L80,80 L50,80 Z" fill="red"/></svg>'
    srcs = [("emoji_u1f600.svg", sq, (0x1F600,))]
    for name, over, fid in (
        ("witness_F6", dict(color_format="picosvg", upem=1000, ascender=1000, descender=0, width=1000, transform=Affine2D(1, 0, 0, 1, 0, 100)), "F6-otsvg-user-transform"),
        ("witness_F1", dict(color_format="picosvg", upem=1000, ascender=800, descender=-200, width=1000), None),
    ):
        font, cfg, picos, _ = build.build_inprocess(over, srcs)
        n, problems = check_otsvg_glyphs(font, cfg, srcs, picos, False)
        report.count((name,), True)
        for pe in problems:
            report_failure(report, name, dict(kind="e2e", config={k: str(v) for k, v in over.items()}, source=sq, problems=pe["problems"], document=pe.get("document")), fid)


def run_disjoint_set(report, n, rng):
    """DisjointSet.sorted() is the partition generated by the union calls."""
    from nanoemoji.disjoint_set import DisjointSet

    for i in range(n):
        items = [f"g{j}" for j in range(rng.randint(1, 12))]
        ds = DisjointSet()
        for it in items:
            ds.make_set(it)
        naive = {it: {it} for it in items}
        unions = []
        for _ in range(rng.randint(0, 14)):
            a, b = rng.choice(items), rng.choice(items)
            ds.union(a, b)
            unions.append((a, b))
            if naive[a] is not naive[b]:
                m = naive[a] | naive[b]
                for x in m:
                    naive[x] = m
        got = ds.sorted()
        want = tuple(sorted({tuple(sorted(s)) for s in naive.values()}))
        report.count(("ds", tuple(items), tuple(unions)), len(unions) > 1)
        if tuple(tuple(g) for g in got) != want:
            report_failure(report, f"disjoint_set_{i}", dict(kind="property", function="DisjointSet.sorted", items=items, unions=unions, impl_out=[list(g) for g in got], expected=[list(w) for w in want]))
            return


def run_model_corr(report, n, rng):
    """svg._create_use_element and svg._ensure_groups_grouped_in_glyph_order (real functions, recording stand-ins for the
    font and the document) against Model.OtSvg, and the OT-SVG placement through the C01 placement correspondence"""
    import types
    from fractions import Fraction as Fr

    from lxml import etree
    from nanoemoji import svg as svgmod
    from nanoemoji.glyph_reuse import ReuseResult
    from picosvg.svg import SVG
    from picosvg.svg_transform import Affine2D

    from harness.common import afflit, listlit, qlit, zlit

    IMPORTS = ["Model.Field Model.Affine Model.OtSvg Corr.Common Corr.C16 Corr.C02"]
    doc = SVG.fromstring('<svg xmlns="http://www.w3.org/2000/svg" viewBox="0 0 100 100"><defs/></svg>')
    cases, metas = [], []
    for i in range(n):
        k = rng.choice(["translate", "scale", "mirror", "rotate", "general", "identity"])
        r = lambda lo, hi, den=8: Fr(rng.randint(lo * den, hi * den), den)
        t = {
            "translate": (1, 0, 0, 1, r(-300, 300), r(-300, 300)),
            "scale": (r(1, 3) / 2, 0, 0, r(1, 3) / 2, r(-100, 100), r(-100, 100)),
            "mirror": (-1, 0, 0, 1, r(0, 200), 0),
            "rotate": (Fr(3, 5), Fr(4, 5), Fr(-4, 5), Fr(3, 5), r(-50, 50), r(-50, 50)),
            "general": (r(-2, 2), r(-1, 1), r(-1, 1), r(-2, 2), r(-200, 200), r(-200, 200)),
            "identity": (1, 0, 0, 1, 0, 0),
        }[k]
        R = Affine2D(*(float(v) for v in t))
        parent = etree.Element("g")
        el = svgmod._create_use_element(doc, parent, ReuseResult("donor", R))
        x, y = Fr(el.get("x", "0")), Fr(el.get("y", "0"))
        tr = el.get("transform")
        obs_t = (1, 0, 0, 1, 0, 0)
        if tr:
            import re as _re

            nums = [Fr(v) for v in _re.findall(r"-?\d+(?:\.\d+)?(?:e-?\d+)?", tr)]
            if tr.startswith("matrix") and len(nums) == 6:
                obs_t = tuple(nums)
            elif tr.startswith("translate"):
                obs_t = (1, 0, 0, 1, nums[0], nums[1] if len(nums) > 1 else 0)
            elif tr.startswith("scale"):
                obs_t = (nums[0], 0, 0, nums[1] if len(nums) > 1 else nums[0], 0, 0)
            else:
                report_failure(report, f"use_syntax_{i}", dict(kind="corr", function="svg._create_use_element", transform=tr, problem="transform syntax the harness does not read"))
                return
        cases.append(f"({afflit(tuple(Fr(v) for v in R))}, {qlit(x)}, {qlit(y)}, {afflit(obs_t)})")
        metas.append(dict(function="svg._create_use_element", kind_of_transform=k, reuse_transform=[str(v) for v in R], attributes=dict(el.attrib)))
        report.count(("use", k, tuple(t)), k != "identity")
        report.hist("use.kind", k)
    common.evaluate_corr(report, IMPORTS, "Corr.C02", "use_element", "use_case", cases, metas, "use_agree", "use_prop", shard=100)

    captured = {}
    real_reorder = svgmod.reorder_glyphs
    svgmod.reorder_glyphs = lambda font, order: captured.__setitem__("order", list(order))
    try:
        cases, metas = [], []
        for i in range(n):
            ng = rng.randint(3, 14)
            names = [".notdef"] + [f"g{j}" for j in range(1, ng)]
            pool = names[1:]
            rng.shuffle(pool)
            groups, k = [], 0
            while k < len(pool) and rng.random() < 0.8:
                m = rng.randint(1, 3)
                groups.append(tuple(pool[k : k + m]))
                k += m
            ids = {nm: j for j, nm in enumerate(names)}
            cgs = {nm: types.SimpleNamespace(glyph_id=ids[nm], _replace=None) for g in groups for nm in g}
            for nm, cg in cgs.items():
                cg._replace = (lambda c: (lambda **kw: types.SimpleNamespace(**{**c.__dict__, **kw})))(cg)
            font = {"post": types.SimpleNamespace(formatType=2)}
            fake = types.SimpleNamespace(getGlyphOrder=lambda names=names: list(names), __getitem__=None)

            class _Font(dict):
                def getGlyphOrder(self_inner):
                    return list(names)

            f = _Font(font)
            captured.clear()
            try:
                svgmod._ensure_groups_grouped_in_glyph_order(cgs, f, tuple(groups))
            except Exception as ex:
                report_failure(report, f"order_raises_{i}", dict(kind="corr", function="svg._ensure_groups_grouped_in_glyph_order", order=names, groups=[list(g) for g in groups], error=f"{type(ex).__name__}: {ex}"))
                return
            new = captured.get("order", [])
            gids = [(ids[nm], cgs[nm].glyph_id) for g in groups for nm in g]
            cases.append("(" + listlit([zlit(ids[nm]) for nm in names]) + ", " + listlit([listlit([zlit(ids[nm]) for nm in g]) for g in groups]) + ", "
                         + listlit([zlit(ids[nm]) for nm in new]) + ", " + listlit([f"({zlit(a)}, {b}%nat)" for a, b in gids]) + ")")
            metas.append(dict(function="svg._ensure_groups_grouped_in_glyph_order", order=names, groups=[list(g) for g in groups], new_order=new))
            report.count(("order", tuple(names), tuple(groups)), bool(groups))
        common.evaluate_corr(report, IMPORTS, "Corr.C02", "ensure_order", "ord_case", cases, metas, "ord_agree", "ord_agree", shard=100)
    finally:
        svgmod.reorder_glyphs = real_reorder


def main(argv):
    common.setup_env()
    tier = common.tier_from_args(argv)
    report = Report("C02", tier, common.seed_from_env())
    report.rule = (
        "generated source sets (1-6 sources sharing shapes so that <use>/<defs> sharing, document grouping and glyph "
        "reshuffling vary; gradients, opacity groups, palette-variable and currentColor fills) x configurations (metrics, "
        "user transform, reuse tolerance, pretty_print) x {picosvg, picosvgz, untouchedsvg, untouchedsvgz}: the SVG table of "
        "the reloaded font is parsed, the document covering each glyph id is rendered by an independent OT-SVG interpreter "
        "(g/path/use with x,y,transform, fill inheritance through use, userSpaceOnUse gradients) and compared layer by layer "
        "with the placed source; exactly one glyph<id> element, hrefs resolve in-document, ids unique"
    )
    st = proof_gate(report)
    rng = random.Random(report.seed)
    run_disjoint_set(report, 200 if tier == "quick" else 4000, rng)
    if common.vo_ok("Corr/C02.v"):
        run_model_corr(report, 80 if tier == "quick" else 1500, random.Random(rng.getrandbits(48)))
        # the OT-SVG placement (map_viewbox_to_otsvg_space) is part of the placement correspondence of C01
        from harness import c01

        c01.run_placement(report, 150 if tier == "quick" else 3000, random.Random(rng.getrandbits(48)))
    run_e2e(report, 24 if tier == "quick" else 600, rng)
    if not st["proof_ok"] and not report.violations:
        report.violation("proof", dict(kind="proof", theorem="Props/C02.v", detail=report.notes.get("proof_failure")), found_input=False)
    report.open_obligations = [
        "document assembly (_add_glyph, _migrate_to_defs, _tidy_use_elements, gradient sharing) is not modelled in Coq: it is judged end to end by an independent OT-SVG interpreter on every generated font",
        "DisjointSet is checked against a naive partition on random unions, not proved",
    ]
    return report.finish()
