"""C11 -- Reordering glyphs leaves every table's meaning intact."""
import random

from harness import common
from harness.common import Report, evaluate_corr, listlit, optlit, proof_gate, report_failure, zlit

IMPORTS = ["Model.Reorder Corr.Common Corr.C11"]


def zl(l):
    return listlit([zlit(x) for x in l])


def run_sort(report, n, rng):
    from nanoemoji.reorder_glyphs import _sort_by_gid

    cases, meta = [], []
    for i in range(n):
        k = rng.choice([0, 1, 2, 3, 5, 8, 13])
        names = rng.sample(range(100, 160), k)
        if k and rng.random() < 0.1:
            names[rng.randrange(k)] = names[0]  # a duplicated glyph (stability)
        gids = rng.sample(range(0, 400), len(set(names)))
        gmap = dict(zip(sorted(set(names)), gids))
        mode = rng.choice(["none", "parallel", "parallel", "empty"])
        par = None if mode == "none" else ([] if mode == "empty" else [rng.randint(0, 9) for _ in names])
        if mode == "empty" and names:
            # the caller asserts equal lengths; an empty parallel list only occurs with an empty coverage
            names = []
        gl, pl = list(names), (None if par is None else list(par))
        _sort_by_gid(lambda g: gmap[g], gl, pl)
        ml = listlit([f"({zlit(a)}, {zlit(b)})" for a, b in gmap.items()])
        cases.append(f"({ml}, {zl(names)}, {optlit(par, zl)}, {zl(gl)}, {optlit(pl, zl)})")
        meta.append(dict(function="reorder_glyphs._sort_by_gid", gid=gmap, glyphs=names, parallel=par, impl_out=[gl, pl]))
        report.count(("sg", tuple(names), tuple(par or ()), tuple(gmap.items())), k > 1 and mode == "parallel")
        report.hist("sort.mode", mode)
    evaluate_corr(report, IMPORTS, "Corr.C11", "sort_by_gid", "sg_case", cases, meta, "sg_agree", "sg_prop")
    report.sample(meta[3])


def run_fonts(report, n, rng):
    from nanoemoji.reorder_glyphs import reorder_glyphs
    from harness import fontgen, otcanon
    from harness.ot_schema import SCHEMA

    seen = set()
    # glyf fonts with every colour variant; the charstring flavours (F19) with COLRv1, which is
    # what nanoemoji's own cff_colr_1 / cff2_colr_1 output looks like
    for variant, outlines in ((None, "glyf"), (0, "glyf"), (1, "glyf"), (1, "cff"), (1, "cff2"), (None, "cff"), (1, "cff-nolayout"), (None, "cff2-nolayout"), (1, "glyf-nolayout")):
        # "-nolayout": a colour font without a feature file - no GDEF/GPOS/GSUB at all (round 7: the charstring step must not
        # hang on the presence of a layout table)
        nolayout = outlines.endswith("-nolayout")
        outlines = outlines.split("-")[0]
        base = fontgen.add_manual_context_lookups(fontgen.build_layout_font(with_colr=variant, outlines=outlines))
        if nolayout:
            for tag_ in ("GDEF", "GPOS", "GSUB", "MATH"):
                if tag_ in base:
                    del base[tag_]
            base = fontgen.roundtrip(base)
            outlines += " without layout tables"
        before_layout = otcanon.layout_canon(base, seen)
        before_other = otcanon.other_tables_canon(base)
        order = base.getGlyphOrder()
        for i in range(n):
            font = fontgen.roundtrip(base)
            rest = order[1:]
            kind = rng.choice(["shuffle", "reverse", "rotate", "swap2"])
            if kind == "shuffle":
                rng.shuffle(rest)
            elif kind == "reverse":
                rest.reverse()
            elif kind == "rotate":
                k = rng.randrange(1, len(rest))
                rest = rest[k:] + rest[:k]
            else:
                a, b = rng.sample(range(len(rest)), 2)
                rest[a], rest[b] = rest[b], rest[a]
            new_order = [order[0]] + rest
            reorder_glyphs(font, new_order)
            if i % 3 == 2:
                # the SECOND reorder of one and the same font object (maximum_color donates table after table to one target)
                rest2 = new_order[1:]
                rng.shuffle(rest2)
                new_order = [order[0]] + rest2
                reorder_glyphs(font, new_order)
                kind += ", then a second reorder of the same object"
            after = fontgen.roundtrip(font)
            report.count(("font", variant, outlines, tuple(new_order)), new_order != order)
            report.hist("permutation", kind)
            report.hist("outlines", outlines)
            case = dict(function="reorder_glyphs.reorder_glyphs + save + reload", colr=variant, outlines=outlines, permutation=kind, new_order=new_order)
            if after.getGlyphOrder() != new_order:
                report_failure(report, f"order_{variant}_{outlines}_{i}", dict(kind="property", case=case, note="saved glyph order differs from the requested one"))
                return
            al = otcanon.layout_canon(after)
            for tag in before_layout:
                if al.get(tag) != before_layout[tag]:
                    case["table"] = tag
                    case["first_difference"] = _first_diff(before_layout[tag], al.get(tag))
                    report_failure(report, f"layout_{variant}_{outlines}_{i}", dict(kind="property", case=case, note="name-keyed meaning of the layout table changed"))
                    return
            ao = otcanon.other_tables_canon(after)
            for k in before_other:
                if ao.get(k) != before_other[k]:
                    case["table"] = k
                    case["first_difference"] = _first_diff(before_other[k], ao.get(k))
                    report_failure(report, f"table_{variant}_{outlines}_{i}", dict(kind="property", case=case, note="name-keyed content changed"))
                    return
            bad = otcanon.coverage_violations(after)
            if bad:
                case["coverage"] = [(p, g) for p, g, _ in bad[:3]]
                report_failure(report, f"coverage_{variant}_{outlines}_{i}", dict(kind="property", case=case, note="coverage not in increasing glyph-id order in the saved binary"))
                return
    missing = sorted(set(SCHEMA) - seen, key=str)
    report.notes["schema_entries_exercised"] = len(set(SCHEMA) & seen)
    report.notes["schema_entries_not_exercised"] = [list(map(str, m)) for m in missing]
    report.sample(dict(function="reorder_glyphs on synthetic fonts", lookup_types_and_formats=sorted(f"{t}/{f}" for t, f in seen if (t, f) in SCHEMA)))


def _svg_records(font):
    """name-keyed reading of an 'SVG ' table: for every document, the glyph names its glyph-id range covers and
    the glyph names its <g id="glyphN"> elements name"""
    import re

    out = []
    for doc in font["SVG "].docList:
        text, start, end = (doc.data, doc.startGlyphID, doc.endGlyphID) if hasattr(doc, "data") else doc[:3]
        covered = tuple(font.getGlyphName(g) for g in range(start, end + 1))
        named = tuple(sorted(font.getGlyphName(int(n)) for n in re.findall(r'id="glyph(\d+)"', text)))
        shapes = tuple(sorted(re.findall(r'id="glyph\d+"[^>]*><path d="([^"]*)"', text)))
        out.append((covered, named, shapes))
    return tuple(sorted(out))


def run_svg_fonts(report, n, rng):
    """a font that already carries an OT-SVG table: its documents are colour records keyed by glyph id (F21)"""
    from fontTools.ttLib import newTable
    from fontTools.ttLib.tables.S_V_G_ import SVGDocument
    from nanoemoji.reorder_glyphs import reorder_glyphs
    from harness import fontgen

    base = fontgen.build_layout_font(with_colr=None)
    order = base.getGlyphOrder()
    svg = newTable("SVG ")
    docs = []
    for k, name in enumerate(("a", "e", "x")):
        gid = base.getGlyphID(name)
        docs.append((gid, f'<svg xmlns="http://www.w3.org/2000/svg"><g id="glyph{gid}"><path d="M{k},0 L10,{k} L0,10 Z" fill="red"/></g></svg>'))
    svg.docList = [SVGDocument(text, gid, gid, False) for gid, text in sorted(docs)]
    base["SVG "] = svg
    base = fontgen.roundtrip(base)
    before = _svg_records(base)
    for i in range(n):
        font = fontgen.roundtrip(base)
        rest = order[1:]
        rng.shuffle(rest)
        new_order = [order[0]] + rest
        reorder_glyphs(font, new_order)
        after = fontgen.roundtrip(font)
        report.count(("svgfont", tuple(new_order)), new_order != order)
        report.hist("outlines", "glyf+SVG")
        got = _svg_records(after)
        if got != before:
            case = dict(function="reorder_glyphs.reorder_glyphs + save + reload", table="SVG ", new_order=new_order,
                        before=[list(map(list, r[:2])) for r in before], after=[list(map(list, r[:2])) for r in got])
            report_failure(report, f"svgtable_{i}", dict(kind="property", case=case, note="the glyph names an OT-SVG document belongs to changed"), "F21-svg-table-not-reordered")
            return


def run_variable_metrics(report, n, rng):
    """a variable font whose HVAR has no AdvWidthMap (the implicit glyph-id -> delta-set mapping varLib emits when it is
    the most compact): advance deltas are metrics keyed by glyph id (F36)"""
    from fontTools.ttLib import newTable
    from fontTools.ttLib.tables import otTables as ot
    from fontTools.varLib import builder as vb
    from fontTools.varLib.varStore import VarStoreInstancer
    from nanoemoji.reorder_glyphs import reorder_glyphs
    from harness import fontgen

    base = fontgen.build_layout_font(with_colr=None)
    order = base.getGlyphOrder()
    fvar = newTable("fvar")
    from fontTools.ttLib.tables._f_v_a_r import Axis

    ax = Axis()
    ax.axisTag, ax.minValue, ax.defaultValue, ax.maxValue, ax.axisNameID, ax.flags = "wght", 100, 400, 900, 256, 0
    fvar.axes, fvar.instances = [ax], []
    base["fvar"] = fvar
    base["name"].setName("Weight", 256, 3, 1, 0x409)
    supports = [{"wght": (0, 1, 1)}]
    vd = vb.buildVarData([0], [[7 * k] for k in range(len(order))], optimize=False)
    hvar = newTable("HVAR")
    hvar.table = ot.HVAR()
    hvar.table.Version = 0x00010000
    hvar.table.VarStore = vb.buildVarStore(vb.buildVarRegionList(supports, ["wght"]), [vd])
    hvar.table.AdvWidthMap = hvar.table.LsbMap = hvar.table.RsbMap = None
    base["HVAR"] = hvar
    base = fontgen.roundtrip(base)

    def deltas(f):
        inst = VarStoreInstancer(f["HVAR"].table.VarStore, f["fvar"].axes, {"wght": 1.0})
        m = f["HVAR"].table.AdvWidthMap
        return {nm: inst[m.mapping[nm] if m else gid] for gid, nm in enumerate(f.getGlyphOrder())}

    before = deltas(base)
    for i in range(n):
        font = fontgen.roundtrip(base)
        rest = order[1:]
        rng.shuffle(rest)
        new_order = [order[0]] + rest
        reorder_glyphs(font, new_order)
        after = fontgen.roundtrip(font)
        report.count(("hvarfont", tuple(new_order)), new_order != order)
        report.hist("outlines", "glyf+fvar+HVAR (implicit map)")
        got = deltas(after)
        if got != before:
            moved = sorted(k for k in before if got.get(k) != before[k])[:6]
            case = dict(function="reorder_glyphs.reorder_glyphs + save + reload", table="HVAR", new_order=new_order,
                        advance_deltas_at_wght_max_before={k: before[k] for k in moved}, after={k: got.get(k) for k in moved})
            report_failure(report, f"hvar_{i}", dict(kind="property", case=case, note="the advance-width variation of named glyphs changed"), "F36-hvar-implicit-map-not-reordered")
            return


def _first_diff(a, b, path="", depth=0):
    if type(a) != type(b) or not isinstance(a, tuple) or len(a) != len(b) or depth > 12:
        return dict(path=path, before=repr(a)[:300], after=repr(b)[:300])
    for i, (x, y) in enumerate(zip(a, b)):
        if x != y:
            return _first_diff(x, y, f"{path}/{i}", depth + 1)
    return None


def main(argv):
    common.setup_env()
    tier = common.tier_from_args(argv)
    report = Report("C11", tier, common.seed_from_env())
    report.rule = (
        "_sort_by_gid on random coverages/parallel arrays/gid maps (with duplicates, empty and absent parallel lists); "
        "real reorder_glyphs + save + reload on synthetic fonts containing every GSUB/GPOS/GDEF subtable type and format of "
        "the schema (feaLib + hand-built Context formats 1/2/3), with glyf composites or CFF / CFF2 charstrings (F19), hmtx, cmap and COLR v0/v1, under random "
        "permutations keeping .notdef first; a font that already carries an OT-SVG table (documents keyed by glyph id, F21); a variable font whose HVAR maps glyph ids to delta sets implicitly (F36); non-trivial = order actually changed"
    )
    st = proof_gate(report)
    rng = random.Random(report.seed)
    if common.vo_ok("Corr/C11.v"):
        run_sort(report, 500 if tier == "quick" else 8000, rng)
    run_fonts(report, 6 if tier == "quick" else 120, rng)
    if not report.violations:
        run_svg_fonts(report, 3 if tier == "quick" else 40, rng)
    if not report.violations:
        run_variable_metrics(report, 2 if tier == "quick" else 20, random.Random(report.seed + 5))
    if not st["proof_ok"] and not report.violations:
        report.violation("proof", dict(kind="proof", theorem="Props/C11.v", detail=report.notes.get("proof_failure")), found_input=False)
    report.open_obligations = [
        "MATH table rules are outside the schema (the property names GSUB, GPOS, GDEF)",
        "the traversal reaching every subtable (bfs_base_table, extension lookups) is exercised, not proved",
        "dict-based subtables (Single/Multiple/Alternate/LigatureSubst, ClassDef) are re-sorted by fontTools at compile time: exercised, trusted",
    ]
    return report.finish()
