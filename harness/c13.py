"""C13 -- COLR-to-SVG conversion preserves the picture for supported paint graphs."""
import io
import logging
import math
import random
import re
from fractions import Fraction

from harness import common, picture
from harness.common import Report, afflit, listlit, proof_gate, qlit, report_failure, strlit, zlit

GLYPHS = [".notdef", "space", "base0", "base1", "base2", "sq", "tri", "bar", "comp"]


def build_font(colr_glyphs, palettes, upem=1000, asc=800, desc=-200, version=1, advances=None):
    from fontTools.colorLib.builder import buildCOLR, buildCPAL
    from fontTools.fontBuilder import FontBuilder
    from fontTools.pens.ttGlyphPen import TTGlyphPen
    from fontTools.ttLib import TTFont

    fb = FontBuilder(upem, isTTF=True)
    fb.setupGlyphOrder(GLYPHS)
    fb.setupCharacterMap({0x20: "space", 0x41: "base0", 0x42: "base1", 0x43: "base2"})

    def poly(pts):
        pen = TTGlyphPen(None)
        pen.moveTo(pts[0])
        for p in pts[1:]:
            pen.lineTo(p)
        pen.closePath()
        return pen.glyph()

    glyphs = {g: TTGlyphPen(None).glyph() for g in GLYPHS}
    glyphs["sq"] = poly([(100, 100), (100, 400), (400, 400), (400, 100)])
    glyphs["tri"] = poly([(300, 0), (700, 50), (450, 600)])
    glyphs["bar"] = poly([(50, 300), (50, 380), (900, 380), (900, 300)])
    pen = TTGlyphPen(GLYPHS)
    pen.addComponent("sq", (1, 0, 0, 1, 300, 200))
    pen.addComponent("tri", (0.5, 0, 0, 0.5, 0, 0))
    glyphs["comp"] = pen.glyph()
    fb.setupGlyf(glyphs)
    fb.setupHorizontalMetrics({g: ((advances or {}).get(g, 1000 if g.startswith("base") else 600), 0) for g in GLYPHS})
    fb.setupHorizontalHeader(ascent=asc, descent=desc)
    fb.setupNameTable({"familyName": "C13", "styleName": "Regular"})
    fb.setupOS2(sTypoAscender=asc, sTypoDescender=desc)
    fb.setupPost()
    font = fb.font
    font["CPAL"] = buildCPAL(palettes)
    font["COLR"] = buildCOLR(colr_glyphs, version=version)
    buf = io.BytesIO()
    font.save(buf)
    buf.seek(0)
    return TTFont(buf, lazy=False)


def gen_graph(rng, npal, depth=0, allow_colrglyph=True):
    from fontTools.ttLib.tables import otTables as ot

    F = ot.PaintFormat

    def color():
        return dict(PaletteIndex=rng.choice(list(range(npal)) + [0xFFFF] * (1 if rng.random() < 0.15 else 0)), Alpha=rng.choice([1.0, 1.0, 0.5, 0.25, 0.0]))

    def fill():
        k = rng.random()
        if k < 0.4:
            c = color()
            return dict(Format=F.PaintSolid, **c)
        stops = [dict(StopOffset=o, **{k2: v for k2, v in color().items()}) for o in ([0.0, 1.0] if rng.random() < 0.6 else [0.0, 0.5, 1.0])]
        for s in stops:
            if s["PaletteIndex"] == 0xFFFF:
                s["PaletteIndex"] = 0
        cl = dict(ColorStop=stops, Extend=rng.choice(["pad", "repeat", "reflect"]))
        if k < 0.7:
            x0, y0 = rng.randint(0, 400), rng.randint(0, 400)
            x1, y1 = x0 + rng.randint(100, 500), y0 + rng.randint(-100, 400)
            if rng.random() < 0.5:
                x2, y2 = x0 - (y1 - y0), y0 + (x1 - x0)
            else:  # rotated p2
                x2, y2 = x0 + rng.randint(-300, 300), y0 + rng.randint(100, 400)
            return dict(Format=F.PaintLinearGradient, ColorLine=cl, x0=x0, y0=y0, x1=x1, y1=y1, x2=x2, y2=y2)
        cx, cy = rng.randint(100, 500), rng.randint(100, 500)
        return dict(Format=F.PaintRadialGradient, ColorLine=cl, x0=cx + rng.randint(10, 60), y0=cy - rng.randint(5, 50), r0=rng.randint(1, 40), x1=cx, y1=cy, r1=rng.randint(150, 500))

    def leaf():
        return dict(Format=F.PaintGlyph, Glyph=rng.choice(["sq", "tri", "bar", "comp"]), Paint=fill())

    def transform(p):
        k = rng.choice(["translate", "scale", "scalec", "scaleu", "scaleuc", "rotate", "rotatec", "skew", "skewc", "matrix"])
        c = dict(centerX=rng.randint(-200, 600), centerY=rng.randint(-200, 600))
        if k == "translate":
            return dict(Format=F.PaintTranslate, Paint=p, dx=rng.randint(-300, 300), dy=rng.randint(-300, 300))
        if k == "scale":
            return dict(Format=F.PaintScale, Paint=p, scaleX=rng.choice([0.5, 1.5, -1.0, 0.75]), scaleY=rng.choice([0.5, 1.25, 1.0]))
        if k == "scalec":
            return dict(Format=F.PaintScaleAroundCenter, Paint=p, scaleX=rng.choice([0.5, 1.5]), scaleY=rng.choice([0.5, 1.25]), **c)
        if k == "scaleu":
            return dict(Format=F.PaintScaleUniform, Paint=p, scale=rng.choice([0.5, 1.5, 0.75]))
        if k == "scaleuc":
            return dict(Format=F.PaintScaleUniformAroundCenter, Paint=p, scale=rng.choice([0.5, 1.5]), **c)
        if k == "rotate":
            return dict(Format=F.PaintRotate, Paint=p, angle=rng.choice([30, 45, 90, -60, 135]))
        if k == "rotatec":
            return dict(Format=F.PaintRotateAroundCenter, Paint=p, angle=rng.choice([30, 90, -45]), **c)
        if k == "skew":
            return dict(Format=F.PaintSkew, Paint=p, xSkewAngle=rng.choice([0, 15, -20]), ySkewAngle=rng.choice([0, 10, -15]))
        if k == "skewc":
            return dict(Format=F.PaintSkewAroundCenter, Paint=p, xSkewAngle=rng.choice([10, -20]), ySkewAngle=rng.choice([0, 15]), **c)
        return dict(Format=F.PaintTransform, Paint=p, Transform=(rng.choice([1, 0.8, 0.5]), rng.choice([0, 0.2, -0.3]), rng.choice([0, -0.2, 0.4]), rng.choice([1, 0.9, 0.6]), rng.randint(-200, 200), rng.randint(-200, 200)))

    def node(d):
        k = rng.random()
        if d >= 4 or k < 0.3:
            return leaf()
        if k < 0.55:
            return transform(node(d + 1))
        if k < 0.8:
            return dict(Format=F.PaintColrLayers, Layers=[node(d + 1) for _ in range(rng.randint(2, 3))])
        if k < 0.9:
            return dict(Format=F.PaintComposite, CompositeMode="src_in", SourcePaint=dict(Format=F.PaintColrLayers, Layers=[node(d + 1) for _ in range(2)]),
                        BackdropPaint=dict(Format=F.PaintSolid, PaletteIndex=0, Alpha=rng.choice([0.5, 0.25])))
        if allow_colrglyph:
            return dict(Format=F.PaintColrGlyph, Glyph="base2")
        return leaf()

    return node(depth)


def svg_to_font(view_box, asc, desc, width):
    # viewBox -> font space: the placement of C01 (no user transform)
    return picture.place_font(view_box, asc, desc, width)


def run_v1(report, n, rng):
    from nanoemoji import colr_to_svg
    from picosvg.geometric_types import Rect

    for i in range(n):
        npal = rng.choice([1, 1, 2, 3])
        base_pal = [(0, 0, 0, 1.0), (1, 0, 0, 1.0), (0, 0.5, 0, 1.0), (0, 0, 1, 1.0), (1, 0.8, 0, 1.0), (240 / 255, 240 / 255, 240 / 255, 1.0), (64 / 255, 128 / 255, 192 / 255, 1.0)]
        palettes = [base_pal] + [[(c[2], c[0], c[1], 1.0) for c in base_pal] for _ in range(npal - 1)]
        graphs = {"base2": gen_graph(rng, len(base_pal), depth=2, allow_colrglyph=False)}
        graphs["base0"] = gen_graph(rng, len(base_pal))
        graphs["base1"] = gen_graph(rng, len(base_pal))
        if i == 0:
            # directed: the foreground colour with its own alpha (solid and gradient stop), a rotation above a glyph
            from fontTools.ttLib.tables import otTables as ot

            F = ot.PaintFormat
            fg = lambda a: dict(Format=F.PaintSolid, PaletteIndex=0xFFFF, Alpha=a)
            graphs["base0"] = dict(Format=F.PaintColrLayers, Layers=[
                dict(Format=F.PaintGlyph, Glyph="sq", Paint=fg(0.5)),
                dict(Format=F.PaintGlyph, Glyph="tri", Paint=dict(Format=F.PaintSolid, PaletteIndex=1, Alpha=0.25)),
                dict(Format=F.PaintTransform, Transform=(0.866, 0.5, -0.5, 0.866, 40, -30), Paint=dict(Format=F.PaintGlyph, Glyph="bar", Paint=fg(0.25)))])
            graphs["base1"] = dict(Format=F.PaintGlyph, Glyph="sq", Paint=dict(Format=F.PaintLinearGradient, x0=100, y0=100, x1=400, y1=150, x2=60, y2=380, ColorLine=dict(
                Extend="pad", ColorStop=[dict(StopOffset=0.0, PaletteIndex=0xFFFF, Alpha=1.0), dict(StopOffset=1.0, PaletteIndex=0xFFFF, Alpha=0.25)])))
        if i == 1:
            # directed: two colour glyphs that use one and the same gradient (each SVG must define it)
            from fontTools.ttLib.tables import otTables as ot

            F = ot.PaintFormat
            grad = dict(Format=F.PaintLinearGradient, x0=100, y0=100, x1=400, y1=100, x2=100, y2=400, ColorLine=dict(
                Extend="pad", ColorStop=[dict(StopOffset=0.0, PaletteIndex=1, Alpha=1.0), dict(StopOffset=1.0, PaletteIndex=3, Alpha=1.0)]))
            graphs["base0"] = dict(Format=F.PaintGlyph, Glyph="sq", Paint=grad)
            graphs["base1"] = dict(Format=F.PaintColrLayers, Layers=[dict(Format=F.PaintGlyph, Glyph="tri", Paint=dict(Format=F.PaintSolid, PaletteIndex=2, Alpha=1.0)),
                                                                       dict(Format=F.PaintGlyph, Glyph="sq", Paint=grad)])
        asc, desc = rng.choice([(800, -200), (950, -250), (1000, 0)])
        try:
            font = build_font(graphs, palettes, asc=asc, desc=desc)
        except Exception as ex:
            continue  # the generator produced something colorLib refuses (harness limitation)
        vbs = {g: rng.choice([Rect(0, 0, 1000, asc - desc), Rect(0, 0, 128, 128), Rect(10, -20, 200, 100)]) for g in graphs}
        if i == 1:
            vbs = {g: Rect(0, 0, 128, 128) for g in graphs}  # one viewBox: the shared gradient is the same in every document
        case = dict(kind="e2e", palettes=npal, view_boxes={g: list(v) for g, v in vbs.items()}, graphs={g: repr(p)[:1500] for g, p in graphs.items()})
        try:
            svgs = colr_to_svg.colr_to_svg(lambda g: vbs[g], font)
        except Exception as ex:
            case["error"] = f"{type(ex).__name__}: {ex}"
            report_failure(report, f"convert_{i}", case)
            return
        for g in ("base0", "base1"):
            exp, p1 = picture.colr_picture(font, g)
            vb = tuple(vbs[g])
            width = font["hmtx"][g][0]
            text = svgs[g].tostring()
            act, p2 = picture.otsvg_picture(text, 0, whole_document_to_font=svg_to_font(vb, asc, desc, width))
            # multi-palette fonts: palette entries become var(--colorN, colour); the oracle keeps N
            s = (asc - desc) / vb[3]
            # colr_to_svg writes matrices with 3 decimals: on coordinates of the size of the em that is up to
            # 0.0005 * 2 * upem font units per transform, on top of the 3-decimal path coordinates (0.02 * s)
            rnd = 0.0005 * 2 * 1000
            probs = p1 + p2 + picture.compare_pictures(exp, act, eps=0.02 * s + 0.5 + rnd, unit_tol=0.02 * s + 0.5 + rnd, palette_check=False)
            def uses_palette(p):
                if isinstance(p, dict):
                    return (p.get("PaletteIndex", 0xFFFF) != 0xFFFF) or any(uses_palette(v) for v in p.values())
                if isinstance(p, (list, tuple)):
                    return any(uses_palette(v) for v in p)
                return False

            # (a glyph painted with the foreground colour alone has nothing to look up in a palette)
            if npal > 1 and "var(--color" not in text and "fill=" in text and uses_palette(graphs[g]) and "base2" not in repr(graphs[g]):
                probs.append("multi-palette font but no var(--colorN, ...) fills")
            report.count(("v1", g, repr(graphs[g]), vb, npal), True)
            if probs:
                case.update(glyph=g, problems=probs[:4], svg=text[:4000])
                report_failure(report, f"v1_{i}", case)
                return
    report.sample(dict(kind="e2e", graph=repr(graphs["base0"])[:800]))


def run_v0(report, n, rng):
    from nanoemoji import colr_to_svg
    from picosvg.geometric_types import Rect

    for i in range(n):
        pal = [(0, 0, 0, 1.0), (1, 0, 0, 0.5), (0, 0.5, 0, 1.0)]
        layers = {"base0": [(rng.choice(["sq", "tri", "bar", "comp"]), rng.choice([0, 1, 2, 0xFFFF])) for _ in range(rng.randint(1, 4))]}
        font = build_font(layers, [pal], version=0)
        vb = Rect(0, 0, 1000, 1000)
        svgs = colr_to_svg.colr_to_svg(lambda g: vb, font)
        exp, p1 = picture.colr_picture(font, "base0")
        act, p2 = picture.otsvg_picture(svgs["base0"].tostring(), 0, whole_document_to_font=svg_to_font(tuple(vb), 800, -200, 1000))
        probs = p1 + p2 + picture.compare_pictures(exp, act, eps=0.6, palette_check=False)
        report.count(("v0", tuple(layers["base0"])), True)
        if probs:
            report_failure(report, f"v0_{i}", dict(kind="e2e", layers=layers, problems=probs[:4], svg=svgs["base0"].tostring()[:2000]))
            return


def run_module(report, rng):
    """the build step `python -m nanoemoji.generate_svgs_from_colr` (used by maximum_color): one SVG per colour
    glyph, named by glyph id, whose viewBox is the glyph's own region (0, -ascender, advance, ascender - descender)"""
    import subprocess

    from fontTools.ttLib.tables import otTables as ot

    from harness import build
    from harness.common import scratch_dir

    F = ot.PaintFormat
    pal = [(0, 0, 0, 1.0), (1, 0, 0, 1.0), (0, 0.5, 0, 1.0), (0, 0, 1, 1.0)]
    gl = lambda g, i: dict(Format=F.PaintGlyph, Glyph=g, Paint=dict(Format=F.PaintSolid, PaletteIndex=i, Alpha=1.0))
    graphs = {"base0": gl("sq", 1), "base1": dict(Format=F.PaintColrLayers, Layers=[gl("bar", 2), gl("tri", 3)]), "base2": gl("tri", 1)}
    adv = {"base0": 400, "base1": 1400, "base2": 1000, ".notdef": 600}
    asc, desc = 800, -200
    font = build_font(graphs, [pal], asc=asc, desc=desc, advances=adv)
    with scratch_dir("verif-c13m-") as d:
        font.save(str(d / "in.ttf"))
        (d / "out").mkdir()
        p = subprocess.run(["/venv/bin/python", "-m", "nanoemoji.generate_svgs_from_colr", "--output_dir", str(d / "out"), str(d / "in.ttf")], env=build.cli_env(), capture_output=True, text=True)
        case = dict(kind="e2e", tool="python -m nanoemoji.generate_svgs_from_colr", advances=adv)
        if p.returncode != 0:
            report_failure(report, "module_failed", dict(case, log=(p.stdout + p.stderr)[-1200:]))
            return
        for g in ("base0", "base1", "base2"):
            gid = font.getGlyphID(g)
            f = d / "out" / f"{gid:05d}.svg"
            report.count(("module", g), True)
            if not f.is_file():
                report_failure(report, f"module_{g}", dict(case, glyph=g, problems=[f"no file {f.name} for glyph id {gid}"]))
                return
            text = f.read_text()
            from lxml import etree

            vb = tuple(float(v) for v in etree.fromstring(text.encode()).get("viewBox").replace(",", " ").split())
            want = (0.0, float(-asc), float(adv[g]), float(asc - desc))
            probs = []
            if vb != want:
                probs.append(f"viewBox {vb} != the glyph's region {want}")
            exp, p1 = picture.colr_picture(font, g)
            act, p2 = picture.otsvg_picture(text, 0, whole_document_to_font=svg_to_font(vb, asc, desc, adv[g]))
            probs += p1 + p2 + picture.compare_pictures(exp, act, eps=1.0, palette_check=False)
            if probs:
                report_failure(report, f"module_{g}", dict(case, glyph=g, problems=probs[:4], svg=text[:1500]))
                return


def run_unsupported(report):
    """every paint format outside the supported set raises or warns (exhaustive over formats)"""
    from absl import logging as absl_logging
    from fontTools.ttLib.tables import otTables as ot
    from nanoemoji import colr_to_svg
    from picosvg.geometric_types import Rect

    F = ot.PaintFormat
    solid = dict(Format=F.PaintSolid, PaletteIndex=0, Alpha=1.0)
    glyph = dict(Format=F.PaintGlyph, Glyph="sq", Paint=solid)
    cl = dict(ColorStop=[dict(StopOffset=0.0, PaletteIndex=0, Alpha=1.0), dict(StopOffset=1.0, PaletteIndex=1, Alpha=1.0)], Extend="pad")
    unsupported = {
        "PaintSweepGradient": dict(Format=F.PaintGlyph, Glyph="sq", Paint=dict(Format=F.PaintSweepGradient, ColorLine=cl, centerX=200, centerY=200, startAngle=0, endAngle=180)),
        "PaintVarSolid": dict(Format=F.PaintGlyph, Glyph="sq", Paint=dict(Format=F.PaintVarSolid, PaletteIndex=0, Alpha=1.0, VarIndexBase=0)),
        "PaintVarTranslate": dict(Format=F.PaintVarTranslate, Paint=glyph, dx=10, dy=10, VarIndexBase=0),
        "PaintVarScale": dict(Format=F.PaintVarScale, Paint=glyph, scaleX=1.5, scaleY=1.5, VarIndexBase=0),
        "PaintVarRotate": dict(Format=F.PaintVarRotate, Paint=glyph, angle=30, VarIndexBase=0),
        "PaintVarLinearGradient": dict(Format=F.PaintGlyph, Glyph="sq", Paint=dict(Format=F.PaintVarLinearGradient, ColorLine=dict(ColorStop=[dict(StopOffset=0.0, PaletteIndex=0, Alpha=1.0, VarIndexBase=0), dict(StopOffset=1.0, PaletteIndex=1, Alpha=1.0, VarIndexBase=0)], Extend="pad"), x0=0, y0=0, x1=100, y1=0, x2=0, y2=100, VarIndexBase=0)),
        "PaintComposite(multiply)": dict(Format=F.PaintComposite, CompositeMode="multiply", SourcePaint=glyph, BackdropPaint=dict(Format=F.PaintGlyph, Glyph="tri", Paint=solid)),
        "PaintComposite(src_in, non-black)": dict(Format=F.PaintComposite, CompositeMode="src_in", SourcePaint=glyph, BackdropPaint=dict(Format=F.PaintSolid, PaletteIndex=1, Alpha=0.5)),
    }
    # graphs over the supported formats in which a PaintGlyph clips a subtree instead of carrying a fill (F25)
    clip_nesting = {
        "PaintGlyph over PaintColrGlyph": dict(Format=F.PaintGlyph, Glyph="sq", Paint=dict(Format=F.PaintColrGlyph, Glyph="base2")),
        "PaintGlyph over PaintColrLayers": dict(Format=F.PaintGlyph, Glyph="sq", Paint=dict(Format=F.PaintColrLayers, Layers=[dict(Format=F.PaintGlyph, Glyph="tri", Paint=dict(Format=F.PaintSolid, PaletteIndex=1, Alpha=1.0)), glyph])),
        "PaintGlyph over PaintGlyph": dict(Format=F.PaintGlyph, Glyph="sq", Paint=dict(Format=F.PaintGlyph, Glyph="tri", Paint=dict(Format=F.PaintSolid, PaletteIndex=1, Alpha=1.0))),
    }
    unsupported.update(clip_nesting)
    pal = [[(0, 0, 0, 1.0), (1, 0, 0, 1.0)]]
    for name, g in unsupported.items():
        try:
            font = build_font({"base0": g, "base2": dict(Format=F.PaintGlyph, Glyph="bar", Paint=dict(Format=F.PaintSolid, PaletteIndex=1, Alpha=1.0))} if name in clip_nesting else {"base0": g}, pal)
        except Exception as ex:
            report.notes.setdefault("unsupported_not_buildable", []).append(f"{name}: {type(ex).__name__}")
            continue
        records = []
        handler = logging.Handler()
        handler.emit = lambda r: records.append(r)
        absl_logging.get_absl_logger().addHandler(handler)
        old = absl_logging.get_verbosity()
        absl_logging.set_verbosity(absl_logging.WARNING)
        outcome = "silent"
        try:
            colr_to_svg.colr_to_svg(lambda _: Rect(0, 0, 1000, 1000), font)
            if any(r.levelno >= logging.WARNING for r in records):
                outcome = "warning"
        except Exception as ex:
            outcome = f"raises {type(ex).__name__}"
        finally:
            absl_logging.get_absl_logger().removeHandler(handler)
            absl_logging.set_verbosity(old)
        report.count(("unsupported", name), True)
        report.hist("unsupported.outcome", f"{name}: {outcome}")
        if outcome == "silent":
            report_failure(report, f"unsupported_{name}", dict(kind="e2e", paint=name, problem="a paint graph the converter cannot express was converted without error or warning"),
                           "F25-paintglyph-as-clip" if name in clip_nesting else None)
            if report.violations:
                return


def _ot_graph_lit(font, paint, palette):
    """Coq literal (Model.Paint over Qc) of a loaded otTables.Paint: the harness's own reading of the COLR
    table (values as stored after compilation), independent of nanoemoji.paint.Paint.from_ot."""
    from fontTools.ttLib.tables.otTables import PaintFormat as F

    fmt = F(paint.Format)

    def color(idx, alpha):
        if idx == 0xFFFF:
            return f"(C5 (-1)%Z (-1)%Z (-1)%Z {qlit(alpha)} None)"
        c = palette[idx]
        return f"(C5 {zlit(c.red)} {zlit(c.green)} {zlit(c.blue)} {qlit(Fraction(alpha) * Fraction(c.alpha, 255))} None)"

    def stops(cl):
        ext = {0: "EPad", 1: "ERepeat", 2: "EReflect"}[int(cl.Extend)]
        return ext, listlit([f"(St {qlit(s.StopOffset)} {color(s.PaletteIndex, s.Alpha)})" for s in cl.ColorStop])

    def pt(x, y):
        return f"(P2 {qlit(x)} {qlit(y)})"

    def cs(angle):
        a = math.radians(angle)
        return qlit(Fraction(math.cos(a))), qlit(Fraction(math.sin(a)))

    def skew(xa, ya):
        return qlit(Fraction(math.tan(-math.radians(xa)))), qlit(Fraction(math.tan(math.radians(ya))))

    sub = lambda p: _ot_graph_lit(font, p, palette)
    if fmt == F.PaintColrLayers:
        layers = font["COLR"].table.LayerList.Paint[paint.FirstLayerIndex : paint.FirstLayerIndex + paint.NumLayers]
        return f"(LLayers {listlit([sub(l) for l in layers])})"
    if fmt == F.PaintSolid:
        return f"(LSolid {color(paint.PaletteIndex, paint.Alpha)})"
    if fmt == F.PaintLinearGradient:
        e, s = stops(paint.ColorLine)
        return f"(LLinear {e} {s} {pt(paint.x0, paint.y0)} {pt(paint.x1, paint.y1)} {pt(paint.x2, paint.y2)})"
    if fmt == F.PaintRadialGradient:
        e, s = stops(paint.ColorLine)
        return f"(LRadial {e} {s} {pt(paint.x0, paint.y0)} {pt(paint.x1, paint.y1)} {qlit(paint.r0)} {qlit(paint.r1)})"
    if fmt == F.PaintGlyph:
        return f"(LGlyph {strlit(paint.Glyph)} {sub(paint.Paint)})"
    if fmt == F.PaintColrGlyph:
        return f"(LColrGlyph {strlit(paint.Glyph)})"
    if fmt == F.PaintTransform:
        t = paint.Transform
        return f"(LTransform {afflit((t.xx, t.yx, t.xy, t.yy, t.dx, t.dy))} {sub(paint.Paint)})"
    if fmt == F.PaintTranslate:
        return f"(LTranslate {qlit(paint.dx)} {qlit(paint.dy)} {sub(paint.Paint)})"
    if fmt == F.PaintScale:
        return f"(LScale {qlit(paint.scaleX)} {qlit(paint.scaleY)} {sub(paint.Paint)})"
    if fmt == F.PaintScaleAroundCenter:
        return f"(LScaleC {qlit(paint.scaleX)} {qlit(paint.scaleY)} {pt(paint.centerX, paint.centerY)} {sub(paint.Paint)})"
    if fmt == F.PaintScaleUniform:
        return f"(LScaleU {qlit(paint.scale)} {sub(paint.Paint)})"
    if fmt == F.PaintScaleUniformAroundCenter:
        return f"(LScaleUC {qlit(paint.scale)} {pt(paint.centerX, paint.centerY)} {sub(paint.Paint)})"
    if fmt == F.PaintRotate:
        c, s = cs(paint.angle)
        return f"(LRotate {c} {s} {sub(paint.Paint)})"
    if fmt == F.PaintRotateAroundCenter:
        c, s = cs(paint.angle)
        return f"(LRotateC {c} {s} {pt(paint.centerX, paint.centerY)} {sub(paint.Paint)})"
    if fmt == F.PaintSkew:
        tx, ty = skew(paint.xSkewAngle, paint.ySkewAngle)
        return f"(LSkew {tx} {ty} {sub(paint.Paint)})"
    if fmt == F.PaintSkewAroundCenter:
        tx, ty = skew(paint.xSkewAngle, paint.ySkewAngle)
        return f"(LSkewC {tx} {ty} {pt(paint.centerX, paint.centerY)} {sub(paint.Paint)})"
    if fmt == F.PaintComposite:
        return f"(LComposite {zlit(int(paint.CompositeMode))} {sub(paint.SourcePaint)} {sub(paint.BackdropPaint)})"
    raise TypeError(f"no model constructor for paint format {fmt}")


_NUM = re.compile(r"-?\d+(?:\.\d+)?(?:[eE][-+]?\d+)?")


def _d_signature(d):
    return "".join(re.findall(r"[A-Za-z]", _NUM.sub("", d))), [float(x) for x in _NUM.findall(d)]


def _glyph_by_d(font, V, names):
    """signature of each glyph drawn through the harness's own font-to-viewBox map (straight-line glyphs)"""
    from fontTools.pens.recordingPen import DecomposingRecordingPen
    from fontTools.pens.transformPen import TransformPen

    gs = font.getGlyphSet()
    out = []
    for n in names:
        pen = DecomposingRecordingPen(gs)
        gs[n].draw(TransformPen(pen, V))
        letters, nums = "", []
        for op, args in pen.value:
            letters += {"moveTo": "M", "lineTo": "L", "closePath": "Z", "endPath": ""}[op]
            for p in args:
                nums += [p[0], p[1]]
        out.append((n, (letters, nums)))
    return out


def _parse_matrix(s):
    if not s:
        return (1, 0, 0, 1, 0, 0)
    m = re.fullmatch(r"\s*matrix\(([^)]*)\)\s*", s)
    if m:
        v = [Fraction(x) for x in m.group(1).replace(",", " ").split()]
        assert len(v) == 6, s
        return tuple(v)
    m = re.fullmatch(r"\s*translate\(([^)]*)\)\s*", s)
    if m:
        v = [Fraction(x) for x in m.group(1).replace(",", " ").split()]
        return (1, 0, 0, 1, v[0], v[1] if len(v) > 1 else 0)
    m = re.fullmatch(r"\s*scale\(([^)]*)\)\s*", s)
    if m:
        v = [Fraction(x) for x in m.group(1).replace(",", " ").split()]
        return (v[0], 0, 0, v[1] if len(v) > 1 else v[0], 0, 0)
    raise ValueError(f"transform syntax not understood: {s!r}")


def _parse_color(s):
    from picosvg.svg_meta import ntos  # noqa: F401  (picosvg present)
    from nanoemoji.colors import Color

    if s is None:
        return (0, 0, 0)
    if s == "currentColor":
        return (-1, -1, -1)
    c = Color.fromstring(s)
    return (c.red, c.green, c.blue)


def _observe(root, glyph_sigs):
    """The element tree as Coq literal of type list oel."""
    from lxml import etree

    ln = lambda el: etree.QName(el.tag).localname
    defs = {}
    for el in root.iter():
        if ln(el) in ("linearGradient", "radialGradient"):
            defs[el.get("id")] = el

    def fnum(el, k, default=None):
        v = el.get(k)
        if v is None:
            return default
        return Fraction(v)

    def stops(g):
        out = []
        for s in g:
            if ln(s) != "stop":
                continue
            r, gg, b = _parse_color(s.get("stop-color"))
            out.append(f"({qlit(Fraction(s.get('offset')))}, {zlit(r)}, {zlit(gg)}, {zlit(b)}, {qlit(Fraction(s.get('stop-opacity', '1')))})")
        return listlit(out)

    def fill(el):
        f = el.get("fill")
        op = Fraction(el.get("opacity", "1"))
        m = re.fullmatch(r"url\(#([^)]+)\)", f or "")
        if not m:
            r, g, b = _parse_color(f)
            return f"(OSolid {zlit(r)} {zlit(g)} {zlit(b)} {qlit(op)})"
        g = defs[m.group(1)]
        if g.get("gradientUnits") != "userSpaceOnUse":
            return "ONone"
        ext = {"pad": "EPad", "repeat": "ERepeat", "reflect": "EReflect"}[g.get("spreadMethod", "pad")]
        gt = afflit(_parse_matrix(g.get("gradientTransform")))
        if ln(g) == "linearGradient":
            return f"(OLinear {ext} {stops(g)} {qlit(fnum(g, 'x1'))} {qlit(fnum(g, 'y1'))} {qlit(fnum(g, 'x2'))} {qlit(fnum(g, 'y2'))} {gt})"
        cx, cy, r = fnum(g, "cx"), fnum(g, "cy"), fnum(g, "r")
        fx, fy, fr = fnum(g, "fx", cx), fnum(g, "fy", cy), fnum(g, "fr", Fraction(0))
        return f"(ORadial {ext} {stops(g)} {qlit(fx)} {qlit(fy)} {qlit(fr)} {qlit(cx)} {qlit(cy)} {qlit(r)} {gt})"

    def glyph_of(d):
        sig, nums = _d_signature(d)
        for n, (s2, n2) in glyph_sigs:
            if s2 == sig and len(n2) == len(nums) and all(abs(a - b) <= 1e-6 * (1 + abs(b)) for a, b in zip(nums, n2)):
                return n
        return "?"

    def el_lit(el):
        t = ln(el)
        if t == "path":
            return f"(OPath {afflit(_parse_matrix(el.get('transform')))} {strlit(glyph_of(el.get('d', '')))} {fill(el)})"
        if t == "g":
            kids = listlit([el_lit(k) for k in el])
            if el.get("transform") is not None:
                assert el.get("opacity") is None
                return f"(OGroupT {afflit(_parse_matrix(el.get('transform')))} {kids})"
            return f"(OGroupO {qlit(Fraction(el.get('opacity', '1')))} {kids})"
        raise ValueError(f"unexpected element <{t}>")

    return listlit([el_lit(k) for k in root if ln(k) != "defs"])


def _wrap_fills(rng, g):
    """put transform paints between some PaintGlyph and its fill (what nanoemoji writes for a transformed gradient)"""
    from fontTools.ttLib.tables import otTables as ot

    F = ot.PaintFormat
    if isinstance(g, dict):
        g = {k: _wrap_fills(rng, v) for k, v in g.items()}
        if g.get("Format") == F.PaintGlyph and rng.random() < 0.4:
            inner = g["Paint"]
            k = rng.random()
            if k < 0.4:
                inner = dict(Format=F.PaintTransform, Paint=inner, Transform=(rng.choice([1, 0.75, 0.5]), rng.choice([0, 0.25]), rng.choice([0, -0.25]), rng.choice([1, 0.5]), rng.randint(-100, 100), rng.randint(-100, 100)))
            elif k < 0.7:
                inner = dict(Format=F.PaintTranslate, Paint=inner, dx=rng.randint(-200, 200), dy=rng.randint(-200, 200))
            else:
                inner = dict(Format=F.PaintScaleUniform, Paint=dict(Format=F.PaintTranslate, Paint=inner, dx=rng.randint(-50, 50), dy=rng.randint(-50, 50)), scale=rng.choice([0.5, 1.5]))
            g["Paint"] = inner
        return g
    if isinstance(g, list):
        return [_wrap_fills(rng, v) for v in g]
    return g


def run_traversal(report, n, rng):
    """colr_to_svg._colr_v1_glyph_to_svg on generated paint graphs vs Model.SvgTree.to_svg (Corr.C13.tv_agree),
    and the traversal theorem's conclusion evaluated on the same graphs (tv_prop)."""
    import logging

    from nanoemoji import colr_to_svg
    from picosvg.geometric_types import Rect
    from harness import picture

    base_pal = [(0, 0, 0, 1.0), (1, 0, 0, 1.0), (0, 0.5, 0, 1.0), (0, 0, 1, 1.0), (1, 0.8, 0, 0.5), (240 / 255, 240 / 255, 240 / 255, 1.0), (64 / 255, 128 / 255, 192 / 255, 1.0)]
    cases, metas = [], []
    for i in range(n):
        graphs = {"base2": _wrap_fills(rng, gen_graph(rng, len(base_pal), depth=2, allow_colrglyph=False))}
        graphs["base0"] = _wrap_fills(rng, gen_graph(rng, len(base_pal)))
        graphs["base1"] = _wrap_fills(rng, gen_graph(rng, len(base_pal)))
        asc, desc = rng.choice([(800, -200), (896, -128), (1024, 0)])
        try:
            font = build_font(graphs, [base_pal], upem=1024, asc=asc, desc=desc)
        except Exception:
            continue
        palette = font["CPAL"].palettes[0]
        recs = {r.BaseGlyph: r for r in font["COLR"].table.BaseGlyphList.BaseGlyphPaintRecord}
        env = listlit([f"({strlit(g)}, {_ot_graph_lit(font, r.Paint, palette)})" for g, r in sorted(recs.items())])
        gs = font.getGlyphSet()
        for g in ("base0", "base1"):
            vb = rng.choice([(0, 0, 128, 128), (0, 0, 1024, asc - desc), (16, -32, 256, 128), (0, 0, 100, 100)])
            width = font["hmtx"][g][0]
            V = picture.ainv(picture.place_font(vb, asc, desc, width))
            sigs = _glyph_by_d(font, V, ["sq", "tri", "bar", "comp"])
            meta = dict(kind="corr", function="colr_to_svg._colr_v1_glyph_to_svg", glyph=g, view_box=list(vb), ascender=asc, descender=desc, advance=width,
                        graphs={k: repr(v)[:1500] for k, v in graphs.items()})
            logging.disable(logging.WARNING)
            try:
                root = colr_to_svg._colr_v1_glyph_to_svg(font, gs, lambda _g: Rect(*vb), recs[g])
                obs = _observe(root, sigs)
                from lxml import etree

                meta["svg"] = etree.tostring(root).decode()[:3000]
                obs_lit = f"(Some {obs})"
                ident = "(OPath (A6 (q (1) 1) (q (0) 1) (q (0) 1) (q (1) 1) (q (0) 1) (q (0) 1))"
                for k in ("OGroupT", "OGroupO", "OLinear", "ORadial", "OSolid"):
                    if k in obs:
                        report.hist("traversal.constructs", k)
                if obs.count("(OPath ") > obs.count(ident):
                    report.hist("traversal.constructs", "path with transform attribute")
            except Exception as ex:
                meta["raised"] = f"{type(ex).__name__}: {ex}"
                obs_lit = "None"
            finally:
                logging.disable(logging.NOTSET)
            rect = f"(@Rect QcOps {qlit(vb[0])} {qlit(vb[1])} {qlit(vb[2])} {qlit(vb[3])})"
            cases.append(f"({rect}, {qlit(asc)}, {qlit(desc)}, {qlit(width)}, {env}, {_ot_graph_lit(font, recs[g].Paint, palette)}, {obs_lit})")
            metas.append(meta)
            report.count(("traversal", g, repr(graphs[g]), vb), True)
            report.hist("traversal.outcome", "raised" if obs_lit == "None" else "tree")
    common.evaluate_corr(report, ["Model.Field Model.Affine Model.Color Model.Paint Corr.Common Corr.C16 Corr.C13"], "Corr.C13", "traversal", "tv_case", cases, metas, "tv_agree", "tv_prop", shard=40)



def main(argv):
    common.setup_env()
    tier = common.tier_from_args(argv)
    report = Report("C13", tier, common.seed_from_env())
    report.rule = (
        "COLRv1 fonts built with fontTools.colorLib from generated paint graphs of depth <= 6 over {ColrLayers, Solid, Linear "
        "(incl. rotated p2), Radial (r0 > 0, c0 != c1), Glyph over simple and composite glyphs, ColrGlyph, Transform, Translate, "
        "Scale*, Rotate*, Skew*, Composite(SRC_IN, black)} x extend modes x 1-3 palettes x viewBoxes; colr_to_svg's output is "
        "rendered by the independent SVG interpreter and compared layer by layer with the COLR rendering of the graph; COLRv0 "
        "fonts likewise; every unsupported paint format must raise or warn; model correspondence: the element tree "
        "colr_to_svg._colr_v1_glyph_to_svg writes (path transform attributes, glyph drawn, solid / linear / radial fill geometry, "
        "<g transform>, <g opacity>) against Model.SvgTree.to_svg evaluated in Coq on the same graphs (read from the compiled "
        "COLR table by the harness), and the traversal theorem's conclusion evaluated on them"
    )
    st = proof_gate(report)
    rng = random.Random(report.seed)
    if common.vo_ok("Corr/C13.v"):
        run_traversal(report, 40 if tier == "quick" else 800, random.Random(rng.getrandbits(48)))
    run_v1(report, 40 if tier == "quick" else 1000, rng)
    run_v0(report, 15 if tier == "quick" else 300, rng)
    if not report.violations:
        run_module(report, rng)
    run_unsupported(report)
    if not st["proof_ok"] and not report.violations:
        report.violation("proof", dict(kind="proof", theorem="Props/C13.v", detail=report.notes.get("proof_failure")), found_input=False)
    report.open_obligations = [
        "the traversal theorem is over exact fields: the three-decimal rounding of attribute values and the radial gradient's uniform/remainder split are covered by the correspondence tolerances and the end-to-end oracle, not by a theorem",
        "a solid or gradient met outside a PaintGlyph, nested PaintGlyph fills and composite modes other than SRC_IN-over-black are outside the modelled (supported) class: to_svg answers None there",
    ]
    return report.finish()
