"""C13 -- COLR-to-SVG conversion preserves the picture for supported paint graphs."""
import io
import logging
import math
import random

from harness import common, picture
from harness.common import Report, proof_gate, report_failure

GLYPHS = [".notdef", "space", "base0", "base1", "base2", "sq", "tri", "bar", "comp"]


def build_font(colr_glyphs, palettes, upem=1000, asc=800, desc=-200, version=1, advances=None):
    from fontTools.colorLib.builder import buildCOLR, buildCPAL
    from fontTools.fontBuilder import FontBuilder
    from fontTools.pens.ttGlyphPen import TTGlyphPen
    from fontTools.ttLib import TTFont

    fb = FontBuilder(upem, isTTF=True)
    fb.setupGlyphOrder(GLYPHS)
    fb.setupCharacterMap({0x20: "space", 0x41: "base0", 0x42: "base1", 0x43: "base2"})

    def poly(pts):
        pen = TTGlyphPen(None)
        pen.moveTo(pts[0])
        for p in pts[1:]:
            pen.lineTo(p)
        pen.closePath()
        return pen.glyph()

    glyphs = {g: TTGlyphPen(None).glyph() for g in GLYPHS}
    glyphs["sq"] = poly([(100, 100), (100, 400), (400, 400), (400, 100)])
    glyphs["tri"] = poly([(300, 0), (700, 50), (450, 600)])
    glyphs["bar"] = poly([(50, 300), (50, 380), (900, 380), (900, 300)])
    pen = TTGlyphPen(GLYPHS)
    pen.addComponent("sq", (1, 0, 0, 1, 300, 200))
    pen.addComponent("tri", (0.5, 0, 0, 0.5, 0, 0))
    glyphs["comp"] = pen.glyph()
    fb.setupGlyf(glyphs)
    fb.setupHorizontalMetrics({g: ((advances or {}).get(g, 1000 if g.startswith("base") else 600), 0) for g in GLYPHS})
    fb.setupHorizontalHeader(ascent=asc, descent=desc)
    fb.setupNameTable({"familyName": "C13", "styleName": "Regular"})
    fb.setupOS2(sTypoAscender=asc, sTypoDescender=desc)
    fb.setupPost()
    font = fb.font
    font["CPAL"] = buildCPAL(palettes)
    font["COLR"] = buildCOLR(colr_glyphs, version=version)
    buf = io.BytesIO()
    font.save(buf)
    buf.seek(0)
    return TTFont(buf, lazy=False)


def gen_graph(rng, npal, depth=0, allow_colrglyph=True):
    from fontTools.ttLib.tables import otTables as ot

    F = ot.PaintFormat

    def color():
        return dict(PaletteIndex=rng.choice(list(range(npal)) + [0xFFFF] * (1 if rng.random() < 0.15 else 0)), Alpha=rng.choice([1.0, 1.0, 0.5, 0.25]))

    def fill():
        k = rng.random()
        if k < 0.4:
            c = color()
            return dict(Format=F.PaintSolid, **c)
        stops = [dict(StopOffset=o, **{k2: v for k2, v in color().items()}) for o in ([0.0, 1.0] if rng.random() < 0.6 else [0.0, 0.5, 1.0])]
        for s in stops:
            if s["PaletteIndex"] == 0xFFFF:
                s["PaletteIndex"] = 0
        cl = dict(ColorStop=stops, Extend=rng.choice(["pad", "repeat", "reflect"]))
        if k < 0.7:
            x0, y0 = rng.randint(0, 400), rng.randint(0, 400)
            x1, y1 = x0 + rng.randint(100, 500), y0 + rng.randint(-100, 400)
            if rng.random() < 0.5:
                x2, y2 = x0 - (y1 - y0), y0 + (x1 - x0)
            else:  # rotated p2
                x2, y2 = x0 + rng.randint(-300, 300), y0 + rng.randint(100, 400)
            return dict(Format=F.PaintLinearGradient, ColorLine=cl, x0=x0, y0=y0, x1=x1, y1=y1, x2=x2, y2=y2)
        cx, cy = rng.randint(100, 500), rng.randint(100, 500)
        return dict(Format=F.PaintRadialGradient, ColorLine=cl, x0=cx + rng.randint(10, 60), y0=cy - rng.randint(5, 50), r0=rng.randint(1, 40), x1=cx, y1=cy, r1=rng.randint(150, 500))

    def leaf():
        return dict(Format=F.PaintGlyph, Glyph=rng.choice(["sq", "tri", "bar", "comp"]), Paint=fill())

    def transform(p):
        k = rng.choice(["translate", "scale", "scalec", "scaleu", "scaleuc", "rotate", "rotatec", "skew", "skewc", "matrix"])
        c = dict(centerX=rng.randint(-200, 600), centerY=rng.randint(-200, 600))
        if k == "translate":
            return dict(Format=F.PaintTranslate, Paint=p, dx=rng.randint(-300, 300), dy=rng.randint(-300, 300))
        if k == "scale":
            return dict(Format=F.PaintScale, Paint=p, scaleX=rng.choice([0.5, 1.5, -1.0, 0.75]), scaleY=rng.choice([0.5, 1.25, 1.0]))
        if k == "scalec":
            return dict(Format=F.PaintScaleAroundCenter, Paint=p, scaleX=rng.choice([0.5, 1.5]), scaleY=rng.choice([0.5, 1.25]), **c)
        if k == "scaleu":
            return dict(Format=F.PaintScaleUniform, Paint=p, scale=rng.choice([0.5, 1.5, 0.75]))
        if k == "scaleuc":
            return dict(Format=F.PaintScaleUniformAroundCenter, Paint=p, scale=rng.choice([0.5, 1.5]), **c)
        if k == "rotate":
            return dict(Format=F.PaintRotate, Paint=p, angle=rng.choice([30, 45, 90, -60, 135]))
        if k == "rotatec":
            return dict(Format=F.PaintRotateAroundCenter, Paint=p, angle=rng.choice([30, 90, -45]), **c)
        if k == "skew":
            return dict(Format=F.PaintSkew, Paint=p, xSkewAngle=rng.choice([0, 15, -20]), ySkewAngle=rng.choice([0, 10, -15]))
        if k == "skewc":
            return dict(Format=F.PaintSkewAroundCenter, Paint=p, xSkewAngle=rng.choice([10, -20]), ySkewAngle=rng.choice([0, 15]), **c)
        return dict(Format=F.PaintTransform, Paint=p, Transform=(rng.choice([1, 0.8, 0.5]), rng.choice([0, 0.2, -0.3]), rng.choice([0, -0.2, 0.4]), rng.choice([1, 0.9, 0.6]), rng.randint(-200, 200), rng.randint(-200, 200)))

    def node(d):
        k = rng.random()
        if d >= 4 or k < 0.3:
            return leaf()
        if k < 0.55:
            return transform(node(d + 1))
        if k < 0.8:
            return dict(Format=F.PaintColrLayers, Layers=[node(d + 1) for _ in range(rng.randint(2, 3))])
        if k < 0.9:
            return dict(Format=F.PaintComposite, CompositeMode="src_in", SourcePaint=dict(Format=F.PaintColrLayers, Layers=[node(d + 1) for _ in range(2)]),
                        BackdropPaint=dict(Format=F.PaintSolid, PaletteIndex=0, Alpha=rng.choice([0.5, 0.25])))
        if allow_colrglyph:
            return dict(Format=F.PaintColrGlyph, Glyph="base2")
        return leaf()

    return node(depth)


def svg_to_font(view_box, asc, desc, width):
    # viewBox -> font space: the placement of C01 (no user transform)
    return picture.place_font(view_box, asc, desc, width)


def run_v1(report, n, rng):
    from nanoemoji import colr_to_svg
    from picosvg.geometric_types import Rect

    for i in range(n):
        npal = rng.choice([1, 1, 2, 3])
        base_pal = [(0, 0, 0, 1.0), (1, 0, 0, 1.0), (0, 0.5, 0, 1.0), (0, 0, 1, 1.0), (1, 0.8, 0, 1.0)]
        palettes = [base_pal] + [[(c[2], c[0], c[1], 1.0) for c in base_pal] for _ in range(npal - 1)]
        graphs = {"base2": gen_graph(rng, len(base_pal), depth=2, allow_colrglyph=False)}
        graphs["base0"] = gen_graph(rng, len(base_pal))
        graphs["base1"] = gen_graph(rng, len(base_pal))
        if i == 0:
            # directed: the foreground colour with its own alpha (solid and gradient stop), a rotation above a glyph
            from fontTools.ttLib.tables import otTables as ot

            F = ot.PaintFormat
            fg = lambda a: dict(Format=F.PaintSolid, PaletteIndex=0xFFFF, Alpha=a)
            graphs["base0"] = dict(Format=F.PaintColrLayers, Layers=[
                dict(Format=F.PaintGlyph, Glyph="sq", Paint=fg(0.5)),
                dict(Format=F.PaintGlyph, Glyph="tri", Paint=dict(Format=F.PaintSolid, PaletteIndex=1, Alpha=0.25)),
                dict(Format=F.PaintTransform, Transform=(0.866, 0.5, -0.5, 0.866, 40, -30), Paint=dict(Format=F.PaintGlyph, Glyph="bar", Paint=fg(0.25)))])
            graphs["base1"] = dict(Format=F.PaintGlyph, Glyph="sq", Paint=dict(Format=F.PaintLinearGradient, x0=100, y0=100, x1=400, y1=150, x2=60, y2=380, ColorLine=dict(
                Extend="pad", ColorStop=[dict(StopOffset=0.0, PaletteIndex=0xFFFF, Alpha=1.0), dict(StopOffset=1.0, PaletteIndex=0xFFFF, Alpha=0.25)])))
        if i == 1:
            # directed: two colour glyphs that use one and the same gradient (each SVG must define it)
            from fontTools.ttLib.tables import otTables as ot

            F = ot.PaintFormat
            grad = dict(Format=F.PaintLinearGradient, x0=100, y0=100, x1=400, y1=100, x2=100, y2=400, ColorLine=dict(
                Extend="pad", ColorStop=[dict(StopOffset=0.0, PaletteIndex=1, Alpha=1.0), dict(StopOffset=1.0, PaletteIndex=3, Alpha=1.0)]))
            graphs["base0"] = dict(Format=F.PaintGlyph, Glyph="sq", Paint=grad)
            graphs["base1"] = dict(Format=F.PaintColrLayers, Layers=[dict(Format=F.PaintGlyph, Glyph="tri", Paint=dict(Format=F.PaintSolid, PaletteIndex=2, Alpha=1.0)),
                                                                       dict(Format=F.PaintGlyph, Glyph="sq", Paint=grad)])
        asc, desc = rng.choice([(800, -200), (950, -250), (1000, 0)])
        try:
            font = build_font(graphs, palettes, asc=asc, desc=desc)
        except Exception as ex:
            continue  # the generator produced something colorLib refuses (harness limitation)
        vbs = {g: rng.choice([Rect(0, 0, 1000, asc - desc), Rect(0, 0, 128, 128), Rect(10, -20, 200, 100)]) for g in graphs}
        if i == 1:
            vbs = {g: Rect(0, 0, 128, 128) for g in graphs}  # one viewBox: the shared gradient is the same in every document
        case = dict(kind="e2e", palettes=npal, view_boxes={g: list(v) for g, v in vbs.items()}, graphs={g: repr(p)[:1500] for g, p in graphs.items()})
        try:
            svgs = colr_to_svg.colr_to_svg(lambda g: vbs[g], font)
        except Exception as ex:
            case["error"] = f"{type(ex).__name__}: {ex}"
            report_failure(report, f"convert_{i}", case)
            return
        for g in ("base0", "base1"):
            exp, p1 = picture.colr_picture(font, g)
            vb = tuple(vbs[g])
            width = font["hmtx"][g][0]
            text = svgs[g].tostring()
            act, p2 = picture.otsvg_picture(text, 0, whole_document_to_font=svg_to_font(vb, asc, desc, width))
            # multi-palette fonts: palette entries become var(--colorN, colour); the oracle keeps N
            s = (asc - desc) / vb[3]
            # colr_to_svg writes matrices with 3 decimals: on coordinates of the size of the em that is up to
            # 0.0005 * 2 * upem font units per transform, on top of the 3-decimal path coordinates (0.02 * s)
            rnd = 0.0005 * 2 * 1000
            probs = p1 + p2 + picture.compare_pictures(exp, act, eps=0.02 * s + 0.5 + rnd, unit_tol=0.02 * s + 0.5 + rnd, palette_check=False)
            def uses_palette(p):
                if isinstance(p, dict):
                    return (p.get("PaletteIndex", 0xFFFF) != 0xFFFF) or any(uses_palette(v) for v in p.values())
                if isinstance(p, (list, tuple)):
                    return any(uses_palette(v) for v in p)
                return False

            # (a glyph painted with the foreground colour alone has nothing to look up in a palette)
            if npal > 1 and "var(--color" not in text and "fill=" in text and uses_palette(graphs[g]) and "base2" not in repr(graphs[g]):
                probs.append("multi-palette font but no var(--colorN, ...) fills")
            report.count(("v1", g, repr(graphs[g]), vb, npal), True)
            if probs:
                case.update(glyph=g, problems=probs[:4], svg=text[:4000])
                report_failure(report, f"v1_{i}", case)
                return
    report.sample(dict(kind="e2e", graph=repr(graphs["base0"])[:800]))


def run_v0(report, n, rng):
    from nanoemoji import colr_to_svg
    from picosvg.geometric_types import Rect

    for i in range(n):
        pal = [(0, 0, 0, 1.0), (1, 0, 0, 0.5), (0, 0.5, 0, 1.0)]
        layers = {"base0": [(rng.choice(["sq", "tri", "bar", "comp"]), rng.choice([0, 1, 2, 0xFFFF])) for _ in range(rng.randint(1, 4))]}
        font = build_font(layers, [pal], version=0)
        vb = Rect(0, 0, 1000, 1000)
        svgs = colr_to_svg.colr_to_svg(lambda g: vb, font)
        exp, p1 = picture.colr_picture(font, "base0")
        act, p2 = picture.otsvg_picture(svgs["base0"].tostring(), 0, whole_document_to_font=svg_to_font(tuple(vb), 800, -200, 1000))
        probs = p1 + p2 + picture.compare_pictures(exp, act, eps=0.6, palette_check=False)
        report.count(("v0", tuple(layers["base0"])), True)
        if probs:
            report_failure(report, f"v0_{i}", dict(kind="e2e", layers=layers, problems=probs[:4], svg=svgs["base0"].tostring()[:2000]))
            return


def run_module(report, rng):
    """the build step `python -m nanoemoji.generate_svgs_from_colr` (used by maximum_color): one SVG per colour
    glyph, named by glyph id, whose viewBox is the glyph's own region (0, -ascender, advance, ascender - descender)"""
    import subprocess

    from fontTools.ttLib.tables import otTables as ot

    from harness import build
    from harness.common import scratch_dir

    F = ot.PaintFormat
    pal = [(0, 0, 0, 1.0), (1, 0, 0, 1.0), (0, 0.5, 0, 1.0), (0, 0, 1, 1.0)]
    gl = lambda g, i: dict(Format=F.PaintGlyph, Glyph=g, Paint=dict(Format=F.PaintSolid, PaletteIndex=i, Alpha=1.0))
    graphs = {"base0": gl("sq", 1), "base1": dict(Format=F.PaintColrLayers, Layers=[gl("bar", 2), gl("tri", 3)]), "base2": gl("tri", 1)}
    adv = {"base0": 400, "base1": 1400, "base2": 1000, ".notdef": 600}
    asc, desc = 800, -200
    font = build_font(graphs, [pal], asc=asc, desc=desc, advances=adv)
    with scratch_dir("verif-c13m-") as d:
        font.save(str(d / "in.ttf"))
        (d / "out").mkdir()
        p = subprocess.run(["/venv/bin/python", "-m", "nanoemoji.generate_svgs_from_colr", "--output_dir", str(d / "out"), str(d / "in.ttf")], env=build.cli_env(), capture_output=True, text=True)
        case = dict(kind="e2e", tool="python -m nanoemoji.generate_svgs_from_colr", advances=adv)
        if p.returncode != 0:
            report_failure(report, "module_failed", dict(case, log=(p.stdout + p.stderr)[-1200:]))
            return
        for g in ("base0", "base1", "base2"):
            gid = font.getGlyphID(g)
            f = d / "out" / f"{gid:05d}.svg"
            report.count(("module", g), True)
            if not f.is_file():
                report_failure(report, f"module_{g}", dict(case, glyph=g, problems=[f"no file {f.name} for glyph id {gid}"]))
                return
            text = f.read_text()
            from lxml import etree

            vb = tuple(float(v) for v in etree.fromstring(text.encode()).get("viewBox").replace(",", " ").split())
            want = (0.0, float(-asc), float(adv[g]), float(asc - desc))
            probs = []
            if vb != want:
                probs.append(f"viewBox {vb} != the glyph's region {want}")
            exp, p1 = picture.colr_picture(font, g)
            act, p2 = picture.otsvg_picture(text, 0, whole_document_to_font=svg_to_font(vb, asc, desc, adv[g]))
            probs += p1 + p2 + picture.compare_pictures(exp, act, eps=1.0, palette_check=False)
            if probs:
                report_failure(report, f"module_{g}", dict(case, glyph=g, problems=probs[:4], svg=text[:1500]))
                return


def run_unsupported(report):
    """every paint format outside the supported set raises or warns (exhaustive over formats)"""
    from absl import logging as absl_logging
    from fontTools.ttLib.tables import otTables as ot
    from nanoemoji import colr_to_svg
    from picosvg.geometric_types import Rect

    F = ot.PaintFormat
    solid = dict(Format=F.PaintSolid, PaletteIndex=0, Alpha=1.0)
    glyph = dict(Format=F.PaintGlyph, Glyph="sq", Paint=solid)
    cl = dict(ColorStop=[dict(StopOffset=0.0, PaletteIndex=0, Alpha=1.0), dict(StopOffset=1.0, PaletteIndex=1, Alpha=1.0)], Extend="pad")
    unsupported = {
        "PaintSweepGradient": dict(Format=F.PaintGlyph, Glyph="sq", Paint=dict(Format=F.PaintSweepGradient, ColorLine=cl, centerX=200, centerY=200, startAngle=0, endAngle=180)),
        "PaintVarSolid": dict(Format=F.PaintGlyph, Glyph="sq", Paint=dict(Format=F.PaintVarSolid, PaletteIndex=0, Alpha=1.0, VarIndexBase=0)),
        "PaintVarTranslate": dict(Format=F.PaintVarTranslate, Paint=glyph, dx=10, dy=10, VarIndexBase=0),
        "PaintVarScale": dict(Format=F.PaintVarScale, Paint=glyph, scaleX=1.5, scaleY=1.5, VarIndexBase=0),
        "PaintVarRotate": dict(Format=F.PaintVarRotate, Paint=glyph, angle=30, VarIndexBase=0),
        "PaintVarLinearGradient": dict(Format=F.PaintGlyph, Glyph="sq", Paint=dict(Format=F.PaintVarLinearGradient, ColorLine=dict(ColorStop=[dict(StopOffset=0.0, PaletteIndex=0, Alpha=1.0, VarIndexBase=0), dict(StopOffset=1.0, PaletteIndex=1, Alpha=1.0, VarIndexBase=0)], Extend="pad"), x0=0, y0=0, x1=100, y1=0, x2=0, y2=100, VarIndexBase=0)),
        "PaintComposite(multiply)": dict(Format=F.PaintComposite, CompositeMode="multiply", SourcePaint=glyph, BackdropPaint=dict(Format=F.PaintGlyph, Glyph="tri", Paint=solid)),
        "PaintComposite(src_in, non-black)": dict(Format=F.PaintComposite, CompositeMode="src_in", SourcePaint=glyph, BackdropPaint=dict(Format=F.PaintSolid, PaletteIndex=1, Alpha=0.5)),
    }
    pal = [[(0, 0, 0, 1.0), (1, 0, 0, 1.0)]]
    for name, g in unsupported.items():
        try:
            font = build_font({"base0": g}, pal)
        except Exception as ex:
            report.notes.setdefault("unsupported_not_buildable", []).append(f"{name}: {type(ex).__name__}")
            continue
        records = []
        handler = logging.Handler()
        handler.emit = lambda r: records.append(r)
        absl_logging.get_absl_logger().addHandler(handler)
        old = absl_logging.get_verbosity()
        absl_logging.set_verbosity(absl_logging.WARNING)
        outcome = "silent"
        try:
            colr_to_svg.colr_to_svg(lambda _: Rect(0, 0, 1000, 1000), font)
            if any(r.levelno >= logging.WARNING for r in records):
                outcome = "warning"
        except Exception as ex:
            outcome = f"raises {type(ex).__name__}"
        finally:
            absl_logging.get_absl_logger().removeHandler(handler)
            absl_logging.set_verbosity(old)
        report.count(("unsupported", name), True)
        report.hist("unsupported.outcome", f"{name}: {outcome}")
        if outcome == "silent":
            report_failure(report, f"unsupported_{name}", dict(kind="e2e", paint=name, problem="a paint format outside the supported set was converted without error or warning"))
            return


def main(argv):
    common.setup_env()
    tier = common.tier_from_args(argv)
    report = Report("C13", tier, common.seed_from_env())
    report.rule = (
        "COLRv1 fonts built with fontTools.colorLib from generated paint graphs of depth <= 6 over {ColrLayers, Solid, Linear "
        "(incl. rotated p2), Radial (r0 > 0, c0 != c1), Glyph over simple and composite glyphs, ColrGlyph, Transform, Translate, "
        "Scale*, Rotate*, Skew*, Composite(SRC_IN, black)} x extend modes x 1-3 palettes x viewBoxes; colr_to_svg's output is "
        "rendered by the independent SVG interpreter and compared layer by layer with the COLR rendering of the graph; COLRv0 "
        "fonts likewise; every unsupported paint format must raise or warn"
    )
    st = proof_gate(report)
    rng = random.Random(report.seed)
    run_v1(report, 40 if tier == "quick" else 1000, rng)
    run_v0(report, 15 if tier == "quick" else 300, rng)
    if not report.violations:
        run_module(report, rng)
    run_unsupported(report)
    if not st["proof_ok"] and not report.violations:
        report.violation("proof", dict(kind="proof", theorem="Props/C13.v", detail=report.notes.get("proof_failure")), found_input=False)
    report.open_obligations = [
        "the recursive walk of _colr_v1_paint_to_svg is not modelled as a whole in Coq; its geometric steps are (C13 theorems, C16 transformed/decompose, C01 gradient covariance) and the walk is judged end to end on every generated graph",
    ]
    return report.finish()
