import importlib
import sys


def main():
    if len(sys.argv) < 2:
        print("usage: ./check <property id> [--tier quick|thorough]")
        return 2
    pid = sys.argv[1].upper()
    mod = importlib.import_module(f"harness.{pid.lower()}")
    return mod.main(sys.argv[2:])


if __name__ == "__main__":
    sys.exit(main())
