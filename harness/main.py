import importlib
import json
import sys
import time
import traceback


def main():
    if len(sys.argv) < 2:
        print("usage: ./check <property id> [--tier quick|thorough] [--replay FILE]")
        return 2
    pid = sys.argv[1].upper()
    if "--replay" in sys.argv:
        # a replay file is self-describing: show it and re-run the check (same seed) so the
        # recorded case is regenerated and re-judged
        path = sys.argv[sys.argv.index("--replay") + 1]
        try:
            rec = json.load(open(path))
            import os

            os.environ["VERIF_SEED"] = str(rec.get("seed", os.environ.get("VERIF_SEED", "20260930")))
            print(f"replaying {path} (seed {os.environ['VERIF_SEED']})")
        except Exception as ex:
            print(f"cannot read replay {path}: {ex}")
    mod = importlib.import_module(f"harness.{pid.lower()}")
    t0 = time.time()
    try:
        return mod.main([a for a in sys.argv[2:]])
    except Exception:
        # An exception escaping a check almost always comes out of the implementation under
        # test (the harness catches the ones it expects).  The property is then not shown.
        from harness import common

        tb = traceback.format_exc()
        common.EVIDENCE.mkdir(exist_ok=True)
        d = common.EVIDENCE / "replays"
        d.mkdir(parents=True, exist_ok=True)
        path = d / f"{pid}_uncaught_exception.json"
        path.write_text(json.dumps(dict(property=pid, kind="uncaught-exception", seed=common.seed_from_env(), traceback=tb), indent=1))
        ev = dict(property_id=pid, tier=common.tier_from_args(sys.argv[2:]), seed=int(common.seed_from_env()), level="other",
                  coverage=dict(explanation="the check aborted with an uncaught exception (see replay); nothing was established on this run", evaluations=1, distinct_nontrivial=0, samples=[tb[-1500:]]),
                  wall_s=round(time.time() - t0, 2), violations=1)
        (common.EVIDENCE / f"{pid}.json").write_text(json.dumps(ev, indent=1))
        sys.stderr.write(tb)
        print(f"VIOLATION property={pid} replay={path} no-failing-input-found")
        return 1


if __name__ == "__main__":
    sys.exit(main())
