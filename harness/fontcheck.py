"""Structural validation of a font binary (C07): full load, decompile, re-save, reload,
table constraints (evaluated by the Coq predicates of Model/Validity.v on an abstraction of
the tables) and document-level SVG rules."""
import io

from lxml import etree


def load_fully(data):
    from fontTools import ttLib

    font = ttLib.TTFont(io.BytesIO(data), lazy=False)
    for tag in font.keys():
        t = font[tag]
        if tag == "cmap":
            for st in t.tables:
                _ = st.cmap
    return font


def xml_dump(font, skip=("head",)):
    out = {}
    font.bitmapGlyphDataFormat = "raw"
    font.disassembleInstructions = True
    for tag in font.keys():
        if tag in skip or tag == "GlyphOrder":
            continue
        buf = io.StringIO()
        from fontTools.misc.xmlWriter import XMLWriter

        w = XMLWriter(buf, newlinestr="\n")
        font[tag].toXML(w, font) if tag not in ("glyf",) else font[tag].toXML(w, font)
        w.close()
        import re as _re

        text = _re.sub(r"<!--.*?-->", "", buf.getvalue(), flags=_re.S)
        out[tag] = "\n".join(l.strip() for l in text.splitlines() if l.strip())
    return out


def xml_dump_table(font, tag):
    import re as _re
    from fontTools.misc.xmlWriter import XMLWriter

    buf = io.StringIO()
    w = XMLWriter(buf, newlinestr="\n")
    font[tag].toXML(w, font)
    w.close()
    text = _re.sub(r"<!--.*?-->", "", buf.getvalue(), flags=_re.S)
    return "\n".join(l.strip() for l in text.splitlines() if l.strip())


def roundtrip_problems(data):
    """loads, fully decompiles and re-saves to an equivalent font"""
    probs = []
    try:
        f1 = load_fully(data)
        buf = io.BytesIO()
        f1.save(buf)
        f2 = load_fully(buf.getvalue())
    except Exception as ex:
        return [f"load/decompile/re-save failed: {type(ex).__name__}: {ex}"], None
    if f1.getGlyphOrder() != f2.getGlyphOrder():
        probs.append("glyph order changes on re-save")
    d1, d2 = xml_dump(f1), xml_dump(f2)
    for tag in sorted(set(d1) | set(d2)):
        if d1.get(tag) != d2.get(tag):
            probs.append(f"table {tag} changes on re-save")
    return probs, f1


def abstract(font):
    """-> (Coq literal of Corr.C07.font_abs, readable dict)"""
    order = font.getGlyphOrder()
    n = len(order)
    gid = font.getGlyphID
    svg_docs = []
    if "SVG " in font:
        for d in font["SVG "].docList:
            s, e = (d.startGlyphID, d.endGlyphID) if hasattr(d, "startGlyphID") else (d[1], d[2])
            svg_docs.append((s, e))
    base, layers, pal, npal = [], [], [], 0
    if "COLR" in font:
        colr = font["COLR"]
        npal = len(font["CPAL"].palettes[0]) if "CPAL" in font else 0
        if colr.version == 0:
            # binary order of base glyph records = order of compile (sorted by gid by fontTools)
            for g in colr.ColorLayers:
                base.append(gid(g))
                for l in colr.ColorLayers[g]:
                    layers.append(gid(l.name))
                    pal.append(l.colorID)
        else:
            from fontTools.ttLib.tables import otTables as ot

            t = colr.table
            if t.BaseGlyphList:
                for r in t.BaseGlyphList.BaseGlyphPaintRecord:
                    base.append(gid(r.BaseGlyph))
            stack = [r.Paint for r in (t.BaseGlyphList.BaseGlyphPaintRecord if t.BaseGlyphList else [])]
            stack += list(t.LayerList.Paint) if t.LayerList else []
            seen = set()
            while stack:
                p = stack.pop()
                if id(p) in seen:
                    continue
                seen.add(id(p))
                if p.Format in (ot.PaintFormat.PaintGlyph, ot.PaintFormat.PaintColrGlyph):
                    layers.append(gid(p.Glyph))
                if p.Format == ot.PaintFormat.PaintSolid:
                    pal.append(p.PaletteIndex)
                if hasattr(p, "ColorLine") and p.ColorLine is not None:
                    pal.extend(s.PaletteIndex for s in p.ColorLine.ColorStop)
                if p.Format == ot.PaintFormat.PaintColrLayers:
                    nl = len(t.LayerList.Paint)
                    if p.FirstLayerIndex + p.NumLayers > nl:
                        layers.append(n + 1)  # out of range marker
                for attr in ("Paint", "SourcePaint", "BackdropPaint"):
                    q = getattr(p, attr, None)
                    if q is not None:
                        stack.append(q)
    cblc = []
    if "CBLC" in font:
        for st in font["CBLC"].strikes:
            bst = st.bitmapSizeTable
            names = [nm for ist in st.indexSubTables for nm in ist.names]
            cblc.append((bst.startGlyphIndex, bst.endGlyphIndex, [gid(x) for x in names]))
    n_hmtx = len(font["hmtx"].metrics)
    if "glyf" in font:
        n_out = len(font["glyf"].keys())
    elif "CFF " in font:
        n_out = len(font["CFF "].cff.topDictIndex[0].CharStrings.keys())
    elif "CFF2" in font:
        n_out = len(font["CFF2"].cff.topDictIndex[0].CharStrings.keys())
    else:
        n_out = n
    n_maxp = font["maxp"].numGlyphs
    post = font["post"]
    n_post = None
    if post.formatType == 2.0:
        n_post = len(post.glyphOrder) if getattr(post, "glyphOrder", None) else n
    cmap = sorted({gid(g) for t in font["cmap"].tables for g in t.cmap.values()})

    def nl(l):
        return "[" + "; ".join(f"{int(x)}%nat" for x in l) + "]"

    def Nl(l):
        return "[" + "; ".join(f"{int(x)}%N" for x in l) + "]"

    lit = (
        f"(FontAbs {n}%nat [{'; '.join(f'({s}%nat, {e}%nat)' for s, e in svg_docs)}] {nl(base)} {nl(layers)} {Nl(pal)} {npal}%N "
        f"[{'; '.join(f'({s}%nat, {e}%nat, {nl(g)})' for s, e, g in cblc)}] {n_hmtx}%nat {n_out}%nat {n_maxp}%nat "
        f"{'None' if n_post is None else f'(Some {n_post}%nat)'} {nl(cmap)})"
    )
    info = dict(nglyphs=n, svg_docs=svg_docs, colr_base=base, colr_layers=len(layers), palette=npal, cblc=[(s, e, len(g)) for s, e, g in cblc], n_hmtx=n_hmtx, n_outlines=n_out, n_maxp=n_maxp, n_post=n_post, post_format=post.formatType)
    return lit, info


SVGNS = "{http://www.w3.org/2000/svg}"
XLINK = "{http://www.w3.org/1999/xlink}href"


def svg_doc_problems(font):
    probs = []
    if "SVG " not in font:
        return probs
    for d in font["SVG "].docList:
        text, s, e = (d.data, d.startGlyphID, d.endGlyphID) if hasattr(d, "data") else d
        try:
            root = etree.fromstring(text.encode("utf-8") if isinstance(text, str) else text)
        except Exception as ex:
            probs.append(f"document {s}-{e} is not well-formed XML: {ex}")
            continue
        ids = {}
        for el in root.iter():
            i = el.get("id")
            if i is not None:
                ids.setdefault(i, []).append(el)
        dup = [i for i, v in ids.items() if len(v) > 1]
        if dup:
            probs.append(f"document {s}-{e}: duplicate ids {dup[:3]}")
        for gidx in range(s, e + 1):
            if len(ids.get(f"glyph{gidx}", [])) > 1:
                probs.append(f"document {s}-{e}: {len(ids[f'glyph{gidx}'])} elements glyph{gidx}")
        glyph_els = {el: i for i, v in ids.items() if i.startswith("glyph") and i[5:].isdigit() for el in v}

        def owner(el):
            while el is not None:
                if el in glyph_els:
                    return glyph_els[el]
                el = el.getparent()
            return None

        for el in root.iter():
            ref = el.get(XLINK) or (el.get("href") if el.tag == SVGNS + "use" else None)
            refs = []
            if ref:
                refs.append(ref[1:] if ref.startswith("#") else None)
            fill = el.get("fill", "")
            if fill.startswith("url(#"):
                refs.append(fill[5:-1])
            for r in refs:
                if r is None or r not in ids:
                    probs.append(f"document {s}-{e}: reference {ref or fill} does not resolve inside the document")
                    continue
                tgt_owner, src_owner = owner(ids[r][0]), owner(el)
                if tgt_owner is not None and tgt_owner != src_owner:
                    probs.append(f"document {s}-{e}: element in {src_owner} references content inside {tgt_owner}")
    return probs


def post_problems(font, keep_glyph_names, truetype=True):
    fmt = font["post"].formatType
    if not keep_glyph_names and truetype and fmt != 3.0:
        return [f"post format {fmt} although glyph names were not requested"]
    if keep_glyph_names and truetype and fmt == 3.0:
        return ["post format 3 although glyph names were requested"]
    return []
