"""C04 -- Every source is reachable from its codepoints, and only from them."""
import io
import random
import re

from harness import build, common, e2e, picture, shaper
from harness.common import Report, listlit, proof_gate, report_failure

ALL_FORMATS = ["glyf", "glyf_colr_0", "glyf_colr_1", "cff_colr_0", "cff_colr_1", "cff2_colr_0", "cff2_colr_1",
               "picosvg", "picosvgz", "untouchedsvg", "untouchedsvgz", "cbdt", "sbix"]

POOL = [0x23, 0x2A, 0x30, 0x39, 0x41, 0x61, 0x7A, 0xA9, 0x200D, 0xFE0F, 0x1F3FB, 0x1F3FF, 0x1F468, 0x1F469, 0x1F466, 0x1F48B, 0x2764, 0x1F1E6, 0x1F1FA, 0xE0067, 0xE007F, 0x1F600]


def gen_sequences(rng):
    """pairwise distinct sequences incl. prefixes/extensions, shared components, ZWJ/VS16, long ones"""
    seqs = set()
    n = rng.randint(2, 7)
    while len(seqs) < n:
        k = rng.choice([1, 1, 2, 3, 4, 7])
        s = tuple(rng.choice(POOL) for _ in range(k))
        if s in seqs or s == (0x20,):
            continue
        seqs.add(s)
        if rng.random() < 0.4 and len(s) < 13:  # an extension and a prefix of it
            seqs.add(s + (rng.choice(POOL),))
        if rng.random() < 0.25 and len(s) > 2:
            seqs.add(s[:-1])
    if rng.random() < 0.3:  # a name longer than 63 characters
        seqs.add(tuple(rng.choice([0x1F468, 0x200D, 0x1F469, 0x1F3FB, 0x10FFFF]) for _ in range(rng.choice([12, 14]))))
    # the letter g (U+0067) is left out of the pool: the 'g_' prefix collision is known finding F3
    return sorted(seqs)


def artwork(i, n, vb_w, vb_h):
    """A square whose position and colour identify source i."""
    cols = ["#FF0000", "#00FF00", "#0000FF", "#123456", "#FFCC00", "#AA00AA", "#00AAAA", "#884400", "#448800", "#004488", "#880044", "#444444"]
    side = vb_h / 4
    x = vb_w * (i + 0.5) / (n + 1) - side / 2 + vb_w / (2 * (n + 1))
    y = vb_h * (0.15 + 0.5 * ((i * 7) % 5) / 5)
    d = f"M{x:.3f},{y:.3f} L{x + side:.3f},{y:.3f} L{x + side:.3f},{y + side:.3f} L{x:.3f},{y + side:.3f} Z"
    if i % 3 == 2:
        # every third source draws a shape of its own (nothing to share): OT-SVG builds then mix glyphs that share
        # an outline with glyphs that do not
        k = 0.3 + 0.1 * (i % 5)
        d = f"M{x:.3f},{y:.3f} L{x + side:.3f},{y + side * k:.3f} L{x + side * k:.3f},{y + side:.3f} Z"
    col = cols[i % len(cols)]
    return f'<svg xmlns="http://www.w3.org/2000/svg" viewBox="0 0 {vb_w:g} {vb_h:g}"><defs/><path d="{d}" fill="{col}"/></svg>', col


def png_for(i, w, h):
    from PIL import Image

    img = Image.new("RGBA", (w, h), ((37 * i) % 256, (91 * i + 17) % 256, (53 * i + 101) % 256, 255))
    b = io.BytesIO()
    img.save(b, format="PNG")
    return b.getvalue()


def cli_fea_problems(file_names, seqs):
    """the feature file the real glyphmap and fea steps produce for these file names (the in-process builds call
    generate_fea directly): it must be the feature file of exactly these sequences"""
    import subprocess

    from nanoemoji import features

    from harness.common import scratch_dir

    with scratch_dir("verif-c04fea-") as d:
        for fn in file_names:
            (d / fn).write_text('<svg xmlns="http://www.w3.org/2000/svg" viewBox="0 0 10 10"/>')
        env = build.cli_env()
        r1 = subprocess.run(["/venv/bin/python", "-m", "nanoemoji.write_glyphmap", "--output_file", str(d / "gm.csv")] + [str(d / fn) for fn in sorted(file_names)], env=env, capture_output=True, text=True)
        if r1.returncode != 0:
            return [f"write_glyphmap failed: {r1.stderr[-300:]}"]
        r2 = subprocess.run(["/venv/bin/python", "-m", "nanoemoji.write_fea", "--output_file", str(d / "out.fea"), str(d / "gm.csv")], env=env, capture_output=True, text=True)
        if r2.returncode != 0:
            return [f"write_fea failed: {r2.stderr[-300:]}"]
        got = (d / "out.fea").read_text().strip()
    want = features.generate_fea(sorted(set(seqs))).strip()
    norm = lambda t: [l.strip() for l in t.splitlines() if l.strip()]
    if norm(got) != norm(want):
        missing = [l for l in norm(want) if l not in norm(got)]
        return [f"the feature file written by the glyphmap + fea steps differs from the rules of the sequences: missing {missing[:3]}, {len(norm(got))} lines instead of {len(norm(want))}"]
    return []


def run_e2e(report, n_fonts, rng, formats):
    shape_cases, shape_meta = [], []
    try:
        _run_e2e(report, n_fonts, rng, formats, shape_cases, shape_meta)
    finally:
        if shape_cases and common.vo_ok("Corr/C04.v") and not report.violations:
            common.evaluate_corr(report, ["Model.Shaping Corr.Common Corr.C04"], "Corr.C04", "shape", "shape_case", shape_cases, shape_meta, "shape_agree", "shape_prop", shard=80)


def _run_e2e(report, n_fonts, rng, formats, shape_cases, shape_meta):
    for i in range(n_fonts):
        fmt = formats[i % len(formats)]
        bitmap = fmt in ("cbdt", "sbix")
        seqs = gen_sequences(rng)
        aspect = rng.choice([1, 1, 0.25, 0.5, 2, 4])
        vb_h = rng.choice([100, 96, 37])
        vb_w = vb_h * aspect + rng.choice([0, 3, 0.5])
        over = e2e.gen_config(rng, fmt, allow_transform=False, reuse=rng.choice([0.1, -1.0]))
        if bitmap:
            over["bitmap_resolution"] = 32
        srcs, arts = [], []
        for k, s in enumerate(seqs):
            text, col = artwork(k, len(seqs), vb_w, vb_h)
            png = png_for(k, max(1, int(32 * aspect)), 32) if bitmap else None
            srcs.append((build.filename_for(s, rng.choice([0, 1])), text, s, png))
            arts.append((text, col, png))
        # some vector fonts go through the real command line: proportional advances asked for by flag (width 0, a falsy
        # value), and a build next to another configuration whose sources carry the same file names with other artwork
        via, extra = None, {}
        if not bitmap and i < 8 and "transform" not in over:
            if i % 2 == 0:
                via = "flag"
                over.update(width=0, keep_glyph_names=False)
            else:
                via = "file"
                others = [(s_[0], artwork(k + 5, len(seqs) + 7, vb_w * 2, vb_h)[0], s_[2]) for k, s_ in enumerate(srcs)]
                extra = dict(companion=(dict(over), others))
            if fmt.startswith("cff"):
                over["output_file"] = "Font.otf"
        case = dict(kind="e2e", format=fmt, config={k: str(v) for k, v in over.items()}, sequences=[["%04x" % c for c in s] for s in seqs], built_by=via or "in process")
        try:
            font, cfg, picos, data = build.build_cli(over, [s_[:3] for s_ in srcs], via, **extra) if via else build.build_inprocess(over, srcs)
        except Exception as ex:
            case["error"] = f"{type(ex).__name__}: {ex}"
            report_failure(report, f"build_{i}", case)
            return
        report.hist("e2e.format", fmt)
        report.hist("e2e.built_by", ("command line, options by " + via + "".join(", " + k for k in extra)) if via else "in process")
        report.hist("e2e.sequences_per_font", len(seqs))
        order = font.getGlyphOrder()
        cmap = font.getBestCmap()
        probs = []
        if i < 6 or i % 10 == 0:
            probs += cli_fea_problems([s_[0] for s_ in srcs], seqs)
        # skeleton
        if order[0] != ".notdef":
            probs.append("glyph 0 is not .notdef")
        else:
            gs = font.getGlyphSet()
            if not picture.polylines_from_glyph(gs, ".notdef"):
                probs.append(".notdef has no outline")
        sp = cmap.get(0x20)
        if sp is None or picture.polylines_from_glyph(font.getGlyphSet(), sp):
            probs.append("U+0020 does not map to a blank glyph")
        reached = {}
        if len(shape_cases) < 400:
            for s in seqs:
                shape_cases.append(shape_case_lit(font, seqs, s))
                shape_meta.append(dict(function="cmap + GSUB of the built font (reference shaper)", format=fmt, sequences=[list(x) for x in seqs], text=list(s)))
                if len(s) > 2:
                    shape_cases.append(shape_case_lit(font, seqs, s[:-1]))
                    shape_meta.append(dict(function="cmap + GSUB of the built font (reference shaper)", format=fmt, sequences=[list(x) for x in seqs], text=list(s[:-1])))
            shape_cases.append(shape_case_lit(font, seqs, tuple(seqs[0]) + tuple(seqs[-1])))
            shape_meta.append(dict(function="cmap + GSUB of the built font (reference shaper)", format=fmt, sequences=[list(x) for x in seqs], text=list(tuple(seqs[0]) + tuple(seqs[-1]))))
        for k, s in enumerate(seqs):
            out = shaper.shape(font, s)
            report.count(("seq", fmt, s, tuple(seqs)), len(s) > 1)
            if out is None or len(out) != 1:
                probs.append(f"sequence {['%x' % c for c in s]} shapes to {out}")
                continue
            g = out[0]
            if g in reached:
                probs.append(f"sequences {reached[g]} and {s} reach the same glyph {g}")
            reached[g] = s
            # the glyph must carry this source's artwork and advance
            text, col, png = arts[k]
            vb = (0, 0, vb_w, vb_h)
            if bitmap:
                w_px, h_px = max(1, int(32 * aspect)), 32
                vb = (0, 0, w_px, h_px)
            adv = font["hmtx"][g][0]
            if adv != e2e.expected_advance(cfg, vb):
                probs.append(f"{g}: advance {adv} != {e2e.expected_advance(cfg, vb)}")
            gid = font.getGlyphID(g)
            if fmt == "cbdt":
                datas = [d[g] for d in font["CBDT"].strikeData if g in d]
                if len(datas) != 1 or bytes(datas[0].imageData) != png:
                    probs.append(f"{g}: CBDT image is not the source's PNG")
            elif fmt == "sbix":
                st = list(font["sbix"].strikes.values())
                if len(st) != 1 or g not in st[0].glyphs or bytes(st[0].glyphs[g].imageData) != png:
                    probs.append(f"{g}: sbix image is not the source's PNG")
            else:
                place = picture.place_font(vb, cfg.ascender, cfg.descender, adv, e2e.user_affine(cfg))
                src_text = picos[k] if picos[k] is not None else text
                exp = picture.expected_picture(src_text, place)
                if fmt == "glyf":
                    act = [("shape", picture.polylines_from_glyph(font.getGlyphSet(), g), exp[0][2], g)]
                elif "colr" in fmt:
                    act, p2 = picture.colr_picture(font, g)
                    probs += p2
                else:
                    docs = [(d.data, d.startGlyphID, d.endGlyphID) if hasattr(d, "data") else d for d in font["SVG "].docList]
                    cov = [d for d in docs if d[1] <= gid <= d[2]]
                    act = []
                    if len(cov) != 1:
                        probs.append(f"{g}: {len(cov)} SVG documents cover gid {gid}")
                    else:
                        act, p2 = picture.otsvg_picture(cov[0][0], gid)
                        probs += p2
                base, extra = e2e.eps_for(cfg, vb)
                pp = picture.compare_pictures(exp, act, eps=3 * base, extra_eps=extra, palette_check=False)
                probs += [f"{g} (sequence {['%x' % c for c in s]}): {p}" for p in pp]
        # codepoints that occur only inside sequences have blank glyphs
        singles = {s[0] for s in seqs if len(s) == 1}
        for c in {c for s in seqs for c in s} - singles:
            g = cmap.get(c)
            if g is None:
                probs.append(f"U+{c:04X} (sequence member) has no cmap entry")
            elif picture.polylines_from_glyph(font.getGlyphSet(), g):
                probs.append(f"U+{c:04X} (sequence member only) maps to a non-blank glyph {g}")
        if probs:
            case["problems"] = probs[:6]
            report_failure(report, f"e2e_{i}", case)
            return
    report.sample(case)


def run_f3_witness(report):
    """known finding F3 seen from C04: the sequence (g, U+1F469) is named like the blank glyph of
    U+1F469, so typing U+1F469 alone shows the sequence's artwork"""
    seqs = [(0x2A,), (0x67, 0x1F469)]
    srcs = [(build.filename_for(s), artwork(k, 2, 100, 100)[0], s, None) for k, s in enumerate(seqs)]
    font, cfg, picos, _ = build.build_inprocess(dict(color_format="glyf_colr_1"), srcs)
    g = font.getBestCmap().get(0x1F469)
    report.count(("f3",), True)
    if g is not None and ("COLR" in font and g in {r.BaseGlyph for r in font["COLR"].table.BaseGlyphList.BaseGlyphPaintRecord}):
        report_failure(report, "f3_witness", dict(kind="e2e", sequences=[["%04x" % c for c in s] for s in seqs], problem=f"U+1F469 alone reaches {g}, which paints the artwork of the sequence (g, U+1F469)"), "F3-gprefix-reach")


def run_fea(report, n, rng):
    """generate_fea's rules, parsed back, are exactly one ligature per multi-codepoint sequence"""
    from nanoemoji.features import generate_fea
    from nanoemoji.glyph import glyph_name

    for i in range(n):
        seqs = gen_sequences(rng)
        fea = generate_fea(seqs)
        got = re.findall(r"^\s*sub (.+) by (\S+);$", fea, re.M)
        got = [(tuple(a.split()), b) for a, b in got]
        want = [(tuple(glyph_name((c,)) for c in s), glyph_name(s)) for s in sorted(seqs) if len(s) > 1]
        report.count(("fea", tuple(seqs)), any(len(s) > 1 for s in seqs))
        names = [glyph_name(s) for s in seqs] + [glyph_name((c,)) for s in seqs for c in s]
        if got != want:
            report_failure(report, f"fea_{i}", dict(kind="property", function="features.generate_fea", sequences=seqs, fea=fea))
            return
        # hypothesis of C04_shape_sequence on this set: single-codepoint names pairwise distinct
        singles = {}
        for s in seqs:
            for c in s:
                nm = glyph_name((c,))
                if singles.setdefault(nm, c) != c:
                    report_failure(report, f"single_names_{i}", dict(kind="property", function="glyph.glyph_name", codepoints=[singles[nm], c], name=nm))
                    return


def _seqlit(s):
    return listlit([f"{c}%N" for c in s])


def run_model_corr(report, n, rng):
    """features.generate_fea and write_font._ensure_codepoints_will_have_glyphs against Model.Shaping, with glyph names
    mapped back to the sequences they were made from"""
    from nanoemoji import write_font
    from nanoemoji.features import generate_fea
    from nanoemoji.glyph import glyph_name

    class _Glyph:
        def __init__(self, name):
            self.name, self.unicode = name, None

    class _Ufo:
        def __init__(self):
            self.glyphs, self.glyphOrder = [], [".notdef", ".space"]

        def newGlyph(self, name):
            g = _Glyph(name)
            self.glyphs.append(g)
            return g

    class _Input:
        def __init__(self, cps):
            self.codepoints = cps

    fcases, fmeta, bcases, bmeta = [], [], [], []
    for i in range(n):
        seqs = gen_sequences(rng)
        back = {}
        for s in seqs:
            back.setdefault(glyph_name(s), tuple(s))
            for c in s:
                back.setdefault(glyph_name((c,)), (c,))
        fea = generate_fea(seqs)
        got = re.findall(r"^\s*sub (.+) by (\S+);$", fea, re.M)
        try:
            rules = [([back[a] for a in comps.split()], back[tgt]) for comps, tgt in got]
        except KeyError as ex:
            report_failure(report, f"fea_names_{i}", dict(kind="property", function="features.generate_fea", sequences=seqs, problem=f"the feature file names a glyph no sequence or codepoint of the set has: {ex}"))
            return
        fcases.append("(" + listlit([_seqlit(s) for s in seqs]) + ", " + listlit(["(" + listlit([_seqlit(c) for c in comps]) + ", " + _seqlit(t) + ")" for comps, t in rules]) + ")")
        fmeta.append(dict(function="features.generate_fea", sequences=[list(s) for s in seqs], rules=[[list(map(list, c)), list(t)] for c, t in rules]))
        ufo = _Ufo()
        write_font._ensure_codepoints_will_have_glyphs(ufo, [_Input(tuple(s)) for s in seqs])
        wrong = [(g.name, g.unicode) for g in ufo.glyphs if g.name != glyph_name((g.unicode,))]
        if wrong or sorted(ufo.glyphOrder[2:]) != sorted(g.name for g in ufo.glyphs):
            report_failure(report, f"blanks_pairing_{i}", dict(kind="property", function="write_font._ensure_codepoints_will_have_glyphs", sequences=seqs,
                                                              problem=f"blank glyphs whose name is not the name of their codepoint: {wrong[:4]}; glyph order {ufo.glyphOrder}"))
            return
        bcases.append("(" + listlit([_seqlit(s) for s in seqs]) + ", " + listlit([f"{g.unicode}%N" for g in ufo.glyphs]) + ")")
        bmeta.append(dict(function="write_font._ensure_codepoints_will_have_glyphs", sequences=[list(s) for s in seqs], blanks=[g.unicode for g in ufo.glyphs]))
        report.count(("c04-model", tuple(seqs)), any(len(s) > 1 for s in seqs))
    common.evaluate_corr(report, ["Model.Shaping Corr.Common Corr.C04"], "Corr.C04", "generate_fea", "fea_case", fcases, fmeta, "fea_agree", "fea_agree", shard=100)
    common.evaluate_corr(report, ["Model.Shaping Corr.Common Corr.C04"], "Corr.C04", "blank_glyphs", "blank_case", bcases, bmeta, "blank_agree", "blank_agree", shard=100)


def shape_case_lit(font, seqs, text):
    """(font's sequences, text, what the font's cmap + GSUB make of it) as a Corr.C04.shape_case; glyphs of the
    binary are identified without their names: single-codepoint glyphs by cmap, ligature glyphs by the rule
    (first glyph + components) that produces them"""
    cmap = font.getBestCmap()
    rev = {}
    for c, g in cmap.items():
        rev.setdefault(g, c)
    lig = {}
    for ligs in shaper.ligature_lookups(font):
        for first, ls in ligs.items():
            for l_ in ls:
                comps = [first] + list(l_.Component)
                if all(g in rev for g in comps):
                    lig.setdefault(l_.LigGlyph, tuple(rev[g] for g in comps))
    out = shaper.shape(font, text)
    obs = "None"
    if out is not None:
        gl = []
        for g in out:
            if g in lig:
                gl.append(lig[g])
            elif g in rev:
                gl.append((rev[g],))
            else:
                gl = None
                break
        if gl is not None:
            obs = "(Some " + listlit([_seqlit(g) for g in gl]) + ")"
    return "(" + listlit([_seqlit(s) for s in seqs]) + ", " + _seqlit(text) + ", " + obs + ")"


def run_bitmap_advance(report):
    """cbdt / sbix through the real command line (resvg renders the bitmaps): the advance rule for viewBoxes whose
    pixel width at the strike height is not a whole number (F34: the advance is computed from the rendered bitmap's
    pixel size, not from the viewBox)"""
    import io as _io

    from PIL import Image

    H = '<svg xmlns="http://www.w3.org/2000/svg" viewBox="0 0 %d %d"><path d="M5,5 L%d,5 L%d,%d L5,%d Z" fill="#cc0000"/></svg>'
    boxes = [(100, 300), (270, 100), (100, 100)]
    srcs = [(build.filename_for((0x1F600 + k,)), H % (w, h, w - 5, w - 5, h - 5, h - 5), (0x1F600 + k,)) for k, (w, h) in enumerate(boxes)]
    for fmt in ("sbix", "cbdt"):
        over = dict(color_format=fmt, upem=1000, ascender=950, descender=-250, width=100, bitmap_resolution=64)
        case = dict(kind="e2e-cli", format=fmt, config={k: str(v) for k, v in over.items()}, sources=[s_[1] for s_ in srcs])
        try:
            font, cfg, picos, data = build.build_cli(over, srcs, "flag")
        except Exception as ex:
            case["error"] = f"{type(ex).__name__}: {ex}"[-1200:]
            report_failure(report, f"bitmap_advance_build_{fmt}", case)
            return
        report.count(("bitmap-advance", fmt), True)
        report.hist("e2e.format", fmt + " via command line (advance rule)")
        probs, pixel_rule = [], True
        for (fn, text, cps), (w, h) in zip(srcs, boxes):
            g = font.getBestCmap().get(cps[0])
            adv = font["hmtx"][g][0]
            want = e2e.expected_advance(cfg, (0, 0, w, h))
            if adv != want:
                if fmt == "sbix":
                    img = bytes(list(font["sbix"].strikes.values())[0].glyphs[g].imageData)
                else:
                    img = bytes(next(sd[g].imageData for sd in font["CBDT"].strikeData if g in sd))
                pw, ph = Image.open(_io.BytesIO(img)).size
                from_pixels = e2e.expected_advance(cfg, (0, 0, pw, ph))
                pixel_rule = pixel_rule and adv == from_pixels
                probs.append(f"{g}: viewBox {w}x{h}: advance {adv}, the rule gives {want} (the bitmap is {pw}x{ph} px; computed from that: {from_pixels})")
        if probs:
            case["problems"] = probs
            if report_failure(report, f"bitmap_advance_{fmt}", case, "F34-bitmap-advance-from-pixel-aspect" if pixel_rule else None):
                return


def main(argv):
    common.setup_env()
    tier = common.tier_from_args(argv)
    report = Report("C04", tier, common.seed_from_env())
    report.rule = (
        "sets of 2-9 pairwise distinct codepoint sequences (length 1-14: prefixes and extensions of one another, shared "
        "components, ZWJ/VS16/tag characters, names over 63 characters) x all 13 colour formats x keep_glyph_names x viewBox "
        "aspect 1:4..4:1 x widths; each source has identifying artwork; a reference shaper (cmap + GSUB ligatures in stored "
        "order) is run on the reloaded binary and the glyph it reaches is compared with the source's artwork, advance, "
        "distinctness; skeleton glyphs checked. Non-trivial = multi-codepoint sequence"
    )
    st = proof_gate(report)
    rng = random.Random(report.seed)
    run_fea(report, 100 if tier == "quick" else 2000, rng)
    if common.vo_ok("Corr/C04.v"):
        run_model_corr(report, 80 if tier == "quick" else 1500, random.Random(rng.getrandbits(48)))
    run_e2e(report, 26 if tier == "quick" else 520, rng, ALL_FORMATS)
    run_f3_witness(report)
    run_bitmap_advance(report)
    if not st["proof_ok"] and not report.violations:
        report.violation("proof", dict(kind="proof", theorem="Props/C04.v", detail=report.notes.get("proof_failure")), found_input=False)
    report.open_obligations = [
        "pairwise distinctness of single-codepoint glyph names (hypothesis of C04_shape_sequence) is checked on every generated set, not yet proved from a model of glyph_name",
        "the compiled GSUB (feaLib ordering of ligatures, longest first) and cmap are produced by ufo2ft/fontTools: observed through the reference shaper",
    ]
    return report.finish()
