"""Fail-closed translators: Coq data regenerated from /repo's current source on every run."""
from harness.tables import consts

ALL_TABLES = [
    ("Consts", consts.generate),
]
