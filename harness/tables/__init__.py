"""Fail-closed translators: Coq data regenerated from /repo's current source on every run."""
from harness.tables import color_formats, config_paths, consts, reorder_rules

ALL_TABLES = [
    ("Consts", consts.generate),
    ("ReorderRules", reorder_rules.generate),
    ("ColorFormats", color_formats.generate),
    ("ConfigPaths", config_paths.generate),
]
