"""nanoemoji/fixed.py constants (+ the picosvg tolerances nanoemoji relies on) -> Generated/Consts.v

Fail-closed: the constants must be module-level assignments whose right-hand side is an
arithmetic expression over int/float literals and previously defined constants; anything
else raises (the generated file then does not compile and the proof obligations that
depend on it are reported as not discharged).
"""
import ast
from fractions import Fraction

from harness.common import SRC

WANTED = [
    "MIN_INT16", "MAX_INT16", "MIN_UINT16", "MAX_UINT16",
    "MIN_F2DOT14", "MAX_F2DOT14", "MIN_FIXED", "MAX_FIXED",
]


def _ev(node, env):
    if isinstance(node, ast.Constant):
        if isinstance(node.value, bool) or not isinstance(node.value, (int, float)):
            raise ValueError(f"unsupported literal {node.value!r}")
        return Fraction(node.value)
    if isinstance(node, ast.Name):
        return env[node.id]
    if isinstance(node, ast.UnaryOp) and isinstance(node.op, ast.USub):
        return -_ev(node.operand, env)
    if isinstance(node, ast.BinOp):
        a, b = _ev(node.left, env), _ev(node.right, env)
        if isinstance(node.op, ast.Add):
            return a + b
        if isinstance(node.op, ast.Sub):
            return a - b
        if isinstance(node.op, ast.Mult):
            return a * b
        if isinstance(node.op, ast.Div):
            # Python float division of the values that occur here is exact (powers of two);
            # check that, so the rational equals the float the code uses
            r = a / b
            if Fraction(float(a) / float(b)) != r:
                raise ValueError("inexact float division in constant")
            return r
        if isinstance(node.op, ast.LShift):
            if a.denominator != 1 or b.denominator != 1:
                raise ValueError("shift of non-integer")
            return Fraction(int(a) << int(b))
    raise ValueError(f"unsupported constant expression: {ast.dump(node)}")


def read_constants():
    tree = ast.parse((SRC / "nanoemoji" / "fixed.py").read_text())
    env = {}
    for node in tree.body:
        if isinstance(node, ast.Assign) and len(node.targets) == 1 and isinstance(node.targets[0], ast.Name):
            env[node.targets[0].id] = _ev(node.value, env)
    missing = [w for w in WANTED if w not in env]
    if missing:
        raise ValueError(f"constants missing from fixed.py: {missing}")
    # cross-check with the live module (what the code really uses)
    import importlib
    import nanoemoji.fixed as live
    importlib.reload(live)
    for w in WANTED:
        if Fraction(getattr(live, w)) != env[w]:
            raise ValueError(f"{w}: ast value {env[w]} != live value {getattr(live, w)}")
    from picosvg import geometric_types, svg_transform
    env["ALMOST_EQUAL_TOL"] = Fraction(geometric_types.DEFAULT_ALMOST_EQUAL_TOLERANCE)
    env["DECOMP_TOL"] = Fraction(svg_transform.DECOMPOSITION_ALMOST_EQUAL_TOLERANCE)
    return env


def generate():
    env = read_constants()

    def z(name):
        v = env[name]
        if v.denominator != 1:
            raise ValueError(f"{name} is not an integer")
        return f"({int(v)})%Z"

    def q(name):
        v = env[name]
        return f"(({v.numerator}) # {v.denominator})%Q"

    return f"""(* GENERATED from src/nanoemoji/fixed.py and picosvg tolerances -- do not edit *)
From Coq Require Import ZArith QArith.
From Verif Require Import Model.Paint.
Definition K : consts := {{|
  k_min_int16 := {z('MIN_INT16')}; k_max_int16 := {z('MAX_INT16')};
  k_min_uint16 := {z('MIN_UINT16')}; k_max_uint16 := {z('MAX_UINT16')};
  k_min_f2dot14 := {q('MIN_F2DOT14')}; k_max_f2dot14 := {q('MAX_F2DOT14')};
  k_min_fixed := {q('MIN_FIXED')}; k_max_fixed := {q('MAX_FIXED')};
  k_almost_equal_tol := {q('ALMOST_EQUAL_TOL')};
  k_decomp_tol := {q('DECOMP_TOL')} |}}.
"""
