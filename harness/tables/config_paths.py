"""src/nanoemoji/config.py (source text, by ast) -> Generated/ConfigPaths.v: for every field of FontConfig,
how a value gets there: the flag that can set it, whether config.write puts it in the file the build steps
read, whether config.load takes it (flag over file over default) and hands it to FontConfig.
Fail-closed: any shape this translator does not recognise raises."""
import ast

from harness.common import SRC


def _const_str(n):
    if isinstance(n, ast.Constant) and isinstance(n.value, str):
        return n.value
    raise ValueError(f"expected a string literal at line {n.lineno}")


def generate():
    path = SRC / "nanoemoji" / "config.py"
    tree = ast.parse(path.read_text())

    # ---- flags.DEFINE_<kind>("<name>", <default>, ...)
    flags = {}
    for node in tree.body:
        if isinstance(node, ast.Expr) and isinstance(node.value, ast.Call):
            f = node.value.func
            if isinstance(f, ast.Attribute) and isinstance(f.value, ast.Name) and f.value.id == "flags" and f.attr.startswith("DEFINE_"):
                name = _const_str(node.value.args[0])
                default = node.value.args[1]
                flags[name] = (f.attr[len("DEFINE_"):], isinstance(default, ast.Constant) and default.value is None)

    # ---- class FontConfig(NamedTuple): annotated fields
    cls = next(n for n in tree.body if isinstance(n, ast.ClassDef) and n.name == "FontConfig")
    fields = []
    for st in cls.body:
        if isinstance(st, ast.AnnAssign):
            if not isinstance(st.target, ast.Name):
                raise ValueError("unexpected field target")
            fields.append((st.target.id, ast.unparse(st.annotation)))
    if not fields:
        raise ValueError("no FontConfig fields found")

    # ---- write(): toml_cfg = { "<key>": config.<attr>[.tostring()] , ... }
    fn_write = next(n for n in tree.body if isinstance(n, ast.FunctionDef) and n.name == "write")
    assign = next(s for s in fn_write.body if isinstance(s, ast.Assign) and isinstance(s.value, ast.Dict))
    written = {}
    for k, v in zip(assign.value.keys, assign.value.values):
        key = _const_str(k)
        base = v
        if isinstance(base, ast.Call) and isinstance(base.func, ast.Attribute) and base.func.attr == "tostring" and not base.args:
            base = base.func.value
        if isinstance(base, ast.Attribute) and isinstance(base.value, ast.Name) and base.value.id == "config":
            written[key] = base.attr
        else:
            written[key] = None  # structured value (axis / master tables)
    dumps = [n for n in ast.walk(fn_write) if isinstance(n, ast.Call) and ast.unparse(n.func) == "toml.dumps"]
    if len(dumps) != 1 or ast.unparse(dumps[0].args[0]) != "toml_cfg":
        raise ValueError("write() does not dump toml_cfg")

    # ---- _pop_flag: the body must be the known three lines (flag over file over default)
    fn_pop = next(n for n in tree.body if isinstance(n, ast.FunctionDef) and n.name == "_pop_flag")
    pop_src = "\n".join(ast.unparse(s) for s in fn_pop.body)
    pop_expected = (
        "config_value = config.pop(name, None)\n"
        "flag_value = getattr(FLAGS, name)\n"
        "if config_value is None and flag_value is None:\n"
        "    return getattr(_DEFAULT_CONFIG, name)\n"
        "return flag_value if flag_value is not None else config_value"
    )
    pop_ok = pop_src == pop_expected

    # ---- load(): <var> = [int|float](_pop_flag(config, "<name>"));  return FontConfig(<field>=<var>, ...).validate()
    fn_load = next(n for n in tree.body if isinstance(n, ast.FunctionDef) and n.name == "load")
    loaded = {}
    for st in fn_load.body:
        if isinstance(st, ast.Assign) and len(st.targets) == 1 and isinstance(st.targets[0], ast.Name):
            v, cast = st.value, ""
            if isinstance(v, ast.Call) and isinstance(v.func, ast.Name) and v.func.id in ("int", "float") and len(v.args) == 1:
                cast, v = v.func.id, v.args[0]
            if isinstance(v, ast.Call) and isinstance(v.func, ast.Name) and v.func.id == "_pop_flag":
                if ast.unparse(v.args[0]) != "config":
                    raise ValueError("_pop_flag on something else than config")
                loaded[st.targets[0].id] = (_const_str(v.args[1]), cast)
    rebound = set()
    for n in ast.walk(fn_load):
        # a local that is assigned again after its _pop_flag (transform is re-parsed from its string: allowed, noted)
        if isinstance(n, ast.Assign):
            for t in n.targets:
                if isinstance(t, ast.Name) and t.id in loaded:
                    v = n.value
                    inner = v.args[0] if isinstance(v, ast.Call) and isinstance(v.func, ast.Name) and v.func.id in ("int", "float") and v.args else v
                    if not (isinstance(inner, ast.Call) and isinstance(inner.func, ast.Name) and inner.func.id == "_pop_flag"):
                        rebound.add(t.id)
    ret = [n for n in ast.walk(fn_load) if isinstance(n, ast.Return)]
    if len(ret) != 1:
        raise ValueError("load() has more than one return")
    call = ret[0].value
    if not (isinstance(call, ast.Call) and isinstance(call.func, ast.Attribute) and call.func.attr == "validate"):
        raise ValueError("load() does not return FontConfig(...).validate()")
    ctor = call.func.value
    if not (isinstance(ctor, ast.Call) and isinstance(ctor.func, ast.Name) and ctor.func.id == "FontConfig" and not ctor.args):
        raise ValueError("load() does not build a FontConfig by keywords")
    passed = {kw.arg: ast.unparse(kw.value) for kw in ctor.keywords}

    b = lambda v: "true" if v else "false"
    rows = []
    for name, ann in fields:
        kind, none_default = flags.get(name, ("", False))
        # the local that load() hands to FontConfig under this field's name, and the option that local was popped as
        # (the local need not be called like the field)
        var = passed.get(name, "")
        lname, cast = loaded.get(var, ("", ""))
        rows.append(
            f'  CfgRow "{name}"%string "{ann}"%string "{kind}"%string {b(none_default)} '
            f'{b(written.get(name) == name)} {b(lname == name)} "{cast}"%string {b(var in loaded and lname == name)} {b(var in rebound)}'
        )
    extra_written = sorted(k for k in written if k not in dict(fields))
    extra_passed = sorted(k for k in passed if k not in dict(fields))
    return (
        "(* GENERATED from src/nanoemoji/config.py (source text, by ast) -- do not edit *)\n"
        "From Coq Require Import List String Bool.\nFrom Verif Require Import Model.Config.\nImport ListNotations.\n"
        "Definition config_rows : list cfg_row := [\n" + ";\n".join(rows) + "\n].\n"
        f"Definition pop_flag_is_the_modelled_rule : bool := {b(pop_ok)}.\n"
        "Definition written_keys_that_are_no_field : list string := [" + "; ".join(f'"{k}"%string' for k in extra_written) + "].\n"
        "Definition passed_keywords_that_are_no_field : list string := [" + "; ".join(f'"{k}"%string' for k in extra_passed) + "].\n"
    )


if __name__ == "__main__":
    print(generate())
