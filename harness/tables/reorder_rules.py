"""_REORDER_RULES (live) and the hand-written OpenType schema -> Generated/ReorderRules.v

Fail-closed: an unknown rule class, a key that is not (otTables class, Optional[int]), a
schema coverage field that fontTools' otData does not know, or an otData Coverage field of
a GSUB/GPOS/GDEF subtable that the schema does not list, all raise.
"""
import importlib


def _s(x):
    return '"' + x + '"%string'


def _opt(x, f):
    return "None" if x is None else f"(Some {f(x)})"


def read_rules():
    import nanoemoji.reorder_glyphs as rg

    importlib.reload(rg)
    out = []
    for (cls, fmt), rules in rg._REORDER_RULES.items():
        name = cls.__name__
        if fmt is not None and not isinstance(fmt, int):
            raise ValueError(f"bad format in rule key: {fmt!r}")
        rs = []
        for r in rules:
            if type(r).__name__ == "ReorderCoverage":
                rs.append(("cov", r.coverage_attr, r.parallel_list_attr))
            elif type(r).__name__ == "ReorderList":
                rs.append(("list", r.list_attr, r.key))
            else:
                raise ValueError(f"unknown rule class {type(r).__name__}")
        out.append((name, fmt, rs))
    return out


def check_schema_against_otdata():
    from fontTools.ttLib.tables.otData import otData
    from harness.ot_schema import SCHEMA, SELF_SORTING, otdata_name

    structs = {name: fields for name, fields in otData}
    schema_names = {otdata_name(t, f): (t, f) for (t, f) in SCHEMA}
    # 1. every coverage field of the schema exists in otData with a Coverage type
    for (t, f), e in SCHEMA.items():
        n = otdata_name(t, f)
        if n not in structs:
            raise ValueError(f"schema entry {n} unknown to fontTools otData")
        fields = {fld[1]: fld for fld in structs[n]}
        for cov, par in e.get("coverages", []):
            if cov not in fields:
                raise ValueError(f"{n}.{cov} not in otData")
            head = (par or "").split(".")[0]
            if par and head not in fields:
                raise ValueError(f"{n}.{head} not in otData")
        for lst, key in e.get("lists", []):
            if lst not in fields:
                raise ValueError(f"{n}.{lst} not in otData")
    # 2. every Coverage-typed field of a GSUB/GPOS lookup subtable or GDEF struct is in the schema
    layout_roots = ("SinglePos", "PairPos", "CursivePos", "MarkBasePos", "MarkLigPos", "MarkMarkPos", "ContextPos",
                    "ChainContextPos", "SingleSubst", "MultipleSubst", "AlternateSubst", "LigatureSubst", "ContextSubst",
                    "ChainContextSubst", "ReverseChainSingleSubst", "AttachList", "LigCaretList", "MarkGlyphSetsDef")
    for name, fields in otData:
        root = name.split("Format")[0]
        if root not in layout_roots or root in SELF_SORTING:
            continue
        covs = [fld[1] for fld in fields if fld[0] in ("Offset", "LOffset") and fld[1].endswith("Coverage")]
        if not covs:
            continue
        if name not in schema_names:
            raise ValueError(f"otData struct {name} has coverage fields {covs} but no schema entry")
        t, f = schema_names[name]
        listed = {c for c, _ in SCHEMA[(t, f)].get("coverages", [])}
        missing = set(covs) - listed
        if missing:
            raise ValueError(f"schema entry {name} does not list coverage fields {sorted(missing)}")


def generate():
    from harness.ot_schema import SCHEMA

    check_schema_against_otdata()
    rules = read_rules()
    lines = [
        "(* GENERATED from nanoemoji.reorder_glyphs._REORDER_RULES (live module) and harness/ot_schema.py -- do not edit *)",
        "From Coq Require Import List ZArith String.",
        "From Verif Require Import Model.Reorder.",
        "Import ListNotations.",
        "Local Open Scope Z_scope.",
        "Definition reorder_rules : list rule_entry := [",
    ]
    ents = []
    for name, fmt, rs in rules:
        rl = []
        for r in rs:
            if r[0] == "cov":
                rl.append(f"RCov {_s(r[1])} {_opt(r[2], _s)}")
            else:
                rl.append(f"RList {_s(r[1])} {_s(r[2])}")
        ents.append(f"  ({_s(name)}, {_opt(fmt, str)}, [{'; '.join(rl)}])")
    lines.append(";\n".join(ents))
    lines.append("].")
    lines.append("Definition ot_schema : list schema_entry := [")
    ents = []
    for (t, f), e in SCHEMA.items():
        covs = "; ".join(f"({_s(c)}, {_opt(p, _s)})" for c, p in e.get("coverages", []))
        lsts = "; ".join(f"({_s(l)}, {_s(k)})" for l, k in e.get("lists", []))
        ents.append(f"  SE {_s(t)} {_opt(f, str)} [{covs}] [{lsts}]")
    lines.append(";\n".join(ents))
    lines.append("].")
    return "\n".join(lines) + "\n"
