"""config._COLOR_FORMATS, write_font._COLOR_FORMAT_GENERATORS and FontConfig's has_* predicates
(live modules) -> Generated/ColorFormats.v"""
import importlib


def generate():
    import nanoemoji.config as cfg
    import nanoemoji.write_font as wf

    importlib.reload(cfg)
    fmts = list(cfg._COLOR_FORMATS)
    gens = wf._COLOR_FORMAT_GENERATORS
    if set(gens) != set(fmts):
        raise ValueError("generators and formats differ")
    rows = []
    for f in fmts:
        c = cfg.FontConfig(color_format=f)
        ext = gens[f].font_ext
        if ext not in (".ttf", ".otf"):
            raise ValueError(f"unexpected extension {ext}")
        b = lambda v: "true" if v else "false"
        rows.append(f'  FmtRow "{f}"%string {b(c.has_bitmaps)} {b(c.has_picosvgs)} {b(c.has_untouchedsvgs)} {b(c.has_svgs)} {b(c.is_ot_svg)} {b(ext == ".otf")}')
    return (
        "(* GENERATED from nanoemoji.config / nanoemoji.write_font (live modules) -- do not edit *)\n"
        "From Coq Require Import List String Bool.\nFrom Verif Require Import Model.Config.\nImport ListNotations.\n"
        "Definition color_formats : list fmt_row := [\n" + ";\n".join(rows) + "\n].\n"
    )
