"""C12 -- maximum_color adds colour tables without altering the font."""
import io
import random
from concurrent.futures import ThreadPoolExecutor
from pathlib import Path

from harness import build, common, e2e, fontcheck, fontgen, otcanon, picture
from harness.c02 import svg_docs
from harness.c04 import gen_sequences
from harness.common import Report, eval_bad_indices, evaluate_corr, known_ids, proof_gate, report_failure, scratch_dir

IMPORTS = ["Model.Glue Corr.Common Corr.C12"]


# ---------------------------------------------------------------- correspondence: _copy_svg order
class _FakeFont(dict):
    def __init__(self, order):
        super().__init__()
        self.order = list(order)

    def getGlyphOrder(self):
        return self.order

    def getGlyphName(self, gid):
        return self.order[gid]


class _FakeSVG:
    def __init__(self, doclist):
        self.docList = doclist


def run_order(report, n, rng):
    from nanoemoji import glue_together

    captured = {}
    real_reorder = glue_together.reorder_glyphs
    glue_together.reorder_glyphs = lambda font, order: captured.__setitem__("order", list(order))
    cases, metas = [], []
    try:
        for i in range(n):
            nt = rng.randint(1, 14)
            target = rng.sample(range(100), nt)
            style = rng.random()
            # donor: its own glyph order; SVG documents cover increasing gid ranges
            nd = rng.randint(1, 14)
            if style < 0.75:
                # the usual situation: donor glyph names are glyphs of the target
                donor_order = [rng.choice(target) for _ in range(nd)]
                # glyph names of a font are distinct
                donor_order = list(dict.fromkeys(donor_order))
                pad = [g for g in target if g not in donor_order]
                rng.shuffle(pad)
                donor_order = (pad[: rng.randint(0, len(pad))] + donor_order) if rng.random() < 0.7 else donor_order
            else:
                # donor glyphs the target does not have (layer glyphs of the donor): the order is still built
                donor_order = list(dict.fromkeys(rng.choice(target + [200 + k for k in range(3)]) for _ in range(nd)))
            nd = len(donor_order)
            doclist, gid = [], rng.randint(0, nd - 1) if rng.random() < 0.2 else rng.randint(0, min(3, nd - 1))
            while gid < nd and rng.random() < 0.85:
                end = min(nd - 1, gid + rng.choice([0, 0, 0, 1, 2]))
                doclist.append(("<svg/>", gid, end))
                gid = end + 1 + rng.choice([0, 0, 1, 2])
            donor = _FakeFont(donor_order)
            donor["SVG "] = _FakeSVG(doclist)
            tgt = _FakeFont(target)
            captured.clear()
            try:
                glue_together._copy_svg(tgt, donor)
                impl = captured["order"]
            except IndexError:
                impl = None
            svg = [(g, donor_order[g]) for _, s, e in doclist for g in range(s, e + 1)]
            lit = (
                "(" + common.listlit([f"{t}%Z" for t in target]) + ", " + common.listlit([f"({g}%nat, {nm}%Z)" for g, nm in svg]) + ", "
                + common.optlit(impl, lambda o: common.listlit([f"{t}%Z" for t in o])) + ")"
            )
            cases.append(lit)
            metas.append(dict(kind="copy_svg_order", target_order=target, donor_svg_glyphs=svg, implementation=impl))
            report.count(("order", tuple(target), tuple(svg)), impl is not None and len(svg) > 0)
            report.hist("order.outcome", "IndexError" if impl is None else "ok")
            report.hist("order.svg_glyphs", min(len(svg), 8))
    finally:
        glue_together.reorder_glyphs = real_reorder
    evaluate_corr(report, IMPORTS, "C12", "copy_svg_order", "order_case", cases, metas, "order_agree", "order_prop")


def run_stems(report, n, rng):
    gids = sorted(set([0, 1, 9, 10, 11, 99, 100, 101, 999, 1000, 9999, 10000, 65534, 65535, 99999, 100000, 123456] + [rng.randrange(65536) for _ in range(n)]))
    cases, metas = [], []
    for g in gids:
        s = f"{g:05d}"  # the expression maximum_color/extract/generate use for file names
        back = int(Path(s + ".svg").stem)  # write_glyphmap_for_glyph_svgs
        cases.append(f"({g}%N, " + common.listlit([f"{ord(c)}%N" for c in s]) + f", {back}%N)")
        metas.append(dict(kind="gid_stem", gid=g, stem=s))
        report.count(("stem", g), True)
    evaluate_corr(report, IMPORTS, "C12", "gid_stem", "stem_case", cases, metas, "stem_agree", "stem_agree")


def run_glyphmap_rows(report, n, rng):
    """the real `python -m nanoemoji.write_glyphmap_for_glyph_svgs` on lists of "<gid>.svg" / "<gid>.png" names in
    various argument orders (the order maximum_color uses, bitmaps first, interleaved, a bitmap without its SVG)
    against Model.GlyphmapPairs.glyphmap_rows (Corr.C12.gm_agree); a failed run is None on both sides"""
    import csv
    import io as _io
    from concurrent.futures import ThreadPoolExecutor

    font = fontgen.build_layout_font(with_colr=None)
    nglyphs = len(font.getGlyphOrder())
    plans = []
    for i in range(n):
        k = rng.randint(1, 6)
        svgs = rng.sample(range(1, nglyphs), k)
        kind = ["svgs-then-bitmaps", "no-bitmaps", "some-bitmaps", "bitmaps-first", "interleaved", "bitmap-without-svg"][i % 6]
        if kind == "svgs-then-bitmaps":
            pngs = list(svgs)
            rng.shuffle(pngs)
            files = [(g, False) for g in svgs] + [(g, True) for g in pngs]
        elif kind == "no-bitmaps":
            files = [(g, False) for g in svgs]
        elif kind == "some-bitmaps":
            files = [(g, False) for g in svgs] + [(g, True) for g in svgs if rng.random() < 0.5]
        elif kind == "bitmaps-first":
            files = [(g, True) for g in svgs] + [(g, False) for g in svgs]
        elif kind == "interleaved":
            files = [(g, p) for g in svgs for p in (rng.random() < 0.5, )]
            files += [(g, not p) for g, p in files]
            rng.shuffle(files)
        else:
            extra = rng.choice([g for g in range(1, nglyphs) if g not in svgs])
            files = [(g, False) for g in svgs] + [(g, True) for g in svgs] + [(extra, True)]
        plans.append((kind, files))

    def work(plan):
        kind, files = plan
        with scratch_dir("verif-gm-") as d:
            d = Path(d)
            font.save(str(d / "font.ttf"))
            names = [f"{g:05d}.{'png' if p else 'svg'}" for g, p in files]
            rc, out = build.run_cli(["--output_file", d / "out.csv", d / "font.ttf"] + names, cwd=d, prog="nanoemoji.write_glyphmap_for_glyph_svgs")
            if rc != 0:
                return None, out[-300:]
            rows = []
            for row in csv.reader(_io.StringIO((d / "out.csv").read_text())):
                if not row:
                    continue
                svg_file, bitmap_file = row[0].strip(), row[1].strip()
                rows.append((int(Path(svg_file).stem), bool(bitmap_file), row[2].strip()))
            return rows, ""

    with ThreadPoolExecutor(8) as ex:
        outs = list(ex.map(work, plans))
    cases, metas = [], []
    order = font.getGlyphOrder()
    for (kind, files), (rows, log) in zip(plans, outs):
        report.hist("glyphmap_rows.kind", kind)
        report.hist("glyphmap_rows.outcome", "rows" if rows is not None else "stopped with an error")
        report.count(("gmrows", kind, tuple(files)), True)
        meta = dict(kind="corr", function="write_glyphmap_for_glyph_svgs.main", order=kind, files=[f"{g:05d}.{'png' if p else 'svg'}" for g, p in files], rows=rows, log=log)
        if rows is not None:
            wrong = [r for r in rows if order[r[0]] != r[2]]
            if wrong:
                report_failure(report, f"glyphmap_name_{len(cases)}", dict(meta, problem=f"row for file {wrong[0][0]:05d} names glyph {wrong[0][2]!r}, glyph id {wrong[0][0]} is {order[wrong[0][0]]!r}"))
                return
        fl = common.listlit([f"({g}%nat, {'true' if p else 'false'})" for g, p in files])
        ol = "None" if rows is None else "(Some " + common.listlit([f"({g}%nat, {'true' if b else 'false'})" for g, b, _ in rows]) + ")"
        cases.append(f"({fl}, {ol})")
        metas.append(meta)
    evaluate_corr(report, IMPORTS, "C12", "glyphmap_rows", "gm_case", cases, metas, "gm_agree", "gm_agree")


# ---------------------------------------------------------------- end to end
def _save(font):
    b = io.BytesIO()
    font.save(b)
    return b.getvalue()


def third_party_font(rng, version, space=True):
    """COLR font in the style of a hand-made font: kerning/mark/ligature lookups, names of its own,
    optionally extra palettes, optionally no space glyph."""
    from fontTools.colorLib.builder import buildCPAL

    font = fontgen.build_layout_font(with_colr=version, space=space)
    info = dict(third_party=True, colr_version=version, space_glyph=space)
    if rng.random() < 0.6:
        # colour glyphs whose name order differs from their glyph-id order; layers from the other glyphs
        from fontTools.colorLib.builder import buildCOLR
        from fontTools.ttLib.tables import otTables as ot

        plain = ["a", "b", "c", "d", "e", "i", "o", "x", "y", "z", "one", "two"]
        bases = rng.sample(plain, rng.randint(2, 4))
        if rng.random() < 0.6:
            bases = list(dict.fromkeys(bases + ["x", "two"]))  # glyph-id order x < two, name order two < x
        lay = [g for g in plain if g not in bases]
        if version == 0:
            graphs = {b: [(rng.choice(lay), rng.choice([0, 1, 2])) for _ in range(rng.randint(1, 3))] for b in bases}
        else:
            solid = lambda: {"Format": ot.PaintFormat.PaintSolid, "PaletteIndex": rng.choice([0, 1, 2]), "Alpha": rng.choice([1.0, 0.5])}
            gl = lambda: {"Format": ot.PaintFormat.PaintGlyph, "Glyph": rng.choice(lay), "Paint": solid()}
            graphs = {b: {"Format": ot.PaintFormat.PaintColrLayers, "Layers": [gl() for _ in range(rng.randint(2, 3))]} if rng.random() < 0.7 else gl() for b in bases}
        font["COLR"] = buildCOLR(graphs, version=version)
        info["colour_glyphs"] = bases
    if rng.random() < 0.5:
        font["CPAL"] = buildCPAL([[(1, 0, 0, 1), (0, 1, 0, 1), (0, 0, 1, 0.5)], [(0, 0, 0, 1), (1, 1, 0, 1), (0, 1, 1, 0.5)]])
        info["palettes"] = 2
    return _save(font), info


def nanoemoji_font(rng, fmt, v0_expressible=False, bitmaps=False, fit_cbdt=False):
    over = e2e.gen_config(rng, fmt, allow_transform=False)
    vb = None
    if bitmaps and (fit_cbdt or rng.random() < 0.8):
        # stay inside CBDT's limits (255 px wide at the 128 px strike, signed-byte line metrics)
        upem = over["upem"]
        over.update(ascender=round(upem * 0.8), descender=-round(upem * 0.2), width=rng.choice([0, upem]))
        vb = lambda r: (r.choice([0, -10]), r.choice([0, 7]), r.choice([100, 128, 150]), r.choice([100, 128]))
    over.pop("keep_glyph_names", None)
    over["keep_glyph_names"] = rng.random() < 0.4
    over["output_file"] = "Font.otf" if fmt.startswith("cff") else "Font.ttf"
    # a COLRv0 table can only repeat solid fills without group opacity (C03): with --colr_version 0 the
    # "same picture" claim is about such sources
    docs, srcs = e2e.gen_sources(rng, n=rng.randint(2, 5) if bitmaps else rng.randint(1, 4), var_opaque=fmt.endswith("_0") or v0_expressible, solid_only=v0_expressible, allow_groups=not v0_expressible, allow_special=not v0_expressible, viewbox=vb)
    if rng.random() < 0.4:
        seqs = gen_sequences(rng)[: len(srcs)]
        srcs = [(build.filename_for(s), t, s) for (fn, t, cps), s in zip(srcs, seqs)]
    font, cfg, picos, data = build.build_inprocess(over, srcs)
    return data, dict(format=fmt, config={k: str(v) for k, v in over.items()}, sources=[s[1] for s in srcs], codepoints=[list(s[2]) for s in srcs])


def notdef_font(rng, fmt):
    """a font with coloured art for .notdef (glyph 0), a blank space (glyph 1) and emoji from glyph 2 on - what upstream's
    test_colr_to_svg_with_colored_notdef feeds maximum_color: the colour glyphs are two runs of glyph ids, so every
    glyph-id-keyed structure of an added table (CBLC strikes, SVG documents) comes in more than one piece"""
    H = '<svg xmlns="http://www.w3.org/2000/svg" viewBox="0 0 100 100">'
    texts = [H + '<path d="M20,10 L80,10 L80,90 L20,90 Z M30,20 L30,80 L70,80 L70,20 Z" fill="#cc0000"/></svg>',
             H + '<path d="M10,10 L50,10 L50,50 L10,50 Z" fill="#0000cc"/><path d="M50,50 L90,50 L70,90 Z" fill="#008800"/></svg>',
             H + '<path d="M50,10 L90,90 L10,90 Z" fill="#aa00aa"/></svg>',
             H + '<path d="M10,50 L50,10 L90,50 L50,95 Z" fill="#123456"/><path d="M40,40 L60,40 L60,60 L40,60 Z" fill="#ffcc00"/></svg>']
    cps = [(), (0x1F600,), (0x1F601,), (0x1F602,)]
    srcs = [(build.filename_for(c) if c else "notdef.svg", t, c) for t, c in zip(texts, cps)]
    over = dict(color_format=fmt, upem=1000, ascender=800, descender=-200, width=1000, keep_glyph_names=rng.random() < 0.5, output_file="Font.ttf")
    font, cfg, picos, data = build.build_inprocess(over, srcs)
    return data, dict(format=fmt, config={k: str(v) for k, v in over.items()}, sources=texts, coloured_notdef=True, glyph_order=font.getGlyphOrder())


def zero_advance_font(rng, fmt):
    """a colour font with a zero-advance colour glyph (a combining mark drawn to the left of the origin, in a viewBox of
    width 0, built with width = 0 and without clipping - upstream's tests/u0301.svg): F37"""
    srcs = [
        (build.filename_for((0x1F600,)), '<svg xmlns="http://www.w3.org/2000/svg" viewBox="0 0 100 100"><path d="M10,10 L90,10 L90,90 L10,90 Z" fill="#cc0000"/></svg>', (0x1F600,)),
        (build.filename_for((0x301,)), '<svg xmlns="http://www.w3.org/2000/svg" viewBox="0 0 0 100"><path d="M-60,10 L-20,10 L-30,40 Z" fill="#0000cc"/></svg>', (0x301,)),
    ]
    over = dict(color_format=fmt, upem=1000, ascender=800, descender=-200, width=0, clip_to_viewbox=False, keep_glyph_names=True, output_file="Font.ttf")
    font, cfg, picos, data = build.build_inprocess(over, srcs)
    return data, dict(format=fmt, config={k: str(v) for k, v in over.items()}, sources=[s_[1] for s_ in srcs], zero_advance=True)


def regrouped_font(rng, fmt):
    """the first and the third glyph share an outline, the second does not: the OT-SVG donor groups 1 and 3, so the
    target's glyph order has to change when the SVG table is donated (charstring fonts: F19)"""
    H = '<svg xmlns="http://www.w3.org/2000/svg" viewBox="0 0 100 100">'
    texts = [H + '<path d="M10,10 L50,10 L50,50 L10,50 Z" fill="#cc0000"/></svg>',
             H + '<path d="M50,10 L90,90 L10,90 Z" fill="#00aa00"/><path d="M5,5 L20,5 L12,20 Z" fill="#222222"/></svg>',
             H + '<path d="M40,40 L80,40 L80,80 L40,80 Z" fill="#0000cc"/></svg>',
             H + '<path d="M10,50 L50,10 L90,50 L50,95 Z" fill="#123456"/></svg>']
    srcs = [(build.filename_for((0x1F600 + k,)), t, (0x1F600 + k,)) for k, t in enumerate(texts)]
    over = dict(color_format=fmt, upem=1000, ascender=800, descender=-200, width=rng.choice([1000, 0]), keep_glyph_names=rng.random() < 0.5, output_file="Font.otf")
    font, cfg, picos, data = build.build_inprocess(over, srcs)
    return data, dict(format=fmt, config={k: str(v) for k, v in over.items()}, sources=texts, regrouped=True)


def overhang_font(rng, fmt):
    """artwork that leaves the advance box on every side (built without clipping): the added table must keep it"""
    H = '<svg xmlns="http://www.w3.org/2000/svg" viewBox="0 0 100 100">'
    srcs = [
        (build.filename_for((0x1F600,)), H + '<path d="M-30,20 L60,20 L60,70 L-30,70 Z" fill="#cc0000"/><path d="M40,-25 L80,-25 L60,30 Z" fill="#0000cc"/></svg>', (0x1F600,)),
        (build.filename_for((0x1F601,)), H + '<path d="M20,60 L130,60 L130,120 L20,120 Z" fill="#008800"/><path d="M10,10 L30,10 L30,30 L10,30 Z" fill="#333333"/></svg>', (0x1F601,)),
    ]
    over = dict(color_format=fmt, upem=1000, ascender=800, descender=-200, width=1000, clip_to_viewbox=False, keep_glyph_names=rng.random() < 0.5, output_file="Font.ttf")
    font, cfg, picos, data = build.build_inprocess(over, srcs)
    return data, dict(format=fmt, config={k: str(v) for k, v in over.items()}, sources=[s_[1] for s_ in srcs], overhang=True)


def run_maximum_color(data, flags):
    from fontTools import ttLib

    with scratch_dir("verif-mc-") as d:
        d = Path(d)
        # named as nanoemoji names it: CFF flavours are .otf (F20)
        name = "in.otf" if data[:4] == b"OTTO" else "in.ttf"
        (d / name).write_bytes(data)
        rc, out = build.run_cli(list(flags) + ["--build_dir", d / "build", d / name], cwd=d, prog="nanoemoji.maximum_color")
        f = d / "build" / "Font.ttf"
        return rc, out, (f.read_bytes() if rc == 0 and f.is_file() else None)


def load(data):
    from fontTools import ttLib

    f = ttLib.TTFont(io.BytesIO(data), lazy=False)
    for tag in f.keys():
        f[tag]
    return f


def colour_glyph_names(font):
    out = {}
    if "COLR" in font:
        colr = font["COLR"]
        if colr.version == 0:
            out["COLR"] = set(colr.ColorLayers)
        else:
            t = colr.table
            names = set()
            if t.BaseGlyphList:
                names |= {r.BaseGlyph for r in t.BaseGlyphList.BaseGlyphPaintRecord}
            if t.BaseGlyphRecordArray:
                names |= {r.BaseGlyph for r in t.BaseGlyphRecordArray.BaseGlyphRecord}
            out["COLR"] = names
    if "SVG " in font:
        out["SVG "] = {font.getGlyphName(g) for _, s, e in svg_docs(font) for g in range(s, e + 1)}
    if "CBDT" in font:
        names = set()
        for sd in font["CBDT"].strikeData:
            names |= set(sd)
        out["CBDT"] = names
    return out


def restrict(canon_items, names):
    return tuple((k, v) for k, v in canon_items if k in names)


def compare_kept(inp, out, flags, eps_units):
    """input font vs. the font written with --keep_glyph_names: name-keyed comparison."""
    probs = []
    in_names = inp.getGlyphOrder()
    out_names = out.getGlyphOrder()
    if len(set(out_names)) != len(out_names):
        probs.append("duplicate glyph names in the output glyph order")
    missing = [n for n in in_names if n not in set(out_names)]
    if missing:
        probs.append(f"glyph names lost: {missing[:5]}")
        return probs
    a, b = otcanon.other_tables_canon(inp), otcanon.other_tables_canon(out)
    if a["cmap"] != b["cmap"]:
        probs.append("character map changed")
    keep = set(in_names)
    if a["hmtx"] != restrict(b["hmtx"], keep):
        d = [(x, y) for x, y in zip(a["hmtx"], restrict(b["hmtx"], keep)) if x != y][:3]
        probs.append(f"advance/side bearing of existing glyphs changed: {d}")
    if "glyf" in a and a["glyf"] != restrict(b.get("glyf", ()), keep):
        d = [x[0] for x, y in zip(a["glyf"], restrict(b.get("glyf", ()), keep)) if x != y][:5]
        probs.append(f"outlines of existing glyphs changed: {d}")
    for tag in ("CFF ", "CFF2"):
        # charstring fonts (F19): what each existing name draws
        if tag in a and a[tag] != restrict(b.get(tag, ()), keep):
            d = [x[0] for x, y in zip(a[tag], restrict(b.get(tag, ()), keep)) if x != y][:5]
            probs.append(f"{tag.strip()} outlines of existing glyphs changed: {d}")
    if otcanon.layout_canon(inp) != otcanon.layout_canon(out):
        probs.append("layout tables (GSUB/GPOS/GDEF) changed meaning")
    cov = otcanon.coverage_violations(out)
    if cov:
        probs.append(f"Coverage not sorted by glyph id after the reorder: {cov[:2]}")
    if fontcheck.xml_dump_table(inp, "name") != fontcheck.xml_dump_table(out, "name"):
        probs.append("name table changed")
    # line metrics (advanceWidthMax, numberOfHMetrics, xAvgCharWidth... legitimately follow the added glyphs)
    for tag, attrs in (("head", ("unitsPerEm",)), ("hhea", ("ascent", "descent", "lineGap")), ("OS/2", ("sTypoAscender", "sTypoDescender", "sTypoLineGap", "usWinAscent", "usWinDescent"))):
        for at in attrs:
            if getattr(inp[tag], at) != getattr(out[tag], at):
                probs.append(f"{tag}.{at} changed: {getattr(inp[tag], at)} -> {getattr(out[tag], at)}")
    # original colour table content
    if "COLR" in inp:
        if a.get("COLR") != b.get("COLR"):
            probs.append("the original COLR table's content changed")
        pin = [[(c.red, c.green, c.blue, c.alpha) for c in p] for p in inp["CPAL"].palettes]
        pout = [[(c.red, c.green, c.blue, c.alpha) for c in p] for p in out["CPAL"].palettes] if "CPAL" in out else None
        if pin != pout:
            probs.append(f"CPAL changed: {pin} -> {pout}")
        if "SVG " not in out:
            probs.append("no SVG table was added")
    else:
        din = [(t, [inp.getGlyphName(g) for g in range(s, e + 1)]) for t, s, e in svg_docs(inp)]
        dout = [(t, [out.getGlyphName(g) for g in range(s, e + 1)]) for t, s, e in svg_docs(out)] if "SVG " in out else None
        if din != dout:
            probs.append("the original SVG table's documents or the glyphs they cover changed")
        if "COLR" not in out:
            probs.append("no COLR table was added")
        else:
            want = 1
            if "--colr_version" in flags:
                want = int(flags[flags.index("--colr_version") + 1])
            if out["COLR"].version != want:
                probs.append(f"COLR version {out['COLR'].version}, requested {want}")
    if "--bitmaps" in flags and not ("CBDT" in out and "CBLC" in out):
        probs.append("--bitmaps but no CBDT/CBLC")
    if "--bitmaps" not in flags and "CBDT" in out:
        probs.append("CBDT without --bitmaps")
    # every colour table covers the same glyphs (the ones the original colour table covers)
    cin, cout = colour_glyph_names(inp), colour_glyph_names(out)
    orig = cin.get("COLR") or cin.get("SVG ")
    for tag, names in cout.items():
        if names != orig:
            probs.append(f"{tag} covers {sorted(names)[:6]}..., the original colour table covers {sorted(orig)[:6]}...")
    if probs:
        return probs
    # every colour table paints the same picture
    docs = svg_docs(out)
    for name in sorted(orig):
        gid = out.getGlyphID(name)
        covering = [d for d in docs if d[1] <= gid <= d[2]]
        if len(covering) != 1:
            probs.append(f"{len(covering)} SVG documents cover {name}")
            continue
        cp, p1 = picture.colr_picture(out, name, require_opaque_palette="COLR" not in inp)
        sp, p2 = picture.otsvg_picture(covering[0][0], gid)
        exp, act = (cp, sp) if "COLR" in inp else (sp, cp)
        # a COLR font with several palettes: the SVG must name the same palette entries (var(--colorN, c)), entry 0 included
        multi = "COLR" in inp and len(inp["CPAL"].palettes) > 1
        d = p1 + p2 + picture.compare_pictures(exp, act, eps=eps_units, unit_tol=eps_units + 0.5, palette_check="strict" if multi else False, extra_eps=0.0)
        if d:
            probs.append(f"{name}: COLR and SVG paint different pictures: {d[:3]}")
            break
    if "CBDT" in out:
        from PIL import Image

        for sd in out["CBDT"].strikeData:
            for name, g in sd.items():
                try:
                    im = Image.open(io.BytesIO(g.imageData))
                    im.load()
                    if im.getbbox() is None:
                        probs.append(f"bitmap of {name} is fully transparent")
                except Exception as ex:
                    probs.append(f"bitmap of {name} is not a PNG: {ex}")
    return probs


def bitmap_colour_problems(out):
    """a coarse picture check of the added bitmaps: when the topmost layer of a colour glyph is an opaque solid colour
    other than black, that colour must be among the opaque pixels of the glyph's bitmap (F28: var(--colorN, c) fills
    rendered black)"""
    from PIL import Image

    probs = []
    if "CBDT" not in out or "COLR" not in out:
        return probs
    for sd in out["CBDT"].strikeData:
        for name, g in sd.items():
            pic, p1 = picture.colr_picture(out, name, require_opaque_palette=False)
            flat = picture.flatten(pic)
            layers = [it for it, _ in flat]
            if p1 or not layers:
                continue
            top = layers[-1][2]
            if top[0] != "solid" or top[1] in ("current", (0, 0, 0)) or abs(top[2] - 1.0) > 0.01 or any(abs(a_ - 1.0) > 0.01 for a_, _ in flat[-1][1]):
                continue  # translucent (itself or through a group above it): the colour seen is a blend
            # the layer must be big enough inside the glyph's cell (the bitmap is cut to advance x ascender..descender)
            x0, y0, x1, y1 = picture.polys_bbox(layers[-1][1])
            adv = out["hmtx"][name][0]
            asc, desc, upem = out["OS/2"].sTypoAscender, out["OS/2"].sTypoDescender, out["head"].unitsPerEm
            w_in, h_in = min(x1, adv) - max(x0, 0), min(y1, asc) - max(y0, desc)
            scale = 128 / (asc - desc)
            if w_in * scale < 6 or h_in * scale < 6 or len(layers[-1][1]) != 1:
                continue
            im = Image.open(io.BytesIO(g.imageData)).convert("RGBA")
            px = im.get_flattened_data() if hasattr(im, "get_flattened_data") else im.getdata()
            seen = any(p_[3] > 200 and max(abs(p_[k] - top[1][k]) for k in range(3)) <= 48 for p_ in px)
            if not seen:
                probs.append((name, f"bitmap of {name}: the topmost layer is opaque {top[1]}, no opaque pixel of the bitmap comes near that colour"))
    return probs


def compare_stripped(kept, stripped_data):
    """the font written without --keep_glyph_names = the kept-names font minus the names"""
    probs = []
    st = load(stripped_data)
    if st["post"].formatType != 3.0:
        probs.append(f"post format {st['post'].formatType} although names were to be stripped")
    k = load(_save(kept))
    post = k["post"]
    post.formatType = 3.0
    for attr in ("extraNames", "mapping"):
        if hasattr(post, attr):
            delattr(post, attr)
    post.glyphOrder = None
    k = load(_save(k))
    if k.getGlyphOrder() != st.getGlyphOrder():
        probs.append("glyph order (after dropping names) differs between the kept-names and the stripped build")
        return probs
    if otcanon.other_tables_canon(k) != otcanon.other_tables_canon(st):
        probs.append("cmap/hmtx/glyf/COLR differ between the kept-names and the stripped build")
    if otcanon.layout_canon(k) != otcanon.layout_canon(st):
        probs.append("layout tables differ between the kept-names and the stripped build")
    if ("SVG " in k) != ("SVG " in st) or ("SVG " in k and svg_docs(k) != svg_docs(st)):
        probs.append("SVG documents differ between the kept-names and the stripped build")
    if ("CBLC" in k) != ("CBLC" in st):
        probs.append("CBLC presence differs")
    return probs


def run_e2e(report, n, rng, jobs=6):
    kinds = ["glyf_colr_1", "picosvg", "third1", "glyf_colr_0", "untouchedsvg", "third0", "third_svg", "third_nospace", "cff_colr_1", "cff2_colr_1", "overhang_colr", "overhang_svg", "cff_colr_1_regrouped", "cff2_colr_1_regrouped", "notdef_colr", "notdef_svg", "zero_advance_colr"]
    plans = []
    for i in range(n):
        kind = kinds[i % len(kinds)]
        sub = random.Random(rng.getrandbits(48))
        flags = []
        if kind in ("picosvg", "untouchedsvg", "third_svg") and sub.random() < 0.6:
            flags += ["--colr_version", str(sub.choice([0, 1]))]
        if sub.random() < 0.4:
            flags += ["--bitmaps"]
        strip = sub.random() < 0.5
        if kind.startswith("overhang"):
            flags = [f_ for f_ in flags if f_ != "--bitmaps"]  # a bitmap is cut to the advance box by construction
        if kind.endswith("_regrouped"):
            flags = [f_ for f_ in flags if f_ != "--bitmaps"]
        elif kind.startswith(("notdef", "zero_advance")):
            # two runs of colour glyph ids: always with bitmaps (one CBLC strike per run); a zero-advance glyph: F37
            flags = [f_ for f_ in flags if f_ != "--bitmaps"] + ["--bitmaps"]
        elif kind.startswith("cff"):
            # the first charstring font of each flavour always takes the bitmap path (F20), with metrics that fit CBDT;
            # the second never does, so that it cannot be rejected for a bitmap limit (F19 must show either way)
            flags = [f_ for f_ in flags if f_ != "--bitmaps"] + (["--bitmaps"] if i < len(kinds) else [])
        plans.append((i, kind, sub, flags, strip))

    def work(plan):
        i, kind, sub, flags, strip = plan
        try:
            if kind == "third_svg":
                # a hand-made-style OT-SVG font: the SVG table maximum_color made for a COLR font, COLR/CPAL dropped
                d0, info = third_party_font(sub, sub.choice([0, 1]))
                rc0, log0, k0 = run_maximum_color(d0, ["--keep_glyph_names"])
                if rc0 != 0:
                    raise RuntimeError("first stage failed: " + log0[-300:])
                f0 = load(k0)
                del f0["COLR"], f0["CPAL"]
                data, info = _save(f0), dict(info, svg_only=True)
            elif kind == "third_nospace":
                data, info = third_party_font(sub, sub.choice([0, 1]), space=False)
            elif kind.startswith("third"):
                data, info = third_party_font(sub, int(kind[-1]))
            elif kind.endswith("_regrouped"):
                data, info = regrouped_font(sub, kind[: -len("_regrouped")])
            elif kind.startswith("overhang"):
                data, info = overhang_font(sub, "glyf_colr_1" if kind.endswith("colr") else "picosvg")
            elif kind.startswith("notdef"):
                data, info = notdef_font(sub, "glyf_colr_1" if kind.endswith("colr") else "picosvg")
            elif kind.startswith("zero_advance"):
                data, info = zero_advance_font(sub, "glyf_colr_1")
            else:
                data, info = nanoemoji_font(sub, kind, v0_expressible="0" in flags, bitmaps="--bitmaps" in flags, fit_cbdt=kind.startswith("cff"))
        except Exception as ex:
            return plan, dict(kind="e2e", input=kind, error=f"input generation: {type(ex).__name__}: {ex}"), None
        case = dict(kind="e2e", input=kind, flags=flags, **info)
        rc, log, kept = run_maximum_color(data, flags + ["--keep_glyph_names"])
        res = dict(rc=rc, log=log if rc else "", kept=kept, data=data)
        if strip and rc == 0:
            rc2, log2, st = run_maximum_color(data, flags)
            res.update(rc2=rc2, log2=log2[-2500:] if rc2 else "", stripped=st)
        return plan, case, res

    with ThreadPoolExecutor(jobs) as ex:
        results = list(ex.map(work, plans))
    lits, metas = [], []
    for (i, kind, sub, flags, strip), case, res in results:
        report.hist("e2e.input", kind)
        report.hist("e2e.flags", " ".join(flags) or "(default)")
        if res is None:
            report.notes.setdefault("input_generation_failures", []).append(case["error"][:200])
            continue
        if res["rc"] != 0 and "Bitmap is too big for CBDT" in res["log"] and "--bitmaps" in flags:
            # documented limit of CBDT (one byte per dimension): legitimate only if some colour glyph is that wide
            inp = load(res["data"])
            em = inp["OS/2"].sTypoAscender - inp["OS/2"].sTypoDescender
            names = set().union(*colour_glyph_names(inp).values())
            if any(128 * inp["hmtx"][g][0] / em > 254 for g in names):
                report.hist("e2e.outcome", "rejected: bitmap wider than 255 px")
                report.count(("e2e-rejected", kind, tuple(flags), str(case.get("sources"))), True)
                continue
        if res["rc"] != 0 and "already maps to" in res["log"] and "can't also map to" in res["log"] and flags[:2] == ["--colr_version", "0"]:
            # COLRv0 keeps alpha in the palette: one var(--colorN) used with two opacities cannot be expressed (C03/C05)
            inp = load(res["data"])
            if "SVG " in inp and any("var(--color" in d[0] for d in svg_docs(inp)):
                report.hist("e2e.outcome", "rejected: one palette variable with two opacities cannot become COLRv0")
                report.count(("e2e-rejected", kind, tuple(flags), str(case)), True)
                continue
        if res["rc"] != 0 and "does not fit in format b for" in res["log"] and "--bitmaps" in flags:
            # CBLC line metrics are signed bytes: at the default 128 px strike an ascender of a full em is 128
            inp = load(res["data"])
            upem, asc, desc = inp["head"].unitsPerEm, inp["OS/2"].sTypoAscender, inp["OS/2"].sTypoDescender
            ppem = round(upem * 128 / (asc - desc))
            la = round(asc * ppem / upem)
            lh = round((asc - desc) * ppem / upem)
            if la > 127 or -(lh - la) < -128:
                report.hist("e2e.outcome", "rejected: line metrics do not fit CBLC's signed bytes (fontTools error, not a nanoemoji message)")
                report.count(("e2e-rejected", kind, tuple(flags), str(case.get("sources"))), True)
                continue
        if res["rc"] != 0 or res["kept"] is None:
            case["problems"] = ["maximum_color failed on a font it should handle"]
            i_fail = res["log"].find("FAILED")
            case["log"] = res["log"][max(0, i_fail) : max(0, i_fail) + 2500] if i_fail >= 0 else res["log"][-2500:]
            report_failure(report, f"e2e_{i}", case)
            return
        inp = load(res["data"])
        probs, f1 = fontcheck.roundtrip_problems(res["kept"])
        out = f1 if f1 is not None else None
        if out is not None:
            probs += fontcheck.svg_doc_problems(out)
            probs += fontcheck.post_problems(out, True)
            upem = inp["head"].unitsPerEm
            eps = 1.0 + 0.0015 * upem + 0.6
            probs += compare_kept(inp, out, flags, eps)
            lit, tinfo = fontcheck.abstract(out)
            lits.append(lit)
            metas.append(dict(case, tables=tinfo))
        if not probs and "--bitmaps" in flags:
            bp = bitmap_colour_problems(out)
            report.hist("e2e.bitmap_colours", "wrong" if bp else "ok")
            if bp:
                # F28's class: the glyph's own SVG document spells fills as palette variables
                docs_ = svg_docs(out) if "SVG " in out else []

                def uses_palette_variables(name):
                    gid = out.getGlyphID(name)
                    return any(d_[1] <= gid <= d_[2] and "var(--color" in d_[0] for d_ in docs_)

                known_class = all(uses_palette_variables(n_) for n_, _ in bp)
                if report_failure(report, f"e2e_bitmap_{i}", dict(case, problems=[m_ for _, m_ in bp[:4]]), "F28-bitmaps-of-palette-variables-black" if known_class else None):
                    return
        if not probs and strip:
            if res.get("rc2") != 0 or res.get("stripped") is None:
                probs.append("maximum_color without --keep_glyph_names failed")
                case["log"] = res.get("log2")
            else:
                p2, f2 = fontcheck.roundtrip_problems(res["stripped"])
                probs += p2
                probs += compare_stripped(out, res["stripped"])
        report.count(("e2e", kind, tuple(flags), strip, str(case.get("sources")), str(case.get("config"))), True)
        report.hist("e2e.names", "stripped+kept" if strip else "kept")
        report.hist("e2e.outcome", "problems" if probs else "ok")
        if probs:
            case["problems"] = probs[:6]
            # F37's class: every problem is the empty bitmap of a colour glyph whose advance is zero
            transparent = [p_ for p_ in probs if p_.startswith("bitmap of ") and p_.endswith(" is fully transparent")]
            f37 = out is not None and len(transparent) == len(probs) and all(out["hmtx"][p_[len("bitmap of "):-len(" is fully transparent")]][0] == 0 for p_ in transparent)
            if report_failure(report, f"e2e_{i}", case, "F37-zero-advance-glyph-empty-bitmap" if f37 else None):
                return
            continue
    bad = eval_bad_indices(["Model.Validity Corr.Common Corr.C07"], "", "font_abs", lits, ["font_valid"], tag="c12fonts", shard=60)
    report.notes["fonts_checked_by_coq_predicates"] = len(lits)
    for i in bad["font_valid"]:
        report_failure(report, f"tables_{i}", dict(metas[i], problems=["Model.Validity.font_valid is false on the abstracted tables of maximum_color's output"]))
        break
    if metas:
        report.sample(dict(input=metas[0]["input"], flags=metas[0]["flags"], tables=metas[0]["tables"]))


def main(argv):
    common.setup_env()
    tier = common.tier_from_args(argv)
    report = Report("C12", tier, common.seed_from_env())
    report.rule = (
        "model correspondence: the real glue_together._copy_svg order construction (fake fonts, reorder_glyphs captured) on "
        "random target orders / donor SVG ranges incl. the IndexError case, the {gid:05d} naming, and the rows the real "
        "write_glyphmap_for_glyph_svgs module prints for file lists in several argument orders (incl. the ones it must refuse), against the Coq model; "
        "end to end: fonts nanoemoji emits (glyf COLRv0/COLRv1, CFF and CFF2 COLRv1, picosvg, untouchedsvg; sequences; kept or stripped names) and "
        "hand-made-style COLRv0/v1 fonts with kerning/mark/ligature lookups and extra palettes, through the real "
        "`python -m nanoemoji.maximum_color` CLI x {--bitmaps, --colr_version, --keep_glyph_names}; input vs output "
        "name-keyed (cmap, hmtx, glyf / CFF / CFF2 outlines, GSUB/GPOS/GDEF meaning, name/OS2/hhea, original colour table, CPAL), same colour "
        "glyph set in every colour table, COLR picture vs OT-SVG picture per colour glyph, structural validity (C07 "
        "predicates in Coq), stripped build = kept build minus names"
    )
    st = proof_gate(report)
    rng = random.Random(report.seed)
    run_order(report, 400 if tier == "quick" else 6000, rng)
    run_stems(report, 300 if tier == "quick" else 3000, rng)
    if common.vo_ok("Model/GlyphmapPairs.v"):
        run_glyphmap_rows(report, 18 if tier == "quick" else 240, random.Random(rng.getrandbits(48)))
    run_e2e(report, 28 if tier == "quick" else 392, rng, jobs=8)
    if not st["proof_ok"] and not report.violations:
        report.violation("proof", dict(kind="proof", theorem="Props/C12.v", detail=report.notes.get("proof_failure")), found_input=False)
    report.open_obligations = [
        "_copy_colr's metrics assertion is exercised on every generated font, not modelled; _copy_cbdt's re-sharding is the run/offset model of C14 (tied there to the real function on fake fonts)",
        "COLR->SVG (C13) and SVG->COLR (C01/C03) picture preservation are separate theorems; their composition with T4/T5 into one statement about maximum_color is by the end-to-end oracle only",
        "CBDT pictures are only checked to be decodable, non-empty PNGs for exactly the colour glyphs (resvg rasterisation is outside the model)",
    ]
    report.assumptions = ["fontTools/ufo2ft compile and reload tables faithfully", "picture oracle (harness/picture.py) is trusted"]
    return report.finish()
