"""C09 -- Re-running after any edit or interruption converges to the clean build."""
import hashlib
import json
import os
import random
import shutil
from concurrent.futures import ThreadPoolExecutor
from pathlib import Path

from harness import build, common, ninjafile, svggen
from harness.common import Report, known_ids, proof_gate, report_failure, scratch_dir

FAULTS = Path(__file__).resolve().parent / "faults"


def sha(b):
    return hashlib.sha256(b).hexdigest()[:16]


def fault_env(fault=None, behaviour=None):
    env = build.cli_env()
    env.pop("VERIF_BEHAVIOUR", None)
    if behaviour:
        env["VERIF_BEHAVIOUR"] = json.dumps(behaviour)
    env["PATH"] = str(FAULTS / "bin") + ":" + env["PATH"]
    env["PYTHONPATH"] = str(FAULTS) + ":" + env["PYTHONPATH"]
    env["NANOEMOJI_VERIF"] = "1"
    env.pop("VERIF_FAULT", None)
    if fault:
        env["VERIF_FAULT"] = json.dumps(fault)
    return env


def opt_flags(opts):
    out = []
    for k, v in sorted(opts.items()):
        if isinstance(v, bool):
            out.append(f"--{k}" if v else f"--no{k}")
        else:
            out += [f"--{k}", str(v)]
    return out


def svg_text(rng):
    return svggen.gen_doc(rng, None, max_items=2, allow_groups=False, viewbox=(0, 0, 100, 100)).to_svg()


class World:
    """one working directory: src/ (sources), build/ (the build directory under test)"""

    def __init__(self, d, rng):
        self.d = Path(d)
        self.rng = rng
        (self.d / "src").mkdir(parents=True)
        self.opts = {"color_format": "glyf_colr_1"}
        self.next_cp = 0x1F600
        self.log = []  # the history, for the replay file
        self.truncated = {}  # relative output path -> bytes left by a fired truncate_kill
        self.renamed_over = []  # source paths replaced by an older file
        self.problems = []
        self.behaviour = None  # a standing tool behaviour (applies to every later invocation, the clean build too)
        self.logged_cmd = {}  # output -> command text of the run that wrote its current log entry
        self.log_state = {}
        self.dirty_cases = []  # (Coq literal, meta) for the model-vs-ninja dirtiness correspondence

    # ---- model validation: the state ninja is about to see, and what its dry run says
    def track_log(self, build_dir="build"):
        bd = self.d / build_dir
        try:
            rules, edges = ninjafile.parse(bd / "build.ninja")
        except Exception:
            return
        log = ninjafile.read_log(bd / ".ninja_log")
        by_out = {e["outs"][0]: e for e in edges}
        for out, ent in log.items():
            if self.log_state.get(out) != ent and out in by_out:
                self.logged_cmd[out] = ninjafile.command_text(rules, by_out[out])
        self.log_state = log

    def snapshot_dirty_case(self):
        import subprocess

        bd = self.d / "build"
        args = ["--build_dir", bd, "--noexec_ninja"] + opt_flags(self.opts) + self.inputs()
        rc, out = build.run_cli(args, cwd=self.d, env=fault_env())
        if rc != 0:
            return
        rules, edges = ninjafile.parse(bd / "build.ninja")
        order, producer = ninjafile.toposort(edges)
        log = ninjafile.read_log(bd / ".ninja_log")
        ids, cids = {}, {}
        pid = lambda x: ids.setdefault(x, len(ids) + 1)
        cid = lambda x: cids.setdefault(x, len(cids) + 1)
        files, graph, probs = [], [], []
        for e in order:
            text = ninjafile.command_text(rules, e)
            ins = e["ins"] + e["implicit"]
            for i in ins:
                # a SOURCE the edge reads must be named by its command (removing or renaming it then changes the command
                # and dirties the edge); intermediates have fixed names and are kept up to date by their own edges
                if i not in text and i not in producer:
                    probs.append(f"input {i} of {e['outs'][0]} is not named by the command line or response file")
            if any("/src/" in o or o.startswith("../") for o in e["outs"]):
                probs.append(f"output {e['outs'][0]} lies among the sources")
            graph.append((pid(e["outs"][0]), [pid(i) for i in ins], cid(text)))
        clock = 0
        for path, k in list(ids.items()):
            p = (bd / path)
            if p.is_file():
                m = p.stat().st_mtime_ns
                files.append((k, m))
                clock = max(clock, m)
        lg = []
        for out, (t, h) in log.items():
            if out in ids and out in self.logged_cmd:
                lg.append((ids[out], cid(self.logged_cmd[out]), t))
                clock = max(clock, t)
            elif out in ids:
                probs.append(f"log entry for {out} whose command the harness did not see")
        p = subprocess.run(["/venv/bin/ninja", "-C", str(bd), "-n", "-v"], capture_output=True, text=True, env=fault_env())
        by_cmd = {ninjafile.expand(rules, e, "command"): e for e in order}
        ran = []
        import re as _re

        for line in p.stdout.splitlines():
            m = _re.match(r"^\[\d+/\d+\] (.*)$", line)
            if m:
                e = by_cmd.get(m.group(1).strip()) or by_cmd.get(m.group(1))
                if e is None:
                    probs.append(f"dry run prints a command the harness cannot attribute: {m.group(1)[:100]}")
                else:
                    ran.append(e["outs"][0])
        pos = {e["outs"][0]: k for k, e in enumerate(order)}
        ran = sorted(set(ran), key=lambda o: pos[o])
        z = lambda n: f"{n}%Z"
        lit = (
            "(" + common.listlit([f"({z(k)}, {z(m)})" for k, m in files]) + ", " + common.listlit([f"({z(o)}, ({z(c)}, {z(t)}))" for o, c, t in lg]) + ", " + z(clock + 1) + ", "
            + common.listlit([f"({z(o)}, {common.listlit([z(i) for i in ins])}, {z(c)})" for o, ins, c in graph]) + ", " + common.listlit([z(ids[o]) for o in ran]) + ")"
        )
        meta = dict(kind="dirtiness", history=[{k: v for k, v in h.items() if k != "text"} for h in self.log], ninja_would_run=ran, edges=[e["outs"][0] for e in order], dry_run_exit=p.returncode)
        if probs:
            self.problems += probs
        self.dirty_cases.append((lit, meta))

    # ---- edits
    def sources(self):
        return sorted((self.d / getattr(self, "srcdir", "src")).glob("*.svg"))

    def inputs(self):
        """what the command line names: the source files, or (a multi-master build) a configuration file"""
        cfg = getattr(self, "config", None)
        return [str(cfg)] if cfg else [str(p) for p in self.sources()]

    def fresh_name(self):
        self.next_cp += 1
        return f"emoji_u{self.next_cp:04x}.svg"

    def add(self):
        n = self.fresh_name()
        t = svg_text(self.rng)
        (self.d / "src" / n).write_text(t)
        self.log.append(dict(op="add", name=n, text=t))

    def modify(self):
        p = self.rng.choice(self.sources())
        t = svg_text(self.rng)
        p.write_text(t)
        self.log.append(dict(op="modify", name=p.name, text=t))

    def rename(self):
        p = self.rng.choice(self.sources())
        n = self.fresh_name()
        os.rename(p, p.with_name(n))  # keeps the mtime
        self.log.append(dict(op="rename", name=p.name, to=n))

    def rename_over(self):
        """replace an existing source by another file (mv keeps the mtime): content changes; the arriving file may
        be older than the steps ninja logged for that path"""
        srcs = self.sources()
        if len(srcs) < 2:
            return self.modify()
        a, b = self.rng.sample(srcs, 2)
        m = a.stat().st_mtime_ns
        # F7 class: some logged step that reads b started no earlier than the arriving file's mtime
        stale_prone = False
        log = ninjafile.read_log(self.d / "build" / ".ninja_log")
        try:
            rules, edges = self.graph()
        except Exception:
            edges = []  # build.ninja may be torn by an earlier fault: fall back to the log alone
        outs = {e["outs"][0] for e in edges if any(Path(i).name == b.name for i in e["ins"] + e["implicit"])}
        outs |= {o for o in log if Path(o).stem == b.stem}  # per-source intermediates are named after the source
        stale_prone = any(o in log and m <= log[o][0] for o in outs)
        os.rename(a, b)
        if stale_prone:
            self.renamed_over.append(b.name)
        self.log.append(dict(op="rename_over", name=a.name, to=b.name, not_newer_than_logged_steps=stale_prone))

    def remove(self):
        srcs = self.sources()
        if len(srcs) < 2:
            return self.add()
        p = self.rng.choice(srcs)
        p.unlink()
        self.log.append(dict(op="remove", name=p.name))

    def setopt(self):
        k = self.rng.choice(["color_format", "width", "ascender", "reuse_tolerance", "clip_to_viewbox", "bitmap_resolution", "family"])
        pool = {
            "color_format": ["glyf_colr_1", "picosvg", "cbdt", "glyf_colr_0", "glyf"],
            "width": [0, 1000, 1500],
            "ascender": [950, 800],
            "reuse_tolerance": [0.1, 0.2, -1.0],
            "clip_to_viewbox": [True, False],
            "bitmap_resolution": [32, 64],
            "family": ["Verif", "Other"],
        }[k]
        cur = self.opts.get(k)
        v = self.rng.choice([x for x in pool if x != cur])
        self.opts[k] = v
        self.log.append(dict(op="setopt", key=k, value=v))

    # ---- invocations
    def invoke(self, fault=None, build_dir="build", validate=False):
        if validate and build_dir == "build":
            self.snapshot_dirty_case()
        marker = self.d / f"marker{len(self.log)}"
        if fault:
            fault = dict(fault, marker=str(marker))
        args = ["--build_dir", self.d / build_dir] + opt_flags(self.opts) + self.inputs()
        rc, out = build.run_cli(args, cwd=self.d, env=fault_env(fault, self.behaviour))
        fired = marker.exists()
        if fault and fired and fault.get("mode") == "truncate_kill" and fault.get("output"):
            p = self.d / build_dir / fault["output"]
            if p.is_file():
                self.truncated[fault["output"]] = p.read_bytes()
        self.log.append(dict(op="invoke", fault={k: v for k, v in (fault or {}).items() if k != "marker"} or None, exit=rc, fault_fired=fired))
        if build_dir == "build":
            self.track_log()
        return rc, out, fired

    def graph(self, build_dir="build"):
        rules, edges = ninjafile.parse(self.d / build_dir / "build.ninja")
        return rules, edges

    def pick_fault(self):
        """a node of the current ninja graph (or the driver itself) and a fault kind"""
        r = self.rng.random()
        if r < 0.12:
            return dict(module="nanoemoji.nanoemoji", target="", mode="kill_before")
        if r < 0.25:
            return dict(module="nanoemoji.nanoemoji", target="", mode="kill_during_ninja_write", bytes=self.rng.choice([1, 150, 900, 2500]))
        try:
            rules, edges = self.graph()
        except Exception:
            return dict(module="nanoemoji.nanoemoji", target="", mode="kill_before")
        cands = []
        for e in edges:
            cmd = rules.get(e["rule"], {}).get("command", "")
            out = e["outs"][0]
            first = cmd.split()[0] if cmd else ""
            if first in ("picosvg", "resvg"):
                cands.append(dict(tool=first, target=out, output=out))
            elif e["rule"] == "pngquant" and self.rng.random() < 0.5:
                cands.append(dict(tool="pngquant", target=out, output=out))
            elif "-m" in cmd.split():
                mod = cmd.split()[cmd.split().index("-m") + 1]
                # the step is recognised by its module and, when it has explicit inputs, its first input
                tgt = e["ins"][0] if e["ins"] and e["rule"] not in ("write_font",) else ""
                if e["rule"] in ("write_font",):
                    tgt = e["vars"].get("config_file", "")
                if "rspfile" in rules.get(e["rule"], {}):
                    tgt = out
                cands.append(dict(module=mod, target=tgt, output=out))
        if not cands:
            return dict(module="nanoemoji.nanoemoji", target="", mode="kill_before")
        f = self.rng.choice(cands)
        f["mode"] = self.rng.choice(["fail", "truncate_kill"])
        return f


def intermediates(bd):
    out = {}
    for p in sorted(Path(bd).rglob("*")):
        if p.is_file() and p.name not in (".ninja_log", ".ninja_deps") and not p.name.endswith(".rsp"):
            out[str(p.relative_to(bd))] = p.read_bytes()
    return out


def root_causes(w, inc, clean):
    """files of the final graph that differ between the incremental and the clean directory
    although all their inputs agree (the places where staleness enters)"""
    try:
        rules, edges = w.graph("clean")
    except Exception:
        return []
    roots = []
    for e in edges:
        out = e["outs"][0]
        if inc.get(out) != clean.get(out):
            ins = [i for i in e["ins"] + e["implicit"]]
            same_inputs = all(inc.get(i) == clean.get(i) for i in ins if not os.path.isabs(i) and (i in inc or i in clean))
            if same_inputs:
                roots.append((out, e))
    return roots


def classify(w, roots):
    """-> known finding id or None.  F17: the stale file is one a killed step left truncated and
    ninja never re-ran (the step's command line went back to the logged one).  F7: an input of
    the stale file was replaced by a file with an older mtime."""
    if not roots:
        return None
    ids = set()
    for out, e in roots:
        p = w.d / "build" / out
        cur = p.read_bytes() if p.is_file() else None
        if out in w.truncated and cur == w.truncated[out]:
            ids.add("F17-truncated-output-command-reverted")
            continue
        if any(Path(i).name in w.renamed_over for i in e["ins"] + e["implicit"]):
            ids.add("F7-older-mtime-rename")
            continue
        return None
    return sorted(ids)[0] if len(ids) == 1 else None


def run_history(seed, length, directed=None):
    """-> (case dict for the replay, list of problems, known finding id or None, stats)"""
    rng = random.Random(seed)
    stats = dict(ops={}, faults={}, fired=0, faulty_invocations=0)
    with scratch_dir("verif-c09-") as d:
        w = World(d, rng)
        for _ in range(rng.randint(1, 3)):
            w.add()
        rc, out, _ = w.invoke()
        if rc != 0:
            return dict(kind="history", seed=seed, history=w.log, log=out[-1500:]), ["the first build of valid sources failed"], None, stats
        plan = directed(w) if directed else None
        steps = plan if plan is not None else [None] * length
        for st in steps:
            if st is None:
                for _ in range(rng.randint(1, 2)):
                    op = rng.choice(["add", "modify", "modify", "rename", "remove", "setopt", "setopt", "rename_over"] if rng.random() < 0.15 else ["add", "modify", "modify", "rename", "remove", "setopt", "setopt"])
                    getattr(w, op)()
                    stats["ops"][op] = stats["ops"].get(op, 0) + 1
                fault = w.pick_fault() if rng.random() < 0.65 else None
            else:
                edits, fault = st
                for op in edits:
                    op(w)
            rc, out, fired = w.invoke(fault, validate=rng.random() < 0.6)
            if fault:
                stats["faulty_invocations"] += 1
                key = (fault.get("tool") or fault.get("module", "")).replace("nanoemoji.", "") + ":" + fault["mode"]
                stats["faults"][key] = stats["faults"].get(key, 0) + 1
                stats["fired"] += int(fired)
            if fault and fired and rc == 0:
                w.problems.append(f"a step was made to fail ({fault}) but the invocation exited 0")
                break
        case = dict(kind="history", seed=seed, history=w.log)
        stats["dirty_cases"] = w.dirty_cases
        if w.problems:
            return case, w.problems, None, stats
        # one further invocation without faults
        rc, out, _ = w.invoke(validate=True)
        rcc, outc, _ = w.invoke(build_dir="clean")
        w.log.pop()
        if w.problems:
            return case, w.problems, None, stats
        case["final_exit"], case["clean_exit"] = rc, rcc
        inc, clean = intermediates(w.d / "build"), intermediates(w.d / "clean")
        if rcc != 0:
            # the final inputs themselves do not build: the incremental build must fail too
            if rc == 0:
                return case, ["the clean build of the final inputs fails but the incremental build exits 0"], None, stats
            return case, [], None, stats
        fonts = [k for k in clean if k.endswith((".ttf", ".otf"))]
        probs = []
        if rc != 0:
            probs.append("after the history the build directory is wedged: a further invocation without faults fails while a clean build of the same inputs succeeds")
            case["log"] = out[-1500:]
        else:
            for f in fonts:
                if inc.get(f) != clean[f]:
                    probs.append(f"{f} differs from the clean build of the final inputs")
        kid = None
        if probs:
            roots = root_causes(w, inc, clean)
            case["stale_files"] = [r[0] for r in roots]
            kid = classify(w, roots)
        return case, probs, kid, stats


# ---- directed histories for the two known mechanisms
def directed_f17(w):
    w.opts["reuse_tolerance"] = 0.1

    def set_rt(v):
        def f(w):
            w.opts["reuse_tolerance"] = v
            w.log.append(dict(op="setopt", key="reuse_tolerance", value=v))

        return f

    src = w.sources()[0].name
    rules, edges = w.graph()
    out = [e["outs"][0] for e in edges if e["rule"] == "write_part_file" and src[:-4] in e["outs"][0]][0]
    return [([set_rt(0.1)], None), ([set_rt(0.2)], dict(module="nanoemoji.write_part_file", target=src[:-4], mode="truncate_kill", output=out)), ([set_rt(0.1)], None)]


def directed_f17_silent(w):
    """the glyphmap step is killed after one complete line; the source set then returns to the logged one"""
    def add(w):
        w.add()

    def drop_last(w):
        p = w.sources()[-1]
        p.unlink()
        w.log.append(dict(op="remove", name=p.name))

    rules, edges = w.graph()
    out = [e["outs"][0] for e in edges if e["outs"][0].endswith(".glyphmap")][0]
    return [([add], None), ([add], dict(module="nanoemoji.write_glyphmap", target=out, mode="truncate_kill", output=out, keep_lines=1)), ([drop_last], None)]


def directed_options(w):
    """option-only changes, the last one visible only to the final font step"""
    def setk(k, v):
        def f(w):
            w.opts[k] = v
            w.log.append(dict(op="setopt", key=k, value=v))

        return f

    first = w.rng.choice([("reuse_tolerance", 0.2), ("clip_to_viewbox", False), ("color_format", "glyf_colr_0")])
    last = w.rng.choice([("family", "Other"), ("version_major", 3), ("keep_glyph_names", True), ("width", 1000)])
    return [([setk(*first)], None), ([setk(*last)], None)]


def directed_bitmap(w):
    """bitmap pipeline: resvg -> pngquant -> (zopflipng) -> font, with faults in the external tools"""
    def setk(k, v):
        def f(w):
            w.opts[k] = v
            w.log.append(dict(op="setopt", key=k, value=v))

        return f

    def modify_first(w):
        p = w.sources()[0]
        t = svg_text(w.rng)
        p.write_text(t)
        w.log.append(dict(op="modify", name=p.name, text=t))

    stem = w.sources()[0].stem
    fmt = w.rng.choice(["cbdt", "sbix"])
    return [
        ([setk("color_format", fmt), setk("bitmap_resolution", 32), setk("use_pngquant", True)], None),
        ([modify_first], dict(tool="pngquant", target=stem, mode="fail", output=f"pngquant/{stem}.png")),
        ([modify_first], dict(tool="pngquant", target=stem, mode="truncate_kill", output=f"pngquant/{stem}.png")),
        ([modify_first], dict(tool="resvg", target=stem, mode=w.rng.choice(["fail", "truncate_kill"]), output=f"bitmap/{stem}.png")),
    ]


def directed_bitmap_options(w):
    """bitmap options changed between invocations (strike size, quantisation on/off, quantiser flags): the compressed
    PNGs left by the earlier run must not survive; then a compression step killed mid-write, then a clean re-run"""
    def setk(k, v):
        def f(w):
            w.opts[k] = v
            w.log.append(dict(op="setopt", key=k, value=v))

        return f

    stem = w.sources()[0].stem
    fmt = w.rng.choice(["cbdt", "sbix"])
    return [
        ([setk("color_format", fmt), setk("bitmap_resolution", 48), setk("use_pngquant", True), setk("use_zopflipng", False)], None),
        ([setk("bitmap_resolution", 32)], None),
        ([setk("use_pngquant", False)], None),
        ([setk("use_pngquant", True), setk("pngquant_flags", "--speed 3 --quality 40-60")], None),
        ([setk("bitmap_resolution", 40)], dict(tool="pngquant", target=stem, mode="truncate_kill", output=f"pngquant/{stem}.png")),
    ]


def directed_variable_font(w):
    """a two-master configuration, then options changed between invocations (they reach the masters and the variable
    font only through the configuration files written into the build directory)"""
    def setk(k, v):
        def f(w):
            w.opts[k] = v
            w.log.append(dict(op="setopt", key=k, value=v))

        return f

    def to_two_masters(w):
        for m in ("thin", "bold"):
            (w.d / m).mkdir()
            for p in w.sources():
                (w.d / m / p.name).write_text(p.read_text())
        w.config = w.d / "vf.toml"
        w.config.write_text('output_file="Font.ttf"\nreuse_tolerance=-1.0\n[axis.wght]\nname="Weight"\ndefault=100\n[master.thin]\nstyle_name="Thin"\nsrcs=["thin/*.svg"]\n'
                            '[master.thin.position]\nwght=100\n[master.bold]\nstyle_name="Bold"\nsrcs=["bold/*.svg"]\n[master.bold.position]\nwght=700\n')
        w.log.append(dict(op="switch to a two-master configuration file"))

    first = w.rng.choice([("width", 1000), ("upem", 2048), ("family", "Other Fam")])
    second = w.rng.choice([("color_format", "glyf_colr_0"), ("version_major", 3), ("ascender", 900)])
    return [([to_two_masters], None), ([setk(*first)], None), ([setk(*second)], None)]


def directed_pngquant_declines(w):
    """pngquant declines the re-rendered bitmap (exit 99: quality too low / result larger): the wrapper must
    replace the earlier output by the unquantised bitmap, in the incremental build as in the clean one"""
    def setk(k, v):
        def f(w):
            w.opts[k] = v
            w.log.append(dict(op="setopt", key=k, value=v))

        return f

    stem = w.sources()[0].stem

    def modify_and_decline(w):
        p = w.sources()[0]
        t = svg_text(w.rng)
        p.write_text(t)
        w.behaviour = dict(tool="pngquant", target=stem, exit=w.rng.choice([98, 99]))
        w.log.append(dict(op="modify", name=p.name, text=t, tool_behaviour=w.behaviour))

    return [([setk("color_format", "cbdt"), setk("bitmap_resolution", 32), setk("use_pngquant", True)], None), ([modify_and_decline], None)]


def directed_decline_then_compress(w):
    """round 7: quantised and recompressed bitmaps; then the quantiser starts declining every file (exit 99, with other
    flags) while recompression is switched off; then recompression is switched on again. The recompressed files of the
    first run are older commands' outputs of other inputs: they must be redone (a wrapper that hands on the unquantised
    bitmap WITH ITS OLD TIMESTAMP makes ninja think they are current)"""
    def setk(k, v):
        def f(w):
            w.opts[k] = v
            w.log.append(dict(op="setopt", key=k, value=v))

        return f

    def decline_everything(w):
        w.behaviour = dict(tool="pngquant", target="", exit=99)
        w.log.append(dict(op="pngquant declines every file from now on (exit 99)", tool_behaviour=w.behaviour))

    return [
        ([setk("color_format", "cbdt"), setk("bitmap_resolution", 32), setk("use_pngquant", True), setk("use_zopflipng", True), setk("pngquant_flags", "--quality 0-40")], None),
        ([decline_everything, setk("pngquant_flags", "--speed 3"), setk("use_zopflipng", False)], None),
        ([setk("use_zopflipng", True)], None),
    ]


def directed_torn_graph(w):
    """the driver is killed while it writes build.ninja (after the resolved config is on disk); the next invocation
    must rebuild the graph"""
    def add(w):
        w.add()

    return [([add], dict(module="nanoemoji.nanoemoji", target="", mode="kill_during_ninja_write", bytes=1)), ([], None)]


def directed_switch_dir(w):
    """the same file names come from another directory (new artwork): the graph must follow the new paths"""
    def switch(w):
        new = w.d / "src2"
        new.mkdir()
        for p in w.sources():
            (new / p.name).write_text(svg_text(w.rng))
        w.srcdir = "src2"
        w.log.append(dict(op="switch_source_directory", to="src2", names=[p.name for p in w.sources()]))

    return [([switch], None)]


def directed_f7(w):
    def add(w):
        w.add()

    def over(w):
        srcs = w.sources()
        a, b = srcs[0], srcs[-1]  # a is the oldest file
        os.rename(a, b)
        w.renamed_over.append(b.name)
        w.log.append(dict(op="rename_over", name=a.name, to=b.name, older_mtime=True))

    return [([add], None), ([over], None)]


def main(argv):
    common.setup_env()
    tier = common.tier_from_args(argv)
    report = Report("C09", tier, common.seed_from_env())
    report.rule = (
        "real CLI histories on one build directory: edits {add, modify, rename, rename-over, remove source; change "
        "colour format, metrics, reuse tolerance, clipping, bitmap resolution, family} interleaved with invocations in "
        "which a fault is injected from outside at a node of the current ninja graph (picosvg/resvg through PATH shims; "
        "every `python -m` step and the driver through a sitecustomize module: exit non-zero, or finish, truncate the "
        "output and die by SIGKILL; driver killed before/while writing build.ninja); then one invocation without faults "
        "whose font bytes are compared with a clean build of the final inputs; faulty invocations must exit non-zero"
    )
    st = proof_gate(report)
    rng = random.Random(report.seed)
    n = 6 if tier == "quick" else 120
    seeds = [rng.getrandbits(40) for _ in range(n)]
    jobs = [(s, rng.randint(2, 4 if tier == "quick" else 6), None) for s in seeds]
    jobs += [(rng.getrandbits(40), 0, directed_f17), (rng.getrandbits(40), 0, directed_f17_silent), (rng.getrandbits(40), 0, directed_f7), (rng.getrandbits(40), 0, directed_options), (rng.getrandbits(40), 0, directed_bitmap), (rng.getrandbits(40), 0, directed_bitmap_options), (rng.getrandbits(40), 0, directed_variable_font), (rng.getrandbits(40), 0, directed_pngquant_declines), (rng.getrandbits(40), 0, directed_decline_then_compress), (rng.getrandbits(40), 0, directed_torn_graph), (rng.getrandbits(40), 0, directed_switch_dir)]
    with ThreadPoolExecutor(8) as ex:
        results = list(ex.map(lambda j: run_history(*j), jobs))
    known = known_ids("C09")
    dirty = []
    for (seed, length, directed), (case, probs, kid, stats) in zip(jobs, results):
        dirty += stats.get("dirty_cases", [])
        report.count(("history", seed), True)
        for k, v in stats["ops"].items():
            report.hist("edits", k, v)
        for k, v in stats["faults"].items():
            report.hist("faults", k, v)
        report.hist("faults.fired", "fired", stats["fired"])
        report.hist("faults.fired", "not reached (step was clean or absent)", stats["faulty_invocations"] - stats["fired"])
        report.hist("history.kind", "directed" if directed else "random")
        report.hist("outcome", "ok" if not probs else (kid or "violation"))
        if probs:
            case["problems"] = probs
            report_failure(report, f"history_{seed}", case, finding_id=kid)
    for lit, meta in dirty:
        report.count(("dirty", lit), True)
        report.hist("dirtiness.edges_ninja_would_run", min(len(meta["ninja_would_run"]), 12))
    common.evaluate_corr(report, ["Model.Ninja Corr.Common Corr.C09"], "C09", "ninja_dirtiness", "dirty_case", [l for l, _ in dirty], [m for _, m in dirty], "dirty_agree", "dirty_agree", shard=40)
    if not st["proof_ok"] and not report.violations:
        report.violation("proof", dict(kind="proof", theorem="Props/C09.v", detail=report.notes.get("proof_failure")), found_input=False)
    report.open_obligations = [
        "the ninja model (dirtiness rule, log written only on success, recorded start time) is validated against the installed ninja by sampling real states, not derived from ninja's source",
        "gen_graph (sources/options -> build.ninja) is not modelled: the theorem quantifies over arbitrary graphs and the conditions it needs are checked on every generated build.ninja",
        "faults inside multi-output or parallel steps are covered by the arbitrary `decide` function of the model; real parallel interleavings are exercised only as ninja schedules them",
    ]
    report.assumptions = ["file-system timestamps are fine enough to order the harness's edits and ninja's runs", "ninja 1.13.2 as installed"]
    return report.finish()
