"""OpenType layout schema, written by hand from the OpenType specification (GSUB, GPOS,
GDEF chapters) in terms of fontTools' object model: for each subtable type/format, the
Coverage-typed fields with the array that is indexed by coverage index (dotted attribute
path, as fontTools exposes it), and inner lists that the spec requires sorted by a glyph id.

Subtables that fontTools represents as name-keyed dicts and rebuilds (sorted by glyph id)
when compiling are listed in SELF_SORTING: they need no rule.
"""

# (type, format): dict(coverages=[(coverage_attr, parallel_attr|None)], lists=[(list_attr, key)])
SCHEMA = {
    # ---- GPOS
    ("SinglePos", 1): dict(coverages=[("Coverage", None)]),
    ("SinglePos", 2): dict(coverages=[("Coverage", "Value")]),
    ("PairPos", 1): dict(coverages=[("Coverage", "PairSet")]),
    ("PairSet", None): dict(lists=[("PairValueRecord", "SecondGlyph")]),
    ("PairPos", 2): dict(coverages=[("Coverage", None)]),
    ("CursivePos", 1): dict(coverages=[("Coverage", "EntryExitRecord")]),
    ("MarkBasePos", 1): dict(coverages=[("MarkCoverage", "MarkArray.MarkRecord"), ("BaseCoverage", "BaseArray.BaseRecord")]),
    ("MarkLigPos", 1): dict(coverages=[("MarkCoverage", "MarkArray.MarkRecord"), ("LigatureCoverage", "LigatureArray.LigatureAttach")]),
    ("MarkMarkPos", 1): dict(coverages=[("Mark1Coverage", "Mark1Array.MarkRecord"), ("Mark2Coverage", "Mark2Array.Mark2Record")]),
    ("ContextPos", 1): dict(coverages=[("Coverage", "PosRuleSet")]),
    ("ContextPos", 2): dict(coverages=[("Coverage", None)]),
    ("ContextPos", 3): dict(coverages=[("Coverage", None)]),
    ("ChainContextPos", 1): dict(coverages=[("Coverage", "ChainPosRuleSet")]),
    ("ChainContextPos", 2): dict(coverages=[("Coverage", None)]),
    ("ChainContextPos", 3): dict(coverages=[("BacktrackCoverage", None), ("InputCoverage", None), ("LookAheadCoverage", None)]),
    # ---- GSUB
    ("ContextSubst", 1): dict(coverages=[("Coverage", "SubRuleSet")]),
    ("ContextSubst", 2): dict(coverages=[("Coverage", None)]),
    ("ContextSubst", 3): dict(coverages=[("Coverage", None)]),
    ("ChainContextSubst", 1): dict(coverages=[("Coverage", "ChainSubRuleSet")]),
    ("ChainContextSubst", 2): dict(coverages=[("Coverage", None)]),
    ("ChainContextSubst", 3): dict(coverages=[("BacktrackCoverage", None), ("InputCoverage", None), ("LookAheadCoverage", None)]),
    ("ReverseChainSingleSubst", 1): dict(coverages=[("Coverage", "Substitute"), ("BacktrackCoverage", None), ("LookAheadCoverage", None)]),
    # ---- GDEF
    ("AttachList", None): dict(coverages=[("Coverage", "AttachPoint")]),
    ("LigCaretList", None): dict(coverages=[("Coverage", "LigGlyph")]),
    ("MarkGlyphSetsDef", None): dict(coverages=[("Coverage", None)]),
}

# fontTools keeps these as dicts keyed by glyph name and sorts by glyph id in preWrite
SELF_SORTING = {"SingleSubst", "MultipleSubst", "AlternateSubst", "LigatureSubst", "ClassDef"}

# otData struct names: "<Type>Format<N>" for formatted tables
def otdata_name(ty, fmt):
    return ty if fmt is None else f"{ty}Format{fmt}"
