"""Seeded generator of source SVGs (picosvg-normal-ish: paths only, groups only for
opacity, gradients in <defs>) as structured descriptions plus their XML text."""
import math
from dataclasses import dataclass, field
from typing import List, Optional, Tuple, Union


def fmt(v):
    s = f"{v:.4f}".rstrip("0").rstrip(".")
    return "0" if s in ("-0", "") else s


@dataclass
class Solid:
    css: str  # fill attribute value


@dataclass
class Gradient:
    kind: str  # linear | radial
    units: str  # objectBoundingBox | userSpaceOnUse
    coords: dict  # x1,y1,x2,y2 or cx,cy,r[,fx,fy,fr]
    transform: Optional[Tuple[float, ...]]
    spread: str
    stops: List[Tuple[float, str, float]]  # offset, color, stop-opacity


@dataclass
class Shape:
    d: str
    fill: Union[Solid, Gradient]
    opacity: float = 1.0


@dataclass
class Group:
    opacity: float
    children: List[Union["Group", Shape]] = field(default_factory=list)


@dataclass
class Doc:
    viewbox: Tuple[float, float, float, float]
    items: List[Union[Group, Shape]]

    def to_svg(self) -> str:
        defs, body = [], []
        counter = [0]

        def emit(item, out, indent="  "):
            if isinstance(item, Group):
                out.append(f'{indent}<g opacity="{fmt(item.opacity)}">')
                for c in item.children:
                    emit(c, out, indent + "  ")
                out.append(f"{indent}</g>")
                return
            attrs = [f'd="{item.d}"']
            if isinstance(item.fill, Solid):
                attrs.append(f'fill="{item.fill.css}"')
            else:
                g = item.fill
                gid = f"grad{counter[0]}"
                counter[0] += 1
                tag = "linearGradient" if g.kind == "linear" else "radialGradient"
                a = [f'id="{gid}"', f'gradientUnits="{g.units}"']
                a += [f'{k}="{fmt(v)}"' for k, v in g.coords.items()]
                if g.transform is not None:
                    a.append('gradientTransform="matrix(%s)"' % " ".join(fmt(v) for v in g.transform))
                if g.spread != "pad":
                    a.append(f'spreadMethod="{g.spread}"')
                stops = "".join(
                    f'<stop offset="{fmt(o)}" stop-color="{c}"' + (f' stop-opacity="{fmt(so)}"' if so != 1.0 else "") + "/>"
                    for o, c, so in g.stops
                )
                defs.append(f'    <{tag} {" ".join(a)}>{stops}</{tag}>')
                attrs.append(f'fill="url(#{gid})"')
            if item.opacity != 1.0:
                attrs.append(f'opacity="{fmt(item.opacity)}"')
            out.append(f'{indent}<path {" ".join(attrs)}/>')

        for it in self.items:
            emit(it, body)
        vb = " ".join(fmt(v) for v in self.viewbox)
        return (
            f'<svg xmlns="http://www.w3.org/2000/svg" viewBox="{vb}">\n  <defs>\n' + "\n".join(defs) + "\n  </defs>\n" + "\n".join(body) + "\n</svg>\n"
        )


# ------------------------------------------------------------------------------- shapes

SHAPE_KINDS = ["rect", "triangle", "pentagon", "blob", "ellipse", "lshape"]


def base_shape(rng, kind, size):
    """Closed simple outline around the origin as a list of segments:
    ('L', (x,y)) or ('C', (x1,y1),(x2,y2),(x,y)); first entry is ('M', (x,y))."""
    s = size
    if kind == "rect":
        w, h = s * rng.uniform(0.6, 1.0), s * rng.uniform(0.4, 1.0)
        pts = [(-w / 2, -h / 2), (w / 2, -h / 2), (w / 2, h / 2), (-w / 2, h / 2)]
        return [("M", pts[0])] + [("L", p) for p in pts[1:]]
    if kind == "triangle":
        pts = [(-s / 2, s * 0.4), (s * 0.55, s * 0.35), (s * rng.uniform(-0.2, 0.1), -s * 0.5)]
        return [("M", pts[0])] + [("L", p) for p in pts[1:]]
    if kind == "pentagon":
        pts = []
        for i in range(5):
            a = 2 * math.pi * i / 5 + 0.3
            r = s * (0.5 if i != 2 else 0.33)
            pts.append((r * math.cos(a), r * math.sin(a)))
        return [("M", pts[0])] + [("L", p) for p in pts[1:]]
    if kind == "lshape":
        pts = [(-s / 2, -s / 2), (s / 2, -s / 2), (s / 2, -s / 6), (-s / 6, -s / 6), (-s / 6, s / 2), (-s / 2, s / 2)]
        return [("M", pts[0])] + [("L", p) for p in pts[1:]]
    if kind == "ellipse":
        rx, ry = s * 0.5, s * rng.uniform(0.25, 0.45)
        k = 0.5522847498
        return [
            ("M", (rx, 0)),
            ("C", (rx, ry * k), (rx * k, ry), (0, ry)),
            ("C", (-rx * k, ry), (-rx, ry * k), (-rx, 0)),
            ("C", (-rx, -ry * k), (-rx * k, -ry), (0, -ry)),
            ("C", (rx * k, -ry), (rx, -ry * k), (rx, 0)),
        ]
    # blob: smooth closed curve through 4 points with asymmetric handles
    r = [s * rng.uniform(0.3, 0.5) for _ in range(4)]
    p = [(r[0], 0), (0, r[1]), (-r[2], 0), (0, -r[3])]
    h = [rng.uniform(0.4, 0.7) for _ in range(8)]
    return [
        ("M", p[0]),
        ("C", (r[0], r[1] * h[0]), (r[0] * h[1], r[1]), p[1]),
        ("C", (-r[2] * h[2], r[1]), (-r[2], r[1] * h[3]), p[2]),
        ("C", (-r[2], -r[3] * h[4]), (-r[2] * h[5], -r[3]), p[3]),
        ("C", (r[0] * h[6], -r[3]), (r[0], -r[3] * h[7]), p[0]),
    ]


def apply_affine(t, segs):
    a, b, c, d, e, f = t
    m = lambda p: (a * p[0] + c * p[1] + e, b * p[0] + d * p[1] + f)
    return [(s[0],) + tuple(m(p) for p in s[1:]) for s in segs]


def segs_to_d(segs, nd=3):
    out = []
    r = lambda v: fmt(round(v, nd))
    for s in segs:
        out.append(s[0] + " ".join(f"{r(p[0])},{r(p[1])}" for p in s[1:]))
    return " ".join(out) + " Z"


def isometry(rng, kind=None):
    kind = kind or rng.choice(["translate", "rot90", "mirror", "pyth", "generic"])
    if kind == "translate":
        return (1, 0, 0, 1, 0, 0)
    if kind == "rot90":
        c, s = rng.choice([(0, 1), (-1, 0), (0, -1)])
        return (c, s, -s, c, 0, 0)
    if kind == "mirror":
        return rng.choice([(-1, 0, 0, 1, 0, 0), (1, 0, 0, -1, 0, 0)])
    if kind == "pyth":
        m, n, h = rng.choice([(3, 4, 5), (5, 12, 13), (8, 15, 17)])
        c, s = m / h, n / h
        return (c, s, -s, c, 0, 0)
    a = rng.uniform(0, 2 * math.pi)
    return (math.cos(a), math.sin(a), -math.sin(a), math.cos(a), 0, 0)


COLORS = ["#FF0000", "#00FF00", "#0000FF", "#123456", "#FFCC00", "black", "red", "wheat", "#ABCDEF80", "#369"]


def gen_solid(rng, allow_special=True):
    k = rng.random()
    if allow_special and k < 0.08:
        return Solid("currentColor")
    if allow_special and k < 0.18:
        i = rng.randint(0, 3)
        return Solid(f"var(--color{i}, {COLORS[i]})")
    return Solid(rng.choice(COLORS))


def gen_gradient(rng, bbox):
    x0, y0, x1, y1 = bbox
    w, h = x1 - x0, y1 - y0
    kind = rng.choice(["linear", "radial"])
    units = rng.choice(["objectBoundingBox", "userSpaceOnUse"])
    if kind == "linear":
        if units == "objectBoundingBox":
            coords = dict(x1=rng.choice([0, 0.1]), y1=rng.choice([0, 0.2]), x2=rng.choice([1, 0.8]), y2=rng.choice([0, 1, 0.5]))
        else:
            coords = dict(x1=x0 + w * rng.uniform(0, 0.3), y1=y0 + h * rng.uniform(0, 0.3), x2=x0 + w * rng.uniform(0.6, 1), y2=y0 + h * rng.uniform(0.2, 1))
    else:
        if units == "objectBoundingBox":
            coords = dict(cx=0.5, cy=rng.choice([0.5, 0.4]), r=rng.choice([0.5, 0.7]))
            if rng.random() < 0.4:
                coords.update(fx=0.35, fy=0.4)
        else:
            coords = dict(cx=x0 + w * 0.5, cy=y0 + h * 0.5, r=max(w, h) * rng.uniform(0.4, 0.8))
            if rng.random() < 0.4:
                coords.update(fx=coords["cx"] - coords["r"] * 0.3, fy=coords["cy"] + coords["r"] * 0.2)
                if rng.random() < 0.5:
                    coords["fr"] = coords["r"] * 0.1
    transform = None
    if rng.random() < 0.4:
        if units == "objectBoundingBox":
            transform = rng.choice([(1, 0, 0, 0.5, 0, 0.25), (0.8, 0.2, -0.2, 0.8, 0.1, 0.1), (0, 1, -1, 0, 1, 0)])
        else:
            cx, cy = x0 + w / 2, y0 + h / 2
            a = rng.choice([(1, 0, 0, 0.5), (0.8, 0.3, -0.3, 0.8), (1.2, 0, 0.4, 1)])
            # keep the centre of the shape fixed
            transform = a + (cx - a[0] * cx - a[2] * cy, cy - a[1] * cx - a[3] * cy)
    n = rng.choice([2, 2, 3])
    stops = [(i / (n - 1), rng.choice(COLORS[:5]), rng.choice([1.0, 1.0, 0.5])) for i in range(n)]
    return Gradient(kind, units, coords, transform, rng.choice(["pad", "pad", "reflect", "repeat"]), stops)


def bbox_of(segs):
    xs = [p[0] for s in segs for p in s[1:]]
    ys = [p[1] for s in segs for p in s[1:]]
    return (min(xs), min(ys), max(xs), max(ys))


def random_viewbox(rng):
    w = rng.choice([24, 100, 128, 1000])
    aspect = rng.choice([1, 1, 1, 0.5, 2, 0.25, 4, 1.5])
    return (rng.choice([0, 0, -10, 13]), rng.choice([0, 0, 7, -20]), w * aspect, w)


def gen_doc(rng, pool=None, solid_only=False, max_items=4, allow_groups=True, viewbox=None, allow_special=True, var_opaque=False, stress=False, grad_pool=None):
    """One source.  `pool` is a list of (kind, base segments) shared between the documents of
    one font so that shapes recur under isometries/scales (cross-glyph reuse); `grad_pool`
    a list of user-space gradients shared likewise (one gradient used by several glyphs)."""
    if viewbox is None:
        viewbox = random_viewbox(rng)
    vx, vy, vw, vh = viewbox
    unit = min(vw, vh)

    def make_shape():
        if pool and rng.random() < 0.6:
            kind, segs = rng.choice(pool)
            scale = rng.choice([1, 1, 1, 0.5, 0.75, rng.uniform(0.4, 1.0)])
        else:
            kind = rng.choice(SHAPE_KINDS)
            segs = base_shape(rng, kind, 1.0)
            scale = rng.uniform(0.5, 1.0)
            if pool is not None:
                pool.append((kind, segs))
        iso = isometry(rng)
        size = unit * rng.uniform(0.25, 0.5) * scale
        if stress and rng.random() < 0.2:
            size = unit * rng.choice([0.02, 0.9])  # tiny donors / huge reuse scales
        t = tuple(v * size for v in iso[:4]) + (vx + vw * rng.uniform(0.3, 0.7), vy + vh * rng.uniform(0.3, 0.7))
        if stress and rng.random() < 0.3:  # non-uniform scale / shear of the recurring shape
            k = rng.choice([(1, 0, 0, 0.5), (0.6, 0, 0, 1), (1, 0, 0.4, 1)])
            t = (t[0] * k[0] + t[2] * k[1], t[1] * k[0] + t[3] * k[1], t[0] * k[2] + t[2] * k[3], t[1] * k[2] + t[3] * k[3], t[4], t[5])
        if stress and rng.random() < 0.15:  # large translation: partly outside the viewBox
            t = t[:4] + (vx + vw * rng.choice([-0.4, 1.4]), vy + vh * rng.choice([-0.3, 1.3]))
        placed = apply_affine(t, segs)
        if stress and rng.random() < 0.25:  # near miss: one point moved just inside / outside the tolerance
            i = rng.randrange(len(placed))
            dlt = rng.choice([0.03, 0.08, 0.15, 0.3])
            sg = placed[i]
            placed[i] = sg[:-1] + ((sg[-1][0] + dlt, sg[-1][1] - dlt),)
        if solid_only or rng.random() < 0.55:
            fill = gen_solid(rng, allow_special)
        elif grad_pool and rng.random() < 0.5 and any(vb == viewbox for vb, _ in grad_pool):
            fill = rng.choice([g for vb, g in grad_pool if vb == viewbox])  # same user space: the same gradient
        else:
            fill = gen_gradient(rng, bbox_of(placed))
            if grad_pool is not None and fill.units == "userSpaceOnUse":
                grad_pool.append((viewbox, fill))
        op = rng.choice([1.0, 1.0, 1.0, 0.5, 0.8]) if not solid_only or rng.random() < 0.3 else 1.0
        if var_opaque and isinstance(fill, Solid) and fill.css.startswith("var("):
            op = 1.0  # COLRv0 keeps alpha in the palette entry: one index, one alpha
        return Shape(segs_to_d(placed), fill, op)

    def make_item(depth):
        if allow_groups and depth < 2 and rng.random() < 0.25:
            return Group(rng.choice([0.5, 0.25, 0.75]), [make_item(depth + 1) for _ in range(rng.randint(2, 3))])
        return make_shape()

    return Doc(viewbox, [make_item(0) for _ in range(rng.randint(1, max_items))])
