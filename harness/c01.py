"""C01 -- COLRv1 glyph paints the same picture as its source SVG."""
import random
import types
from fractions import Fraction as Fr

from harness import common, e2e
from harness.common import Report, Qlit, afflit, evaluate_corr, listlit, optlit, proof_gate, qlit, report_failure, zlit

IMPORTS = ["Model.Field Model.Affine Model.Fixed Model.ViewBox Model.Compile Corr.Common Corr.C01"]


def run_placement(report, n, rng):
    from nanoemoji import color_glyph as cg
    from picosvg.geometric_types import Rect
    from picosvg.svg_transform import Affine2D

    cases, meta = [], []
    for i in range(n):
        vb = Rect(Fr(rng.choice([0, 0, -10, 13, 151])), Fr(rng.choice([0, 0, 7, -297])), Fr(rng.choice([24, 100, 128, 1024, 37, 250])), Fr(rng.choice([24, 100, 128, 1024, 50, 91])))
        upem = rng.choice([100, 1000, 1024, 2048])
        asc, desc = Fr(rng.choice([upem, round(upem * 0.8), 950])), Fr(rng.choice([0, -round(upem * 0.2), -250]))
        w = Fr(rng.choice([0, upem, 1275, rng.randint(1, 3000)]))
        u = rng.choice([
            Affine2D(Fr(1), Fr(0), Fr(0), Fr(1), Fr(0), Fr(0)),
            Affine2D(Fr(1), Fr(0), Fr(0), Fr(1), Fr(rng.randint(-100, 100)), Fr(rng.randint(-100, 100))),
            Affine2D(Fr(3, 4), Fr(0), Fr(0), Fr(3, 4), Fr(50), Fr(-20)),
            Affine2D(Fr(1), Fr(1, 5), Fr(-1, 4), Fr(1), Fr(7), Fr(9)),
        ])
        f = cg.map_viewbox_to_font_space(vb, asc, desc, w, u)
        o = cg.map_viewbox_to_otsvg_space(vb, asc, desc, w, u)
        cases.append(f"(R4 {qlit(vb.x)} {qlit(vb.y)} {qlit(vb.w)} {qlit(vb.h)}, {qlit(asc)}, {qlit(desc)}, {qlit(w)}, {afflit(u)}, {afflit(f)}, {afflit(o)})")
        meta.append(dict(function="color_glyph.map_viewbox_to_font_space/otsvg_space", view_box=[str(v) for v in vb], ascender=str(asc), descender=str(desc), width=str(w), user=[str(v) for v in u], impl_out=[[str(v) for v in f], [str(v) for v in o]]))
        report.count(("pl", tuple(vb), asc, desc, w, tuple(u)), vb.w != vb.h or tuple(u) != (1, 0, 0, 1, 0, 0))
    evaluate_corr(report, IMPORTS, "Corr.C01", "placement", "pl_case", cases, meta, "pl_agree", "pl_prop")
    report.sample(meta[0])

    cases, meta = [], []
    for i in range(n):
        upem = rng.choice([100, 1000, 1024, 2048, 16])
        asc, desc = rng.choice([upem, round(upem * 0.8), 950]), rng.choice([0, -round(upem * 0.2), -250])
        w = rng.choice([0, upem, 1275, rng.randint(0, 3000)])
        vw, vh = Fr(rng.randint(1, 400), rng.choice([1, 1, 2, 8])), Fr(rng.randint(1, 400), rng.choice([1, 1, 2, 8]))
        if rng.random() < 0.2:  # exact ties of the rounding
            vh = Fr(2 * (asc - desc))
            vw = Fr(rng.randint(1, 50) * 2 + 1)
        cfgl = types.SimpleNamespace(ascender=asc, descender=desc, width=w)
        r = cg._advance_width(Rect(Fr(0), Fr(0), vw, vh), cfgl)
        cases.append(f"({zlit(asc)}, {zlit(desc)}, {zlit(w)}, {Qlit(vw)}, {Qlit(vh)}, {zlit(r)})")
        meta.append(dict(function="color_glyph._advance_width", ascender=asc, descender=desc, width=w, vb_w=str(vw), vb_h=str(vh), impl_out=r))
        report.count(("av", asc, desc, w, vw, vh), r != w)
    evaluate_corr(report, IMPORTS, "Corr.C01", "advance_width", "av_case", cases, meta, "av_agree", "av_prop")


def run_layers(report, n, rng):
    """The real _painted_layers on generated picosvg documents vs the model loop, and vs the
    nesting read independently from the XML."""
    from lxml import etree
    from nanoemoji import color_glyph as cg
    from nanoemoji import paint as P
    from nanoemoji.config import FontConfig
    from picosvg.svg import SVG
    from harness import svggen

    cases, meta = [], []
    cfg = FontConfig(upem=1000, ascender=800, descender=-200, width=1000)
    for i in range(n):
        doc = svggen.gen_doc(rng, None, solid_only=True, max_items=rng.randint(1, 5), allow_special=False)
        pico = SVG.fromstring(doc.to_svg()).topicosvg()
        ids = {}

        def sid(d):
            return ids.setdefault(d, len(ids))

        # independent reading of the nesting
        root = etree.fromstring(pico.tostring().encode())
        ns = "{http://www.w3.org/2000/svg}"

        def src_tree(el):
            out = []
            for ch in el:
                if ch.tag == ns + "path":
                    out.append(f"(L {zlit(sid(ch.get('d')))})")
                elif ch.tag == ns + "g":
                    out.append(f"(Nd {qlit(Fr(ch.get('opacity')))} {listlit(src_tree(ch))})")
            return out

        src = src_tree(root)
        ctx = []
        for c in pico.depth_first():
            d = c.depth()
            if d == 0:
                ctx.append("croot")
            elif c.path == "/svg[0]/defs[0]":
                ctx.append("cdefs")
            elif c.is_shape():
                ctx.append(f"(cshape {d}%nat {zlit(sid(c.shape().as_path().d))})")
            elif c.is_group():
                ctx.append(f"(cgroup {d}%nat {qlit(Fr(c.element.get('opacity', '1')))})")
            # children of defs etc. are not is_shape/is_group: the loop ignores them too

        def impl_tree(p):
            if isinstance(p, P.PaintGlyph):
                return f"(L {zlit(sid(p.glyph))})"
            if isinstance(p, P.PaintComposite):
                return f"(Nd {qlit(Fr(str(p.backdrop.color.alpha)))} {listlit([impl_tree(x) for x in p.source.layers])})"
            raise TypeError(type(p))

        try:
            out = cg._painted_layers("verif", cfg, pico, 1000)
            outl = f"(Some {listlit([impl_tree(p) for p in out])})"
        except AssertionError as e:
            out, outl = None, "None"
        cases.append(f"({listlit(ctx)}, {outl}, {listlit(src)})")
        meta.append(dict(function="color_glyph._painted_layers", svg=pico.tostring(), impl_out=None if out is None else [repr(p)[:200] for p in out]))
        depth = max((c.depth() for c in pico.depth_first()), default=0)
        report.count(("lay", pico.tostring()), depth >= 2)
        report.hist("layers.max_depth", depth)
    evaluate_corr(report, IMPORTS, "Corr.C01", "painted_layers", "lay_case", cases, meta, "lay_agree", "lay_prop", shard=150)
    report.sample(meta[0])


def run_e2e(report, n_fonts, rng, formats=("glyf_colr_1", "cff_colr_1", "cff2_colr_1")):
    from harness import build

    from harness.c06 import CORPUS_SETS

    # directed source sets first (reuse through one-axis scales, mirrors with an offset, gradients with their own
    # transform), at 8 font units per source unit so that the specialised transform paints are emitted
    plans = []
    for name, fmts, tol, texts in CORPUS_SETS:
        srcs = [(build.filename_for((0x1F600 + k,)), t, (0x1F600 + k,)) for k, t in enumerate(texts)]
        for metrics in (dict(upem=1024, ascender=896, descender=-128, width=1024), dict()):
            plans.append((dict(color_format="glyf_colr_1", reuse_tolerance=tol, **metrics), srcs, None))
    # gradient stops as SVG allows them: out of [0, 1] (clamped by SVG) and out of order (each raised to the one before), F26
    odd_stops = ('<svg xmlns="http://www.w3.org/2000/svg" viewBox="0 0 100 100"><defs>'
                 '<linearGradient id="a" gradientUnits="userSpaceOnUse" x1="10" y1="0" x2="90" y2="0"><stop offset="0" stop-color="#ff0000"/>'
                 '<stop offset="0.6" stop-color="#00ff00"/><stop offset="0.3" stop-color="#0000ff"/><stop offset="1" stop-color="#ffff00"/></linearGradient>'
                 '<radialGradient id="b" gradientUnits="userSpaceOnUse" cx="50" cy="70" r="20"><stop offset="-0.5" stop-color="#ff00ff"/>'
                 '<stop offset="0.5" stop-color="#00ffff"/><stop offset="1.5" stop-color="#000000"/></radialGradient></defs>'
                 '<path d="M10,10 L90,10 L90,40 L10,40 Z" fill="url(#a)"/><path d="M30,50 L70,50 L70,90 L30,90 Z" fill="url(#b)"/></svg>')
    plans.append((dict(color_format="glyf_colr_1", upem=1000, ascender=800, descender=-200, width=1000), [(build.filename_for((0x1F600,)), odd_stops, (0x1F600,))], None))
    # the same oracle on fonts built by the real command line (options by flag and by config file, with the
    # values most easily lost on the way to the font-writing step: zeros, false, "reuse off")
    docs, srcs = e2e.gen_sources(rng, n=3)
    plans.append((dict(color_format="glyf_colr_1", upem=1000, ascender=1000, descender=0, width=0, clipbox_quantization=37), srcs, "flag"))
    docs, srcs = e2e.gen_sources(rng, n=2)
    plans.append((dict(color_format="cff_colr_1", output_file="Font.otf", upem=1024, ascender=820, descender=-204, width=0, reuse_tolerance=-1.0, clip_to_viewbox=False), srcs, "file"))
    # a re-run in a build directory that already holds another font (other art, other options), and a build next to
    # another configuration whose sources have the same file names in another directory: the font must be this one's
    from picosvg.svg_transform import Affine2D

    docs, srcs = e2e.gen_sources(rng, n=2)
    docs0, srcs0 = e2e.gen_sources(rng, n=2)
    srcs0 = [(a[0],) + tuple(b[1:]) for a, b in zip(srcs, srcs0)]
    plans.append((dict(color_format="glyf_colr_1", upem=1000, ascender=800, descender=-200, width=0, transform=Affine2D(1, 0, 0, 1, 100, 0)), srcs, "flag",
                  dict(before=(dict(color_format="glyf_colr_1", upem=1000, ascender=800, descender=-200, width=1200), srcs0))))
    plans.append((dict(color_format="glyf_colr_1", upem=1000, ascender=800, descender=-200, width=1000), srcs, "file",
                  dict(companion=(dict(color_format="glyf_colr_1", upem=1000, ascender=800, descender=-200, width=1000), srcs0))))
    for i in range(n_fonts):
        fmt = formats[i % len(formats)]
        cfg_over = e2e.gen_config(rng, fmt)
        docs, srcs = e2e.gen_sources(rng)
        plans.append((cfg_over, srcs, None))
    for i, plan in enumerate(plans):
        cfg_over, srcs, via = plan[:3]
        extra = plan[3] if len(plan) > 3 else {}
        fmt = cfg_over["color_format"]
        try:
            font, cfg, picos, data = build.build_cli(cfg_over, srcs, via, **extra) if via else build.build_inprocess(cfg_over, srcs)
        except Exception as ex:  # a build failure on valid input is a finding of its own
            report_failure(report, f"e2e_build_{i}", dict(kind="e2e", config={k: str(v) for k, v in cfg_over.items()}, sources=[s[1] for s in srcs], error=f"{type(ex).__name__}: {ex}"))
            return
        problems = []
        n = e2e.check_colr_glyphs(font, cfg, srcs, picos, problems)
        report.count(("e2e", fmt, tuple(s[1] for s in srcs), str(sorted(cfg_over.items(), key=lambda kv: kv[0]))), n > 0, n)
        report.hist("e2e.format", fmt)
        report.hist("e2e.reuse_tolerance", cfg_over.get("reuse_tolerance", "default"))
        report.hist("e2e.built_by", ("command line, options by " + via + ("".join(", " + k for k in extra))) if via else "in process")
        report.hist("e2e.user_transform", "yes" if "transform" in cfg_over else "no")
        if problems:
            report_failure(report, f"e2e_{i}", dict(kind="e2e", format=fmt, config={k: str(v) for k, v in cfg_over.items()}, problems=problems[:3], sources=[s[1] for s in srcs]))
            return
    report.sample(dict(kind="e2e", config={k: str(v) for k, v in cfg_over.items()}, source=srcs[0][1]))


def main(argv):
    common.setup_env()
    tier = common.tier_from_args(argv)
    report = Report("C01", tier, common.seed_from_env())
    report.rule = (
        "function level: random viewBoxes/metrics/user transforms as Fractions through the real placement functions; exact "
        "rounding ties for the advance; generated picosvg documents (nested opacity groups) through the real _painted_layers. "
        "End to end: source sets of 1-5 generated SVGs (shared shapes under isometries/scales so cross-glyph reuse fires, "
        "solid/currentColor/palette-variable fills, linear and radial gradients in both unit systems with gradientTransform, "
        "spreadMethod, focal point, stop opacity, nested groups, viewBox origins and aspect ratios 1:4..4:1) x configurations "
        "(upem, ascender/descender, width incl. 0, user transform, reuse tolerance incl. -1, clip box quantisation, glyph names) "
        "x {glyf,cff,cff2}_colr_1, compiled in process, reloaded, and compared layer by layer with the placed source. "
        "Non-trivial = non-square viewBox or user transform (placement), nesting depth >= 2 (layers), every e2e glyph"
    )
    st = proof_gate(report)
    rng = random.Random(report.seed)
    if common.vo_ok("Corr/C01.v"):
        run_placement(report, 300 if tier == "quick" else 5000, rng)
        run_layers(report, 150 if tier == "quick" else 3000, rng)
    run_e2e(report, 24 if tier == "quick" else 600, rng)
    if not st["proof_ok"] and not report.violations:
        report.violation("proof", dict(kind="proof", theorem="Props/C01.v", detail=report.notes.get("proof_failure")), found_input=False)
    report.open_obligations = [
        "compile_pic / migrate_preserves_pic (the composite theorem tree -> picture incl. the reuse rewrite) is not yet a Coq theorem: its ingredients are (place_spec, painted_layers_spec, lin_covariant, rad_uniform_covariant, transformed_sem of C16); the composition is checked end to end",
        "quantisation by ufo2ft/fontTools/cu2qu and picosvg's normalisation are outside the model; the end-to-end oracle measures them against explicit tolerances",
    ]
    report.assumptions = [
        "the picosvg-normalised document (what the picosvg step writes) is taken as the source",
        "the picture abstraction and comparison in harness/picture.py are trusted Python",
    ]
    return report.finish()
