"""C06 -- Shape and gradient reuse never changes what is painted."""
import random
from fractions import Fraction as Fr

from harness import build, common, e2e, picture, svggen
from harness.common import Report, afflit, boollit, evaluate_corr, known_ids, listlit, optlit, proof_gate, report_failure, strlit, zlit

IMPORTS = ["Model.Field Model.Affine Model.Color Model.Paint Model.Fixed Model.Reuse Generated.Consts Corr.Common Corr.C06"]


def path_pool(rng):
    """Paths in font units: a few base shapes, each with congruent / similar / unrelated copies."""
    pool = []
    for _ in range(rng.randint(2, 4)):
        kind = rng.choice(svggen.SHAPE_KINDS)
        base = svggen.base_shape(rng, kind, 1.0)
        for _ in range(rng.randint(1, 4)):
            iso = svggen.isometry(rng)
            size = rng.choice([40, 200, 200, 333.3, 12])
            t = tuple(v * size for v in iso[:4]) + (rng.uniform(0, 900), rng.uniform(-100, 700))
            if rng.random() < 0.25:
                t = (t[0], t[1], t[2] * 0.5, t[3] * 0.5, t[4], t[5])
            if rng.random() < 0.1:
                t = tuple(v * 200 for v in t[:4]) + (t[4] * 40, t[5])  # huge: affine may overflow Fixed
            segs = svggen.apply_affine(t, base)
            if rng.random() < 0.15:
                sg = segs[1]
                segs[1] = sg[:-1] + ((sg[-1][0] + rng.choice([0.02, 0.3, 3.0]), sg[-1][1]),)
            pool.append(svggen.segs_to_d(segs))
    return pool


def run_cache(report, n, rng):
    import nanoemoji.glyph_reuse as gr

    real_norm, real_aff = gr.normalize, gr.affine_between
    cases, meta = [], []
    try:
        for i in range(n):
            tol = rng.choice([0.1, 0.1, 0.5, 0.01, -1, 1.0])
            pids, nids = {}, {}
            ntab, atab = {}, {}

            def pid(d):
                return pids.setdefault(d, len(pids))

            def norm_wrap(path, tolerance):
                r = real_norm(path, tolerance)
                ntab[pid(path.d)] = nids.setdefault(r.d, len(nids))
                return r

            def aff_wrap(a, b, tolerance):
                r = real_aff(a, b, tolerance)
                atab[(pid(a.d), pid(b.d))] = None if r is None else tuple(Fr(v) for v in r)
                return r

            gr.normalize, gr.affine_between = norm_wrap, aff_wrap
            cache = gr.GlyphReuseCache(tol)
            pool = path_pool(rng)
            ops, outs, trace = [], [], []
            for k in range(rng.randint(3, 12)):
                d = rng.choice(pool)
                r = cache.try_reuse(d)
                ops.append(f"(OpTry {zlit(pid(d))})")
                outs.append("(RTry None)" if r is None else f"(RTry (Some ({strlit(r.glyph_name)}, {afflit(tuple(Fr(v) for v in r.transform))})))")
                trace.append(["try_reuse", d, None if r is None else [r.glyph_name, list(map(float, r.transform))]])
                if r is None or rng.random() < 0.1:
                    name = f"glyph{k}"
                    cache.add_glyph(name, d)
                    ops.append(f"(OpAdd {strlit(name)} {zlit(pid(d))})")
                    outs.append("RAdd")
                    trace.append(["add_glyph", name, d])
            if tol == -1:
                # normalize is not called when disabled; the model's table lookup falls back to -1-p
                ntab = {}
            ntl = listlit([f"({zlit(a)}, {zlit(b)})" for a, b in ntab.items()])
            atl = listlit([f"({zlit(a)}, {zlit(b)}, {optlit(v, afflit)})" for (a, b), v in atab.items()])
            cases.append(f"({boollit(tol == -1)}, {ntl}, {atl}, {listlit(ops)}, {listlit(outs)})")
            meta.append(dict(function="GlyphReuseCache.try_reuse/add_glyph", reuse_tolerance=tol, trace=trace))
            hits = sum(1 for t in trace if t[0] == "try_reuse" and t[2] is not None)
            report.count(("ru", tol, tuple(map(str, trace))), hits > 0)
            report.hist("cache.hits_per_sequence", min(hits, 5))
            report.hist("cache.tolerance", tol)
    finally:
        gr.normalize, gr.affine_between = real_norm, real_aff
    evaluate_corr(report, IMPORTS, "Corr.C06", "glyph_reuse_cache", "ru_case", cases, meta, "ru_agree", "ru_prop", shard=100)
    report.sample(meta[0])


# minimised past failures: they run first on every check
CORPUS = [
    # F11 (fixed d5dd814): inside an opacity group a reused shape sits one level deeper; COLRv0 layers must keep paint order
    ("F11", ["glyf_colr_0", "cff_colr_0", "glyf_colr_1"], 0.1,
     '<svg xmlns="http://www.w3.org/2000/svg" viewBox="0 0 100 100"><g opacity="0.5">'
     '<path d="M10,10 L50,10 L50,50 L10,50 Z" fill="red"/><path d="M30,30 L70,30 L70,70 L30,70 Z" fill="green"/>'
     '<path d="M50,50 L90,50 L70,90 Z" fill="blue"/></g></svg>'),
]


SVG_HEAD = '<svg xmlns="http://www.w3.org/2000/svg" viewBox="0 0 128 128">'
CORPUS_SETS = [
    # a reuse transform that reflects/scales one axis and translates along the other (scale-around-centre candidates)
    ("axis-scale-plus-shift", ["glyf_colr_1", "glyf_colr_0", "picosvg"], 0.1, [
        SVG_HEAD + '<path d="M20,60 L40,20 L60,60 L45,60 L45,100 L35,100 L35,60 Z" fill="#2e7d32"/>'
        '<path d="M70,60 L90,100 L110,60 L95,60 L95,20 L85,20 L85,60 Z" fill="#c62828"/>'
        '<path d="M70,104 L100,104 L100,124 L80,124 L80,114 L70,114 Z" fill="#6a1b9a"/></svg>',
        SVG_HEAD + '<path d="M20,44 L65,44 L65,64 L35,64 L35,54 L20,54 Z" fill="#1565c0"/>'
        '<path d="M100,20 L100,50 L80,50 L80,30 L70,30 L70,20 Z" fill="#ff8f00"/></svg>',
    ]),
    # a tiny copy of a big shape carrying a glyph-wide gradient: the compensated gradient does not fit int16 and the
    # fallback (a wrapping transform) must still paint the same colours
    ("tiny-copy-with-gradient", ["glyf_colr_1", "picosvg"], 0.1, [
        '<svg xmlns="http://www.w3.org/2000/svg" viewBox="0 0 100 100"><defs><linearGradient id="g" gradientUnits="userSpaceOnUse" x1="0" y1="0" x2="100" y2="20">'
        '<stop offset="0" stop-color="#ff0000"/><stop offset="1" stop-color="#0000ff"/></linearGradient></defs>'
        '<path d="M10,90 L90,90 L50,10 Z" fill="#00aa00"/><path d="M5,95 L7,95 L6,93 Z" fill="url(#g)"/></svg>',
    ]),
    # a translucent black donor (no fill attribute, only opacity) reused by an opaque copy in the same glyph: the <use>
    # must not inherit the donor's opacity
    ("translucent-black-donor", ["picosvg", "glyf_colr_1", "glyf_colr_0"], 0.1, [
        SVG_HEAD + '<path d="M30,40 L90,40 L100,100 L20,100 Z" fill="black" opacity="0.3"/>'
        '<path d="M24,34 L84,34 L94,94 L14,94 Z" fill="red"/><path d="M50,10 L60,10 L60,20 L50,20 Z" fill="blue" opacity="0.5"/></svg>',
    ]),
    # two different donors reused under one and the same transform in one glyph (mirror images, copies moved alike)
    ("two-donors-one-transform", ["glyf_colr_0", "glyf_colr_1", "picosvg"], 0.1, [
        SVG_HEAD + '<path d="M30,50 L44,46 L50,60 L36,66 Z" fill="#222222"/><path d="M28,36 L50,30 L52,36 Z" fill="#884400"/>'
        '<path d="M98,50 L84,46 L78,60 L92,66 Z" fill="#222222"/><path d="M100,36 L78,30 L76,36 Z" fill="#884400"/></svg>',
        SVG_HEAD + '<path d="M30,20 L40,20 L38,80 L32,80 Z" fill="red"/><path d="M30,90 L40,90 L40,100 L30,100 Z" fill="red"/>'
        '<path d="M70,20 L80,20 L78,80 L72,80 Z" fill="blue"/><path d="M70,90 L80,90 L80,100 L70,100 Z" fill="blue"/></svg>',
    ]),
    # one and the same outline at one and the same place in two glyphs, filled by a bounding-box radial gradient on a
    # non-square shape (the gradient keeps a wrapping transform; the reuse transform is the identity)
    ("same-shape-same-place-gradient", ["glyf_colr_1", "picosvg"], 0.1, [
        SVG_HEAD + '<defs><radialGradient id="g"><stop offset="0" stop-color="#ffff00"/><stop offset="1" stop-color="#ff0000"/></radialGradient></defs>'
        '<ellipse cx="64" cy="80" rx="56" ry="24" fill="url(#g)"/></svg>',
        SVG_HEAD + '<defs><radialGradient id="g"><stop offset="0" stop-color="#ffff00"/><stop offset="1" stop-color="#ff0000"/></radialGradient></defs>'
        '<path d="M10,10 L40,10 L40,30 L10,30 Z" fill="#0000ff"/><ellipse cx="64" cy="80" rx="56" ry="24" fill="url(#g)"/></svg>',
    ]),
    # rectangles of different aspect ratio (one outline under a non-uniform scale) with diagonal gradients
    ("diagonal-gradient-nonuniform-reuse", ["picosvg", "glyf_colr_1"], 0.1, [
        SVG_HEAD + '<defs><linearGradient id="a" gradientUnits="userSpaceOnUse" x1="8" y1="8" x2="48" y2="28"><stop offset="0" stop-color="#ff0000"/><stop offset="1" stop-color="#0000ff"/></linearGradient>'
        '<linearGradient id="b" gradientUnits="userSpaceOnUse" x1="8" y1="40" x2="118" y2="120"><stop offset="0" stop-color="#00ff00"/><stop offset="1" stop-color="#ff00ff"/></linearGradient></defs>'
        '<rect x="8" y="8" width="40" height="20" fill="url(#a)"/><rect x="8" y="40" width="110" height="80" fill="url(#b)"/></svg>',
    ]),
    # the same gradient-filled disc in two glyphs, one of which also has a gradient of its own: with reuse the two share a
    # document, without it they do not; every document must define the gradients it references, under ids of its own
    ("shared-disc-with-gradient", ["picosvg", "glyf_colr_1"], 0.1, [
        SVG_HEAD + '<defs><radialGradient id="face" gradientUnits="userSpaceOnUse" cx="64" cy="64" r="50"><stop offset="0" stop-color="#ffff00"/><stop offset="1" stop-color="#ff8800"/></radialGradient></defs>'
        '<circle cx="64" cy="64" r="50" fill="url(#face)"/></svg>',
        SVG_HEAD + '<defs><radialGradient id="face" gradientUnits="userSpaceOnUse" cx="64" cy="64" r="50"><stop offset="0" stop-color="#ffff00"/><stop offset="1" stop-color="#ff8800"/></radialGradient>'
        '<linearGradient id="bg" gradientUnits="userSpaceOnUse" x1="4" y1="4" x2="124" y2="124"><stop offset="0" stop-color="#00aa00"/><stop offset="1" stop-color="#0000aa"/></linearGradient></defs>'
        '<path d="M4,4 L124,4 L124,124 L4,124 Z" fill="url(#bg)"/><circle cx="64" cy="64" r="50" fill="url(#face)"/></svg>',
    ]),
    # round 7 (interactions and state): one gradient DEFINITION painted on several shapes. A bounding-box gradient takes
    # its geometry from each shape's own box (a per-glyph memo keyed by the fill alone gets the second shape wrong); a
    # user-space gradient under three copies of one outline at three places is moved into the donor's frame once per copy
    # (the second reuse is the cache hit)
    ("one-gradient-many-shapes", ["glyf_colr_1", "picosvg"], 0.1, [
        SVG_HEAD + '<defs><linearGradient id="g"><stop offset="0" stop-color="#ff0000"/><stop offset="1" stop-color="#0000ff"/></linearGradient>'
        '<radialGradient id="r"><stop offset="0" stop-color="#ffffff"/><stop offset="1" stop-color="#006600"/></radialGradient></defs>'
        '<path d="M8,8 L48,8 L48,28 L8,28 Z" fill="url(#g)"/><path d="M60,8 L120,8 L120,58 L60,58 Z" fill="url(#g)"/>'
        '<path d="M10,70 L50,70 L50,110 L10,110 Z" fill="url(#r)"/><path d="M60,66 L124,66 L124,122 L60,122 Z" fill="url(#r)"/></svg>',
        SVG_HEAD + '<defs><linearGradient id="u" gradientUnits="userSpaceOnUse" x1="0" y1="0" x2="128" y2="0"><stop offset="0" stop-color="#ff0000"/><stop offset="1" stop-color="#0000ff"/></linearGradient></defs>'
        '<path d="M10,20 L38,20 L38,48 L10,48 Z" fill="url(#u)"/><path d="M50,40 L78,40 L78,68 L50,68 Z" fill="url(#u)"/><path d="M90,60 L118,60 L118,88 L90,88 Z" fill="url(#u)"/></svg>',
    ]),
    # bars of one width on one baseline: one outline under a one-axis scale AND a translation along the other axis
    ("bars", ["glyf_colr_0", "glyf_colr_1", "picosvg"], 0.1, [
        SVG_HEAD + '<path d="M16,60 L32,60 L32,100 L16,100 Z" fill="#c62828"/><path d="M48,40 L64,40 L64,100 L48,100 Z" fill="#2e7d32"/>'
        '<path d="M80,28 L96,28 L96,100 L80,100 Z" fill="#1565c0"/></svg>',
        SVG_HEAD + '<path d="M20,16 L60,16 L60,32 L20,32 Z" fill="#6a1b9a"/><path d="M20,48 L80,48 L80,64 L20,64 Z" fill="#ff8f00"/>'
        '<path d="M20,80 L92,80 L92,96 L20,96 Z" fill="#00838f"/></svg>',
    ]),
    # a glyph that shares nothing, between two glyphs that share a shape (OT-SVG regroups the sharers; the loner's glyph
    # id moves)
    ("loner-between-sharers", ["picosvg", "glyf_colr_1"], 0.1, [
        SVG_HEAD + '<path d="M20,20 L60,20 L60,60 L20,60 Z" fill="#ff0000"/></svg>',
        SVG_HEAD + '<path d="M64,10 L118,118 L10,118 Z" fill="#00aa00"/></svg>',
        SVG_HEAD + '<path d="M50,56 L90,56 L90,96 L50,96 Z" fill="#0000ff"/></svg>',
        SVG_HEAD + '<path d="M30,30 L100,40 L64,100 Z" fill="#444444"/></svg>',
    ]),
    # one outline at one place in two glyphs, filled by a user-space radial gradient with a non-uniform gradientTransform:
    # the second use is a cache hit with the identity as reuse transform and must keep the gradient's residual transform
    ("second-use-squashed-radial", ["glyf_colr_1", "picosvg"], 0.1, [
        SVG_HEAD + '<defs><radialGradient id="q" gradientUnits="userSpaceOnUse" cx="64" cy="128" r="60" gradientTransform="scale(1 .5)"><stop offset="0" stop-color="#ffff00"/><stop offset="1" stop-color="#aa0000"/></radialGradient></defs>'
        '<path d="M10,30 L118,30 L118,98 L10,98 Z" fill="url(#q)"/></svg>',
        SVG_HEAD + '<defs><radialGradient id="q" gradientUnits="userSpaceOnUse" cx="64" cy="128" r="60" gradientTransform="scale(1 .5)"><stop offset="0" stop-color="#ffff00"/><stop offset="1" stop-color="#aa0000"/></radialGradient></defs>'
        '<path d="M10,30 L118,30 L118,98 L10,98 Z" fill="url(#q)"/><path d="M4,4 L20,4 L20,20 L4,20 Z" fill="#0000ff"/></svg>',
    ]),
    # two radial gradients in one glyph with the same circle and stops, differing only in a non-uniform gradientTransform
    # about the viewBox origin (an origin-centred drawing): two definitions, not one
    ("radials-differing-in-transform-only", ["picosvg", "glyf_colr_1"], 0.1, [
        '<svg xmlns="http://www.w3.org/2000/svg" viewBox="-64 -64 128 128"><defs>'
        '<radialGradient id="a" gradientUnits="userSpaceOnUse" cx="0" cy="0" r="56" gradientTransform="scale(1 .3)"><stop offset="0" stop-color="#ffffff"/><stop offset="1" stop-color="#cc0000"/></radialGradient>'
        '<radialGradient id="b" gradientUnits="userSpaceOnUse" cx="0" cy="0" r="56" gradientTransform="scale(.3 1)"><stop offset="0" stop-color="#ffffff"/><stop offset="1" stop-color="#cc0000"/></radialGradient></defs>'
        '<path d="M-60,-20 L60,-20 L60,20 L-60,20 Z" fill="url(#a)"/><path d="M-20,-60 L20,-60 L0,-24 Z" fill="url(#b)"/><path d="M-20,60 L20,60 L0,24 Z" fill="url(#b)"/></svg>',
    ]),
    # a palette variable together with an opacity (each alone is everyday), next to the same colour spelled plainly
    ("palette-variable-with-opacity", ["glyf_colr_0", "glyf_colr_1"], 0.1, [
        SVG_HEAD + '<path d="M10,10 L60,10 L60,60 L10,60 Z" fill="var(--color1, #202020)" opacity="0.5"/><path d="M70,10 L120,10 L120,60 L70,60 Z" fill="var(--color2, #ff0000)"/>'
        '<path d="M10,70 L60,70 L60,120 L10,120 Z" fill="#202020" opacity="0.5"/><path d="M70,70 L120,70 L100,120 Z" fill="#00aa00"/></svg>',
    ]),
    # reused shapes that carry gradients with their own (non-uniform) gradientTransform, moved and scaled
    ("gradient-on-reused-shape", ["glyf_colr_1", "picosvg"], 0.1, [
        SVG_HEAD + '<defs><radialGradient id="a" gradientUnits="userSpaceOnUse" cx="40" cy="70" r="14" gradientTransform="matrix(1 0 0 0.5 0 35)">'
        '<stop offset="0" stop-color="#ff0000"/><stop offset="1" stop-color="#ffcc00"/></radialGradient>'
        '<radialGradient id="b" gradientUnits="userSpaceOnUse" cx="90" cy="70" r="14" gradientTransform="matrix(1 0 0 0.5 0 35)">'
        '<stop offset="0" stop-color="#ff0000"/><stop offset="1" stop-color="#ffcc00"/></radialGradient>'
        '<linearGradient id="c" gradientUnits="userSpaceOnUse" x1="20" y1="10" x2="60" y2="30" gradientTransform="matrix(1 0.3 0 1 0 -6)">'
        '<stop offset="0" stop-color="#0000ff"/><stop offset="1" stop-color="#00ff00"/></linearGradient></defs>'
        '<path d="M54,70 C54,77.7 47.7,84 40,84 C32.3,84 26,77.7 26,70 C26,62.3 32.3,56 40,56 C47.7,56 54,62.3 54,70 Z" fill="url(#a)"/>'
        '<path d="M104,70 C104,77.7 97.7,84 90,84 C82.3,84 76,77.7 76,70 C76,62.3 82.3,56 90,56 C97.7,56 104,62.3 104,70 Z" fill="url(#b)"/>'
        '<path d="M20,10 L60,10 L60,30 L20,30 Z" fill="url(#c)"/></svg>',
        SVG_HEAD + '<defs><radialGradient id="a" gradientUnits="userSpaceOnUse" cx="64" cy="64" r="28" gradientTransform="matrix(0.5 0 0 1 32 0)">'
        '<stop offset="0" stop-color="#ffffff"/><stop offset="1" stop-color="#123456"/></radialGradient></defs>'
        '<path d="M92,64 C92,79.4 79.4,92 64,92 C48.6,92 36,79.4 36,64 C36,48.6 48.6,36 64,36 C79.4,36 92,48.6 92,64 Z" fill="url(#a)"/></svg>',
    ]),
]


def clips_to_empty_path(svg_text):
    """known finding F18: picosvg's clip_to_viewbox leaves a <path> without d"""
    from picosvg.svg import SVG

    try:
        p = SVG.fromstring(svg_text).topicosvg()
        p.clip_to_viewbox(inplace=True)
        return any(el.get("d") in (None, "") for el in p.svg_root.iter("{http://www.w3.org/2000/svg}path"))
    except Exception:
        return False


def glyph_picture(font, g):
    """the picture a colour glyph paints, from COLR or from its OT-SVG document"""
    if "COLR" in font:
        return picture.colr_picture(font, g)
    from harness.c02 import svg_docs

    gid = font.getGlyphID(g)
    covering = [d for d in svg_docs(font) if d[1] <= gid <= d[2]]
    if not covering:
        return [], []  # a glyph that paints nothing has no document; the comparison sees an empty picture
    if len(covering) != 1:
        return [], [f"{len(covering)} SVG documents cover glyph {g}"]
    return picture.otsvg_picture(covering[0][0], gid)


def check_pair(report, tag, fmt, tol, over, srcs, via=None):
    """-> False if a failure was reported.  via: None = in process, "flag"/"file" = the real command line"""
    case = dict(kind="e2e-pair", format=fmt, reuse_tolerance=tol, config={k: str(v) for k, v in over.items()}, sources=[s[1] for s in srcs])
    outcomes = {}
    for which, ov in (("on", over), ("off", dict(over, reuse_tolerance=-1.0))):
        try:
            outcomes[which] = build.build_cli(ov, srcs, via) if via else build.build_inprocess(ov, srcs)
        except Exception as ex:
            outcomes[which] = ex
    errs = {k: v for k, v in outcomes.items() if isinstance(v, Exception)}
    if errs:
        ex = next(iter(errs.values()))
        case["error"] = {k: f"{type(v).__name__}: {v}" for k, v in errs.items()}
        if len(errs) == 2 and fmt.endswith("_0") and all("already maps to" in str(v) and "can't also map to" in str(v) for v in errs.values()):
            # COLRv0 keeps alpha in the palette: one palette variable met with two alphas is refused (C15/C17), with
            # reuse on and off alike; not a pair this property speaks about
            report.hist("pairs.outcome", "rejected: one palette variable with two alphas in COLRv0")
            return True
        f18 = len(errs) == 2 and ("look like a path" in str(ex) or isinstance(ex, ZeroDivisionError)) and any(clips_to_empty_path(s[1]) for s in srcs)
        return not report_failure(report, f"pair_build_{tag}", case, "F18-empty-path-after-clip" if f18 else None)
    on_font, cfg, picos, _ = outcomes["on"]
    off_font, cfg_off, _, _ = outcomes["off"]
    report.hist("pairs.format", fmt)
    report.hist("pairs.tolerance", tol)
    reused = 0
    for (fn, text, cps), pico in zip(srcs, picos):
        g_on, g_off = e2e.glyph_for(on_font, cps), e2e.glyph_for(off_font, cps)
        p_on, pr1 = glyph_picture(on_font, g_on)
        p_off, pr2 = glyph_picture(off_font, g_off)
        vb = e2e.viewbox_of_pico(pico)
        base, extra = e2e.eps_for(cfg, vb)
        su = max(1.0, picture.anorm(e2e.user_affine(cfg)))
        probs = pr1 + pr2 + picture.compare_pictures(p_off, p_on, eps=2 * base * su, extra_eps=extra * su, palette_check="COLR" in on_font)
        reused += sum(1 for it, _ in picture.flatten(p_on) if len(it) > 4 and abs(it[4] - 1.0) > 1e-9)
        report.count(("pair", fmt, tol, text), True)
        if probs:
            case.update(source=fn, problems=probs[:4])
            report_failure(report, f"pair_{tag}", case)
            return False
    report.hist("pairs.layers_under_a_reuse_transform", min(reused, 6))
    return True


def run_pairs(report, n, rng):
    for name, fmts, tol, text in CORPUS:
        for fmt in fmts:
            report.hist("pairs.kind", "corpus " + name)
            if not check_pair(report, f"{name}_{fmt}", fmt, tol, dict(color_format=fmt, reuse_tolerance=tol), [(build.filename_for((0x1F600,)), text, (0x1F600,))]):
                return
    for name, fmts, tol, texts in CORPUS_SETS:
        for fmt in fmts:
            report.hist("pairs.kind", "corpus " + name)
            srcs = [(build.filename_for((0x1F600 + k,)), t, (0x1F600 + k,)) for k, t in enumerate(texts)]
            # 8 font units per source unit: reuse transforms are integral, so the specialised paints are emitted
            for metrics in (dict(upem=1024, ascender=896, descender=-128, width=1024), dict()):
                if not check_pair(report, f"{name}_{fmt}", fmt, tol, dict(color_format=fmt, reuse_tolerance=tol, **metrics), srcs):
                    return
    # the same pair through the real command line: "reuse off" given by flag and by file must build, and match
    docs, srcs = e2e.gen_sources(rng, n=3, stress=True)
    for fmt, via in (("glyf_colr_1", "flag"), ("picosvg", "file")):
        report.hist("pairs.kind", "command line, options by " + via)
        if not check_pair(report, f"cli_{fmt}", fmt, 0.1, dict(color_format=fmt, reuse_tolerance=0.1, upem=1000, ascender=800, descender=-200, width=1000), srcs, via=via):
            return
    formats = ["glyf_colr_1", "glyf_colr_0", "glyf_colr_1", "cff_colr_1", "picosvg"]
    for i in range(n):
        fmt = formats[i % len(formats)]
        tol = rng.choice([0.01, 0.1, 0.1, 0.5, 1.0])
        over = e2e.gen_config(rng, fmt, reuse=tol)
        docs, srcs = e2e.gen_sources(rng, n=rng.randint(2, 5), stress=True, var_opaque=fmt.endswith("_0"))
        if not check_pair(report, str(i), fmt, tol, over, srcs):
            return
    report.sample(dict(kind="e2e-pair", format=fmt, reuse_tolerance=tol, source=srcs[0][1]))

    # "the documented negative tolerance": the flag's help says any negative value disables reuse (F30, fixed: only -1 did,
    # every other negative value failed with ZeroDivisionError). Through the real command line, in each format: the
    # build succeeds and stores every copy separately, exactly like -1
    _, nsrcs = e2e.gen_sources(random.Random(11), n=2, stress=True)
    for fmt, neg in (("glyf_colr_1", -0.5), ("picosvg", -2.0), ("glyf_colr_0", -0.001)):
        over = dict(color_format=fmt, upem=1000, ascender=800, descender=-200, width=1000)
        case = dict(kind="e2e-pair", format=fmt, reuse_tolerance=neg, sources=[s[1] for s in nsrcs])
        report.hist("pairs.kind", "negative tolerance other than -1")
        try:
            f_neg, cfg, picos, _ = build.build_cli(dict(over, reuse_tolerance=neg), nsrcs, "flag")
            f_off, _, _, _ = build.build_cli(dict(over, reuse_tolerance=-1.0), nsrcs, "file")
        except Exception as ex:
            case["error"] = f"{type(ex).__name__}: {ex}"[-1500:]
            report_failure(report, f"negative_tolerance_{fmt}", case)
            return
        report.count(("negative", fmt, neg), True)
        for (fn, text, cps), pico in zip(nsrcs, picos):
            p_neg, pr1 = glyph_picture(f_neg, e2e.glyph_for(f_neg, cps))
            p_off, pr2 = glyph_picture(f_off, e2e.glyph_for(f_off, cps))
            probs = pr1 + pr2 + picture.compare_pictures(p_off, p_neg, eps=0.01, extra_eps=0.0, palette_check="COLR" in f_neg)
            under = sum(1 for it, _ in picture.flatten(p_neg) if len(it) > 4 and abs(it[4] - 1.0) > 1e-9)
            if under:
                probs.append(f"{under} layer(s) drawn through a reuse transform although reuse is disabled")
            if probs:
                case.update(source=fn, problems=probs[:4])
                report_failure(report, f"negative_tolerance_{fmt}", case)
                return
    # known finding: tolerance exactly 0 is non-negative but crashes in picosvg's normalize
    docs, srcs = e2e.gen_sources(random.Random(7), n=2)
    try:
        build.build_inprocess(dict(color_format="glyf_colr_1", reuse_tolerance=0.0), srcs)
    except ZeroDivisionError as ex:
        report_failure(report, "tolerance_zero", dict(kind="e2e", reuse_tolerance=0.0, error=repr(ex), sources=[s[1] for s in srcs]), "F10-tolerance-zero")
    except Exception as ex:
        report_failure(report, "tolerance_zero", dict(kind="e2e", reuse_tolerance=0.0, error=repr(ex), sources=[s[1] for s in srcs]))


F18_WITNESS = ('<svg xmlns="http://www.w3.org/2000/svg" viewBox="0 7 100 100"><path d="M179.231,137 C179.231,168.313 164.955,181.783 140,181.783 '
               'C113.848,181.783 99.632,163.681 99.632,137 C99.632,118.084 119.479,92.687 140,92.687 C156.484,92.687 179.231,116.804 179.231,137 Z" fill="red"/>'
               '<path d="M10,10 L40,10 L40,40 L10,40 Z" fill="blue"/></svg>')


def run_f18_witness(report):
    srcs = [(build.filename_for((0x1F600,)), F18_WITNESS, (0x1F600,))]
    for tol in (0.1, -1.0):
        try:
            build.build_inprocess(dict(color_format="glyf_colr_1", reuse_tolerance=tol), srcs)
        except Exception as ex:
            fid = "F18-empty-path-after-clip" if "look like a path" in str(ex) and clips_to_empty_path(F18_WITNESS) else None
            report_failure(report, "grazing_shape", dict(kind="e2e", reuse_tolerance=tol, error=repr(ex), sources=[F18_WITNESS]), fid)
            return


F24_WITNESS = ('<svg xmlns="http://www.w3.org/2000/svg" viewBox="0 0 128 128"><path d="M60,60 L62.4,60 L62.4,62.4 L60,62.4 Z" fill="red"/>'
               '<path d="M40,40 L88,40 L88,88 L40,88 Z" fill="blue"/></svg>')


def run_tiny_donor_witness(report):
    """a tiny shape first, its 20x copy later: the copy is drawn from the tiny outline as stored (whole font units), so
    the donor's rounding is seen through the reuse scale (C01 words the bound: "outline quantisation ... scaled by any
    reuse transform").  The copy must stay within that bound: tolerance + one unit + half a unit times the scale."""
    srcs = [(build.filename_for((0x1F600,)), F24_WITNESS, (0x1F600,))]
    boxes = {}
    for tol in (0.1, -1.0):
        try:
            font, cfg, picos, _ = build.build_inprocess(dict(color_format="glyf_colr_1", reuse_tolerance=tol), srcs)
        except Exception as ex:
            report_failure(report, "tiny_donor_build", dict(kind="e2e", reuse_tolerance=tol, error=repr(ex), sources=[F24_WITNESS]))
            return
        pic, probs = glyph_picture(font, e2e.glyph_for(font, (0x1F600,)))
        items = [it for it, _ in picture.flatten(pic)]
        if probs or len(items) != 2:
            report_failure(report, "tiny_donor_layers", dict(kind="e2e", reuse_tolerance=tol, problems=probs, layers=len(items), sources=[F24_WITNESS]))
            return
        boxes[tol] = (picture.polys_bbox(items[1][1]), items[1][4] if len(items[1]) > 4 else 1.0)
    report.count(("tiny-donor-witness",), True)
    (b_on, scale), (b_off, _) = boxes[0.1], boxes[-1.0]
    worst = max(abs(a - b) for a, b in zip(b_on, b_off))
    unit = 1200 / 128  # font units per source unit at the default metrics
    report.notes["tiny_donor.reuse_scale"] = scale
    report.notes["tiny_donor.worst_edge_difference"] = worst
    if worst > 0.5 * scale + 0.1 * unit + 1.0:
        report_failure(report, "tiny_donor", dict(kind="e2e-pair", format="glyf_colr_1", reuse_tolerance=0.1, sources=[F24_WITNESS], reuse_scale=scale,
                                                  bounds_with_reuse=list(b_on), bounds_without_reuse=list(b_off), worst_edge_difference=worst,
                                                  problem="a layer drawn through a reuse transform is displaced by more than tolerance + quantisation scaled by the reuse transform"))


def main(argv):
    common.setup_env()
    tier = common.tier_from_args(argv)
    report = Report("C06", tier, common.seed_from_env())
    report.rule = (
        "cache: random try_reuse/add_glyph sequences on the real GlyphReuseCache over pools of congruent, similar, perturbed "
        "and huge paths, picosvg's normalize/affine_between recorded as oracle tables for the model; pairs: the same "
        "generated sources (recurring shapes under isometries, non-uniform scale, large translation, near misses, tiny "
        "donors, gradients on reused shapes) built with reuse on (tolerance 0.01..1) and off (-1) in glyf_colr_1/0 and "
        "cff_colr_1, compared glyph by glyph, layer by layer; non-trivial = at least one reuse hit"
    )
    st = proof_gate(report)
    rng = random.Random(report.seed)
    if common.vo_ok("Corr/C06.v"):
        run_cache(report, 120 if tier == "quick" else 2500, rng)
    run_pairs(report, 16 if tier == "quick" else 400, rng)
    run_f18_witness(report)
    run_tiny_donor_witness(report)
    if not st["proof_ok"] and not report.violations:
        report.violation("proof", dict(kind="proof", theorem="Props/C06.v", detail=report.notes.get("proof_failure")), found_input=False)
    report.open_obligations = [
        "the recogniser's contract (affine_between result maps the donor onto the path within tolerance) is picosvg's; it is checked on every pair by the picture comparison, not proved",
        "OT-SVG pairs are compared by the C02 oracle",
    ]
    return report.finish()
