"""Small synthetic fonts built offline with fontTools (FontBuilder + feaLib + colorLib)."""
import io

from fontTools.fontBuilder import FontBuilder
from fontTools.pens.ttGlyphPen import TTGlyphPen
from fontTools.ttLib import TTFont

GLYPHS = [".notdef", "space", "a", "b", "c", "d", "e", "f", "f_f", "f_i", "i", "o", "x", "y", "z",
          "acute", "grave", "ring", "dotbelow", "a.alt", "b.alt", "one", "two", "beh", "meem"]

FEA = """
languagesystem DFLT dflt;
@marks = [acute grave ring dotbelow];
@top = [acute grave ring];
@lc = [a b c d e];
@alts = [a.alt b.alt];
table GDEF {
  GlyphClassDef [a b c d e f i o x y z one two a.alt b.alt beh meem], [f_f f_i], [acute grave ring dotbelow], ;
  Attach a 1;
  Attach e 2 3;
  LigatureCaretByPos f_f 400;
  LigatureCaretByPos f_i 350 10;
} GDEF;
feature ss01 { sub a by a.alt; sub b by b.alt; } ss01;
feature ss02 { sub [c d e] by [d e x]; } ss02;
feature ccmp { sub f_f by f f; sub f_i by f i; } ccmp;
feature aalt { sub a from [a.alt b]; sub o from [x y z]; } aalt;
feature liga { sub f f by f_f; sub f i by f_i; sub a b c by x; sub z y by o; } liga;
feature calt {
  sub a' b c by y;
  sub x y' z by a.alt;
  sub [a b]' [c d] by one;
} calt;
lookup CTX1 { sub o by two; } CTX1;
feature ctx1 { sub a o' lookup CTX1 b; sub d o' lookup CTX1; sub one' lookup CTX1 two' e; } ctx1;
feature rvrs { rsub a [b c]' d by [x y]; rsub one' two by z; } rvrs;
feature kern {
  pos a b -30; pos a c -10; pos b a 25; pos x [y z] -15; pos o o 5;
  pos @lc @lc -7;
  pos one <10 0 20 0>;
  pos [two z] <1 2 3 4>;
  pos e <5 0 0 0>; pos d <6 0 0 0>;
  pos a' 50 x' -20 y;
} kern;
# two lookups with one and the same content, and two first glyphs with one and the same PairSet: tables that are
# equal in structure are still separate tables (each has to be reordered)
feature dst1 { pos d e -11; pos i x 12; pos i y 12; pos o x 12; pos o y 12; } dst1;
feature dst2 { pos d e -11; pos i x 12; pos i y 12; pos o x 12; pos o y 12; } dst2;
feature curs { pos cursive beh <anchor 10 0> <anchor 300 0>; pos cursive meem <anchor 20 5> <anchor 250 -3>; pos cursive z <anchor NULL> <anchor 100 0>; } curs;
markClass acute <anchor 100 500> @TOP;
markClass grave <anchor 120 500> @TOP;
markClass ring <anchor 90 480> @TOP;
markClass dotbelow <anchor 95 -20> @BOT;
feature mark {
  pos base a <anchor 250 450> mark @TOP <anchor 240 -10> mark @BOT;
  pos base e <anchor 260 455> mark @TOP <anchor 255 -12> mark @BOT;
  pos base o <anchor 270 460> mark @TOP;
  pos base b <anchor 200 700> mark @TOP;
  pos ligature f_f <anchor 100 700> mark @TOP ligComponent <anchor 400 700> mark @TOP;
  pos ligature f_i <anchor 110 690> mark @TOP <anchor 100 -5> mark @BOT ligComponent <anchor NULL>;
} mark;
feature mkmk {
  lookupflag UseMarkFilteringSet @top;
  pos mark acute <anchor 100 700> mark @TOP;
  pos mark grave <anchor 105 705> mark @TOP;
  lookupflag MarkAttachmentType @marks;
  pos mark dotbelow <anchor 95 -200> mark @BOT;
} mkmk;
"""


def _box(x0, y0, x1, y1):
    pen = TTGlyphPen(None)
    pen.moveTo((x0, y0))
    pen.lineTo((x0, y1))
    pen.lineTo((x1, y1))
    pen.lineTo((x1, y0))
    pen.closePath()
    return pen.glyph()


def _box_points(x0, y0, x1, y1):
    return [(x0, y0), (x0, y1), (x1, y1), (x1, y0)]


def _charstring(contours, width):
    from fontTools.pens.t2CharStringPen import T2CharStringPen

    pen = T2CharStringPen(width, None)
    for pts in contours:
        pen.moveTo(pts[0])
        for pt in pts[1:]:
            pen.lineTo(pt)
        pen.closePath()
    return pen.getCharString()


def build_layout_font(with_colr=None, space=True, outlines="glyf"):
    """outlines: "glyf", "cff" or "cff2" (the charstring flavours nanoemoji's cff_* formats emit)."""
    GLYPHS = [g for g in globals()["GLYPHS"] if space or g != "space"]
    fb = FontBuilder(1000, isTTF=outlines == "glyf")
    fb.setupGlyphOrder(GLYPHS)
    cmap = {0x20: "space"} if space else {}
    for g in GLYPHS:
        if len(g) == 1:
            cmap[ord(g)] = g
    cmap.update({0x31: "one", 0x32: "two", 0x301: "acute", 0x300: "grave", 0x30A: "ring", 0x323: "dotbelow", 0x628: "beh", 0x645: "meem"})
    fb.setupCharacterMap(cmap)
    glyphs = {}
    boxes = {g: (10 + i, 0, 100 + 7 * i, 300 + 11 * i) for i, g in enumerate(GLYPHS) if g not in (".notdef", "space")}
    if outlines == "glyf":
        for i, g in enumerate(GLYPHS):
            if g in (".notdef", "space"):
                pen = TTGlyphPen(None)
                glyphs[g] = pen.glyph()
            else:
                glyphs[g] = _box(*boxes[g])
        # a composite
        pen = TTGlyphPen(GLYPHS)
        pen.addComponent("f", (1, 0, 0, 1, 0, 0))
        pen.addComponent("i", (1, 0, 0, 1, 260, 0))
        glyphs["f_i"] = pen.glyph()
        fb.setupGlyf(glyphs)
    else:
        def contours_of(g):
            if g == "f_i":
                x0, y0, x1, y1 = boxes["i"]
                return [_box_points(*boxes["f"]), _box_points(x0 + 260, y0, x1 + 260, y1)]
            return [_box_points(*boxes[g])] if g in boxes else []

        if outlines == "cff":
            glyphs = {g: _charstring(contours_of(g), 300 + 13 * i) for i, g in enumerate(GLYPHS)}
            fb.setupCFF("Verif-Regular", {"FullName": "Verif Regular"}, glyphs, {"defaultWidthX": 0, "nominalWidthX": 0})
        else:
            # CFF2 charstrings carry no width
            fb.setupCFF2({g: _charstring(contours_of(g), None) for g in GLYPHS})
    fb.setupHorizontalMetrics({g: (300 + 13 * i, 10 + i) for i, g in enumerate(GLYPHS)})
    fb.setupHorizontalHeader(ascent=800, descent=-200)
    fb.setupNameTable({"familyName": "Verif", "styleName": "Regular"})
    fb.setupOS2(sTypoAscender=800, sTypoDescender=-200)
    fb.setupPost()
    fb.addOpenTypeFeatures(FEA)
    font = fb.font
    if with_colr is not None:
        from fontTools.colorLib.builder import buildCOLR, buildCPAL
        from fontTools.ttLib.tables import otTables as ot

        font["CPAL"] = buildCPAL([[(1, 0, 0, 1), (0, 1, 0, 1), (0, 0, 1, 0.5)]])
        if with_colr == 0:
            font["COLR"] = buildCOLR({"a": [("b", 0), ("c", 1)], "x": [("y", 2)], "e": [("d", 1), ("o", 0), ("z", 2)]}, version=0)
        else:
            solid = lambda i: {"Format": ot.PaintFormat.PaintSolid, "PaletteIndex": i, "Alpha": 1.0}
            gl = lambda g, i: {"Format": ot.PaintFormat.PaintGlyph, "Glyph": g, "Paint": solid(i)}
            font["COLR"] = buildCOLR(
                {
                    "a": {"Format": ot.PaintFormat.PaintColrLayers, "Layers": [gl("b", 0), gl("c", 1)]},
                    "x": gl("y", 2),
                    "e": {"Format": ot.PaintFormat.PaintColrLayers, "Layers": [gl("d", 1), {"Format": ot.PaintFormat.PaintColrGlyph, "Glyph": "a"}, gl("z", 2)]},
                    "o": {"Format": ot.PaintFormat.PaintTranslate, "dx": 10, "dy": -5, "Paint": gl("i", 0)},
                },
                version=1,
                clipBoxes={"a": (0, 0, 500, 500), "e": (0, -10, 600, 700), "x": (0, 0, 500, 500)},
            )
    buf = io.BytesIO()
    font.save(buf)
    buf.seek(0)
    return TTFont(buf, lazy=False)


def roundtrip(font):
    buf = io.BytesIO()
    font.save(buf)
    buf.seek(0)
    f = TTFont(buf, lazy=False)
    for tag in f.keys():
        f[tag]
    return f


def add_manual_context_lookups(font):
    """Lookup formats feaLib does not emit: Context{Subst,Pos} 1/2/3 and ChainContext 2 (+Pos 3),
    built directly as otTables objects."""
    from fontTools.otlLib.builder import buildCoverage, buildLookup
    from fontTools.ttLib.tables import otTables as ot

    gm = font.getReverseGlyphMap()

    def classdef(d):
        c = ot.ClassDef()
        c.classDefs = dict(d)
        return c

    def recs(kind, idx):
        cls = ot.SubstLookupRecord if kind == "Sub" else ot.PosLookupRecord
        r = cls()
        r.SequenceIndex = 0
        r.LookupListIndex = idx
        return [r]

    def make(kind, chain, fmt, nested):
        S = "Subst" if kind == "Sub" else "Pos"
        tname = ("Chain" if chain else "") + "Context" + S
        st = getattr(ot, tname)()
        st.Format = fmt
        pre = "Chain" if chain else ""
        rule_n, set_n, cset_n, crule_n = f"{pre}{kind}Rule", f"{pre}{kind}RuleSet", f"{pre}{kind}ClassSet", f"{pre}{kind}ClassRule"
        cnt = "SubstCount" if kind == "Sub" else "PosCount"
        rec_n = "SubstLookupRecord" if kind == "Sub" else "PosLookupRecord"

        def rule(cls_name, inputs, back=(), ahead=()):
            r = getattr(ot, cls_name)()
            if chain:
                r.Backtrack, r.LookAhead = list(back), list(ahead)
                r.BacktrackGlyphCount, r.LookAheadGlyphCount = len(back), len(ahead)
                r.InputGlyphCount = len(inputs) + 1
            else:
                r.GlyphCount = len(inputs) + 1
            r.Input = list(inputs)
            setattr(r, cnt, 1)
            setattr(r, rec_n, recs(kind, nested))
            return r

        if fmt == 1:
            firsts = ["d", "a", "x"]  # deliberately not in glyph order
            st.Coverage = buildCoverage(firsts, gm)
            sets = []
            for i, g in enumerate(st.Coverage.glyphs):
                rs = getattr(ot, set_n)()
                rl = rule(rule_n, [["b"], ["c", "e"], ["y"]][i % 3] if False else {"a": ["b"], "d": ["c", "e"], "x": ["y"]}[g], back=["o"] if chain else (), ahead=["z"] if chain else ())
                setattr(rs, rule_n, [rl])
                setattr(rs, rule_n + "Count", 1)
                sets.append(rs)
            setattr(st, set_n, sets)
            setattr(st, set_n + "Count", len(sets))
        elif fmt == 2:
            st.Coverage = buildCoverage(["a", "b", "x"], gm)
            cd = classdef({"a": 1, "b": 1, "x": 2, "c": 2, "d": 3})
            if chain:
                st.BacktrackClassDef = classdef({"o": 1})
                st.InputClassDef = cd
                st.LookAheadClassDef = classdef({"z": 1, "y": 2})
            else:
                st.ClassDef = cd
            sets = [None]
            for c in (1, 2, 3):
                cs = getattr(ot, cset_n)()
                rl = rule(crule_n, [c % 3 + 1], back=[1] if chain else (), ahead=[2] if chain else ())
                if not chain:
                    rl.Class = rl.Input
                    del rl.Input
                setattr(cs, crule_n, [rl])
                setattr(cs, crule_n + "Count", 1)
                sets.append(cs)
            setattr(st, cset_n, sets)
            setattr(st, cset_n + "Count", len(sets))
        else:
            covs = [buildCoverage(["x", "a", "d"], gm), buildCoverage(["z", "b"], gm)]
            if chain:
                st.BacktrackCoverage = [buildCoverage(["o", "e"], gm)]
                st.InputCoverage = covs
                st.LookAheadCoverage = [buildCoverage(["y", "c"], gm)]
                st.BacktrackGlyphCount, st.InputGlyphCount, st.LookAheadGlyphCount = 1, 2, 1
            else:
                st.Coverage = covs
                st.GlyphCount = 2
            setattr(st, cnt, 1)
            setattr(st, rec_n, recs(kind, nested))
        return st

    for tag, kind in (("GSUB", "Sub"), ("GPOS", "Pos")):
        table = font[tag].table
        nested = 0  # any existing simple lookup works as the nested action
        for i, lk in enumerate(table.LookupList.Lookup):
            if lk.LookupType == 1:
                nested = i
                break
        combos = [(False, 1), (False, 2), (False, 3), (True, 2)] + ([(True, 3)] if kind == "Pos" else [])
        for chain, fmt in combos:
            st = make(kind, chain, fmt, nested)
            lk = buildLookup([st])
            lk.LookupType = {("Sub", False): 5, ("Sub", True): 6, ("Pos", False): 7, ("Pos", True): 8}[(kind, chain)]
            table.LookupList.Lookup.append(lk)
            table.LookupList.LookupCount = len(table.LookupList.Lookup)
            # hang it on the first feature so it is referenced
            fr = table.FeatureList.FeatureRecord[0].Feature
            fr.LookupListIndex.append(len(table.LookupList.Lookup) - 1)
            fr.LookupCount = len(fr.LookupListIndex)
    return roundtrip(font)
