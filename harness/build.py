"""Building fonts with the real nanoemoji code: in-process (write_font._generate_color_font,
the way tests/test_helper.py does it) and through the real CLI."""
import io
import os
import subprocess
import sys
from pathlib import Path

from harness.common import SRC, scratch_dir


def filename_for(cps, style=0):
    if style == 0:
        return "emoji_u" + "_".join("%04x" % c for c in cps) + ".svg"
    return "-".join("%04x" % c for c in cps) + ".svg"


def make_config(tmp, overrides, sources, cps_from_names=True):
    """sources: list of (filename, svg_text, codepoints[, png_bytes]).  Returns (config, inputs,
    picos) where picos[i] is the picosvg-normalised text of source i (None for untouched and
    bitmap formats)."""
    from nanoemoji import config as cfgmod
    from nanoemoji import features, write_font
    from nanoemoji.glyph import glyph_name
    from picosvg.svg import SVG

    from absl import flags

    if not flags.FLAGS.is_parsed():
        flags.FLAGS(["verif"])
    tmp = Path(tmp)
    paths = []
    sources = [tuple(s) + (None,) * (4 - len(s)) for s in sources]
    for fn, text, cps, png in sources:
        p = tmp / fn
        p.write_text(text)
        paths.append(p)
    # codepoints and glyph names come from the file names, through the code the glyphmap step runs
    # (the cps in `sources` are what the caller intends and checks against)
    # (write_glyphmap._glyphmappings = codepoints.from_filename(stem) + glyph_name(cps); the module itself cannot be
    # imported next to nanoemoji.config: both define the flag output_file)
    from collections import namedtuple

    from nanoemoji import codepoints as cpmod

    GM = namedtuple("GM", "codepoints glyph_name")
    by_stem = {}
    for p, src in zip(paths, sources):
        c = tuple(cpmod.from_filename(p.stem)) if cps_from_names else tuple(src[2])
        by_stem[p.stem] = GM(c, glyph_name(c))
    sources = [(fn, text, tuple(by_stem[Path(fn).stem].codepoints), png) for fn, text, cps, png in sources]
    fea = tmp / "features.fea"
    fea.write_text(features.generate_fea([tuple(cps) for _, _, cps, _ in sources]))
    cfg = cfgmod.load(None, additional_srcs=tuple(paths))._replace(family="Verif", fea_file=str(fea))
    cfg = cfg._replace(**overrides)
    inputs, picos = [], []
    from nanoemoji.png import PNG

    for (fn, text, cps, png), p in zip(sources, paths):
        svg = SVG.fromstring(text) if cfg.has_svgs else None
        pico_text = None
        bitmap, bitmap_file = None, None
        if cfg.has_bitmaps:
            bitmap_file = p.with_suffix(".png")
            bitmap_file.write_bytes(png)
            bitmap = PNG(png)
        if cfg.has_picosvgs:
            # what the `picosvg` CLI step does
            svg = svg.topicosvg()
            if cfg.clip_to_viewbox:
                svg.clip_to_viewbox(inplace=True)
            pico_text = svg.tostring(pretty_print=True)
            svg = SVG.fromstring(pico_text)  # what the worker parses from the picosvg file
        inputs.append(write_font.InputGlyph(p if svg is not None else None, bitmap_file, tuple(cps), by_stem[p.stem].glyph_name, svg, bitmap))
        picos.append(pico_text)
    return cfg, inputs, picos


def build_inprocess(overrides, sources, cps_from_names=True):
    """Returns (reloaded TTFont, config, picos, bytes)."""
    from fontTools import ttLib
    from nanoemoji import write_font

    with scratch_dir("verif-build-") as tmp:
        cfg, inputs, picos = make_config(tmp, overrides, sources, cps_from_names)
        ufo, ttfont = write_font._generate_color_font(cfg, inputs)
        buf = io.BytesIO()
        ttfont.save(buf)
        data = buf.getvalue()
    font = ttLib.TTFont(io.BytesIO(data), lazy=False)
    return font, cfg, picos, data


def cli_env(extra=None):
    env = dict(os.environ)
    env["PATH"] = "/venv/bin:" + env.get("PATH", "")
    env["PYTHONPATH"] = str(SRC)
    env.setdefault("PYTHONHASHSEED", "0")
    env["SOURCE_DATE_EPOCH"] = "1600000000"
    if extra:
        env.update(extra)
    return env


def run_cli(args, cwd, env=None, timeout=600, prog="nanoemoji.nanoemoji"):
    """Run the real driver (python -m nanoemoji.nanoemoji from the working tree)."""
    cmd = ["/venv/bin/python", "-m", prog] + [str(a) for a in args]
    p = subprocess.run(cmd, cwd=str(cwd), env=env or cli_env(), capture_output=True, text=True, timeout=timeout)
    return p.returncode, p.stdout + p.stderr


def build_cli(overrides, sources, via="flag", cps_from_names=True):
    """The same build through the real command line: the options are given as flags (via="flag") or in a config
    file (via="file"), the sources as files; every step (config written for the workers, glyphmap, fea, picosvg,
    parts, write_font) is the one ninja runs.  Returns (reloaded TTFont, intended FontConfig, picos, bytes) like
    build_inprocess, so that the same oracles apply; raises RuntimeError(log) if the command fails."""
    import toml
    from fontTools import ttLib

    with scratch_dir("verif-buildcli-") as tmp:
        tmp = Path(tmp)
        (tmp / "intended").mkdir()
        intended_sources = sources
        if overrides.get("color_format") in ("cbdt", "sbix"):
            # the intended configuration only (the PNGs come from resvg in the real build)
            from PIL import Image

            b = io.BytesIO()
            Image.new("RGBA", (1, 1)).save(b, format="PNG")
            intended_sources = [tuple(s_[:3]) + (b.getvalue(),) for s_ in sources]
        cfg, inputs, picos = make_config(tmp / "intended", overrides, intended_sources, cps_from_names)
        srcdir = tmp / "src"
        srcdir.mkdir()
        paths = []
        for s_ in sources:
            p = srcdir / s_[0]
            p.write_text(s_[1])
            paths.append(p)
        def flagval(v):
            if hasattr(v, "_fields") and len(v) == 6:  # Affine2D
                return "matrix(" + " ".join(repr(float(x)) for x in v) + ")"
            return str(v)

        args = ["--build_dir", tmp / "build"]
        opts = {k: v for k, v in overrides.items() if v is not None}
        if via == "flag":
            for k, v in opts.items():
                if isinstance(v, bool):
                    args.append(f"--{k}" if v else f"--no{k}")
                else:
                    args += [f"--{k}", flagval(v)]
            args += [str(p) for p in paths]
        else:
            body = {k: (flagval(v) if not isinstance(v, (bool, int, float, str)) else v) for k, v in opts.items()}
            body.setdefault("output_file", "Font.ttf")
            text = toml.dumps(body) + '[axis.wght]\nname = "Weight"\ndefault = 400\n[master.regular]\nstyle_name = "Regular"\nsrcs = ["src/*.svg"]\n[master.regular.position]\nwght = 400\n'
            (tmp / "font.toml").write_text(text)
            args.append(tmp / "font.toml")
        rc, out = run_cli(args, cwd=tmp)
        name = overrides.get("output_file", "Font.ttf")
        f = tmp / "build" / name
        if rc != 0 or not f.is_file():
            raise RuntimeError(f"command line build failed (exit {rc}): " + out[-1500:])
        data = f.read_bytes()
    font = ttLib.TTFont(io.BytesIO(data), lazy=False)
    return font, cfg, picos, data
