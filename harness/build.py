"""Building fonts with the real nanoemoji code: in-process (write_font._generate_color_font,
the way tests/test_helper.py does it) and through the real CLI."""
import io
import os
import subprocess
import sys
from pathlib import Path

from harness.common import SRC, scratch_dir


def filename_for(cps, style=0):
    if style == 0:
        return "emoji_u" + "_".join("%04x" % c for c in cps) + ".svg"
    return "-".join("%04x" % c for c in cps) + ".svg"


def make_config(tmp, overrides, sources, cps_from_names=True):
    """sources: list of (filename, svg_text, codepoints[, png_bytes]).  Returns (config, inputs,
    picos) where picos[i] is the picosvg-normalised text of source i (None for untouched and
    bitmap formats)."""
    from nanoemoji import config as cfgmod
    from nanoemoji import features, write_font
    from nanoemoji.glyph import glyph_name
    from picosvg.svg import SVG

    from absl import flags

    if not flags.FLAGS.is_parsed():
        flags.FLAGS(["verif"])
    tmp = Path(tmp)
    paths = []
    sources = [tuple(s) + (None,) * (4 - len(s)) for s in sources]
    for fn, text, cps, png in sources:
        p = tmp / fn
        p.write_text(text)
        paths.append(p)
    # codepoints and glyph names come from the file names, through the code the glyphmap step runs
    # (the cps in `sources` are what the caller intends and checks against)
    # (write_glyphmap._glyphmappings = codepoints.from_filename(stem) + glyph_name(cps); the module itself cannot be
    # imported next to nanoemoji.config: both define the flag output_file)
    from collections import namedtuple

    from nanoemoji import codepoints as cpmod

    GM = namedtuple("GM", "codepoints glyph_name")
    by_stem = {}
    for p, src in zip(paths, sources):
        c = tuple(cpmod.from_filename(p.stem)) if cps_from_names else tuple(src[2])
        by_stem[p.stem] = GM(c, glyph_name(c))
        if p.stem == "notdef":
            # art for the .notdef glyph itself (what a glyph map generator of the user's may assign): glyph id 0
            by_stem[p.stem] = GM((), ".notdef")
    sources = [(fn, text, tuple(by_stem[Path(fn).stem].codepoints), png) for fn, text, cps, png in sources]
    fea = tmp / "features.fea"
    fea.write_text(features.generate_fea([tuple(cps) for _, _, cps, _ in sources if cps]))
    cfg = cfgmod.load(None, additional_srcs=tuple(paths))._replace(family="Verif", fea_file=str(fea))
    cfg = cfg._replace(**overrides)
    inputs, picos = [], []
    from nanoemoji.png import PNG

    for (fn, text, cps, png), p in zip(sources, paths):
        svg = SVG.fromstring(text) if cfg.has_svgs else None
        pico_text = None
        bitmap, bitmap_file = None, None
        if cfg.has_bitmaps:
            bitmap_file = p.with_suffix(".png")
            bitmap_file.write_bytes(png)
            bitmap = PNG(png)
        if cfg.has_picosvgs:
            # what the `picosvg` CLI step does
            svg = svg.topicosvg()
            if cfg.clip_to_viewbox:
                svg.clip_to_viewbox(inplace=True)
            pico_text = svg.tostring(pretty_print=True)
            svg = SVG.fromstring(pico_text)  # what the worker parses from the picosvg file
        inputs.append(write_font.InputGlyph(p if svg is not None else None, bitmap_file, tuple(cps), by_stem[p.stem].glyph_name, svg, bitmap))
        picos.append(pico_text)
    return cfg, inputs, picos


def build_inprocess(overrides, sources, cps_from_names=True):
    """Returns (reloaded TTFont, config, picos, bytes)."""
    from fontTools import ttLib
    from nanoemoji import write_font

    with scratch_dir("verif-build-") as tmp:
        cfg, inputs, picos = make_config(tmp, overrides, sources, cps_from_names)
        ufo, ttfont = write_font._generate_color_font(cfg, inputs)
        buf = io.BytesIO()
        ttfont.save(buf)
        data = buf.getvalue()
    font = ttLib.TTFont(io.BytesIO(data), lazy=False)
    return font, cfg, picos, data


def cli_env(extra=None):
    env = dict(os.environ)
    env["PATH"] = "/venv/bin:" + env.get("PATH", "")
    env["PYTHONPATH"] = str(SRC)
    env.setdefault("PYTHONHASHSEED", "0")
    env["SOURCE_DATE_EPOCH"] = "1600000000"
    if extra:
        env.update(extra)
    return env


def run_cli(args, cwd, env=None, timeout=600, prog="nanoemoji.nanoemoji"):
    """Run the real driver (python -m nanoemoji.nanoemoji from the working tree)."""
    cmd = ["/venv/bin/python", "-m", prog] + [str(a) for a in args]
    p = subprocess.run(cmd, cwd=str(cwd), env=env or cli_env(), capture_output=True, text=True, timeout=timeout)
    return p.returncode, p.stdout + p.stderr


def build_cli(overrides, sources, via="flag", cps_from_names=True, before=None, companion=None):
    """The same build through the real command line: the options are given as flags (via="flag") or in a config
    file (via="file"), the sources as files; every step (config written for the workers, glyphmap, fea, picosvg,
    parts, write_font) is the one ninja runs.  Returns (reloaded TTFont, intended FontConfig, picos, bytes) like
    build_inprocess, so that the same oracles apply; raises RuntimeError(log) if the command fails.

    before = (overrides0, sources0 or None): an earlier invocation in the same build directory (a re-run: the font
    asked for now must not be the one left over).  companion = (overrides1, sources1): another configuration built by
    the same invocation, listed first, whose sources live in another directory under the same file names, or (sources1 = None) which uses
    the very same files (options by file then)."""
    import toml
    from fontTools import ttLib

    with scratch_dir("verif-buildcli-") as tmp:
        tmp = Path(tmp)
        (tmp / "intended").mkdir()
        intended_sources = sources
        if overrides.get("color_format") in ("cbdt", "sbix"):
            # the intended configuration only (the PNGs come from resvg in the real build)
            from PIL import Image

            b = io.BytesIO()
            Image.new("RGBA", (1, 1)).save(b, format="PNG")
            intended_sources = [tuple(s_[:3]) + (b.getvalue(),) for s_ in sources]
        cfg, inputs, picos = make_config(tmp / "intended", overrides, intended_sources, cps_from_names)

        def flagval(v):
            if hasattr(v, "_fields") and len(v) == 6:  # Affine2D
                return "matrix(" + " ".join(repr(float(x)) for x in v) + ")"
            return str(v)

        def write_sources(dirname, srcs):
            d = tmp / dirname
            d.mkdir(exist_ok=True)
            for old in d.glob("*.svg"):
                old.unlink()
            out = []
            for s_ in srcs:
                (d / s_[0]).write_text(s_[1])
                out.append(d / s_[0])
            return out

        def write_toml(name, over, dirname, default_output="Font.ttf"):
            body = {k: (flagval(v) if not isinstance(v, (bool, int, float, str)) else v) for k, v in over.items() if v is not None}
            body.setdefault("output_file", default_output)
            text = toml.dumps(body) + f'[axis.wght]\nname = "Weight"\ndefault = 400\n[master.regular]\nstyle_name = "Regular"\nsrcs = ["{dirname}/*.svg"]\n[master.regular.position]\nwght = 400\n'
            (tmp / name).write_text(text)
            return tmp / name

        def invocation(over, srcs, how):
            paths = write_sources("src", srcs)
            args = ["--build_dir", tmp / "build"]
            opts = {k: v for k, v in over.items() if v is not None}
            if how == "flag":
                for k, v in opts.items():
                    if isinstance(v, bool):
                        args.append(f"--{k}" if v else f"--no{k}")
                    else:
                        args += [f"--{k}", flagval(v)]
                args += [str(p) for p in paths]
            else:
                if companion is not None:
                    # sources of its own under the same file names, or (None) the very same files
                    other_dir = "src" if companion[1] is None else "other"
                    if companion[1] is not None:
                        write_sources("other", companion[1])
                    args.append(write_toml("other.toml", dict(companion[0], output_file="Other" + Path(over.get("output_file", "Font.ttf")).suffix), other_dir))
                args.append(write_toml("font.toml", opts, "src"))
            return run_cli(args, cwd=tmp)

        if companion is not None:
            via = "file"
        if before is not None:
            rc0, out0 = invocation(before[0], before[1] or sources, via)
            if rc0 != 0:
                raise RuntimeError(f"the earlier command line build failed (exit {rc0}): " + out0[-1500:])
        rc, out = invocation(overrides, sources, via)
        name = overrides.get("output_file", "Font.ttf")
        f = tmp / "build" / name
        if rc != 0 or not f.is_file():
            raise RuntimeError(f"command line build failed (exit {rc}): " + out[-1500:])
        data = f.read_bytes()
    font = ttLib.TTFont(io.BytesIO(data), lazy=False)
    return font, cfg, picos, data
