"""Run in a process of its own (`/venv/bin/python harness/config_probe.py <scratch dir>`, PYTHONPATH=/repo/src):
observe, for every field of nanoemoji.config.FontConfig, the path a value takes -- the command-line flag that can
set it (absl's registry), config.write (the file the build steps read), config.load (file value when the flag is
not given, flag over file when both are) -- by CALLING the real functions with distinct probe values, not by
reading their text.  Prints one JSON object."""
import json
import sys
import traceback
from pathlib import Path


def main():
    import toml
    from absl import flags
    from picosvg.svg_transform import Affine2D

    from nanoemoji import config as C

    d = Path(sys.argv[1])
    F = flags.FLAGS
    F(["probe"])
    KIND = dict(ArgumentParser="string", EnumParser="enum", IntegerParser="integer", FloatParser="float", BooleanParser="bool")
    dflt = C.FontConfig()
    # two distinct legal values per field, both different from the default
    PROBES = dict(
        family=("Probe Fam", "Other Fam"), output_file=("P.ttf", "Q.ttf"), color_format=("glyf_colr_0", "cff_colr_1"),
        upem=(1234, 2345), width=(111, 222), ascender=(801, 702), descender=(-111, -222), linegap=(11, 22),
        transform=("translate(12, 0)", "scale(0.5)"), version_major=(3, 4), version_minor=(5, 6), reuse_tolerance=(0.25, 0.5),
        clipbox_quantization=(7, 9), fea_file=("a.fea", "b.fea"), glyphmap_generator=("pkg.gen_a", "pkg.gen_b"),
        bitmap_resolution=(96, 160), pngquant_flags=("--quality 1-2", "--speed 3"),
    )
    BASE = '[axis.wght]\nname = "Weight"\ndefault = 400\n[master.regular]\nstyle_name = "Regular"\nsrcs = []\n[master.regular.position]\nwght = 400\n'

    def tomlval(v):
        return toml.dumps(dict(v=v)).split("=", 1)[1].strip()

    def load_with(name, file_value, flag_value):
        p = d / "probe.toml"
        p.write_text(("" if file_value is None else f"{name} = {tomlval(file_value)}\n") + BASE)
        saved = F[name].value if name in F else None
        try:
            if name in F:
                F[name].value = flag_value
            return getattr(C.load(p), name)
        finally:
            if name in F:
                F[name].value = saved

    def same(got, want):
        """the value handed on is the one given (the user transform is given as a string and handed on parsed)"""
        if isinstance(got, Affine2D) and isinstance(want, str):
            return got == Affine2D.fromstring(want)
        return type(got) is type(want) and got == want if not isinstance(want, bool) else got is want

    rows, notes = [], []
    for name in C.FontConfig._fields:
        ann = C.FontConfig.__annotations__[name]
        tname = ann.__name__ if isinstance(ann, type) else str(ann).replace("typing.", "").replace("nanoemoji.config.", "")
        row = dict(name=name, type=tname, flag="", unset_none=False, written=False, loaded=False, cast="", passed=False, rebound=False)
        rows.append(row)
        if name not in F:
            continue
        fl = F[name]
        row["flag"] = KIND.get(type(fl.parser).__name__, type(fl.parser).__name__)
        row["unset_none"] = fl.default is None and fl.value is None
        if isinstance(getattr(dflt, name), bool):
            v1, v2 = (not getattr(dflt, name)), getattr(dflt, name)
        else:
            v1, v2 = PROBES[name]
        # ---- config.write: the field's value is in the file under the field's name, for two different values
        try:
            ok = True
            for v in (v1, v2):
                held = Affine2D.fromstring(v) if name == "transform" else v
                C.write(d / "w.toml", dflt._replace(**{name: held}))
                got = toml.load(d / "w.toml").get(name, None)
                ok = ok and (got == held.tostring() if name == "transform" else (type(got) is type(v) and got == v))
            row["written"] = ok
        except Exception as e:  # noqa
            notes.append(f"write {name}: {type(e).__name__}: {e}")
        # ---- config.load: the file's value when the flag is not given; the flag's when both are (either way round)
        try:
            a, b = load_with(name, v1, None), load_with(name, v2, None)
            row["loaded"] = same(a, v1) and same(b, v2)
            row["rebound"] = type(a) is not type(v1)
        except Exception as e:  # noqa
            notes.append(f"load {name} from file: {type(e).__name__}: {e}")
        try:
            a, b, c = load_with(name, v1, v2), load_with(name, v2, v1), load_with(name, None, v1)
            row["passed"] = same(a, v2) and same(b, v1) and same(c, v1)
        except Exception as e:  # noqa
            notes.append(f"load {name} flag over file: {type(e).__name__}: {e}")
        # ---- a conversion on the way: an integer option given as 7.0 in the file, a float option given as 1
        try:
            if row["flag"] == "integer":
                got = load_with(name, float(v1), None)
                row["cast"] = "int" if type(got) is int and got == v1 else ""
            elif row["flag"] == "float":
                got = load_with(name, 1, None)
                row["cast"] = "float" if type(got) is float and got == 1.0 else ""
        except Exception as e:  # noqa
            notes.append(f"load {name} conversion: {type(e).__name__}: {e}")
    # ---- what else config.write puts in the file (a configuration with an axis and a master)
    extra_written = []
    structured = dict(axes=False, masters=False, source_names=False)
    try:
        cfg = C.load(_write(d / "vf.toml", BASE))
        C.write(d / "w.toml", cfg)
        extra_written = sorted(k for k in toml.load(d / "w.toml") if k not in C.FontConfig._fields)
        # the structured fields: one axis and one master come out of load, and survive write -> load
        back = C.load(d / "w.toml")
        structured = dict(
            axes=len(cfg.axes) == 1 and cfg.axes[0].axisTag == "wght" and cfg.axes[0].name == "Weight" and cfg.axes[0].default == 400 and back.axes == cfg.axes,
            masters=len(cfg.masters) == 1 and cfg.masters[0].name == "regular" and cfg.masters[0].style_name == "Regular" and back.masters == cfg.masters,
            source_names=back.source_names == cfg.source_names,
        )
    except Exception as e:  # noqa
        notes.append(f"write of a configuration with an axis and a master: {type(e).__name__}: {e}")
        extra_written = ["<config.write failed>"]
    # ---- what load hands on besides the declared fields
    extra_passed = []
    try:
        got = C.load(_write(d / "vf.toml", BASE))
        extra_passed = sorted(set(getattr(got, "_fields", ())) ^ set(C.FontConfig._fields))
        if type(got) is not C.FontConfig:
            extra_passed.append("<load returned a " + type(got).__name__ + ">")
    except Exception as e:  # noqa
        notes.append(f"load of the base configuration: {type(e).__name__}: {e}")
        extra_passed = ["<config.load failed>"]
    print(json.dumps(dict(ok=True, rows=rows, extra_written=extra_written, extra_passed=extra_passed, structured=structured, notes=notes)))


def _write(p, text):
    p.write_text(text)
    return p


if __name__ == "__main__":
    try:
        main()
    except Exception:  # noqa
        print(json.dumps(dict(ok=False, error=traceback.format_exc()[-1500:])))
