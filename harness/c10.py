"""C10 -- What the driver resolves is exactly what the build steps see."""
import csv
import io
import json
import random
import re
import tempfile
from pathlib import Path

from harness import common
from harness.common import Report, evaluate_corr, eval_bad_indices, listlit, optlit, proof_gate, report_failure, scratch_dir

IMPORTS = ["Model.Csv Corr.Common Corr.C10"]


def tlit(s):
    return listlit([f"{ord(c)}%N" for c in s])


def rowlit(r):
    return listlit([tlit(f) for f in r])


def rowslit(rs):
    return listlit([rowlit(r) for r in rs])


ALPHABET = ["a", "b", "Z", "0", "7", " ", " ", ",", '"', "'", ".", "-", "_", "/", "é", "😀", "\t", ";", "\\", "#", "|"]
NASTY = ["\n", "\r"]


def gen_field(rng, nasty=False):
    n = rng.choice([0, 1, 1, 2, 3, 5, 9])
    chars = ALPHABET + (NASTY * 2 if nasty else [])
    return "".join(rng.choice(chars) for _ in range(n))


def real_write_rows(rows):
    out = []
    for r in rows:
        f = io.StringIO()
        csv.writer(f, lineterminator="").writerow(r)
        out.append(f.getvalue() + "\n")
    return "".join(out)


def real_read(text):
    try:
        return [list(r) for r in csv.reader(io.StringIO(text), skipinitialspace=True)]
    except csv.Error:
        return None


def run_csv(report, n, rng):
    # the csv dialect pair on random rows (mostly well-formed, plus a malformed stream)
    cases, meta = [], []
    for i in range(n):
        nasty = rng.random() < 0.15
        rows = [[gen_field(rng, nasty) for _ in range(rng.randint(2, 5))] for _ in range(rng.randint(1, 3))]
        text = real_write_rows(rows)
        back = real_read(text)
        cases.append(f"({rowslit(rows)}, {tlit(text)}, {optlit(back, rowslit)})")
        meta.append(dict(function="csv.writer(lineterminator='')/csv.reader(skipinitialspace=True)", rows=rows, text=text, impl_out=back))
        report.count(("csv", text), any(("," in f or '"' in f or f.startswith(" ")) for r in rows for f in r))
        report.hist("csv.stream", "with CR/LF" if nasty else "plain")
    evaluate_corr(report, IMPORTS, "Corr.C10", "csv_writer_reader", "csv_case", cases, meta, "csv_agree", "csv_agree", shard=200)
    # arbitrary text through the reader alone
    cases, meta = [], []
    for i in range(n // 2):
        text = "".join(rng.choice(ALPHABET + NASTY + ['"', '"', ","]) for _ in range(rng.randint(0, 14)))
        back = real_read(text)
        cases.append(f"({tlit(text)}, {optlit(back, rowslit)})")
        meta.append(dict(function="csv.reader(skipinitialspace=True)", text=text, impl_out=back))
        report.count(("rdr", text), True)
        report.hist("reader.outcome", "csv.Error" if back is None else f"{len(back)} rows")
    evaluate_corr(report, IMPORTS, "Corr.C10", "csv_reader_any_text", "rdr_case", cases, meta, "rdr_agree", "rdr_agree", shard=200)


def gen_name(rng, kind):
    stem = "".join(rng.choice(["a", "b", "1f600", "_", "-", " ", ",", '"', "é", "😀", "x y", "(", ")", "\\", "#", "'", "\t"]) for _ in range(rng.randint(1, 5)))
    if kind == "leading_space":
        stem = " " + stem
    if kind == "newline":
        stem = stem + rng.choice(["\n", "\r"]) + "q"
    d = rng.choice(["", "dir/", "/abs/some dir/", "a,b/"])
    return d + stem


def run_glyphmap(report, n, rng):
    from nanoemoji.glyphmap import GlyphMapping, load_from

    cases, meta = [], []
    fixed = [("leading_space", 0), ("newline", 1)]  # witnesses of the known finding run first
    for i in range(n):
        kind = fixed[i][0] if i < len(fixed) else rng.choices(["plain", "leading_space", "newline"], [0.9, 0.05, 0.05])[0]
        which = rng.choice(["svg", "png", "both"])
        svg = Path(gen_name(rng, kind) + ".svg") if which in ("svg", "both") else None
        png = Path(gen_name(rng, kind if which == "png" else "plain") + ".png") if which in ("png", "both") else None
        cps = tuple(rng.choice([0x21, 0x41, 0x1F600, 0x200D, 0xFE0F, 0x10FFFF, rng.randint(0x21, 0x2FFFF)]) for _ in range(rng.choice([0, 1, 1, 2, 5, 9, 14])))
        name = "g_" + "_".join("%x" % c for c in cps) if cps else rng.choice(["glyph", "a.b", "x_1"])
        g = GlyphMapping(svg, png, cps, name)
        line = g.csv_line()
        try:
            back = list(load_from(io.StringIO(line)))
        except (ValueError, csv.Error):
            back = None

        def glit(x):
            s = optlit(None if x.svg_file is None else str(x.svg_file), tlit)
            b = optlit(None if x.bitmap_file is None else str(x.bitmap_file), tlit)
            return f"(GMap {s} {b} {tlit(x.glyph_name)} {listlit([f'{c}%N' for c in x.codepoints])})"

        cases.append(f"({glit(g)}, {tlit(line)}, {optlit(back, lambda b: listlit([glit(x) for x in b]))})")
        meta.append(dict(function="GlyphMapping.csv_line / glyphmap.load_from", kind=kind, svg=None if svg is None else str(svg), bitmap=None if png is None else str(png),
                         codepoints=list(cps), glyph_name=name, csv_line=line, impl_out=None if back is None else [repr(x) for x in back]))
        report.count(("gm", line), kind == "plain" and ("," in line or '"' in line))
        report.hist("glyphmap.kind", kind)
    bad = eval_bad_indices(IMPORTS, "", "gm_case", cases, ["gm_agree", "gm_prop"], tag="glyphmap", shard=200)
    report.notes["glyphmap.cases"] = len(cases)
    report.notes["glyphmap.disagreements"] = len(bad["gm_agree"])
    report.notes["glyphmap.property_failures"] = len(bad["gm_prop"])
    for i in bad["gm_prop"]:
        m = meta[i]
        paths = [p for p in (m["svg"], m["bitmap"]) if p]
        f4 = any(p.startswith(" ") or "\n" in p or "\r" in p for p in paths)
        if report_failure(report, f"glyphmap_{i}", dict(kind="property", case=m, note="load_from(csv_line(g)) != g"), "F4-csv" if f4 else None):
            break
    if bad["gm_agree"] and not report.violations:
        i = bad["gm_agree"][0]
        report.violation(f"glyphmap_corr_{i}", dict(kind="corr", case=meta[i], correspondence="Corr.C10.gm_agree"), found_input=False)
    report.sample(meta[2])


def conventional_name(cps, style, rng):
    if style == 0:
        return "emoji_u" + "_".join("%04x" % c for c in cps) + ".svg"
    if style == 1:
        return "-".join("%x" % c for c in cps) + ".svg"
    if style == 2:
        return "emoji_u" + "_".join("%04X" % c for c in cps) + ".png"
    return "_".join("%05x" % c for c in cps) + ".svg"


FEA_NAME = re.compile(r"^[A-Za-z_][A-Za-z0-9_.]*$")


def run_names(report, n, rng):
    from nanoemoji import codepoints
    from nanoemoji.glyph import glyph_name

    pool = [0x21, 0x23, 0x2A, 0x30, 0x39, 0x41, 0x5A, 0x61, 0x67, 0x7A, 0xA9, 0x200D, 0xFE0F, 0x1F600, 0x1F3FB, 0x1F469, 0xE0067, 0x10FFFF]
    seqs = set()
    seqs.update([(0x67, 0x1F600), (0x1F600,)])  # witness of the known g_ collision
    # F13 (fixed 4beef1d): names of 62 and 63 characters that still need the g_ prefix
    seqs.update([(0x30,) + (0x1F600,) * 10, (0x30,) + (0x1F600,) * 9 + (0x10FFFF,), (0x30,) + (0x1F600,) * 9 + (0x2A,)])
    for _ in range(n):
        k = rng.choice([1, 1, 2, 3, 5, 9, 14])
        seqs.add(tuple(rng.choice(pool + [rng.randint(0x21, 0x2FFFF)]) for _ in range(k)))
    seqs = sorted(seqs)
    for cps in seqs:
        for style in range(4):
            fn = conventional_name(cps, style, rng)
            got = codepoints.from_filename(fn)
            report.count(("fn", fn), len(cps) > 1)
            if tuple(got) != tuple(cps):
                report_failure(report, f"from_filename_{fn[:40]}", dict(kind="property", function="codepoints.from_filename", filename=fn, expected=list(cps), impl_out=list(got)))
                return
    # the Gallina model of glyph_name (un-hashed names; None = replaced by a digest) against the code
    gcases, gmeta = [], []
    import re as _re

    for cps in seqs:
        nm = glyph_name(cps)
        hashed = bool(_re.match(r"^(g_)?[A-Z2-7]{32}$", nm))
        gcases.append("(" + listlit([f"{c}%N" for c in cps]) + ", " + optlit(None if hashed else nm, tlit) + ")")
        gmeta.append(dict(function="glyph.glyph_name", codepoints=list(cps), impl_out=nm, hashed=hashed))
        report.hist("glyph_name.kind", "hashed (too long)" if hashed else "spelled")
    evaluate_corr(report, IMPORTS, "Corr.C10", "glyph_name", "gname_case", gcases, gmeta, "gname_agree", "gname_agree", shard=200)
    # the Gallina scanner for file stems against the regex, on stems that can match at their first character
    fcases, fmeta = [], []
    toks = ["emoji_u", "1f600", "200D", "fe0f", "-", "_", "x", ".", "g", "0", "E", "m", "00a9", "U", "1F3FB", "emoji_u"]
    stems = set()
    for cps in seqs[: n // 2]:
        stems.add(Path(conventional_name(cps, rng.randrange(4), rng)).stem)
    while len(stems) < n:
        first = rng.choice(["emoji_u", "1f600", "0", "E", "fe0f", "-1f", "_200d", "emoji_u_", "emoji_ux", "e", "emoji_"])
        stems.add(first + "".join(rng.choice(toks) for _ in range(rng.randint(0, 5))))
    for st in sorted(stems):
        try:
            got = list(codepoints.from_filename(st))
        except ValueError:
            got = None
        fcases.append("(" + tlit(st) + ", " + optlit(got, lambda g: listlit([f"{c}%N" for c in g])) + ")")
        fmeta.append(dict(function="codepoints.from_filename", stem=st, impl_out=got))
        report.count(("stem", st), True)
    if (common.COQ / "Model" / "FileName.v").exists() and common.vo_ok("Model/FileName.v"):
        evaluate_corr(report, IMPORTS, "Corr.C10", "from_filename", "fname_case", fcases, fmeta, "fname_agree", "fname_agree", shard=200)
    names = {}
    for cps in seqs:
        nm = glyph_name(cps)
        report.count(("gn", cps), len(cps) > 1)
        if not FEA_NAME.match(nm) or len(nm) > 63:
            report_failure(report, "glyph_name_illegal", dict(kind="property", function="glyph.glyph_name", codepoints=list(cps), impl_out=nm, note="not a legal feature-file glyph name"))
            return
        if nm in names:
            other = names[nm]
            a, b = sorted([cps, other], key=len)
            f3 = len(b) >= 2 and b[0] == 0x67 and tuple(b[1:]) == tuple(a) and not chr(a[0]).isalpha()
            if report_failure(report, "glyph_name_collision", dict(kind="property", function="glyph.glyph_name", sequences=[list(cps), list(other)], impl_out=nm), "F3-gprefix" if f3 else None):
                return
        else:
            names[nm] = cps
    report.notes["names.sequences"] = len(seqs)
    report.sample(dict(function="glyph.glyph_name", codepoints=list(seqs[-1]), impl_out=glyph_name(seqs[-1])))


# ---- config -------------------------------------------------------------------------------

FIELD_VALUES = {
    "family": ["Fam X", 'Q"uote', "ünï code", "a,b"],
    "output_file": ["Out.ttf", "My Font.otf", "x.ttf"],
    "color_format": ["glyf_colr_0", "picosvg", "cbdt", "cff2_colr_1"],
    "upem": [1000, 2048, 16],
    "width": [0, 1000, 33],
    "ascender": [800, 0, 1900],
    "descender": [-200, 0, -1],
    "linegap": [0, 7, 100],
    "transform": ["translate(10, -20)", "matrix(1 0 0 1 0 0)", "matrix(0.5 0.1 -0.25 1.5 3.25 1e-07)", "scale(0.3333333333333333)", "rotate(30)", "matrix(1 4e-05 -4e-05 1 0.123456789 0)"],
    "version_major": [1, 0, 17],
    "version_minor": [0, 2, 280],
    "reuse_tolerance": [0.1, -1.0, 0.3333333333333333, 1e-07, 5.0],
    "ignore_reuse_error": [True, False],
    "keep_glyph_names": [True, False],
    "clip_to_viewbox": [True, False],
    "clipbox_quantization": [1, 20, 64],
    "pretty_print": [True, False],
    "fea_file": ["features.fea", "my feats.fea"],
    "glyphmap_generator": ["nanoemoji.write_glyphmap", "other.module"],
    "bitmap_resolution": [128, 32, 255],
    "use_zopflipng": [True, False],
    "use_pngquant": [True, False],
    "pngquant_flags": ["--speed 1", "--quality 85-95 --skip-if-larger", ""],
}


def run_config(report, rng, tier):
    import toml
    from absl import flags
    from nanoemoji import config as cfgmod
    from picosvg.svg_transform import Affine2D

    FLAGS = flags.FLAGS

    def set_flags(d):
        FLAGS.unparse_flags()
        argv = ["prog"]
        for k, v in d.items():
            if isinstance(v, bool):
                argv.append(f"--{k}" if v else f"--no{k}")
            else:
                argv.append(f"--{k}={v}")
        FLAGS(argv)

    fields = [f for f in cfgmod.FontConfig._fields if f not in ("axes", "masters", "source_names")]
    missing = [f for f in fields if f not in FIELD_VALUES]
    if missing:
        report.violation("config_field_unknown_to_harness", dict(kind="table", detail=f"FontConfig has fields the check has no values for: {missing}"), found_input=False)
        return

    def expect(field, v):
        if field == "transform":
            return Affine2D.fromstring(v)
        return v

    n = 0
    with scratch_dir("verif-c10-") as d:
        src = d / "emoji_u1f600.svg"
        src.write_text('<svg xmlns="http://www.w3.org/2000/svg" viewBox="0 0 10 10"><rect width="5" height="5"/></svg>')
        base_toml = '[axis.wght]\nname="Weight"\ndefault=400\n[master.regular]\nstyle_name="Regular"\nsrcs=["%s"]\n[master.regular.position]\nwght=400\n' % src
        rounds = 1 if tier == "quick" else 4
        for rnd in range(rounds):
            for field in fields:
                vals = FIELD_VALUES[field]
                vf, vl = rng.sample(vals, 2) if len(vals) > 1 else (vals[0], vals[0])
                for mode in ("neither", "file", "flag", "both"):
                    n += 1
                    file_cfg = d / f"in_{field}_{mode}.toml"
                    body = base_toml
                    if mode in ("file", "both"):
                        body = toml.dumps({field: vf}) + body
                    file_cfg.write_text(body)
                    set_flags({field: vl} if mode in ("flag", "both") else {})
                    try:
                        resolved = cfgmod.load(file_cfg)
                    finally:
                        set_flags({})
                    want = {"neither": getattr(cfgmod.FontConfig(), field), "file": expect(field, vf), "flag": expect(field, vl), "both": expect(field, vl)}[mode]
                    got = getattr(resolved, field)
                    report.count(("cfg", field, mode, str(vf), str(vl)), mode != "neither")
                    report.hist("config.mode", mode)
                    case = dict(function="config.load (flag > file > default)", field=field, mode=mode, file_value=vf, flag_value=vl, resolved=repr(got), expected=repr(want))
                    if got != want or type(got) is not type(want):
                        report_failure(report, f"config_precedence_{field}_{mode}", dict(kind="property", case=case))
                        return
                    # what the driver resolved is written for the workers and loaded back (no flags there)
                    out = d / f"out_{field}_{mode}.toml"
                    cfgmod.write(out, resolved)
                    reloaded = cfgmod.load(out)
                    if reloaded != resolved:
                        diff = [f for f in cfgmod.FontConfig._fields if getattr(reloaded, f) != getattr(resolved, f)]
                        case["differs_after_reload"] = {f: [repr(getattr(resolved, f)), repr(getattr(reloaded, f))] for f in diff}
                        report_failure(report, f"config_roundtrip_{field}_{mode}", dict(kind="property", case=case))
                        return
        # every listed value of every field survives write + load (whatever the sample above picked)
        for field in fields:
            for k, v in enumerate(FIELD_VALUES[field]):
                n += 1
                file_cfg = d / f"all_{field}_{k}.toml"
                file_cfg.write_text(toml.dumps({field: v}) + base_toml)
                set_flags({})
                resolved = cfgmod.load(file_cfg)
                out = d / f"all_out_{field}_{k}.toml"
                cfgmod.write(out, resolved)
                reloaded = cfgmod.load(out)
                report.count(("cfg-all", field, str(v)), True)
                if getattr(resolved, field) != expect(field, v) or reloaded != resolved:
                    diff = [f for f in cfgmod.FontConfig._fields if getattr(reloaded, f) != getattr(resolved, f)]
                    case = dict(function="config.load/write/load", field=field, file_value=v, resolved=repr(getattr(resolved, field)),
                                differs_after_reload={f: [repr(getattr(resolved, f)), repr(getattr(reloaded, f))] for f in diff})
                    report_failure(report, f"config_roundtrip_all_{field}_{k}", dict(kind="property", case=case))
        # string options as a user may give them BY FLAG (nothing is parsed on the way in): the driver writes them with the
        # toml library for the workers. F33: toml 0.10.2 does not write every string so that it reads back
        def toml_class(v):
            return "\\x" in v or v == '"' or v.startswith('""') or any(ord(c) < 32 and c not in "\t\n\r" or 127 <= ord(c) < 160 for c in v)

        for field, v in (("family", 'Say "hi"'), ("family", "C:\\fonts\\x-files"), ("family", '"'), ("family", '""Quoted"" Sans'), ("family", "Bell\x07 Sans"), ("pngquant_flags", "--quality 1-2 --ext \\x.png"),
                         ("fea_file", "feat\\xtra.fea"), ("family", "Tab\there"), ("family", "back\\slash"), ("output_file", "D\x7fL.ttf")):
            n += 1
            file_cfg = d / "flagstr.toml"
            file_cfg.write_text(base_toml)
            set_flags({field: v})
            try:
                resolved = cfgmod.load(file_cfg)
            finally:
                set_flags({})
            report.count(("cfg-flagstr", field, v), True)
            report.hist("config.mode", "awkward string by flag")
            case = dict(function="config.load (flag) / write / load", field=field, flag_value=v, resolved=repr(getattr(resolved, field)))
            if getattr(resolved, field) != v:
                report_failure(report, f"config_flagstr_{field}", dict(kind="property", case=case))
                return
            out = d / "flagstr_out.toml"
            try:
                cfgmod.write(out, resolved)
                reloaded = cfgmod.load(out)
                differs = None if reloaded == resolved else repr(getattr(reloaded, field))
            except Exception as ex:  # noqa
                differs = f"{type(ex).__name__}: {ex}"
            if differs is not None:
                case["after_write_and_load"] = differs
                if report_failure(report, f"config_flagstr_roundtrip_{field}", dict(kind="property", case=case), "F33-toml-strings-do-not-round-trip" if toml_class(v) else None):
                    return
                    return
        # multiple axes / masters
        src2 = d / "b" / "emoji_u1f600.svg"
        src2.parent.mkdir()
        src2.write_text(src.read_text())
        vf_toml = ('output_file="VF.ttf"\n[axis.wght]\nname="Weight"\ndefault=400\n[axis.wdth]\nname="Width"\ndefault=100.5\n'
                   '[master.regular]\nstyle_name="Regular"\nsrcs=["%s"]\n[master.regular.position]\nwght=400\nwdth=100.5\n'
                   '[master.bold]\nstyle_name="Bold It"\nsrcs=["%s"]\n[master.bold.position]\nwght=700.25\nwdth=100.5\n' % (src, src2))
        f = d / "vf.toml"
        f.write_text(vf_toml)
        resolved = cfgmod.load(f)
        out = d / "vf_out.toml"
        cfgmod.write(out, resolved)
        reloaded = cfgmod.load(out)
        n += 1
        report.count(("cfg", "vf"), True)
        if reloaded != resolved or len(resolved.masters) != 2 or len(resolved.axes) != 2:
            report_failure(report, "config_roundtrip_vf", dict(kind="property", case=dict(resolved=repr(resolved), reloaded=repr(reloaded))))
        # source file names with characters a glob would interpret ([1] of a duplicate download, a question mark): the
        # list the driver resolved must be the list the step loads back, file for file
        odd = d / "odd"
        odd.mkdir()
        odd_names = ["emoji_u1f600[1].svg", "emoji_u1f6001.svg", "emoji_u1f603 ?.svg", "emoji_u1f603 x.svg", "emoji_u1f604.svg"]
        for nm in odd_names:
            (odd / nm).write_text(src.read_text())
        listed = [odd_names[0], odd_names[2], odd_names[4]]
        f = d / "odd.toml"
        f.write_text('output_file="Odd.ttf"\n[axis.wght]\nname="Weight"\ndefault=400\n[master.regular]\nstyle_name="Regular"\nsrcs=[%s]\n[master.regular.position]\nwght=400\n'
                     % ", ".join('"%s"' % str(odd / nm) for nm in listed))
        set_flags({})
        resolved = cfgmod.load(f)
        out = d / "odd_out.toml"
        cfgmod.write(out, resolved)
        reloaded = cfgmod.load(out)
        n += 1
        report.count(("cfg", "odd source names"), True)
        want_srcs = sorted(str(odd / nm) for nm in listed)
        got1 = sorted(str(p_) for p_ in resolved.masters[0].sources)
        got2 = sorted(str(p_) for p_ in reloaded.masters[0].sources)
        if got1 != want_srcs or got2 != want_srcs:
            report_failure(report, "config_roundtrip_odd_names", dict(kind="property", case=dict(function="config.load/write/load (sources)", listed=want_srcs, resolved=got1, reloaded=got2)))
            return
    report.notes["config.cases"] = n
    report.sample(dict(function="config.load/write/load", fields=len(fields), modes=["neither", "file", "flag", "both"]))


def run_parts_and_rsp(report, rng, n):
    from nanoemoji.parts import ReusableParts
    from nanoemoji import util
    from picosvg.geometric_types import Rect
    from picosvg.svg import SVG

    for i in range(n):
        parts = ReusableParts(reuse_tolerance=rng.choice([0.1, 0.05, 1.0, -1.0, -1.0]), view_box=Rect(0, 0, rng.choice([10, 128, 1000]), rng.choice([10, 128])))
        vb = parts.view_box
        ds = []
        for _ in range(rng.randint(0, 5)):
            x, y, w, h = (rng.randint(0, 50) for _ in range(4))
            if rng.random() < 0.5:
                ds.append(f"M{x},{y} L{x + w + 1},{y} L{x + w + 1},{y + h + 1} L{x},{y + h + 1} Z")
            else:
                ds.append(f"M{x},{y} L{x + w + 2},{y} L{x},{y + h + 3} Z")
        if ds:
            svg = SVG.fromstring('<svg xmlns="http://www.w3.org/2000/svg" viewBox="0 0 %d %d">%s</svg>' % (vb.w, vb.h, "".join(f'<path d="{d}"/>' for d in ds)))
            parts.add(svg.topicosvg())
        if rng.random() < 0.5 and parts.shape_sets:
            parts.compute_donors()
        s = parts.to_json()
        back = ReusableParts.from_json(s)
        same = (back.version == parts.version and back.view_box == parts.view_box and back.reuse_tolerance == parts.reuse_tolerance
                and dict(back.shape_sets) == dict(parts.shape_sets) and dict(back._donor_cache) == dict(parts._donor_cache))
        report.count(("parts", s), len(parts.shape_sets) > 0)
        if not same:
            report_failure(report, f"parts_roundtrip_{i}", dict(kind="property", function="ReusableParts.to_json/from_json", json=s))
            return
    with scratch_dir("verif-c10-rsp-") as d:
        for i in range(n):
            args = [gen_field(rng) or "x" for _ in range(rng.randint(1, 6))]
            args = [a.replace("\t", "t") for a in args]
            rsp = d / f"r{i}.rsp"
            rsp.write_text(" ".join(util.shell_quote(a) for a in args))
            got = util.expand_ninja_response_files(["first", f"@{rsp}", "last"])
            report.count(("rsp", tuple(args)), any(" " in a or '"' in a or "'" in a for a in args))
            if got != ["first"] + args + ["last"]:
                report_failure(report, f"rsp_roundtrip_{i}", dict(kind="property", function="util.expand_ninja_response_files", args=args, impl_out=got))
                return


def run_field_table(report):
    """G1: every FontConfig field is written by config.write, read back by config.load (from the file when no flag is
    given), has a command-line flag and is handed on -- observed by calling the real functions with probe values
    (harness/config_probe.py, the same observation Generated/ConfigPaths.v is made from; until session 4 this was an
    ast walk over config.py, which a behaviour-preserving rewrite of load() made crash)."""
    from harness.tables import config_paths

    try:
        out = config_paths.probe()
    except Exception as e:  # noqa
        report.violation("config_field_table", dict(kind="table", problems=[f"the configuration probe did not run: {e}"]), found_input=False)
        return
    problems = []
    for r in out["rows"]:
        f = r["name"]
        if f in out["structured"]:
            if not out["structured"][f]:
                problems.append(f"{f}: an axis/master table does not come out of config.load or does not survive write -> load")
            continue
        if not r["written"]:
            problems.append(f"{f}: not written by config.write")
        if not r["loaded"]:
            problems.append(f"{f}: not read from the file by config.load")
        if not r["passed"]:
            problems.append(f"{f}: a flag value is not handed on by config.load (flag over file)")
        if not r["flag"]:
            problems.append(f"{f}: no command-line flag")
    report.notes["config_field_table"] = dict(fields=len(out["rows"]), written=sum(r["written"] for r in out["rows"]), loaded=sum(r["loaded"] for r in out["rows"]),
                                              flagged=sum(bool(r["flag"]) for r in out["rows"]), passed=sum(r["passed"] for r in out["rows"]), probe_notes=out["notes"])
    report.count(("table", tuple(r["name"] for r in out["rows"])), True)
    if problems:
        report.violation("config_field_table", dict(kind="table", problems=problems, probe_notes=out["notes"]), found_input=True)


def run_cli_steps(report, rng):
    """after real command-line builds: what the driver resolved (build/<output>.toml, the per-master configurations) is
    what the steps were handed (the glyph map each font-writing step reads, row by row against the file names)"""
    import toml

    from nanoemoji import codepoints as cpmod
    from nanoemoji import glyph as glyphmod
    from nanoemoji import glyphmap as gmmod

    from harness import build, ninjafile
    from harness.common import scratch_dir

    art = lambda col, k=0: f'<svg xmlns="http://www.w3.org/2000/svg" viewBox="0 0 100 100"><path d="M{10 + k},10 L{40 + k},10 L{40 + k},{40 + k} Z" fill="{col}"/></svg>'
    # ---- a static build from file names in the usual spellings (variation selectors, ZWJ, upper case, prefixes)
    names = ["2764-fe0f.svg", "1f3f3-fe0f-200d-1f308.svg", "emoji_u1f468_200d_2764_fe0f_200d_1f468.svg", "1F9D1-200D-1F91D-200D-1F9D1.svg", "emoji_u1f600.svg", "u1f601.svg"]
    with scratch_dir("verif-c10cli-") as d0:
        # a space and an apostrophe on the way: ninja quotes paths into commands and response files, the steps split them
        d = d0 / "my font's files"
        (d / "src").mkdir(parents=True)
        for k, n_ in enumerate(names):
            (d / "src" / n_).write_text(art("#%02x4080" % (20 * k), k))
        flags = ["--family", "Steps Fam", "--upem", "1000", "--ascender", "800", "--descender", "-200", "--width", "0", "--nokeep_glyph_names", "--color_format", "glyf_colr_1"]
        rc, out = build.run_cli(["--build_dir", d / "build"] + flags + [str(d / "src" / n_) for n_ in names], cwd=d)
        report.count(("cli-steps", "static"), True)
        if rc != 0:
            report_failure(report, "cli_steps_build", dict(kind="e2e-cli", problem="the build failed", log=out[-1200:], files=names))
            return
        written = toml.load(d / "build" / "Font.toml")
        want = dict(family="Steps Fam", upem=1000, ascender=800, descender=-200, width=0, keep_glyph_names=False, color_format="glyf_colr_1")
        bad = {k: (written.get(k), v) for k, v in want.items() if written.get(k) != v}
        if bad:
            report_failure(report, "cli_steps_toml", dict(kind="e2e-cli", problem="build/Font.toml does not carry what was given on the command line", differs=str(bad)))
            return
        with open(d / "build" / "Font.glyphmap") as f:
            rows = gmmod.load_from(f)
        by_name = {Path(str(r.svg_file)).name: r for r in rows}
        probs = []
        if sorted(by_name) != sorted(names):
            probs.append(f"glyph map lists {sorted(by_name)}, the inputs are {sorted(names)}")
        for n_ in names:
            r = by_name.get(n_)
            if r is None:
                continue
            cps = tuple(cpmod.from_filename(n_))  # the file-name scanner (Model.FileName, tied separately)
            if tuple(r.codepoints) != cps:
                probs.append(f"{n_}: the step sees codepoints {['%04x' % c for c in r.codepoints]}, the file name says {['%04x' % c for c in cps]}")
            elif r.glyph_name != glyphmod.glyph_name(cps):
                probs.append(f"{n_}: glyph name {r.glyph_name} != {glyphmod.glyph_name(cps)}")
        if probs:
            report_failure(report, "cli_steps_glyphmap", dict(kind="e2e-cli", problem="the glyph map the font-writing step reads is not what the file names say", problems=probs[:4]))
            return
    # ---- a two-master build: every master's font-writing step must be handed that master's own glyph map
    with scratch_dir("verif-c10vf-") as d:
        for m, col in (("thin", "red"), ("bold", "blue")):
            (d / m).mkdir()
            for k in range(2):
                (d / m / f"emoji_u{0x1F600 + k:x}.svg").write_text(art(col, k + (3 if m == "bold" else 0)))
        (d / "vf.toml").write_text('output_file="VF.ttf"\ncolor_format="glyf_colr_1"\nreuse_tolerance=-1.0\n[axis.wght]\nname="Weight"\ndefault=100\n'
                                   '[master.thin]\nstyle_name="Thin"\nsrcs=["thin/*.svg"]\n[master.thin.position]\nwght=100\n'
                                   '[master.bold]\nstyle_name="Bold"\nsrcs=["bold/*.svg"]\n[master.bold.position]\nwght=700\n')
        rc, out = build.run_cli(["--build_dir", d / "build", d / "vf.toml"], cwd=d)
        report.count(("cli-steps", "two masters"), True)
        if rc != 0:
            report_failure(report, "cli_steps_vf_build", dict(kind="e2e-cli", problem="the two-master build failed", log=out[-1200:]))
            return
        rules, edges = ninjafile.parse(d / "build" / "build.ninja")
        ufo_edges = [e for e in edges if e["rule"] == "write_font" and e["outs"][0].endswith(".ufo")]
        probs = []
        if len(ufo_edges) != 2:
            probs.append(f"{len(ufo_edges)} master font-writing steps for 2 masters")
        for e in ufo_edges:
            cfg = toml.load(d / "build" / e["vars"]["config_file"])
            (mname, mcfg), = cfg["master"].items()
            with open(d / "build" / e["vars"]["glyphmap_file"]) as f:
                rows = gmmod.load_from(f)
            seen = sorted(str(r.svg_file) for r in rows)
            if seen != sorted(mcfg["srcs"]):
                probs.append(f"master {mname}: its step reads {seen} (from {e['vars']['glyphmap_file']}), its configuration lists {sorted(mcfg['srcs'])}")
        if probs:
            report_failure(report, "cli_steps_masters", dict(kind="e2e-cli", problem="a master's font-writing step is not handed that master's sources", problems=probs[:3]))


def main(argv):
    common.setup_env()
    tier = common.tier_from_args(argv)
    report = Report("C10", tier, common.seed_from_env())
    report.rule = (
        "csv: random rows over an alphabet with spaces, commas, quotes, unicode (+15% with CR/LF) through the real writer and "
        "reader, and arbitrary text through the reader; GlyphMapping rows with awkward file names; conventional file names for "
        "random codepoint sequences; glyph names of random sequence sets; every FontConfig field x {neither,file,flag,both} "
        "through config.load/write/load with real absl flags; parts JSON; response files. Non-trivial = needs quoting / "
        "multi-codepoint / value given by flag or file"
    )
    st = proof_gate(report)
    rng = random.Random(report.seed)
    n = 400 if tier == "quick" else 6000
    if common.vo_ok("Corr/C10.v"):
        run_csv(report, n, rng)
        run_glyphmap(report, n, rng)
    run_names(report, n, rng)
    run_field_table(report)
    run_config(report, rng, tier)
    run_parts_and_rsp(report, rng, 40 if tier == "quick" else 600)
    if not report.violations:
        run_cli_steps(report, rng)
    if not st["proof_ok"] and not report.violations:
        report.violation("proof", dict(kind="proof", theorem="Props/C10.v", detail=report.notes.get("proof_failure")), found_input=False)
    report.open_obligations = [
        "the file-name scanner (a regex) is checked on samples; glyph-name injectivity is a theorem for un-hashed names (the SHA-1/base32 digest of longer names is an oracle)",
        "TOML printing/parsing (toml library, str(float)/float()) is an external oracle: exercised for every field, not modelled",
    ]
    return report.finish()
