"""C17 -- Ambiguous or unusable input stops the build instead of yielding a wrong glyph."""
import random
import time
from concurrent.futures import ThreadPoolExecutor
from pathlib import Path

from harness import build, common, e2e
from harness.common import Report, eval_bad_indices, listlit, proof_gate, report_failure, scratch_dir

GOOD = '<svg xmlns="http://www.w3.org/2000/svg" viewBox="0 0 100 100"><path d="M{x},10 L{x2},10 L{x2},40 L{x},40 Z" fill="{fill}"/></svg>'
VECTOR = ["glyf", "glyf_colr_0", "glyf_colr_1", "cff_colr_0", "cff_colr_1", "cff2_colr_0", "cff2_colr_1", "picosvg", "picosvgz", "untouchedsvg", "untouchedsvgz"]
ALL = VECTOR + ["cbdt", "sbix"]


def good(i, fill="red"):
    return GOOD.format(x=10 + 5 * i, x2=40 + 5 * i, fill=fill)


def defects(rng):
    """(class, formats it applies to, list of (filename, text) defective sources, extra args)"""
    g = '<svg xmlns="http://www.w3.org/2000/svg" viewBox="0 0 100 100"><defs><linearGradient id="g" %s><stop offset="0" stop-color="red"/><stop offset="1" stop-color="blue"/></linearGradient></defs><path d="M10,10 L40,10 L40,40 L10,40 Z" fill="url(#g)"/></svg>'
    return [
        ("duplicate codepoints", ALL, [("emoji_u1f9d0.svg", good(1)), ("1f9d0.svg", good(2, "blue"))], []),
        ("duplicate sequence", ALL, [("emoji_u1f9d0_200d_1f9d1.svg", good(1)), ("1f9d0-200d-1f9d1.svg", good(2, "blue"))], []),
        ("same file name in two directories", ALL, [("a/emoji_u1f9d0.svg", good(1)), ("b/emoji_u1f9d0.svg", good(2, "blue"))], []),
        ("colliding glyph names (g_ prefix)", ALL, [("emoji_u0067_1f9d0.svg", good(1)), ("emoji_u1f9d0.svg", good(2, "blue"))], []),
        ("malformed XML", ALL, [("emoji_u1f9d0.svg", "<svg xmlns='http://www.w3.org/2000/svg' viewBox='0 0 10 10'><path d='M0,0")], []),
        ("unparsable colour", [f for f in VECTOR if "untouched" not in f], [("emoji_u1f9d0.svg", good(1, "notacolour"))], []),
        ("unsupported colour syntax (percent rgb)", [f for f in VECTOR if "colr" in f], [("emoji_u1f9d0.svg", good(1, "rgb(100%, 0%, 0%)"))], []),
        ("unsupported colour syntax in a gradient stop", [f for f in VECTOR if "colr" in f], [("emoji_u1f9d0.svg", (g % "").replace('stop-color="red"', 'stop-color="rgb(100%, 0%, 0%)"'))], []),
        ("hex colour with a digit too many", [f for f in VECTOR if "colr" in f or f.startswith("picosvg")], [("emoji_u1f9d0.svg", good(1, "#FF00000"))], []),
        ("hex colour with a digit too many in a gradient stop", [f for f in VECTOR if "colr" in f and not f.endswith("_0")], [("emoji_u1f9d0.svg", (g % "").replace('stop-color="red"', 'stop-color="#FF00000"'))], []),
        ("unparsable colour on a fully transparent gradient stop", [f for f in VECTOR if ("colr" in f and not f.endswith("_0")) or f.startswith("picosvg")],
         [("emoji_u1f9d0.svg", (g % "").replace('stop-color="red"', 'stop-color="notacolour" stop-opacity="0"'))], []),
        ("unknown spreadMethod", [f for f in VECTOR if "untouched" not in f and f != "glyf"], [("emoji_u1f9d0.svg", g % 'spreadMethod="bogus"')], []),
        ("palette index conflict", [f for f in VECTOR if "colr" in f], [("emoji_u1f9d0.svg", good(1, "var(--color1, red)")), ("emoji_u1f9d1.svg", good(2, "var(--color1, blue)"))], []),
        ("palette index conflict between a fill and a gradient stop", [f for f in VECTOR if "colr" in f and not f.endswith("_0")],
         [("emoji_u1f9d0.svg", good(1, "var(--color1, red)")), ("emoji_u1f9d1.svg", (g % "").replace('stop-color="blue"', 'stop-color="var(--color1, blue)"'))], []),
        ("palette index conflict between two gradient stops", [f for f in VECTOR if "colr" in f and not f.endswith("_0")],
         [("emoji_u1f9d0.svg", (g % "").replace('stop-color="red"', 'stop-color="var(--color2, red)"')), ("emoji_u1f9d1.svg", (g % "").replace('stop-color="blue"', 'stop-color="var(--color2, blue)"').replace("M10,10", "M12,10"))], []),
        # F39 (known): one palette entry claimed with currentColor as its default and with a colour
        ("palette index conflict between currentColor and a colour", [f for f in VECTOR if "colr" in f],
         [("emoji_u1f9d0.svg", good(1, "var(--color1, currentColor)")), ("emoji_u1f9d1.svg", good(2, "var(--color1, red)"))], []),
        ("bitmap too big for CBDT", ["cbdt"], [("emoji_u1f9d0.svg", good(1))], ["--bitmap_resolution", "300"]),
    ]


def run_one(job):
    name, fmt, files, extra, nvalid, pos = job
    with scratch_dir("verif-c17-") as d:
        sd = d / "src"
        sd.mkdir()
        valid = [(f"emoji_u{0x1F600 + i:x}.svg", good(i + 3, "green")) for i in range(nvalid)]
        items = valid[:pos] + files + valid[pos:]
        paths = []
        for fn, text in items:
            p = sd / fn
            p.parent.mkdir(parents=True, exist_ok=True)
            p.write_text(text)
            paths.append(str(p))
        args = ["--build_dir", d / "build", "--color_format", fmt] + extra
        if fmt in ("cbdt", "sbix") and not extra:
            args += ["--bitmap_resolution", "32"]
        t0 = time.time()
        rc, out = build.run_cli(args + paths, cwd=d)
        fonts = [p for p in (d / "build").glob("Font.*") if p.suffix in (".ttf", ".otf")]
        fresh = [str(p.name) for p in fonts if p.stat().st_mtime >= t0 - 1]
        return dict(defect=name, format=fmt, files=[f for f, _ in items], exit=rc, fresh_font=fresh, log=out[-1200:])


def run_cli(report, n, rng):
    jobs = []
    ds = defects(rng)
    # every class once, then random class x format x position
    for name, fmts, files, extra in ds:
        jobs.append((name, rng.choice(fmts), files, extra, rng.randint(0, 3), 0))
    while len(jobs) < n:
        name, fmts, files, extra = rng.choice(ds)
        nv = rng.randint(0, 5)
        jobs.append((name, rng.choice(fmts), files, extra, nv, rng.randint(0, nv)))
    with ThreadPoolExecutor(max_workers=12) as ex:
        results = list(ex.map(run_one, jobs))
    for i, r in enumerate(results):
        report.count(("cli", r["defect"], r["format"], tuple(r["files"])), True)
        report.hist("defect", r["defect"])
        report.hist("format", r["format"])
        if r["exit"] == 0 or r["fresh_font"]:
            fid = "F39-palette-entry-claimed-by-currentcolor" if r["defect"] == "palette index conflict between currentColor and a colour" else None
            if report_failure(report, f"accepted_{i}", dict(kind="e2e-cli", case=r, problem="defective input accepted: exit 0 and/or a fresh output font"), fid):
                return
    report.sample({k: results[0][k] for k in ("defect", "format", "files", "exit", "fresh_font")})
    # a control: the same harness on valid input must succeed (so 'exit != 0' is not vacuous)
    ok = run_one(("control (no defect)", "glyf_colr_1", [], [], 3, 0))
    report.count(("cli", "control"), True)
    if ok["exit"] != 0 or not ok["fresh_font"]:
        report_failure(report, "control", dict(kind="e2e-cli", case=ok, problem="valid input was rejected"))


def run_masters(report, rng):
    """masters that disagree on their source sets, in either direction, must stop the build"""
    vf = ('output_file = "VF.ttf"\ncolor_format = "glyf_colr_1"\n[axis.wght]\nname = "Weight"\ndefault = 400\n'
          '[master.a]\nstyle_name = "A"\nsrcs = ["a/*.svg"]\n[master.a.position]\nwght = 400\n'
          '[master.b]\nstyle_name = "B"\nsrcs = ["b/*.svg"]\n[master.b.position]\nwght = 700\n')
    for which in ("later master lacks a source", "later master has an extra source", "masters have as many sources but not the same ones", "control (masters agree)"):
        with scratch_dir("verif-c17m-") as d:
            n = rng.randint(1, 3)
            for m in ("a", "b"):
                (d / m).mkdir()
                for k in range(n):
                    (d / m / f"emoji_u{0x1F600 + k:x}.svg").write_text(good(k + (2 if m == "b" else 0)))
            if which.startswith("later master lacks"):
                (d / "b" / f"emoji_u{0x1F600 + n - 1:x}.svg").unlink()
                (d / "a" / f"emoji_u{0x1F600 + n:x}.svg").write_text(good(5))  # so that b is not empty
                (d / "b" / f"emoji_u{0x1F600 + n:x}.svg").write_text(good(6))
            elif which.startswith("masters have as many"):
                (d / "b" / f"emoji_u{0x1F600 + n - 1:x}.svg").rename(d / "b" / f"emoji_u{0x1F600 + n + 3:x}.svg")
            elif which.startswith("later master has"):
                (d / "b" / f"emoji_u{0x1F600 + n + 1:x}.svg").write_text(good(6))  # same colour: the palettes of the masters agree
            (d / "vf.toml").write_text(vf)
            t0 = time.time()
            rc, out = build.run_cli(["--build_dir", d / "build", d / "vf.toml"], cwd=d)
            fonts = [p for p in (d / "build").glob("VF.*") if p.suffix in (".ttf", ".otf")]
            fresh = [p.name for p in fonts if p.stat().st_mtime >= t0 - 1]
            r = dict(defect="masters disagree: " + which, format="glyf_colr_1 (variable)", exit=rc, fresh_font=fresh, log=out[-1200:])
            report.count(("cli-masters", which), True)
            report.hist("defect", "masters disagree" if not which.startswith("control") else "control (masters agree)")
            if which.startswith("control"):
                if rc != 0 or not fresh:
                    report_failure(report, "masters_control", dict(kind="e2e-cli", case=r, problem="agreeing masters were rejected"))
                    return
            elif rc == 0 or fresh:
                report_failure(report, "masters_accepted", dict(kind="e2e-cli", case=r, problem="masters with different source sets were accepted"))
                return


def run_accept(report, n, rng):
    """write_font._generate_color_font's acceptance of glyph names vs the model (in process)"""
    from nanoemoji.glyph import glyph_name

    IMPORTS = ["Model.Inputs Corr.Common Corr.C17"]
    cases, meta = [], []
    pool = [(0x1F9D0,), (0x1F9D1,), (0x67, 0x1F9D0), (0x1F9D0, 0x200D, 0x1F9D1), (0x2A,), (0x1F9D2,)]
    for i in range(n):
        seqs = [rng.choice(pool) for _ in range(rng.randint(1, 5))]
        names = [glyph_name(s) for s in seqs]
        ids = {}
        srcs = [(f"s{k}.svg", good(k), s) for k, s in enumerate(seqs)]
        try:
            build.build_inprocess(dict(color_format="glyf_colr_1"), srcs, cps_from_names=False)  # files are named s0.svg, s1.svg...
            accepted = True
        except ValueError:
            accepted = False
        cases.append(f"({listlit([str(ids.setdefault(nm, len(ids))) + '%Z' for nm in names])}, {'true' if accepted else 'false'})")
        meta.append(dict(function="write_font._generate_color_font (acceptance)", sequences=[list(s) for s in seqs], glyph_names=names, impl_out=accepted))
        report.count(("acc", tuple(seqs)), len(set(names)) < len(names))
    bad = eval_bad_indices(IMPORTS, "", "(list Z * bool)%type", cases, ["acc_agree"], tag="accept")
    report.notes["acceptance.cases"] = len(cases)
    report.notes["acceptance.disagreements"] = len(bad["acc_agree"])
    if bad["acc_agree"]:
        i = bad["acc_agree"][0]
        m = meta[i]
        # the model accepts iff names are distinct: a disagreement is itself a property failure
        report_failure(report, f"acceptance_{i}", dict(kind="corr+property", case=m, note="accepted inputs with a repeated glyph name, or rejected distinct ones"))


def run_master_accept(report, n, rng):
    """config.load's acceptance of the masters' source sets (unique file names within a master, the same set of names in
    every master) against Model.Inputs.masters_accepted, on generated configurations: equal sets, a missing or extra
    source, equally many but different sources, one file name twice within a master (two directories)"""
    from absl import flags
    from nanoemoji import config as cfgmod

    IMPORTS = ["Model.Inputs Corr.Common Corr.C17"]
    if not flags.FLAGS.is_parsed():
        flags.FLAGS(["verif"])
    cases, meta = [], []
    names = [f"emoji_u{0x1F600 + k:x}.svg" for k in range(6)]
    with scratch_dir("verif-c17ms-") as d:
        for i in range(n):
            nm = rng.randint(1, 3)
            base = rng.sample(names, rng.randint(1, 4))
            kind = ["equal", "equal", "missing", "extra", "same-size-different", "duplicate-name"][i % 6]
            masters = []
            for m in range(nm):
                files = [(f"c{i}/m{m}", f) for f in base]
                if m == nm - 1 and nm > 1:
                    others = [f for f in names if f not in base]
                    if kind == "missing" and len(files) > 1:
                        files = files[:-1]
                    elif kind == "extra" and others:
                        files.append((f"c{i}/m{m}", others[0]))
                    elif kind == "same-size-different" and others:
                        files[-1] = (f"c{i}/m{m}", others[0])
                if kind == "duplicate-name" and m == 0:
                    files.append((f"c{i}/m{m}x", base[0]))
                masters.append(files)
            text = 'output_file="VF.ttf"\n[axis.wght]\nname="Weight"\ndefault=100\n'
            for m, files in enumerate(masters):
                for sub, f in files:
                    (d / sub).mkdir(parents=True, exist_ok=True)
                    (d / sub / f).write_text("<svg/>")
                text += f'[master.m{m}]\nstyle_name="M{m}"\nsrcs=[' + ", ".join(f'"{sub}/{f}"' for sub, f in files) + f']\n[master.m{m}.position]\nwght={100 + 100 * m}\n'
            cfg = d / f"c{i}.toml"
            cfg.write_text(text)
            try:
                cfgmod.load(cfg)
                accepted = True
            except Exception as ex:
                accepted = False
            ids = {f: k for k, f in enumerate(names)}
            cases.append("(" + listlit([listlit([f"{ids[f]}%Z" for _, f in files]) for files in masters]) + f", {'true' if accepted else 'false'})")
            meta.append(dict(function="config.load (masters' source sets)", kind=kind, masters=[[f"{sub}/{f}" for sub, f in files] for files in masters], impl_out=accepted))
            report.count(("mst", kind, str(masters)), kind not in ("equal",))
            report.hist("masters.kind", kind)
            report.hist("masters.outcome", "accepted" if accepted else "refused")
    bad = eval_bad_indices(IMPORTS, "", "(list (list Z) * bool)%type", cases, ["mst_agree"], tag="masters")
    report.notes["masters.cases"] = len(cases)
    report.notes["masters.disagreements"] = len(bad["mst_agree"])
    if bad["mst_agree"]:
        i = bad["mst_agree"][0]
        # the model accepts iff names are unique per master and all masters have one set: a disagreement is a property failure
        report_failure(report, f"masters_accept_{i}", dict(kind="corr+property", case=meta[i], note="masters with different or ambiguous source sets accepted, or agreeing ones refused"))


def main(argv):
    common.setup_env()
    tier = common.tier_from_args(argv)
    report = Report("C17", tier, common.seed_from_env())
    report.rule = (
        "real CLI runs: one defect class (duplicate codepoints / sequence / file name / colliding glyph names, malformed XML, "
        "unparsable colour, unknown spreadMethod, palette index conflict, oversize CBDT bitmap; masters whose source sets differ in either direction) at a random "
        "position among 0-5 valid sources, in a colour format the class applies to; must exit non-zero and leave no fresh font; a "
        "valid control must succeed. In process: acceptance of glyph-name lists, and config.load's acceptance of the masters' source sets, vs the model"
    )
    st = proof_gate(report)
    rng = random.Random(report.seed)
    if common.vo_ok("Corr/C17.v"):
        run_accept(report, 40 if tier == "quick" else 600, rng)
        run_master_accept(report, 36 if tier == "quick" else 600, random.Random(rng.getrandbits(48)))
    run_cli(report, 24 if tier == "quick" else 400, rng)
    if not report.violations:
        run_masters(report, rng)
    if not st["proof_ok"] and not report.violations:
        report.violation("proof", dict(kind="proof", theorem="Props/C17.v", detail=report.notes.get("proof_failure")), found_input=False)
    report.open_obligations = [
        "masters with different source sets: config.load raises (a NameError from an unbound variable rather than the intended ValueError) - still non-zero; exercised by the C18 check's negative case",
        "XML/PNG parse errors come from lxml/PIL: exercised, not modelled",
    ]
    return report.finish()
