"""run nanoemoji.write_variable_font.main on a config with the font compiler and the UFO reader stubbed out;
print the designspace document it built (axes, source locations) as JSON"""
import json
import sys
import types

from absl import flags

import nanoemoji.write_variable_font as wvf

captured = {}


class _Info:
    styleName = None


class _Ufo:
    info = _Info()


def fake_open(path, *a, **k):
    u = _Ufo()
    u.info = _Info()
    return u


class _Table:
    formatType = 2.0


class _VF:
    def __init__(self):
        self.tables = {}

    def __getitem__(self, tag):
        return self.tables.setdefault(tag, _Table())

    def save(self, path):
        pass


def fake_compile(designspace, **k):
    captured["axes"] = [[a.tag, a.name, a.minimum, a.default, a.maximum] for a in designspace.axes]
    captured["sources"] = [[s.name, sorted(s.location.items()), getattr(s.font.info, "styleName", None)] for s in designspace.sources]
    return _VF()


wvf.ufoLib2.Font.open = staticmethod(fake_open)
wvf.ufo2ft.compileVariableTTF = fake_compile
flags.FLAGS(["probe", "--config_file", sys.argv[1]])
try:
    wvf.main(["probe"])
    print(json.dumps(dict(ok=True, **captured)))
except Exception as ex:
    print(json.dumps(dict(ok=False, error=f"{type(ex).__name__}: {ex}")))
