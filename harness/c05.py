"""C05 -- A COLRv1 clip box never cuts painted content."""
import random
import types
from fractions import Fraction as Fr

from harness import common
from harness.common import Report, report_failure, afflit, evaluate_corr, listlit, optlit, proof_gate, ptlit, strlit, zlit
from harness.pyconv import paint_json, paintlit

IMPORTS = ["Model.Field Model.Affine Model.Color Model.Paint Model.Fixed Model.Bounds Model.ColrSem Generated.Consts Corr.Common Corr.C05"]


def dy(rng, lo, hi, den=8):
    return rng.randint(lo * den, hi * den) / den


def make_ufo(rng):
    import ufoLib2

    ufo = ufoLib2.Font()
    env = {}
    for i in range(rng.randint(2, 5)):
        name = f"g{i}"
        g = ufo.newGlyph(name)
        pts = []
        if rng.random() < 0.12:
            env[name] = []  # empty glyph: contributes no bounds
            continue
        pen = g.getPen()
        n = rng.randint(3, 6)
        cx, cy = dy(rng, -200, 800), dy(rng, -300, 900)
        first = (cx + dy(rng, -150, 150), cy + dy(rng, -150, 150))
        pen.moveTo(first)
        pts.append(first)
        for _ in range(n):
            if rng.random() < 0.4:
                c = [(cx + dy(rng, -250, 250), cy + dy(rng, -250, 250)) for _ in range(3)]
                pen.curveTo(*c)
                pts.extend(c)
            else:
                p = (cx + dy(rng, -150, 150), cy + dy(rng, -150, 150))
                pen.lineTo(p)
                pts.append(p)
        pen.closePath()
        env[name] = pts
    return ufo, env


def gen_aff(rng, tiny=True):
    from picosvg.svg_transform import Affine2D

    k = rng.random()
    d = lambda lo, hi: dy(rng, lo, hi, 64)
    if k < 0.15:
        return Affine2D(1, 0, 0, 1, float(rng.randint(-500, 500)), float(rng.randint(-500, 500)))
    if k < 0.22:
        return Affine2D(d(-2, 2), 0, 0, d(-2, 2), d(-300, 300), d(-300, 300))
    if k < 0.3:  # uniform scale about an off-diagonal centre (PaintScaleUniformAroundCenter)
        s_ = rng.choice([0.5, 2.0, -1.0, 0.25, 1.5, -0.5, 0.75])
        cx, cy = rng.randint(-300, 300), rng.randint(-300, 300)  # integral centre: the specialised paint is emitted
        if rng.random() < 0.5:
            return Affine2D(s_, 0, 0, s_, (1 - s_) * cx, (1 - s_) * cy)
        s2 = rng.choice([0.5, 2.0, -1.0, 1.25])
        return Affine2D(s_, 0, 0, s2, (1 - s_) * cx, (1 - s2) * cy)
    if k < 0.45:  # rotations by Pythagorean triples, reflections
        m, n, h = rng.choice([(3, 4, 5), (0, 1, 1), (1, 0, 1), (-1, 0, 1)])
        s = rng.choice([1.0, -1.0])
        c_, s_ = m / h, n / h
        # 3/5 is not dyadic: use exact 0/1/-1 rotations and dyadic approximations otherwise
        c_, s_ = round(c_ * 64) / 64, round(s_ * 64) / 64
        return Affine2D(c_, s_, -s_ * s, c_ * s, d(-300, 300), d(-300, 300))
    if k < 0.5 and tiny:
        return Affine2D(1, 0, 0, 1, 2**-40, 0)  # almost identity: the implementation skips it
    return Affine2D(d(-3, 3), d(-3, 3), d(-3, 3), d(-3, 3), d(-600, 600), d(-600, 600))


def gen_leaf(rng, names):
    from nanoemoji import paint as P
    from nanoemoji.colors import Color

    fill = P.PaintSolid(Color(rng.randint(0, 255), 0, 0, 1.0))
    return P.PaintGlyph(glyph=rng.choice(names), paint=fill)


def gen_root(rng, names, nested=False, depth=0, tiny=True):
    from nanoemoji import paint as P
    from nanoemoji.colors import Color

    k = rng.random()
    if depth >= 2 or k < 0.35:
        leaf = gen_leaf(rng, names)
        if rng.random() < 0.6:
            leaf = P.transformed(gen_aff(rng, tiny), leaf)
            if nested and rng.random() < 0.7:
                leaf = P.transformed(gen_aff(rng, tiny), leaf)
        return leaf
    if k < 0.7:
        return P.PaintColrLayers(layers=tuple(gen_root(rng, names, nested, depth + 1, tiny) for _ in range(rng.randint(1, 3))))
    if k < 0.85:
        return P.PaintComposite(
            mode=P.CompositeMode.SRC_IN,
            source=P.PaintColrLayers(layers=tuple(gen_root(rng, names, nested, depth + 1, tiny) for _ in range(2))),
            backdrop=P.PaintSolid(Color(0, 0, 0, 0.5)),
        )
    inner = gen_root(rng, names, nested, depth + 1, tiny)
    return P.transformed(gen_aff(rng, tiny), inner) if nested else inner


def has_nested_transform(p, above=0):
    from nanoemoji import paint as P

    t = 1 if P.is_transform(p) else 0
    if isinstance(p, P.PaintGlyph):
        return above > 1
    return any(has_nested_transform(c, above + t) for c in p.children())


def run(report: Report, n):
    from nanoemoji import write_font

    rng = random.Random(report.seed)
    cases, meta = [], []
    ncases, nmeta = [], []
    for i in range(n):
        ufo, env = make_ufo(rng)
        names = list(env)
        nested = rng.random() < 0.2
        roots = tuple(gen_root(rng, names, nested) for _ in range(rng.randint(0, 3) if rng.random() < 0.9 else 0))
        factor = rng.choice([0, 1, 1, 2, 5, 20, 41, rng.randint(2, 300)])
        cg = types.SimpleNamespace(ufo=ufo, painted_layers=roots)
        try:
            out = write_font._bounds(cg, factor)
            outl = "NoBox" if out is None else f"(Box ({zlit(out[0])}, {zlit(out[1])}, {zlit(out[2])}, {zlit(out[3])}))"
        except AssertionError:
            out, outl = "AssertionError", "AssertFail"
        envl = listlit([f"({strlit(k)}, {listlit([ptlit(p) for p in v])})" for k, v in env.items()])
        case = f"({envl}, {listlit([paintlit(r) for r in roots])}, {zlit(factor)}, {outl})"
        m = dict(function="write_font._bounds", glyph_points={k: [list(map(str, p)) for p in v] for k, v in env.items()},
                 roots=[paint_json(r) for r in roots], factor=factor, impl_out=out)
        is_nested = any(has_nested_transform(r) for r in roots)
        if is_nested:
            ncases.append(case)
            nmeta.append(m)
            report.hist("tree", "nested_transforms (agreement only, cf. latent L1)")
        else:
            cases.append(case)
            meta.append(m)
            report.hist("tree", "at_most_one_transform_above_glyph")
        report.hist("result", "None" if out is None else ("assert" if out == "AssertionError" else "box"))
        report.hist("factor", "<=1" if factor <= 1 else ">1")
        nontrivial = len(roots) > 0 and any(len(v) for v in env.values())
        report.count(("bd", envl, repr(roots), factor), nontrivial)
    evaluate_corr(report, IMPORTS, "Corr.C05", "bounds", "bd_case", cases, meta, "bd_agree", "bd_prop", shard=150)
    # nested transforms: the model mirrors breadth_first exactly; only agreement is required
    evaluate_corr(report, IMPORTS, "Corr.C05", "bounds_nested", "bd_case", ncases, nmeta, "bd_agree", "bd_agree", shard=150)
    if meta:
        report.sample(meta[0])

    # _quantize_bounding_rect directly
    cases, meta = [], []
    for i in range(n):
        x0, y0 = rng.randint(-3000, 3000), rng.randint(-3000, 3000)
        x1, y1 = x0 + rng.randint(0, 3000), y0 + rng.randint(0, 3000)
        f = rng.choice([1, 2, 3, 7, 10, 20, 41, 100, rng.randint(1, 500), 0, -3])
        if rng.random() < 0.3:  # exact multiples: the edge must not move
            x0, x1 = x0 * max(f, 1), x1 * max(f, 1)
        try:
            out = write_font._quantize_bounding_rect(x0, y0, x1, y1, f)
        except AssertionError:
            out = None
        outl = optlit(out, lambda o: "(" + ", ".join(zlit(v) for v in o) + ")")
        cases.append(f"({zlit(x0)}, {zlit(y0)}, {zlit(x1)}, {zlit(y1)}, {zlit(f)}, {outl})")
        meta.append(dict(function="write_font._quantize_bounding_rect", rect=[x0, y0, x1, y1], factor=f, impl_out=out))
        report.count(("qr", x0, y0, x1, y1, f), f > 1)
    evaluate_corr(report, IMPORTS, "Corr.C05", "quantize_bounding_rect", "qr_case", cases, meta, "qr_agree", "qr_prop")
    report.sample(meta[0])

    # default step: round(upem * 0.02) must be 2% of the em within rounding
    bad = None
    for upem in list(range(1, 200)) + [1000, 1024, 2048, 16384, 65535]:
        q = round(upem * 0.02)
        report.count(("dq", upem), True)
        if abs(Fr(q) - Fr(upem, 50)) > Fr(1, 2) + Fr(1, 10**9):
            bad = (upem, q)
    src = (common.SRC / "nanoemoji" / "write_font.py").read_text()
    if "round(config.upem * 0.02)" not in src:
        report.violation("default_step_changed", dict(kind="table", detail="default clip box quantisation is no longer round(config.upem * 0.02)"), found_input=False)
    if bad:
        report.violation("default_step", dict(kind="property", upem=bad[0], step=bad[1]))


def run_fonts(report, rng):
    """whole fonts: in process and through the real command line (the step may be given by flag or by file)"""
    from harness import build, e2e, picture

    H = '<svg xmlns="http://www.w3.org/2000/svg" viewBox="0 0 100 100">'
    painted = H + '<path d="M12,17 L61,17 L61,73 L12,73 Z" fill="red"/><path d="M40,-30 L70,-30 L55,10 Z" fill="blue"/></svg>'
    blank = H + "<defs/></svg>"
    outside = H + '<path d="M150,150 L190,150 L190,190 L150,190 Z" fill="green"/></svg>'
    # a glyph whose content reaches a little further right and up than an earlier glyph's (less than a quantisation step)
    bigger = H + '<path d="M12,15.6 L62.3,15.6 L62.3,73 L12,73 Z" fill="#884400"/><path d="M40,-30 L70,-30 L55,10 Z" fill="blue"/></svg>'
    # artwork that nearly fills the viewBox (a user transform then carries it beyond the glyph's cell)
    full = H + '<path d="M2,2 L98,2 L98,98 L2,98 Z" fill="#008800"/></svg>'
    srcs = [(build.filename_for((0x1F600 + k,)), t, (0x1F600 + k,)) for k, t in enumerate([painted, blank, outside, painted.replace("red", "#123456"), bigger, full])]
    plans = []
    for upem, q in ((1000, None), (1024, None), (1000, 1), (2048, 37), (1024, 64)):
        plans.append((dict(color_format="glyf_colr_1", upem=upem, ascender=round(upem * 0.8), descender=-round(upem * 0.2), clipbox_quantization=q), None))
    plans.append((dict(color_format="glyf_colr_1", upem=1024, ascender=820, descender=-204, clipbox_quantization=37), "flag"))
    plans.append((dict(color_format="cff_colr_1", output_file="Font.otf", upem=2048, ascender=1640, descender=-408, clipbox_quantization=50, clip_to_viewbox=False), "file"))
    # user transforms (the box follows the transformed content, whatever the viewBox clipping did before)
    from picosvg.svg_transform import Affine2D

    for t in (Affine2D(1.1, 0, 0, 1.1, 0, 0), Affine2D(1, 0, 0, 1, 0, 120), Affine2D(1, 0, 0, 1, -80, 0)):
        plans.append((dict(color_format="glyf_colr_1", upem=1000, ascender=800, descender=-200, width=1000, transform=t, clipbox_quantization=rng.choice([None, 1, 32])), None))
    # "do not clip" given as a flag (a falsy value), and next to another configuration that does clip the same files
    plans.append((dict(color_format="glyf_colr_1", upem=1000, ascender=800, descender=-200, clip_to_viewbox=False), "flag"))
    plans.append((dict(color_format="glyf_colr_1", upem=1000, ascender=800, descender=-200, clip_to_viewbox=False), "file",
                  dict(companion=(dict(color_format="glyf_colr_1", upem=1000, ascender=800, descender=-200, clip_to_viewbox=True), None))))
    for plan in plans:
        over, via = plan[:2]
        extra = plan[2] if len(plan) > 2 else {}
        case = dict(kind="e2e", config={k: str(v) for k, v in over.items()}, built_by=(via or "in process") + "".join(", " + k for k in extra), sources=[s_[1] for s_ in srcs])
        try:
            font, cfg, picos, _ = build.build_cli(over, srcs, via, **extra) if via else build.build_inprocess(over, srcs)
        except Exception as ex:
            case["error"] = f"{type(ex).__name__}: {ex}"[:1500]
            report_failure(report, "font_build", case)
            return
        step = over["clipbox_quantization"] if over.get("clipbox_quantization") else round(over["upem"] * 0.02)
        clips = font["COLR"].table.ClipList.clips if font["COLR"].table.ClipList else {}
        probs = []
        for fn, text, cps in srcs:
            g = e2e.glyph_for(font, cps)
            act, p2 = picture.colr_picture(font, g) if g in {r.BaseGlyph for r in font["COLR"].table.BaseGlyphList.BaseGlyphPaintRecord} else ([], [])
            paints = bool([1 for it, _ in picture.flatten(act) if it[1]])
            box = clips.get(g)
            if not paints and box is not None:
                probs.append(f"{g} paints nothing but has ClipBox ({box.xMin}, {box.yMin}, {box.xMax}, {box.yMax})")
            if paints and box is None:
                probs.append(f"{g} paints but has no ClipBox")
            if box is not None and step > 1 and any(v % step for v in (box.xMin, box.yMin, box.xMax, box.yMax)):
                probs.append(f"{g}: ClipBox ({box.xMin}, {box.yMin}, {box.xMax}, {box.yMax}) edges are not multiples of the step {step}")
            if paints:
                probs += e2e.clip_problems(font, g, act, 2.5)
            report.count(("font", str(over), via, g), True)
        if not probs:
            # the box must contain what the SOURCE paints (as this configuration clips it), not only what was compiled
            keep = [k for k, pico in enumerate(picos) if "<path" in pico]
            src_probs = []
            e2e.check_colr_glyphs(font, cfg, [srcs[k] for k in keep], [picos[k] for k in keep], src_probs)
            probs += [str(x)[:600] for x in src_probs]
        report.hist("fonts.built_by", ("command line, options by " + via + "".join(", " + k for k in extra)) if via else "in process")
        if probs:
            case["problems"] = probs[:5]
            report_failure(report, "font", case)
            return


def main(argv):
    common.setup_env()
    tier = common.tier_from_args(argv)
    report = Report("C05", tier, common.seed_from_env())
    report.rule = (
        "random glyph environments (2-5 glyphs, line and curve control points, some empty) x paint trees shaped like "
        "nanoemoji's output (PaintGlyph under at most one transform chosen by paint.transformed, layers, SRC_IN "
        "groups) plus a nested-transform stream (agreement only) x quantisation steps {0,1,2,5,20,41,random}; all "
        "coordinates dyadic so float arithmetic is exact; non-trivial = at least one root and one non-empty glyph"
    )
    st = proof_gate(report)
    if common.vo_ok("Corr/C05.v"):
        run(report, 500 if tier == "quick" else 8000)
    if not report.violations:
        run_fonts(report, random.Random(report.seed + 5))
    if not st["proof_ok"] and not report.violations:
        report.violation("proof", dict(kind="proof", theorem="Props/C05.v", detail=report.notes.get("proof_failure")), found_input=False)
    report.open_obligations = [
        "semantic form (painted pixel => inside box) needs region-in-control-box and C03-T1 (breadth_first transform = rendering order under the one-transform invariant); the latter is checked here by the independent `placements` semantics on every sample, not yet as a theorem",
        "outline rounding by ufo2ft/fontTools (the 'unit or two') is measured by the end-to-end oracle of C01, not derived",
    ]
    return report.finish()
