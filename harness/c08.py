"""C08 -- The build is a function of its inputs: output bytes are deterministic."""
import hashlib
import os
import random
import re
import shutil
import subprocess
from concurrent.futures import ThreadPoolExecutor
from pathlib import Path

from harness import build, common, e2e, ninjafile
from harness.common import Report, eval_bad_indices, evaluate_corr, listlit, proof_gate, report_failure, scratch_dir, zlit

IMPORTS = ["Model.Build Corr.Common Corr.C08"]


def sha(p):
    return hashlib.sha256(Path(p).read_bytes()).hexdigest()


def write_sources(d, srcs, two_dirs=False):
    sd = d / "src"
    sd.mkdir(parents=True, exist_ok=True)
    paths = []
    for k, s in enumerate(srcs):
        # two source directories (artwork plus a third-party set, as in noto-emoji): the last source lives apart, so
        # that its relative spelling from inside the first directory starts with ".."
        sub = sd / ("flags" if two_dirs and k == len(srcs) - 1 and len(srcs) > 1 else "faces") if two_dirs else sd
        sub.mkdir(parents=True, exist_ok=True)
        p = sub / s[0]
        p.write_text(s[1])
        paths.append(p)
    return paths


def ninja_shim(d, jobs):
    """a `ninja` on PATH that forwards to the real one with -jN"""
    b = d / f"shim_j{jobs}"
    b.mkdir(exist_ok=True)
    sh = b / "ninja"
    sh.write_text(f"#!/bin/sh\nexec /venv/bin/ninja -j{jobs} \"$@\"\n")
    sh.chmod(0o755)
    return b


def cli_build(d, build_dir, args, cwd, hashseed="0", jobs=None, extra_env=None):
    env = build.cli_env({"PYTHONHASHSEED": str(hashseed)})
    if jobs is not None:
        env["PATH"] = str(ninja_shim(d, jobs)) + ":" + env["PATH"]
    if extra_env:
        env.update(extra_env)
    rc, out = build.run_cli(["--build_dir", build_dir] + args, cwd=cwd, env=env)
    return rc, out


def intermediates(build_dir):
    out = {}
    for p in sorted(Path(build_dir).rglob("*")):
        # parts files list shape sets in hash order and do not feed the font (the property excludes them)
        if p.is_file() and p.name not in (".ninja_log", ".ninja_deps", "parts-merged.json") and not p.name.endswith((".rsp", ".parts.json")):
            out[str(p.relative_to(build_dir))] = sha(p)
    return out


H = '<svg xmlns="http://www.w3.org/2000/svg" viewBox="0 0 100 100">'
# directed sets that run first: reused shapes whose paint (several attributes) moves onto <use> elements
CORPUS = [
    ("picosvg", [
        H + '<path d="M10,10 L40,10 L40,30 L10,30 Z" fill="red" opacity="0.5"/><path d="M50,50 L80,50 L80,70 L50,70 Z" fill="blue"/>'
        '<path d="M10,60 L40,60 L40,80 L10,80 Z" fill="#00ff00" opacity="0.25"/></svg>',
        H + '<defs><linearGradient id="g" gradientUnits="userSpaceOnUse" x1="20" y1="20" x2="50" y2="40"><stop offset="0" stop-color="red"/>'
        '<stop offset="1" stop-color="blue"/></linearGradient></defs><path d="M20,20 L50,20 L50,40 L20,40 Z" fill="url(#g)" opacity="0.8"/>'
        '<path d="M55,55 L85,55 L85,75 L55,75 Z" fill="wheat" opacity="0.5"/></svg>',
    ]),
]


def run_determinism(report, n_sets, rng, formats):
    plans = [(fmt, [(build.filename_for((0x1F600 + k,)), t, (0x1F600 + k,)) for k, t in enumerate(texts)]) for fmt, texts in CORPUS]
    for i in range(n_sets):
        fmt = formats[i % len(formats)]
        # OT-SVG: many unrelated sources so that several documents / reuse groups exist
        docs, srcs = e2e.gen_sources(rng, n=6, share=False) if "svg" in fmt else e2e.gen_sources(rng, n=rng.randint(2, 5))
        plans.append((fmt, srcs))
    for i, (fmt, srcs) in enumerate(plans):
        with scratch_dir("verif-c08-") as d:
            paths = write_sources(d, srcs, two_dirs=True)
            opts = ["--color_format", fmt, "--upem", str(rng.choice([1000, 1024])), "--family", "Det Test"]
            if fmt in ("cbdt", "sbix"):
                opts += ["--bitmap_resolution", "32"]
            if fmt.startswith("cff"):
                opts += ["--output_file", "Font.otf"]  # the outline flavour follows the output file's suffix
            variants = []
            base_args = opts + [str(p) for p in paths]
            variants.append(("base", d / "b0", base_args, d, "0", None))
            shuffled = paths[:]
            rng.shuffle(shuffled)
            variants.append(("argv order + hash seed 1", d / "b1", opts + [str(p) for p in reversed(paths)], d, "1", None))
            variants.append(("hash seed 7 + -j1", d / "b2", opts + [str(p) for p in shuffled], d, "7", 1))
            other = d / "elsewhere" / "deep"
            other.mkdir(parents=True)
            variants.append(("other cwd/build dir + -j16 + duplicate arg", other / "out" / "bd", opts + [os.path.relpath(p, other) for p in paths] + [os.path.relpath(paths[0], other)], other, "3", 16))

            # the same files spelled relative to a working directory inside one of the source directories
            inside = paths[0].parent
            variants.append(("cwd inside a source directory, relative spellings", d / "b4", opts + [os.path.relpath(p, inside) for p in paths], inside, "0", None))
            if "svg" in fmt:  # document grouping iterates sets of strings: probe more hash seeds
                for hs in ("11", "23", "42", "99", "123", "1000"):
                    variants.append((f"hash seed {hs}", d / f"bs{hs}", base_args, d, hs, None))

            def run(v):
                name, bd, args, cwd, seed, jobs = v
                rc, out = cli_build(d, bd, args, cwd, seed, jobs)
                return name, bd, rc, out

            with ThreadPoolExecutor(max_workers=10) as ex:
                results = list(ex.map(run, variants))
            case = dict(kind="e2e-determinism", format=fmt, sources=[s[1] for s in srcs])
            ext = ".otf" if fmt.startswith("cff") else ".ttf"
            hashes, inter = {}, {}
            for name, bd, rc, out in results:
                font = Path(bd) / f"Font{ext}"
                if rc != 0 or not font.exists():
                    case.update(variant=name, exit=rc, log=out[-1500:])
                    report_failure(report, f"build_{i}", case)
                    return
                hashes[name] = sha(font)
                inter[name] = intermediates(bd)
            report.count(("det", fmt, tuple(s[1] for s in srcs)), True, len(variants))
            report.hist("determinism.format", fmt)
            if len(set(hashes.values())) != 1:
                case["font_sha256"] = hashes
                report_failure(report, f"determinism_{i}", case)
                return
            base = inter["base"]
            for name, m in inter.items():
                # files that spell source paths relative to the build directory legitimately differ when the directory does
                pathful = (".toml", ".glyphmap") if name.startswith(("other cwd", "cwd inside")) else (".toml",)
                diff = [k for k in base if k in m and m[k] != base[k] and not k.endswith(pathful) and k != "build.ninja"]
                if diff:
                    case.update(variant=name, differing_intermediates=diff[:5])
                    report_failure(report, f"intermediate_{i}", case)
                    return
    report.sample(dict(kind="e2e-determinism", variants=[v[0] for v in variants], format=fmt))


def run_glob_order(report, rng):
    """sources named by a glob in the configuration: two copies of one project whose directory entries were created in
    opposite orders (on tmpfs a directory lists its entries in creation order) must give the same bytes"""
    import tempfile

    base = Path("/dev/shm") if Path("/dev/shm").is_dir() and os.access("/dev/shm", os.W_OK) else None
    if base is None:
        report.notes["glob_order"] = "no tmpfs available: not run"
        return
    docs, srcs = e2e.gen_sources(rng, n=4)
    top = Path(tempfile.mkdtemp(prefix="verif-c08glob-", dir=base))
    try:
        hashes, orders = {}, {}
        for tag, seq in (("created in name order", list(srcs)), ("created in reverse order", list(reversed(srcs)))):
            proj = top / tag.split()[2]
            (proj / "src").mkdir(parents=True)
            for s_ in seq:
                (proj / "src" / s_[0]).write_text(s_[1])
            (proj / "font.toml").write_text('output_file="Font.ttf"\ncolor_format="glyf_colr_1"\nfamily="Det Test"\n[axis.wght]\nname="Weight"\ndefault=400\n'
                                            '[master.regular]\nstyle_name="Regular"\nsrcs=["src/*.svg"]\n[master.regular.position]\nwght=400\n')
            rc, out = cli_build(proj, proj / "build", [str(proj / "font.toml")], proj)
            orders[tag] = [p_.name for p_ in (proj / "src").iterdir()]
            if rc != 0:
                report_failure(report, "glob_order_build", dict(kind="e2e-determinism", variant=tag, exit=rc, log=out[-1200:]))
                return
            hashes[tag] = sha(proj / "build" / "Font.ttf")
        report.count(("glob-order", tuple(s_[1] for s_ in srcs)), orders["created in name order"] != orders["created in reverse order"])
        report.hist("determinism.format", "glyf_colr_1, sources by glob")
        report.notes["glob_order.listing_orders_differ"] = orders["created in name order"] != orders["created in reverse order"]
        if len(set(hashes.values())) != 1:
            report_failure(report, "glob_order", dict(kind="e2e-determinism", format="glyf_colr_1", font_sha256=hashes, directory_listing=orders, sources=[s_[1] for s_ in srcs]))
    finally:
        shutil.rmtree(top, ignore_errors=True)


def graph_case(build_ninja):
    """the driver's graph as a Coq literal (files and commands numbered), in topological order"""
    rules, edges = ninjafile.parse(build_ninja)
    order, producer = ninjafile.toposort(edges)
    ids, cmds = {}, {}

    def fid(x):
        return ids.setdefault(x, len(ids) + 1)

    def cid(x):
        return cmds.setdefault(x, len(cmds) + 1)

    lits = []
    for e in order:
        if len(e["outs"]) != 1:
            raise ValueError("edges with several outputs are not expected")
        ins = [fid(i) for i in e["ins"] + e["implicit"]]
        lits.append(f"(E {zlit(fid(e['outs'][0]))} {listlit([zlit(i) for i in ins])} {zlit(cid(ninjafile.command_id(rules, e)))})")
    return listlit(lits), rules, order, producer


def run_graphs(report, n, rng):
    """G: the real driver's build.ninja is a well-formed graph; every font edge declares what it reads"""
    lits, metas = [], []
    for i in range(n):
        fmt = rng.choice(["glyf_colr_1", "picosvg", "cbdt", "glyf_colr_0", "untouchedsvg", "sbix", "cff_colr_1"])
        docs, srcs = e2e.gen_sources(rng, n=rng.randint(1, 5))
        with scratch_dir("verif-c08g-") as d:
            paths = write_sources(d, srcs)
            rc, out = build.run_cli(["--build_dir", d / "build", "--noexec_ninja", "--color_format", fmt] + [str(p) for p in paths], cwd=d)
            if rc != 0:
                report_failure(report, f"graph_driver_{i}", dict(kind="e2e", format=fmt, exit=rc, log=out[-1200:]))
                return
            try:
                lit, rules, order, producer = graph_case(d / "build" / "build.ninja")
            except ValueError as ex:
                report_failure(report, f"graph_parse_{i}", dict(kind="table", format=fmt, error=str(ex), ninja=(d / "build" / "build.ninja").read_text()[:3000]))
                return
            probs = []
            for e in order:
                if e["rule"] == "write_font":
                    need = {e["vars"].get(k) for k in ("config_file", "fea_file", "glyphmap_file", "part_file")} - {None, ""}
                    missing = need - set(e["ins"] + e["implicit"])
                    if missing:
                        probs.append(f"write_font edge for {e['outs']} does not declare {sorted(missing)}")
                for i_ in e["ins"] + e["implicit"]:
                    if i_ not in producer and not (d / "build" / i_).resolve().exists():
                        probs.append(f"input {i_} of {e['outs']} is neither produced nor an existing file")
            lits.append(lit)
            metas.append(dict(kind="graph", format=fmt, edges=len(order), problems=probs))
            report.count(("graph", fmt, tuple(s[1] for s in srcs)), True)
            if probs:
                report_failure(report, f"graph_decl_{i}", metas[-1])
                return
    # a configuration with two masters (two glyph-map edges, two font-writing edges): the graph must stay well formed and
    # no two edges may write one and the same response file (they run concurrently)
    with scratch_dir("verif-c08g2-") as d:
        docs, srcs = e2e.gen_sources(rng, n=2)
        for m in ("thin", "bold"):
            (d / m).mkdir()
            for s_ in srcs:
                (d / m / s_[0]).write_text(s_[1])
        (d / "vf.toml").write_text('output_file="VF.ttf"\ncolor_format="glyf_colr_1"\n[axis.wght]\nname="Weight"\ndefault=100\n'
                                   '[master.thin]\nstyle_name="Thin"\nsrcs=["thin/*.svg"]\n[master.thin.position]\nwght=100\n'
                                   '[master.bold]\nstyle_name="Bold"\nsrcs=["bold/*.svg"]\n[master.bold.position]\nwght=700\n')
        rc, out = build.run_cli(["--build_dir", d / "build", "--noexec_ninja", d / "vf.toml"], cwd=d)
        if rc != 0:
            report_failure(report, "graph_driver_vf", dict(kind="e2e", format="two masters", exit=rc, log=out[-1200:]))
            return
        lit, rules, order, producer = graph_case(d / "build" / "build.ninja")
        rsp = {}
        for e in order:
            f = ninjafile.expand(rules, e, "rspfile")
            if f:
                rsp.setdefault(f, []).append(e["outs"][0])
        shared = {f: outs for f, outs in rsp.items() if len(outs) > 1}
        report.count(("graph", "two masters"), True)
        lits.append(lit)
        metas.append(dict(kind="graph", format="glyf_colr_1, two masters", edges=len(order), problems=[]))
        if shared:
            report_failure(report, "graph_rspfile", dict(kind="graph", format="glyf_colr_1, two masters", problems=[f"edges {outs} all write the response file {f}" for f, outs in shared.items()]))
            return
    bad = eval_bad_indices(IMPORTS, "", "list edge", lits, ["graph_ok"], tag="graphs", shard=20)
    report.notes["graphs_checked"] = len(lits)
    for i in bad["graph_ok"]:
        report_failure(report, f"graph_wf_{i}", dict(metas[i], problems=["Model.Build.wf_graph is false for the graph the driver wrote"]))
        break
    if metas:
        report.sample(metas[0])


def run_hermetic(report, rng, n):
    """support for the hypothesis of C08_schedule_independent: under strace, every build step only
    reads files of the source/build directories that its edge (transitively) declares"""
    if not shutil.which("strace"):
        report.notes["hermeticity"] = "strace not available"
        return
    for k in range(n):
        fmt = ["glyf_colr_1", "picosvg"][k % 2]
        docs, srcs = e2e.gen_sources(rng, n=3)
        with scratch_dir("verif-c08h-") as d:
            paths = write_sources(d, srcs)
            bd = d / "build"
            rc, out = build.run_cli(["--build_dir", bd, "--noexec_ninja", "--color_format", fmt] + [str(p) for p in paths], cwd=d)
            if rc != 0:
                report_failure(report, "hermetic_driver", dict(kind="e2e", exit=rc, log=out[-800:]))
                return
            rules, edges = ninjafile.parse(bd / "build.ninja")
            order, producer = ninjafile.toposort(edges)
            trace = d / "trace.log"
            p = subprocess.run(["strace", "-f", "-o", str(trace), "-e", "trace=openat,execve", "-s", "4000", "/venv/bin/ninja", "-C", str(bd), "-j1"], env=build.cli_env(), capture_output=True, text=True, timeout=600)
            if p.returncode != 0:
                report_failure(report, "hermetic_build", dict(kind="e2e", exit=p.returncode, log=(p.stdout + p.stderr)[-800:]))
                return
            # transitive declared inputs per output
            closure = {}

            def clo(o):
                if o in closure:
                    return closure[o]
                closure[o] = set()
                e = producer[o]
                s = set()
                for i in e["ins"] + e["implicit"]:
                    s.add(i)
                    if i in producer:
                        s |= clo(i)
                closure[o] = s
                return s

            cur = None
            reads = {}
            unmatched = []
            for line in trace.read_text(errors="replace").splitlines():
                m = re.match(r"^(\d+)\s+execve\(\"/bin/sh\", \[\"/bin/sh\", \"-c\", \"(.*?)\"\]", line)
                if m:
                    cmd = " ".join(m.group(2).replace('\\"', '"').split())
                    cur = None
                    for e in order:
                        want = " ".join(ninjafile.command_id(rules, e).split("\n")[0].split())
                        if want == cmd:
                            cur = e["outs"][0]
                    if cur is None:
                        unmatched.append(cmd[:200])
                    continue
                m = re.match(r"^(\d+)\s+openat\(AT_FDCWD, \"([^\"]+)\", ([A-Z_|]+)", line)
                if m and cur and "O_RDONLY" in m.group(3) and "O_DIRECTORY" not in m.group(3) and " = -1" not in line:
                    path = m.group(2)
                    ap = (bd / path).resolve() if not path.startswith("/") else Path(path).resolve()
                    if str(ap).startswith(str(d.resolve())) and ap.is_file():
                        reads.setdefault(cur, set()).add(ap)
            probs = []
            for o, files in reads.items():
                declared = {(bd / i).resolve() for i in clo(o)} | {(bd / o).resolve(), (bd / (o + ".rsp")).resolve()}
                extra = [str(f) for f in files if f not in declared and f.name not in (".ninja_log", "build.ninja", ".ninja_deps")]
                if extra:
                    probs.append(f"the step producing {o} reads undeclared files {extra[:4]}")
            if unmatched or len(reads) < len(order) - 1:
                report.violation(f"hermetic_attribution_{k}", dict(kind="harness", note="could not attribute traced commands to build edges", unmatched=unmatched[:3], traced=len(reads), edges=len(order)), found_input=False)
                return
            report.count(("hermetic", fmt, tuple(s[1] for s in srcs)), True, len(reads))
            report.notes["hermeticity_steps_traced"] = report.notes.get("hermeticity_steps_traced", 0) + len(reads)
            if probs:
                report_failure(report, f"hermetic_{k}", dict(kind="e2e-strace", format=fmt, problems=probs[:5]))
                return


def run_sources(report, n, rng):
    """config.load's source collection vs the model; _dest_for_src vs the model"""
    from absl import flags
    from nanoemoji import config as cfgmod
    from nanoemoji import nanoemoji as ne

    if not flags.FLAGS.is_parsed():
        flags.FLAGS(["verif"])
    cases, meta = [], []
    with scratch_dir("verif-c08s-") as d:
        names = [f"emoji_u{0x1F600 + i:x}.svg" for i in range(8)]
        for nm in names:
            (d / nm).write_text("<svg/>")
        universe = sorted(str(d / nm) for nm in names)
        for i in range(n):
            args = [rng.choice(universe) for _ in range(rng.randint(1, 8))]
            cfg = cfgmod.load(None, additional_srcs=tuple(Path(a) for a in args))
            got = [str(p) for p in cfg.masters[0].sources]
            cases.append(f"({listlit([zlit(universe.index(a)) for a in args])}, {listlit([zlit(universe.index(g)) for g in got])})")
            meta.append(dict(function="config.load (source collection)", args=args, impl_out=got))
            report.count(("src", tuple(args)), len(set(args)) < len(args) or args != sorted(args))
    evaluate_corr(report, IMPORTS, "Corr.C08", "source_collection", "src_case", cases, meta, "src_agree", "src_agree")

    cases, meta = [], []
    for i in range(n):
        dirs = ["/s/a", "/s/b", "/s/c", "/t"]
        nms = ["x.svg", "y.svg", "z.svg"]
        calls = [(rng.choice(dirs), rng.choice(nms)) for _ in range(rng.randint(1, 9))]

        def scope():  # a fresh function object = a fresh names_seen table
            pass

        out = []
        paths = sorted({f"{a}/{b}" for a, b in calls})
        for a, b in calls:
            dest = ne._dest_for_src(scope, Path("/bd/picosvg"), Path(f"{a}/{b}"), ".svg")
            parts = Path(dest).parts
            nth = int(parts[-2]) if parts[-2].isdigit() else 0
            out.append((paths.index(f"{a}/{b}"), nth, nms.index(b)))
        cl = listlit([f"({zlit(paths.index(f'{a}/{b}'))}, {zlit(nms.index(b))})" for a, b in calls])
        ol = listlit([f"({zlit(p)}, ({n_}%nat, {zlit(nm)}))" for p, n_, nm in out])
        cases.append(f"({cl}, {ol})")
        meta.append(dict(function="nanoemoji._dest_for_src", calls=calls, impl_out=out))
        report.count(("dst", tuple(calls)), len({b for _, b in calls}) < len({f"{a}/{b}" for a, b in calls}))
    evaluate_corr(report, IMPORTS, "Corr.C08", "dest_for_src", "dst_case", cases, meta, "dst_agree", "dst_prop")


def run_configs_and_flags(report, rng):
    """the argument list may hold several configuration files and loose svg files, and options may come from a file
    and from flags at once (round 7): (a) every configuration named on one command line receives the loose svgs, in
    every order of the arguments; (b) with the configuration file left alone, the options given by FLAG are part of the
    resolved configuration too - a second invocation in the same build directory with another flag value writes the
    font of a fresh directory"""
    from fontTools import ttLib

    docs, srcs = e2e.gen_sources(rng, n=5, share=False)
    with scratch_dir("verif-c08cf-") as d:
        for sub, part in (("setA", srcs[:2]), ("setB", srcs[2:4])):
            (d / sub).mkdir()
            for s_ in part:
                (d / sub / s_[0]).write_text(s_[1])
        (d / "loose").mkdir()
        extra = d / "loose" / srcs[4][0]
        extra.write_text(srcs[4][1])
        for name, sub in (("A", "setA"), ("B", "setB")):
            (d / f"{name}.toml").write_text(f'output_file = "{name}.ttf"\ncolor_format = "glyf_colr_1"\nupem = 1000\n[axis.wght]\nname = "Weight"\ndefault = 400\n[master.regular]\nstyle_name = "Regular"\nsrcs = ["{sub}/*.svg"]\n[master.regular.position]\nwght = 400\n')
        orders = [("A.toml B.toml extra", ["A.toml", "B.toml", str(extra)]), ("B.toml A.toml extra", ["B.toml", "A.toml", str(extra)]), ("extra B.toml A.toml", [str(extra), "B.toml", "A.toml"])]
        alone = [("A.toml extra", ["A.toml", str(extra)]), ("B.toml extra", ["B.toml", str(extra)])]

        def run(v):
            k, (name, args) = v
            rc, out = cli_build(d, d / f"bo{k}", args, d, str(k))
            return name, d / f"bo{k}", rc, out

        with ThreadPoolExecutor(max_workers=5) as ex:
            results = list(ex.map(run, enumerate(orders + alone)))
        case = dict(kind="e2e-determinism", what="two configuration files and a loose svg on one command line", sources=[s_[1] for s_ in srcs])
        shas = {}
        for name, bd, rc, out in results:
            if rc != 0:
                case.update(variant=name, exit=rc, log=out[-1500:])
                report_failure(report, "configs_build", case)
                return
            for fnt in ("A.ttf", "B.ttf"):
                if (bd / fnt).exists():
                    shas.setdefault(fnt, {})[name] = sha(bd / fnt)
                    cps = set(ttLib.TTFont(bd / fnt).getBestCmap())
                    if not set(srcs[4][2]) <= cps:
                        case.update(variant=name, font=fnt, problem=f"the svg named on the command line (U+{srcs[4][2][0]:X}) is not in this configuration's font")
                        report_failure(report, "configs_loose_svg", case)
                        return
        report.count(("configs", tuple(s_[1] for s_ in srcs)), True, len(results))
        report.hist("determinism.format", "two configurations + a loose svg, argument orders")
        for fnt, m in shas.items():
            if len(set(m.values())) != 1:
                case.update(font=fnt, font_sha256=m)
                report_failure(report, "configs_order", case)
                return
    # (b) options by flag on top of an untouched configuration file, twice in one build directory
    # (palette variables opaque: a COLRv0 build refuses one variable met with two opacities - a false alarm of this case
    # under seed 2, when it was first run under several seeds)
    docs, srcs = e2e.gen_sources(rng, n=3, var_opaque=True)
    for opt, first, second in (("--color_format", "glyf_colr_0", "glyf_colr_1"), ("--upem", "1000", "2048"), ("--width", "1000", "0")):
        with scratch_dir("verif-c08ff-") as d:
            (d / "art").mkdir()
            for s_ in srcs:
                (d / "art" / s_[0]).write_text(s_[1])
            (d / "cfg.toml").write_text('output_file = "Font.ttf"\nfamily = "From File"\nascender = 800\ndescender = -200\n[axis.wght]\nname = "Weight"\ndefault = 400\n[master.regular]\nstyle_name = "Regular"\nsrcs = ["art/*.svg"]\n[master.regular.position]\nwght = 400\n')
            case = dict(kind="e2e-determinism", what=f"cfg.toml left alone, {opt} {first} then {opt} {second} in one build directory, against a fresh directory", sources=[s_[1] for s_ in srcs])
            rc1, o1 = cli_build(d, d / "used", [opt, first, "cfg.toml"], d)
            rc2, o2 = cli_build(d, d / "used", [opt, second, "cfg.toml"], d)
            rc3, o3 = cli_build(d, d / "fresh", [opt, second, "cfg.toml"], d)
            if rc1 or rc2 or rc3:
                case.update(exit=[rc1, rc2, rc3], log=(o1 if rc1 else o2 if rc2 else o3)[-1500:])
                report_failure(report, "flag_rerun_build", case)
                return
            report.count(("flag-rerun", opt, tuple(s_[1] for s_ in srcs)), True)
            report.hist("determinism.format", "flag changed between two runs, file untouched")
            if sha(d / "used" / "Font.ttf") != sha(d / "fresh" / "Font.ttf"):
                case.update(font_sha256=dict(second_run_in_used_directory=sha(d / "used" / "Font.ttf"), fresh_directory=sha(d / "fresh" / "Font.ttf")))
                report_failure(report, "flag_rerun", case)
                return


def main(argv):
    common.setup_env()
    tier = common.tier_from_args(argv)
    report = Report("C08", tier, common.seed_from_env())
    report.rule = (
        "real CLI builds (python -m nanoemoji.nanoemoji + ninja) of generated source sets in vector, OT-SVG and bitmap formats, "
        "each built four ways: base; reversed argv + PYTHONHASHSEED 1; shuffled argv + seed 7 + ninja -j1; another cwd and build "
        "directory with relative paths, a duplicated argument, seed 3, ninja -j16 -- font sha256 and every intermediate except "
        "parts-merged.json must coincide; the driver's build.ninja parsed and checked by the model's wf_graph; steps traced with "
        "strace; source collection and intermediate-path disambiguation vs the model"
    )
    st = proof_gate(report)
    rng = random.Random(report.seed)
    if common.vo_ok("Corr/C08.v"):
        run_sources(report, 150 if tier == "quick" else 2000, rng)
        run_graphs(report, 5 if tier == "quick" else 60, rng)
    run_determinism(report, 3 if tier == "quick" else 40, rng, ["glyf_colr_1", "picosvg", "cbdt", "glyf_colr_0", "untouchedsvg", "sbix", "cff_colr_1"])
    if not report.violations:
        run_glob_order(report, rng)
    if not report.violations:
        run_configs_and_flags(report, random.Random(report.seed + 77))
    run_hermetic(report, rng, 1 if tier == "quick" else 6)
    if not st["proof_ok"] and not report.violations:
        report.violation("proof", dict(kind="proof", theorem="Props/C08.v", detail=report.notes.get("proof_failure")), found_input=False)
    report.open_obligations = [
        "nondeterminism inside external tools (resvg, pngquant, zopfli, picosvg) is observed by the repeated builds, not modelled",
        "ninja's scheduling discipline (an edge starts only after the producers of its inputs finished) is an assumption of C08_schedule_independent",
        "_dest_for_src injectivity is checked on samples (dst_prop), not proved",
    ]
    return report.finish()
