"""End-to-end oracles shared by several properties: generated source sets are compiled by
the real code (in process), the binary is reloaded and abstracted into pictures."""
import random

from harness import build, picture, svggen


def gen_config(rng, color_format, allow_transform=True, reuse=None):
    from picosvg.svg_transform import Affine2D

    upem = rng.choice([1000, 1000, 1024, 2048, 256])
    style = rng.random()
    if style < 0.6:
        asc, desc = round(upem * 0.8), -round(upem * 0.2)
    elif style < 0.85:
        asc, desc = round(upem * 0.95), -round(upem * 0.25)
    else:
        asc, desc = upem, 0
    cfg = dict(
        color_format=color_format,
        upem=upem,
        ascender=asc,
        descender=desc,
        width=rng.choice([0, upem, asc - desc, round(upem * 1.25)]),
        reuse_tolerance=reuse if reuse is not None else rng.choice([0.1, 0.1, 0.1, 0.01, 0.5, -1.0]),
        keep_glyph_names=rng.random() < 0.3,
        clipbox_quantization=rng.choice([None, None, 1, 16, 50]),
    )
    if color_format.startswith("cff"):
        cfg["output_file"] = "Font.otf"  # the outline flavour follows the output file's suffix, not the colour format
    if allow_transform and rng.random() < 0.3:
        cfg["transform"] = rng.choice(
            [
                Affine2D(1, 0, 0, 1, 0, round(upem * 0.1)),
                Affine2D(0.75, 0, 0, 0.75, round(upem * 0.125), round(upem * 0.05)),
                Affine2D(1, 0, 0.2, 1, 0, 0),
                Affine2D(1, 0, 0, 1, -30, 0),
            ]
        )
    return cfg


def gen_sources(rng, n=None, solid_only=False, allow_groups=True, allow_special=True, first_cp=0x1F600, var_opaque=False, stress=False, share=True, viewbox=None):
    n = n or rng.randint(1, 5)
    pool = [] if share else None
    gpool = [] if share else None
    if viewbox is None and share and rng.random() < 0.5:
        viewbox = svggen.random_viewbox(rng)  # like a real emoji set: one viewBox for all sources (gradients can recur)
    docs, srcs = [], []
    for i in range(n):
        doc = svggen.gen_doc(rng, pool, solid_only=solid_only, allow_groups=allow_groups, allow_special=allow_special, var_opaque=var_opaque, stress=stress, viewbox=viewbox(rng) if callable(viewbox) else viewbox, grad_pool=gpool)
        cps = (first_cp + i,)
        docs.append(doc)
        srcs.append((build.filename_for(cps, rng.choice([0, 1])), doc.to_svg(), cps))
    return docs, srcs


def user_affine(cfg):
    t = cfg.transform
    return tuple(float(v) for v in t)


def viewbox_of_pico(pico_text):
    from lxml import etree

    root = etree.fromstring(pico_text.encode("utf-8"))
    return tuple(float(v) for v in root.get("viewBox").replace(",", " ").split())


def expected_advance(cfg, vb):
    # C01-T2 / C04: max(width, round(em * w / h)) with Python's round
    return max(cfg.width, round((cfg.ascender - cfg.descender) * vb[2] / vb[3]))


def glyph_for(font, cps):
    """The glyph a text engine reaches for a single codepoint (sequences: see C04)."""
    return font.getBestCmap().get(cps[0])


def eps_for(cfg, vb):
    """Boundary tolerance: outline quantisation (0.5) + cu2qu (<= 0.001 em) + picosvg's
    3-decimal rounding and the reuse tolerance, both in source units scaled to the em."""
    s = (cfg.ascender - cfg.descender) / vb[3]
    base = 1.0 + 0.0015 * cfg.upem
    extra = (max(cfg.reuse_tolerance, 0.0) + 0.002) * s * 1.5 + 0.5
    return base, extra


def check_colr_glyphs(font, cfg, srcs, picos, problems_out, palette_check=True):
    """Compare every source with the COLR glyph reached from its codepoint."""
    n = 0
    for (fn, text, cps), pico in zip(srcs, picos):
        vb = viewbox_of_pico(pico)
        g = glyph_for(font, cps)
        if g is None:
            problems_out.append(dict(source=fn, problems=["codepoint not in cmap"]))
            continue
        adv = font["hmtx"][g][0]
        probs = []
        if adv != expected_advance(cfg, vb):
            probs.append(f"advance {adv} != max(width, round(em*w/h)) = {expected_advance(cfg, vb)}")
        place = picture.place_font(vb, cfg.ascender, cfg.descender, adv, user_affine(cfg))
        exp = picture.expected_picture(pico, place)
        act, p2 = picture.colr_picture(font, g)
        probs += p2
        base, extra = eps_for(cfg, vb)
        scale_user = picture.anorm(user_affine(cfg))
        probs += picture.compare_pictures(exp, act, eps=base * max(1.0, scale_user), extra_eps=extra * max(1.0, scale_user), palette_check=palette_check)
        probs += clip_problems(font, g, act, 2.5 * max(1.0, scale_user))
        n += 1
        if probs:
            problems_out.append(dict(source=fn, glyph=g, problems=probs[:5], pico=pico))
    return n


def clip_problems(font, g, act, tol):
    """what a renderer shows is the paint clipped to the glyph's ClipBox: the box must not cut it"""
    colr = font["COLR"]
    if colr.version == 0 or not getattr(colr.table, "ClipList", None):
        return []
    box = colr.table.ClipList.clips.get(g)
    if box is None:
        return []
    for it, _ in picture.flatten(act):
        pts = [p for poly in it[1] for p in poly]
        if not pts:
            continue
        xs, ys = [p[0] for p in pts], [p[1] for p in pts]
        cut = max(box.xMin - min(xs), box.yMin - min(ys), max(xs) - box.xMax, max(ys) - box.yMax)
        # the box is computed from unrounded outlines: the compiled donor is rounded to integers and then
        # magnified by the transform that places it (C05: "rounding error scaled by the transform")
        scale = max(1.0, it[4] if len(it) > 4 else 1.0)
        if cut > tol + 0.75 * scale:
            return [f"the ClipBox ({box.xMin}, {box.yMin}, {box.xMax}, {box.yMax}) cuts {cut:.1f} units off a painted outline ({min(xs):.1f}, {min(ys):.1f}, {max(xs):.1f}, {max(ys):.1f}) placed at scale {scale:.2f}"]
    return []
