"""C14 -- Bitmap glyphs carry the right image at the right place."""
import io
import random
import types

from harness import common
from harness.common import Report, evaluate_corr, listlit, optlit, proof_gate, report_failure, zlit

IMPORTS = ["Model.Fixed Model.Bitmap Corr.Common Corr.C14"]


def cfglit(c):
    return f"(BConfig {zlit(c.upem)} {zlit(c.ascender)} {zlit(c.descender)} {zlit(c.width)} {zlit(c.bitmap_resolution)})"


def gen_config(rng):
    from nanoemoji.config import FontConfig

    upem = rng.choice([16, 100, 1000, 1000, 1024, 1024, 2048, rng.randint(50, 4000)])
    style = rng.random()
    if style < 0.5:
        asc = round(upem * rng.uniform(0.7, 1.0))
        desc = -round(upem * rng.uniform(0.0, 0.35))
    elif style < 0.8:
        asc, desc = rng.randint(1, 2 * upem), -rng.randint(0, upem)
    elif style < 0.9:
        asc, desc = rng.randint(-upem, 2 * upem), rng.randint(-2 * upem, upem)  # maybe degenerate
    else:
        asc, desc = rng.randint(upem, 4 * upem), 0  # tall em: large offsets (int8 limits)
    res = rng.choice([128, 128, 64, 32, 255, 256, 300, rng.randint(4, 255)])
    width = rng.choice([0, 0, upem, asc - desc if asc > desc else upem, rng.randint(0, 3 * upem)])
    return FontConfig(upem=upem, ascender=asc, descender=desc, width=width, bitmap_resolution=res)


def png_bytes(w, h, rng):
    from PIL import Image

    img = Image.new("RGBA", (w, h), (rng.randint(0, 255), rng.randint(0, 255), rng.randint(0, 255), 255))
    b = io.BytesIO()
    img.save(b, format="PNG")
    return b.getvalue()


def run(report: Report, n):
    from nanoemoji import bitmap_tables as bt

    rng = random.Random(report.seed)

    # ---- ppem / width / metrics ------------------------------------------------------
    cases, meta = [], []
    for i in range(n):
        c = gen_config(rng)
        res = c.bitmap_resolution
        shape = rng.random()
        h = res if rng.random() < 0.85 else rng.randint(1, 300)
        if shape < 0.4:
            w = h
            kind = "square"
        elif shape < 0.7:
            w = rng.randint(1, max(1, h - 1))
            kind = "narrow"
        else:
            w = rng.randint(h + 1, 3 * h + 2)
            kind = "wide"
        img = types.SimpleNamespace(size=(w, h))
        try:
            p = bt._ppem(c, h)
        except ZeroDivisionError:
            p = None
        try:
            wpx = bt._width_in_pixels(c, img)
        except (ZeroDivisionError, AssertionError):
            wpx = None
        m = None
        err = None
        if p is not None:
            try:
                m = bt.BitmapMetrics.create(c, img, p)
            except (AssertionError, ZeroDivisionError) as e:
                err = type(e).__name__
        mlit = optlit(m, lambda m: f"(BMetrics {zlit(m.x_offset)} {zlit(m.y_offset)} {zlit(m.line_height)} {zlit(m.line_ascent)})")
        cases.append(f"({cfglit(c)}, {zlit(w)}, {zlit(h)}, {optlit(p, zlit)}, {optlit(wpx, zlit)}, {mlit})")
        meta.append(dict(function="bitmap_tables._ppem/_width_in_pixels/BitmapMetrics.create",
                         config=dict(upem=c.upem, ascender=c.ascender, descender=c.descender, width=c.width, bitmap_resolution=res),
                         image=[w, h], shape=kind, impl_out=dict(ppem=p, width_px=wpx, metrics=None if m is None else list(m), error=err)))
        report.hist("shape", kind + ("" if c.width == 0 else "+fixed_width"))
        report.hist("metrics", "rejected" if m is None else "ok")
        sane = c.upem > 0 and c.ascender > c.descender
        report.count(("mt", tuple(c[3:8]), res, w, h), sane and w != h)
    evaluate_corr(report, IMPORTS, "Corr.C14", "bitmap_metrics", "mt_case", cases, meta, "mt_agree", "mt_prop")
    report.sample(meta[0])
    report.sample(next(m for m in meta if m["shape"] == "wide"))

    # ---- nudge -----------------------------------------------------------------------
    cases, meta = [], []
    for i in range(400):
        lo, hi = rng.choice([(-128, 127), (0, 255), (-5, 5)])
        v = rng.choice([lo - 2, lo - 1, lo, lo + 1, hi - 1, hi, hi + 1, hi + 2, rng.randint(lo - 300, hi + 300)])
        r = bt._nudge_into_range(range(lo, hi + 1), v)
        cases.append(f"({zlit(lo)}, {zlit(hi)}, {zlit(v)}, {zlit(r)})")
        meta.append(dict(function="bitmap_tables._nudge_into_range", range=[lo, hi], value=v, impl_out=r))
        report.count(("nd", lo, hi, v), not (lo <= v <= hi))
    evaluate_corr(report, IMPORTS, "Corr.C14", "nudge_into_range", "nd_case", cases, meta, "nd_agree", "nd_prop")

    # ---- strikes: real make_cbdt_table / make_sbix_table on a fake font -------------------
    from fontTools import ttLib
    from nanoemoji.config import FontConfig
    from nanoemoji.png import PNG

    rcases, rmeta = [], []
    ocases, ometa = [], []
    for i in range(max(30, n // 12)):
        nglyphs = rng.randint(3, 24)
        order = [".notdef", ".space"] + [f"g{j}" for j in range(nglyphs)]
        k = rng.randint(1, min(10, nglyphs))
        gids = sorted(rng.sample(range(2, nglyphs + 2), k))
        if rng.random() < 0.3:  # one long consecutive run
            start = rng.randint(2, nglyphs + 2 - k)
            gids = list(range(start, start + k))
        h = rng.choice([16, 32, 64])
        cfg = FontConfig(upem=1024, ascender=950, descender=-250, width=rng.choice([0, 1275]), bitmap_resolution=h)
        glyphs = []
        shuffled = gids[:]
        rng.shuffle(shuffled)  # make_cbdt_table must sort
        for g in shuffled:
            w = h if cfg.width else rng.choice([h, h // 2, h + h // 2])
            glyphs.append(types.SimpleNamespace(glyph_id=g, bitmap=PNG(png_bytes(w, h, rng)), bitmap_filename=f"{g}.png"))
        font = ttLib.TTFont()
        font.setGlyphOrder(order)
        try:
            bt.make_cbdt_table(cfg, font, glyphs)
        except Exception as ex:
            report_failure(report, f"cbdt_table_{i}", dict(kind="property", function="make_cbdt_table", gids=gids, error=f"{type(ex).__name__}: {ex}", note="valid glyph ids of one height were rejected"))
            return
        cblc, cbdt = font["CBLC"], font["CBDT"]
        runs, problems = [], []
        prev_end = bt.CBDT_HEADER_SIZE
        by_gid = {g.glyph_id: g for g in glyphs}
        for strike, data in zip(cblc.strikes, cbdt.strikeData):
            st = strike.indexSubTables[0]
            run_gids = [font.getGlyphID(nm) for nm in st.names]
            runs.append(run_gids)
            if (strike.bitmapSizeTable.startGlyphIndex, strike.bitmapSizeTable.endGlyphIndex) != (run_gids[0], run_gids[-1]):
                problems.append("start/end glyph index does not match the run")
            if set(data) != set(st.names):
                problems.append("strike data names differ from index names")
            for nm, gid in zip(st.names, run_gids):
                if bytes(data[nm].imageData) != bytes(by_gid[gid].bitmap):
                    problems.append(f"image bytes of gid {gid} differ from the source PNG")
                if (data[nm].metrics.width, data[nm].metrics.height) != by_gid[gid].bitmap.size:
                    problems.append(f"bitmap size of gid {gid} wrong")
            lens = [len(by_gid[g].bitmap) for g in run_gids]
            ocases.append(f"({zlit(prev_end)}, {listlit([zlit(x) for x in lens])}, {listlit([f'({zlit(a)}, {zlit(b)})' for a, b in st.locations])})")
            ometa.append(dict(function="bitmap_tables._cbdt_bitmapdata_offsets", initial=prev_end, lens=lens, impl_out=list(st.locations)))
            prev_end = st.locations[-1][-1]
        rcases.append(f"({listlit([zlit(g) for g in gids])}, {listlit([listlit([zlit(g) for g in r]) for r in runs])})")
        rmeta.append(dict(function="bitmap_tables.make_cbdt_table (runs)", gids=gids, impl_out=runs, problems=problems))
        report.count(("rn", tuple(gids)), len(runs) > 1)
        report.hist("runs_per_font", len(runs))
        if problems:
            report.violation(f"cbdt_strike_{i}", dict(kind="property", function="make_cbdt_table", case=rmeta[-1]))
        # glue_together._copy_cbdt: the same strikes re-sharded for a target whose glyph order differs (the colour
        # glyphs keep their names, get other glyph ids): runs of consecutive TARGET ids, offsets contiguous again
        from nanoemoji import glue_together

        t_order = order[:1] + rng.sample(order[1:], len(order) - 1)
        target = ttLib.TTFont()
        target.setGlyphOrder(t_order)
        sizes = {order[g.glyph_id]: len(g.bitmap) + 9 for g in glyphs}  # what _cbdt_data_and_sizes reads from the locations
        try:
            glue_together._copy_cbdt(target, font)
        except Exception as ex:
            report_failure(report, f"copy_cbdt_{i}", dict(kind="property", function="glue_together._copy_cbdt", gids=gids, target_order=t_order, error=f"{type(ex).__name__}: {ex}"))
            return
        t_gids = sorted(target.getGlyphID(order[g]) for g in gids)
        t_runs, prev_end, t_problems = [], bt.CBDT_HEADER_SIZE, []
        for strike, data in zip(target["CBLC"].strikes, target["CBDT"].strikeData):
            st = strike.indexSubTables[0]
            run_gids = [target.getGlyphID(nm) for nm in st.names]
            t_runs.append(run_gids)
            if set(data) != set(st.names):
                t_problems.append("strike data names differ from index names")
            for nm in st.names:
                if bytes(data[nm].imageData) != bytes(by_gid[font.getGlyphID(nm)].bitmap):
                    t_problems.append(f"image bytes of {nm} differ from the source PNG")
            lens = [sizes[nm] - 9 for nm in st.names]
            ocases.append(f"({zlit(prev_end)}, {listlit([zlit(x) for x in lens])}, {listlit([f'({zlit(a)}, {zlit(b)})' for a, b in st.locations])})")
            ometa.append(dict(function="glue_together._copy_cbdt (offsets)", initial=prev_end, lens=lens, impl_out=list(st.locations)))
            prev_end = st.locations[-1][-1]
        rcases.append(f"({listlit([zlit(g) for g in t_gids])}, {listlit([listlit([zlit(g) for g in r]) for r in t_runs])})")
        rmeta.append(dict(function="glue_together._copy_cbdt (runs in the target's glyph ids)", gids=t_gids, impl_out=t_runs, problems=t_problems))
        report.count(("rn-copy", tuple(t_gids)), len(t_runs) > 1)
        report.hist("runs_per_font_after_copy", len(t_runs))
        if t_problems:
            report.violation(f"copy_cbdt_strike_{i}", dict(kind="property", function="glue_together._copy_cbdt", case=rmeta[-1]))
        # sbix: one strike, every glyph, same bytes
        font2 = ttLib.TTFont()
        font2.setGlyphOrder(order)
        bt.make_sbix_table(cfg, font2, glyphs)
        strikes = font2["sbix"].strikes
        ok = len(strikes) == 1
        for ppem, s in strikes.items():
            ok = ok and ppem == round(cfg.upem * h / (cfg.ascender - cfg.descender))
            ok = ok and set(s.glyphs) == {order[g] for g in gids}
            for g in gids:
                ok = ok and bytes(s.glyphs[order[g]].imageData) == bytes(by_gid[g].bitmap)
        if not ok:
            report.violation(f"sbix_strike_{i}", dict(kind="property", function="make_sbix_table", gids=gids))
    evaluate_corr(report, IMPORTS, "Corr.C14", "cbdt_runs", "rn_case", rcases, rmeta, "rn_agree", "rn_prop")
    evaluate_corr(report, IMPORTS, "Corr.C14", "cbdt_offsets", "of_case", ocases, ometa, "of_agree", "of_agree")
    report.sample(rmeta[0])

    # oversize guard
    for w, h in [(255, 255), (256, 10), (10, 256), (300, 300), (1, 1)]:
        g = [types.SimpleNamespace(bitmap=types.SimpleNamespace(size=(w, h)), bitmap_filename="x.png")]
        try:
            bt.raise_if_too_big_for_cbdt(g)
            raised = False
        except ValueError:
            raised = True
        report.count(("big", w, h), True)
        if raised != (max(w, h) > 255):
            report.violation(f"too_big_{w}x{h}", dict(kind="property", function="raise_if_too_big_for_cbdt", size=[w, h], raised=raised))


def run_fonts(report, n, rng):
    """whole fonts built in process (cbdt, sbix): the image reached from the codepoint is the source's PNG, the
    strike's ppem is round(upem * height / em), and the font's advance scaled to that ppem is the pixel advance"""
    from harness import build
    from harness.c04 import png_for

    for i in range(n):
        fmt = ["cbdt", "sbix"][i % 2]
        upem = rng.choice([1000, 1024, 2048])
        asc, desc = rng.choice([(0.8, -0.2), (0.95, -0.25), (0.75, -0.25)])
        asc, desc = round(upem * asc), round(upem * desc)
        res = rng.choice([32, 64, 96, 128])
        prop = rng.random() < 0.5
        width = 0 if prop else rng.choice([upem, asc - desc, round(upem * 1.275), round(upem * 0.8)])
        over = dict(color_format=fmt, upem=upem, ascender=asc, descender=desc, width=width, bitmap_resolution=res)
        srcs = []
        # the first two fonts: a fixed width above the em, a first bitmap that is NOT square followed by square ones (round 7:
        # each glyph's horizontal offset comes from its own bitmap, not from the first one's)
        mixed = i < 2
        if mixed:
            prop, width = False, round((asc - desc) * 1.0625)
            over.update(width=width)
        for k in range(3 if mixed else rng.randint(1, 4)):
            w = res if not prop else max(1, round(res * rng.choice([1, 0.5, 0.75, 1.5, 1.9])))
            if mixed and k == 0:
                w = round(res * 1.25)
            cps = (0x1F600 + 2 * k,)
            srcs.append((build.filename_for(cps), '<svg xmlns="http://www.w3.org/2000/svg" viewBox="0 0 10 10"/>', cps, png_for(k + i, w, res)))
        case = dict(kind="e2e", format=fmt, config=over, images=[[len(s[3])] for s in srcs])
        try:
            font, cfg, picos, data = build.build_inprocess(over, srcs)
        except Exception as ex:
            if "does not fit in format" in str(ex) or "too big" in str(ex):
                report.hist("fonts.outcome", "rejected (format limit)")
                continue
            case["error"] = f"{type(ex).__name__}: {ex}"
            report_failure(report, f"font_build_{i}", case)
            return
        em = asc - desc
        want_ppem = round(upem * res / em)
        probs = []
        cmap = font.getBestCmap()
        from PIL import Image
        import io as _io

        for fn, text, cps, png in srcs:
            g = cmap.get(cps[0])
            if g is None:
                probs.append(f"{fn}: codepoint not mapped")
                continue
            w_px = Image.open(_io.BytesIO(png)).size[0]
            adv = font["hmtx"][g][0]
            if fmt == "cbdt":
                strikes = [(st, sd) for st, sd in zip(font["CBLC"].strikes, font["CBDT"].strikeData) if g in sd]
                if len(strikes) != 1:
                    probs.append(f"{g}: in {len(strikes)} strikes")
                    continue
                st_, sd = strikes[0]
                ppem = st_.bitmapSizeTable.ppemX
                if bytes(sd[g].imageData) != png:
                    probs.append(f"{g}: CBDT image differs from the source PNG")
                px_adv = sd[g].metrics.Advance
                top = sd[g].metrics.BearingY
                x_off = sd[g].metrics.BearingX
                if abs(top - asc * ppem / upem) > 2.0:
                    probs.append(f"{g}: CBDT BearingY {top} px, the ascender at this ppem is {asc * ppem / upem:.1f} px")
            else:
                stl = list(font["sbix"].strikes.values())
                if len(stl) != 1 or g not in stl[0].glyphs or bytes(stl[0].glyphs[g].imageData) != png:
                    probs.append(f"{g}: sbix image differs from the source PNG")
                    continue
                ppem = stl[0].ppem
                px_adv = None
                bottom = stl[0].glyphs[g].originOffsetY  # bottom edge of the bitmap relative to the baseline, y up
                x_off = stl[0].glyphs[g].originOffsetX
                if abs(bottom - desc * ppem / upem) > 2.0:
                    probs.append(f"{g}: sbix originOffsetY {bottom} px, the descender at this ppem is {desc * ppem / upem:.1f} px")
            if ppem != want_ppem:
                probs.append(f"{g}: strike ppem {ppem} != round(upem*height/em) = {want_ppem}")
            scaled = adv * ppem / upem
            # the advance the font declares, scaled to the strike, is the width the bitmap occupies (fixed width: the
            # wider of the two), to within a pixel
            want_px = max(w_px, width * res / em) if not prop else w_px
            if abs(scaled - want_px) > 1.0:
                probs.append(f"{g}: font advance {adv} = {scaled:.1f} px at ppem {ppem}, the bitmap box is {want_px:.1f} px wide")
            if px_adv is not None and abs(px_adv - scaled) > 1.0:
                probs.append(f"{g}: pixel advance {px_adv} != scaled font advance {scaled:.1f}")
            # horizontally the bitmap sits in the middle of the advance (square bitmaps, and everything in proportional mode)
            if (prop or w_px == res) and abs((x_off + w_px / 2) - scaled / 2) > 1.5:
                probs.append(f"{g}: bitmap {w_px} px wide at x offset {x_off} px, the advance is {scaled:.1f} px: centre off by {(x_off + w_px / 2) - scaled / 2:.1f} px")
            report.count(("font", fmt, str(over), fn, len(png)), True)
        report.hist("fonts.outcome", "problems" if probs else "ok")
        report.hist("fonts.format", fmt + (" proportional" if prop else " fixed width") + (", first bitmap not square" if mixed else ""))
        if probs:
            case["problems"] = probs[:5]
            report_failure(report, f"font_{i}", case)
            return


def run_cli_fonts(report, rng):
    """bitmap fonts built by the real command line (resvg renders the PNGs; the strike size is given by flag or by
    file): the strike's ppem and the placement must follow the size of the images actually stored"""
    import io as _io

    from PIL import Image

    from harness import build, e2e

    docs, srcs = e2e.gen_sources(rng, n=2, viewbox=(0, 0, 100, 100))
    # non-square artwork in the proportional mode (the strike size is the HEIGHT of the images), and plain one-colour
    # artwork next to another configuration whose sources have the same file names and another colour
    def flat(vb_w, colour):
        return f'<svg xmlns="http://www.w3.org/2000/svg" viewBox="0 0 {vb_w} 100"><path d="M0,0 L{vb_w},0 L{vb_w},100 L0,100 Z" fill="{colour}"/></svg>'

    names = [s_[0] for s_ in srcs]
    wide = [(names[0], flat(160, "#0000ff"), srcs[0][2]), (names[1], flat(60, "#0000ff"), srcs[1][2])]
    other = [(names[0], flat(160, "#ff0000"), srcs[0][2]), (names[1], flat(60, "#ff0000"), srcs[1][2])]
    plans = [("cbdt", 64, "flag", srcs, 1000, {}), ("sbix", 48, "file", srcs, 1000, {}), ("cbdt", 32, "file", srcs, 1000, {}),
             ("cbdt", 64, "flag", wide, 0, {}), ("sbix", 40, "file", wide, 0, {}),
             ("cbdt", 48, "file", wide, 0, dict(companion=(dict(color_format="cbdt", upem=1000, ascender=800, descender=-200, width=0, bitmap_resolution=48), other))),
             ("sbix", 48, "file", wide, 0, dict(companion=(dict(color_format="sbix", upem=1000, ascender=800, descender=-200, width=0, bitmap_resolution=48), other)))]
    for fmt, res, via, srcs, width, extra in plans:
        upem, asc, desc = 1000, 800, -200
        over = dict(color_format=fmt, upem=upem, ascender=asc, descender=desc, width=width, bitmap_resolution=res)
        case = dict(kind="e2e", built_by="command line, options by " + via + "".join(", " + k for k in extra), config=over, sources=[s_[1][:300] for s_ in srcs])
        try:
            font, cfg, picos, _ = build.build_cli(over, srcs, via, **extra)
        except Exception as ex:
            case["error"] = str(ex)[-1500:]
            report_failure(report, f"cli_font_build_{fmt}", case)
            return
        probs = []
        cmap = font.getBestCmap()
        for fn, text, cps in srcs:
            g = cmap.get(cps[0])
            if fmt == "cbdt":
                st_, sd = [(a, b) for a, b in zip(font["CBLC"].strikes, font["CBDT"].strikeData) if g in b][0]
                ppem, img = st_.bitmapSizeTable.ppemX, bytes(sd[g].imageData)
                top = sd[g].metrics.BearingY
            else:
                stl = list(font["sbix"].strikes.values())[0]
                ppem, img = stl.ppem, bytes(stl.glyphs[g].imageData)
                top = None
                bottom = stl.glyphs[g].originOffsetY
            im = Image.open(_io.BytesIO(img)).convert("RGBA")
            h = im.size[1]
            if h != res:
                probs.append(f"{g}: stored image is {h} px high, bitmap_resolution is {res}")
            if srcs is wide:
                # one flat colour: the stored image must be this source's, with this source's proportions
                vb_w = 160 if fn == names[0] else 60
                if abs(im.size[0] - res * vb_w / 100) > 1.5:
                    probs.append(f"{g}: stored image is {im.size[0]} px wide, the source is {vb_w}:100 at height {res}")
                px = im.getpixel((im.size[0] // 2, im.size[1] // 2))
                if not (px[2] > 200 and px[0] < 60 and px[3] > 200):
                    probs.append(f"{g}: the stored image's centre pixel is {px}, the source is plain blue")
            want = round(upem * h / (asc - desc))
            if ppem != want:
                probs.append(f"{g}: strike ppem {ppem} != round(upem*height/em) = {want}")
            if top is not None and abs(top - asc * ppem / upem) > 2.0:
                probs.append(f"{g}: CBDT BearingY {top} px, the ascender at this ppem is {asc * ppem / upem:.1f} px")
            if top is None and abs(bottom - desc * ppem / upem) > 2.0:
                probs.append(f"{g}: sbix originOffsetY {bottom} px, the descender at this ppem is {desc * ppem / upem:.1f} px")
            report.count(("cli-font", fmt, res, via, fn, tuple(extra), width), True)
        report.hist("fonts.format", fmt + " via command line" + (", proportional" if width == 0 else "") + "".join(", " + k for k in extra))
        if probs:
            case["problems"] = probs[:5]
            report_failure(report, f"cli_font_{fmt}", case)
            return


def run_maximum_color_fonts(report, rng):
    """CBDT added to a vector colour font by the real `maximum_color --bitmaps` (glue_together._copy_cbdt), at the
    default strike size and at a --bitmap_resolution of the user's (F23): image height, strike ppem, vertical placement"""
    import io as _io

    from PIL import Image

    from harness import c12

    data, info = c12.nanoemoji_font(rng, "glyf_colr_1", bitmaps=True)
    nd_data, nd_info = c12.notdef_font(rng, "glyf_colr_1")  # coloured .notdef: two runs of colour glyph ids, two strikes
    for res in (None, 64, 96, "notdef"):
        if res == "notdef":
            data, info, res = nd_data, nd_info, None
        inp = c12.load(data)
        upem, asc, desc = inp["head"].unitsPerEm, inp["OS/2"].sTypoAscender, inp["OS/2"].sTypoDescender
        flags = ["--bitmaps", "--keep_glyph_names"] + (["--bitmap_resolution", str(res)] if res else [])
        case = dict(kind="e2e", built_by="python -m nanoemoji.maximum_color " + " ".join(flags), input=info)
        rc, log, out = c12.run_maximum_color(data, flags)
        if rc != 0 and ("Bitmap is too big for CBDT" in log or "does not fit in format b for" in log):
            report.hist("fonts.format", "cbdt via maximum_color: rejected by a CBDT limit")
            continue
        if rc != 0 or out is None:
            i = log.find("FAILED")
            case["log"] = log[max(0, i) : max(0, i) + 1500]
            report_failure(report, f"maximum_color_build_{res}", case)
            return
        font = c12.load(out)
        want_h = res or 128
        probs = []
        # every colour glyph of the input has exactly one image per strike size, under its own glyph id
        colour = set().union(*c12.colour_glyph_names(inp).values())
        seen = {}
        for st_, sd in zip(font["CBLC"].strikes, font["CBDT"].strikeData):
            for g in sd:
                seen[(st_.bitmapSizeTable.ppemX, g)] = seen.get((st_.bitmapSizeTable.ppemX, g), 0) + 1
            b_ = st_.bitmapSizeTable
            gids_ = sorted(font.getGlyphID(g) for ist in st_.indexSubTables for g in ist.names)
            if gids_ and (b_.startGlyphIndex, b_.endGlyphIndex) != (gids_[0], gids_[-1]):
                probs.append(f"strike says glyph ids {b_.startGlyphIndex}..{b_.endGlyphIndex}, its index subtables hold {gids_}")
        ppems = {k[0] for k in seen}
        for g in sorted(colour):
            for pp in ppems:
                if seen.get((pp, g), 0) != 1:
                    probs.append(f"colour glyph {g} has {seen.get((pp, g), 0)} images at ppem {pp}")
        for st_, sd in zip(font["CBLC"].strikes, font["CBDT"].strikeData):
            ppem = st_.bitmapSizeTable.ppemX
            for g, rec in sd.items():
                h = Image.open(_io.BytesIO(bytes(rec.imageData))).size[1]
                if h != want_h:
                    probs.append(f"{g}: stored image is {h} px high, the strike was to be {want_h}")
                if ppem != round(upem * h / (asc - desc)):
                    probs.append(f"{g}: strike ppem {ppem} != round(upem*height/em) = {round(upem * h / (asc - desc))}")
                if abs(rec.metrics.BearingY - asc * ppem / upem) > 2.0:
                    probs.append(f"{g}: CBDT BearingY {rec.metrics.BearingY} px, the ascender at this ppem is {asc * ppem / upem:.1f} px")
                report.count(("maximum-color-font", res, g), True)
        report.hist("fonts.format", "cbdt via maximum_color" + (f" --bitmap_resolution {res}" if res else ""))
        if probs:
            case["problems"] = probs[:5]
            report_failure(report, f"maximum_color_font_{res}", case)
            return


def main(argv):
    common.setup_env()
    tier = common.tier_from_args(argv)
    report = Report("C14", tier, common.seed_from_env())
    report.rule = (
        "random font metrics (upem, ascender, descender incl. degenerate and tall ems, width 0/fixed, bitmap_resolution "
        "incl. >255) x images (square, narrow, wide; height = resolution or not); glyph-id sets with and without gaps fed "
        "to the real make_cbdt_table/make_sbix_table on a fake TTFont with real PNG bytes, then re-sharded by the real glue_together._copy_cbdt for a target with another glyph order; non-trivial = sane metrics "
        "and a non-square image (metrics), more than one run (strikes), value outside the range (nudge)"
    )
    st = proof_gate(report)
    if common.vo_ok("Corr/C14.v"):
        run(report, 600 if tier == "quick" else 12000)
    if not report.violations:
        run_fonts(report, 8 if tier == "quick" else 160, random.Random(report.seed + 14))
    if not report.violations:
        run_cli_fonts(report, random.Random(report.seed + 15))
    if not report.violations:
        run_maximum_color_fonts(report, random.Random(report.seed + 16))
    if not st["proof_ok"] and not report.violations:
        report.violation("proof", dict(kind="proof", theorem="Props/C14.v", detail=report.notes.get("proof_failure")), found_input=False)
    report.open_obligations = [
        "BearingX/Advance overflow is not checked by nanoemoji (fontTools' struct.pack raises instead): observed, not modelled",
        "byte identity through a full font build + reload, and glyph reachability from codepoints, are checked by the end-to-end oracle (C07/C04)",
    ]
    return report.finish()
