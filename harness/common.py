"""Shared machinery for every property check.

Run by /venv/bin/python (needs the repository's third-party deps).  The repository
under test is VERIF_REPO (default /repo); its *current working tree* is imported.
"""
import contextlib
import fcntl
import hashlib
import json
import os
import random
import re
import shutil
import subprocess
import sys
import tempfile
import time
from fractions import Fraction
from pathlib import Path

VERIF = Path(__file__).resolve().parent.parent
COQ = VERIF / "coq"
REPO = Path(os.environ.get("VERIF_REPO", "/repo"))
SRC = REPO / "src"
EVIDENCE = VERIF / "evidence"
GUARD = "NANOEMOJI_VERIF"

ALLOWED_AXIOMS = {
    # standard-library axioms we accept if a theorem lists them (none expected at present)
}

TRUSTED_BASE_COMMON = [
    "Coq 8.16.1 kernel (coqc); vm_compute used for finite table theorems, refutation witnesses and for evaluating the model in the correspondence check; native_compute not used",
    "no Axiom/Parameter/Admitted in the development (grep gate + Print Assumptions on every property theorem, re-run on each check)",
    "model <-> code tie: hand-written Gallina model, evaluated inside Coq on the same inputs the real Python functions of the current working tree ran on (correspondence = differential testing, not proof)",
    "harness (Python): generators, adapters calling /repo/src, conversion of Python values to Coq literals, result parsing",
]


def setup_env():
    """Pin the environment and make the working tree importable."""
    os.environ["PATH"] = "/venv/bin:" + os.environ.get("PATH", "")
    os.environ.setdefault("PYTHONHASHSEED", "0")
    os.environ["SOURCE_DATE_EPOCH"] = "1600000000"
    os.environ["PIP_NO_INDEX"] = "1"
    os.environ[GUARD] = "1"
    os.environ["PYTHONPATH"] = str(SRC)
    if str(SRC) not in sys.path:
        sys.path.insert(0, str(SRC))
    # make sure we really import the tree under test, not an installed copy
    import nanoemoji  # noqa

    try:
        from absl import logging as absl_logging

        absl_logging.set_verbosity(absl_logging.ERROR)
    except Exception:
        pass
    p = Path(nanoemoji.__file__).resolve()
    if SRC.resolve() not in p.parents:
        raise RuntimeError(f"nanoemoji imported from {p}, expected under {SRC}")


def seed_from_env(default=20260930):
    try:
        return int(os.environ.get("VERIF_SEED", default))
    except ValueError:
        return default


def tier_from_args(argv):
    tier = os.environ.get("VERIF_TIER", "quick")
    if "--tier" in argv:
        tier = argv[argv.index("--tier") + 1]
    return "thorough" if tier == "thorough" else "quick"


@contextlib.contextmanager
def scratch_dir(prefix="verif-"):
    base = os.environ.get("VERIF_SCRATCH") or "/var/tmp"
    os.makedirs(base, exist_ok=True)
    d = tempfile.mkdtemp(prefix=prefix, dir=base)
    try:
        yield Path(d)
    finally:
        shutil.rmtree(d, ignore_errors=True)


# --------------------------------------------------------------------------- Coq build


@contextlib.contextmanager
def coq_lock():
    lock = open(COQ / ".lock", "w")
    fcntl.flock(lock, fcntl.LOCK_EX)
    try:
        yield
    finally:
        fcntl.flock(lock, fcntl.LOCK_UN)
        lock.close()


GREP_GATE = re.compile(
    r"\b(Admitted|admit|Axiom|Axioms|Parameter|Parameters|Conjecture|Admit Obligations)\b|Unset Guard|bypass_check|type-in-type|impredicative-set|Unset Positivity|Unset Universe"
)


def grep_gate():
    """Reject any escape hatch in the development (comments included: keep it simple)."""
    bad = []
    for f in sorted(COQ.rglob("*.v")):
        for i, line in enumerate(f.read_text().splitlines(), 1):
            if GREP_GATE.search(line):
                bad.append(f"{f.relative_to(COQ)}:{i}: {line.strip()}")
    return bad


def regenerate_tables():
    """Run every fail-closed translator; returns list of (name, error) failures."""
    from harness.tables import ALL_TABLES

    failures = []
    gen = COQ / "Generated"
    gen.mkdir(exist_ok=True)
    for name, fn in ALL_TABLES:
        target = gen / f"{name}.v"
        try:
            text = fn()
        except Exception as e:  # fail closed: emit a file that cannot compile
            failures.append((name, f"{type(e).__name__}: {e}"))
            text = f"(* translator failed: {type(e).__name__} *)\nDefinition translator_failed : True := I I.\n"
        old = target.read_text() if target.exists() else None
        if old != text:
            target.write_text(text)
    return failures


def coq_make(jobs=8, timeout=1500):
    """Full .vo build (incremental). Returns (ok, log_tail)."""
    if not (COQ / "Makefile").exists():
        subprocess.run(
            ["coq_makefile", "-f", "_CoqProject", "-o", "Makefile"],
            cwd=COQ,
            check=True,
            capture_output=True,
        )
    p = subprocess.run(
        ["timeout", str(timeout), "make", f"-j{jobs}", "-k"],
        cwd=COQ,
        capture_output=True,
        text=True,
    )
    log = p.stdout + p.stderr
    return p.returncode == 0, log


def vo_ok(rel):
    """Is coq/<rel>.vo present and newer than its source?"""
    v = COQ / rel
    vo = v.with_suffix(".vo")
    return vo.exists() and vo.stat().st_mtime >= v.stat().st_mtime


def check_props_file(prop_id, timeout=600):
    """Re-run coqc on Props/<id>.v, parse `Print Assumptions` output.

    Returns dict(theorems=[names], closed=[names], axioms={name: [axioms]}, ok=bool, log=str)
    """
    src = COQ / "Props" / f"{prop_id}.v"
    text = src.read_text()
    theorems = re.findall(r"^\s*(?:Theorem|Lemma|Example)\s+(\w+)", text, re.M)
    printed = re.findall(r"^\s*Print Assumptions\s+(\w+)\s*\.", text, re.M)
    res = dict(theorems=theorems, closed=[], axioms={}, ok=False, log="")
    if set(theorems) != set(printed):
        res["log"] = f"Props/{prop_id}.v: every theorem needs a Print Assumptions (theorems={theorems}, printed={printed})"
        return res
    # Props files may only contain statements closed by `exact`
    p = subprocess.run(
        ["timeout", str(timeout), "coqc", "-Q", ".", "Verif", str(src.relative_to(COQ))],
        cwd=COQ,
        capture_output=True,
        text=True,
    )
    res["log"] = (p.stdout + p.stderr)[-4000:]
    if p.returncode != 0:
        return res
    # Output is a sequence of blocks, one per Print Assumptions, in order.
    blocks = re.split(r"(?=Closed under the global context|Axioms:)", p.stdout)
    blocks = [b for b in blocks if b.startswith("Closed") or b.startswith("Axioms:")]
    if len(blocks) != len(printed):
        res["log"] += f"\nexpected {len(printed)} assumption blocks, got {len(blocks)}"
        return res
    ok = True
    for name, b in zip(printed, blocks):
        if b.startswith("Closed"):
            res["closed"].append(name)
        else:
            axs = re.findall(r"^(\S+)\s*:", b, re.M)
            axs = [a for a in axs if a != "Axioms"]
            res["axioms"][name] = axs
            if not all(a in ALLOWED_AXIOMS for a in axs):
                ok = False
    res["ok"] = ok
    return res


def build_and_check_proofs(prop_id):
    """Steps 2-4 of DESIGN section 2. Returns a dict describing the proof status."""
    t0 = time.time()
    with coq_lock():
        tfail = regenerate_tables()
        ok, log = coq_make()
        gate = grep_gate()
        props = check_props_file(prop_id) if (COQ / "Props" / f"{prop_id}.v").exists() else None
    status = dict(
        translator_failures=tfail,
        make_ok=ok,
        make_log_tail=log[-3000:] if not ok else "",
        grep_gate=gate,
        props=props,
        wall_s=round(time.time() - t0, 1),
    )
    n = len(props["theorems"]) if props else 0
    status["obligations"] = n
    if props and props["ok"] and not gate:
        status["discharged"] = len(props["closed"]) + len(props["axioms"])
    else:
        status["discharged"] = 0
    status["proof_ok"] = bool(props and props["ok"] and not gate and not tfail and status["discharged"] == n and n > 0)
    return status


# --------------------------------------------------------------------------- Coq literals


def qlit(x):
    """Python number -> Coq term of type Qc (executable instance)."""
    if isinstance(x, bool):
        raise TypeError("bool is not a number here")
    if isinstance(x, float):
        x = Fraction(x)
    elif isinstance(x, int):
        x = Fraction(x)
    elif not isinstance(x, Fraction):
        x = Fraction(x)
    n, d = x.numerator, x.denominator
    return f"(q ({n}) {d})"


def Qlit(x):
    x = Fraction(x)
    return f"(({x.numerator}) # {x.denominator})"


def zlit(n):
    n = int(n)
    return f"({n})%Z"


def afflit(t):
    return "(A6 " + " ".join(qlit(v) for v in t) + ")"


def ptlit(p):
    return f"(P2 {qlit(p[0])} {qlit(p[1])})"


def strlit(s):
    assert all(32 <= ord(c) < 127 for c in s), s
    return '"' + s.replace('"', '""') + '"%string'


def listlit(items):
    return "[" + "; ".join(items) + "]"


def boollit(b):
    return "true" if b else "false"


def optlit(x, f):
    return "None" if x is None else f"(Some {f(x)})"


# --------------------------------------------------------------------------- running the model


def _run_coq_file(path, timeout=900):
    p = subprocess.run(
        ["timeout", str(timeout), "coqc", "-Q", str(COQ), "Verif", str(path)],
        cwd=path.parent,
        capture_output=True,
        text=True,
    )
    return p.returncode, p.stdout, p.stderr


_LIST_RE = re.compile(r"=\s*\[(.*?)\]\s*:\s*list", re.S)


def eval_bad_indices(imports, defs, case_type, cases, checkers, shard=400, jobs=8, tag="cases"):
    """Evaluate boolean checkers over cases inside Coq.

    imports : list of `From Verif Require Import ...` module names
    defs    : extra Coq text placed before the cases
    case_type : Coq type of a case
    cases   : list of Coq terms (strings)
    checkers : list of Coq function names  case -> bool
    Returns {checker: sorted list of failing global indices}; raises RuntimeError when a
    shard does not compile (that is a correspondence failure of its own: the harness
    could not express the implementation's value in the model's types).
    """
    from concurrent.futures import ThreadPoolExecutor

    out = {c: [] for c in checkers}
    if not cases:
        return out
    with scratch_dir("verif-coq-") as d:
        jobs_l = []
        for si, start in enumerate(range(0, len(cases), shard)):
            chunk = cases[start : start + shard]
            f = d / f"{tag}_{si}.v"
            body = [
                "From Coq Require Import List ZArith QArith Qcanon Bool String.",
                "Import ListNotations.",
            ]
            body += [f"From Verif Require Import {m}." for m in imports]
            body.append("Local Open Scope Z_scope.")
            body.append(defs)
            body.append(f"Definition cases : list ({case_type}) := [")
            body.append(";\n".join(chunk))
            body.append("].")
            for c in checkers:
                body.append(f"Eval vm_compute in (bad {c} cases).")
            f.write_text("\n".join(body) + "\n")
            jobs_l.append((start, f))

        def work(job):
            start, f = job
            rc, so, se = _run_coq_file(f)
            return start, f, rc, so, se

        with ThreadPoolExecutor(max_workers=jobs) as ex:
            results = list(ex.map(work, jobs_l))
        for start, f, rc, so, se in results:
            if rc != 0:
                keep = VERIF / "evidence" / f"failed_{f.name}"
                try:
                    shutil.copy(f, keep)
                except Exception:
                    pass
                raise RuntimeError(f"coqc failed on {f.name} (kept at {keep}): {(se or so)[-1500:]}")
            lists = _LIST_RE.findall(so)
            if len(lists) != len(checkers):
                raise RuntimeError(f"unexpected coqc output for {f.name}: {so[-800:]}")
            for c, body in zip(checkers, lists):
                idx = [int(x) for x in re.findall(r"(\d+)%?N?", body) if x != ""]
                # entries print as `3%N`; the regex above may also catch the N-less form
                out[c].extend(start + i for i in idx)
    for c in out:
        out[c] = sorted(set(out[c]))
    return out


def eval_terms(imports, defs, terms, timeout=600):
    """Evaluate a few terms with vm_compute and return Coq's printed results (for replays)."""
    with scratch_dir("verif-coq-") as d:
        f = d / "eval.v"
        body = [
            "From Coq Require Import List ZArith QArith Qcanon Bool String.",
            "Import ListNotations.",
        ]
        body += [f"From Verif Require Import {m}." for m in imports]
        body.append("Local Open Scope Z_scope.")
        body.append(defs)
        for t in terms:
            body.append(f"Eval vm_compute in ({t}).")
        f.write_text("\n".join(body) + "\n")
        rc, so, se = _run_coq_file(f, timeout)
        return rc, so + se


# --------------------------------------------------------------------------- reporting


class Report:
    """Collects what a check did; writes evidence; prints VIOLATION / KNOWN-FINDING."""

    def __init__(self, prop_id, tier, seed, level="proof"):
        self.prop_id = prop_id
        self.tier = tier
        self.seed = seed
        self.level = level
        self.t0 = time.time()
        self.evaluations = 0
        self.distinct = set()
        self.samples = []
        self.violations = []  # (replay_path, suffix)
        self.known = []
        self.notes = {}
        self.proof = None
        self.rule = ""
        self.assumptions = []
        self.trusted = list(TRUSTED_BASE_COMMON)
        self.distribution = {}
        self.open_obligations = []
        self.explanation = ""

    # bookkeeping -----------------------------------------------------------------
    def count(self, key, nontrivial, n=1):
        self.evaluations += n
        if nontrivial:
            self.distinct.add(hashlib.sha1(repr(key).encode()).hexdigest())

    def hist(self, name, bucket, n=1):
        d = self.distribution.setdefault(name, {})
        d[str(bucket)] = d.get(str(bucket), 0) + n

    def sample(self, s, limit=6):
        if len(self.samples) < limit:
            self.samples.append(s)

    # outcomes ----------------------------------------------------------------------
    def write_replay(self, name, payload):
        d = EVIDENCE / "replays"
        d.mkdir(parents=True, exist_ok=True)
        path = d / f"{self.prop_id}_{name}.json"
        payload = dict(payload)
        payload.setdefault("property", self.prop_id)
        payload.setdefault("seed", self.seed)
        path.write_text(json.dumps(payload, indent=1, default=str))
        return path

    def violation(self, name, payload, found_input=True):
        path = self.write_replay(name, payload)
        self.violations.append((str(path), "" if found_input else " no-failing-input-found"))

    def known_finding(self, text):
        if text not in self.known:
            self.known.append(text)

    def finish(self):
        EVIDENCE.mkdir(exist_ok=True)
        proof = self.proof or {}
        cov = dict(
            evaluations=int(self.evaluations),
            distinct_nontrivial=len(self.distinct),
            rule=self.rule,
            samples=self.samples or ["(no samples recorded)"],
            obligations=int(proof.get("obligations", 0)),
            discharged=int(proof.get("discharged", 0)),
            checker_cmd="cd /verif/coq && coq_makefile -f _CoqProject -o Makefile && make -j8  (full .vo build) ; coqc -Q . Verif Props/%s.v (Print Assumptions parsed); grep gate for Admitted/Axiom/Parameter/..." % self.prop_id,
            trusted_base=self.trusted,
            theorems=(proof.get("props") or {}).get("theorems", []),
            closed_under_global_context=(proof.get("props") or {}).get("closed", []),
            axioms_reported=(proof.get("props") or {}).get("axioms", {}),
            translator_failures=proof.get("translator_failures", []),
            open_obligations=self.open_obligations,
            input_distribution=self.distribution,
            known_findings_printed=self.known,
            notes=self.notes,
            proof_build_wall_s=proof.get("wall_s"),
        )
        if self.explanation:
            cov["explanation"] = self.explanation
        ev = dict(
            property_id=self.prop_id,
            tier=self.tier,
            seed=int(self.seed),
            level=self.level,
            coverage=cov,
            assumptions=self.assumptions,
            wall_s=round(time.time() - self.t0, 2),
            violations=len(self.violations),
        )
        (EVIDENCE / f"{self.prop_id}.json").write_text(json.dumps(ev, indent=1, default=str))
        for k in self.known:
            print(f"KNOWN-FINDING: property={self.prop_id} {k}")
        for path, suffix in self.violations:
            print(f"VIOLATION property={self.prop_id} replay={path}{suffix}")
        sys.stdout.flush()
        return 1 if self.violations else 0


def evaluate_corr(report, imports, corr_mod, name, case_type, cases, meta, agree, prop, shard=400):
    """Model-vs-implementation (agree) and property-on-implementation-output (prop)."""
    try:
        bad = eval_bad_indices(imports, "", case_type, cases, [agree, prop], tag=name, shard=shard)
    except RuntimeError as e:
        report.violation(
            f"corr_{name}_uncheckable",
            dict(kind="corr", function=name, correspondence=f"{corr_mod}.{agree}", error=str(e)),
            found_input=False,
        )
        return
    report.notes[f"{name}.cases"] = len(cases)
    report.notes[f"{name}.disagreements"] = len(bad[agree])
    report.notes[f"{name}.property_failures"] = len(bad[prop])
    if prop != agree and bad[prop]:
        i = bad[prop][0]
        report.violation(
            f"{name}_{i}",
            dict(kind="corr+property", function=name, case=meta[i], model_agrees=i not in bad[agree],
                 checker=f"{corr_mod}.{prop}", note="the implementation's own output fails the property predicate"),
        )
    elif bad[agree]:
        i = bad[agree][0]
        report.violation(
            f"{name}_{i}",
            dict(kind="corr", function=name, case=meta[i], correspondence=f"{corr_mod}.{agree}",
                 note="model and implementation disagree; property predicate held on all implementation outputs explored",
                 disagreeing_cases=len(bad[agree])),
            found_input=False,
        )




def proof_gate(report):
    """Run the proof build; on failure record a proof-level violation (the caller still
    runs the correspondence / search so that a concrete input can be reported)."""
    st = build_and_check_proofs(report.prop_id)
    report.proof = st
    if not st["proof_ok"]:
        report.notes["proof_failure"] = {
            k: st[k] for k in ("translator_failures", "make_ok", "make_log_tail", "grep_gate")
        }
        if st["props"]:
            report.notes["proof_failure"]["props_log"] = st["props"]["log"][-2000:]
    return st


def load_known_findings():
    p = VERIF / "known_findings.json"
    if not p.exists():
        return []
    return json.loads(p.read_text())["findings"]


# --------------------------------------------------------------------------- known findings


def known_ids(prop_id):
    return {f["id"]: f for f in load_known_findings() if f.get("property") == prop_id and f.get("status") == "known"}


def report_failure(report, name, payload, finding_id=None):
    """A property failure on a concrete input.  If `finding_id` names a finding listed as
    `known` for this property it is printed as KNOWN-FINDING (once) and not counted;
    anything else is a VIOLATION."""
    known = known_ids(report.prop_id)
    if finding_id is not None and finding_id in known:
        f = known[finding_id]
        report.known_finding(f"[{finding_id}] {f['text']}")
        report.hist("known_finding_hits", finding_id)
        return False
    report.violation(name, payload)
    return True
