"""The common semantic domain used by the end-to-end oracles: a *picture* is a list of items
in paint order, each either
    ("shape", boundary_polylines, fill, tag)      or      ("group", alpha, [items])
with everything expressed in font space (y up).  Pictures are computed three ways:
  * from the picosvg-normalised source and the placement affine (what the font must show),
  * from a COLR v1/v0 paint graph + outlines of a built font,
  * from an OT-SVG document of a built font,
and compared geometrically (boundary distance) and semantically (fills).

Hand-written and trusted (DESIGN section 9, item 6); the algebra it relies on
(lin_covariant, rad_uniform_covariant, place_spec, ...) is proved in Coq.
"""
import math
import re

from lxml import etree

# ------------------------------------------------------------------------------- affine

ID = (1.0, 0.0, 0.0, 1.0, 0.0, 0.0)


def amul(s, o):
    """s @ o : apply o first, then s (picosvg's Affine2D.__matmul__)."""
    return (
        s[0] * o[0] + s[2] * o[1],
        s[1] * o[0] + s[3] * o[1],
        s[0] * o[2] + s[2] * o[3],
        s[1] * o[2] + s[3] * o[3],
        s[0] * o[4] + s[2] * o[5] + s[4],
        s[1] * o[4] + s[3] * o[5] + s[5],
    )


def apt(t, p):
    return (t[0] * p[0] + t[2] * p[1] + t[4], t[1] * p[0] + t[3] * p[1] + t[5])


def ainv(t):
    det = t[0] * t[3] - t[1] * t[2]
    a, b, c, d = t[3] / det, -t[1] / det, -t[2] / det, t[0] / det
    return (a, b, c, d, -a * t[4] - c * t[5], -b * t[4] - d * t[5])


def anorm(t):
    return max(abs(t[0]) + abs(t[2]), abs(t[1]) + abs(t[3]), 1e-9)


def place_font(vb, asc, desc, width, user=ID):
    """Specification of the placement (C01-T1, proved as place_spec): uniform scale to the em
    height, horizontal centring in the advance, flip at the ascender, then the user transform."""
    x, y, w, h = vb
    s = (asc - desc) / h
    dx = (width - s * w) / 2
    base = (s, 0.0, 0.0, -s, dx - s * x, asc + s * y)
    return amul(user, base)


def svg_stops(stops):
    """SVG semantics of gradient stop offsets: each is clamped to [0, 1] and is at least the one before it"""
    out, prev = [], 0.0
    for off, rgb, a, idx in stops:
        off = max(prev, min(1.0, max(0.0, off)))
        out.append((off, rgb, a, idx))
        prev = off
    return out


def parse_transform(s):
    t = ID
    if not s:
        return t
    for m in re.finditer(r"(matrix|translate|scale|rotate|skewX|skewY)\s*\(([^)]*)\)", s):
        op = m.group(1)
        a = [float(v) for v in re.split(r"[\s,]+", m.group(2).strip()) if v]
        if op == "matrix":
            u = tuple(a)
        elif op == "translate":
            u = (1, 0, 0, 1, a[0], a[1] if len(a) > 1 else 0)
        elif op == "scale":
            u = (a[0], 0, 0, a[1] if len(a) > 1 else a[0], 0, 0)
        elif op == "rotate":
            r = math.radians(a[0])
            u = (math.cos(r), math.sin(r), -math.sin(r), math.cos(r), 0, 0)
            if len(a) == 3:
                u = amul(amul((1, 0, 0, 1, a[1], a[2]), u), (1, 0, 0, 1, -a[1], -a[2]))
        elif op == "skewX":
            u = (1, 0, math.tan(math.radians(a[0])), 1, 0, 0)
        else:
            u = (1, math.tan(math.radians(a[0])), 0, 1, 0, 0)
        t = amul(t, u)
    return t


# ------------------------------------------------------------------------------- outlines


def _sample_cubic(p0, p1, p2, p3, n=12):
    out = []
    for i in range(1, n + 1):
        t = i / n
        mt = 1 - t
        out.append(
            (
                mt**3 * p0[0] + 3 * mt * mt * t * p1[0] + 3 * mt * t * t * p2[0] + t**3 * p3[0],
                mt**3 * p0[1] + 3 * mt * mt * t * p1[1] + 3 * mt * t * t * p2[1] + t**3 * p3[1],
            )
        )
    return out


def _sample_quad(p0, p1, p2, n=8):
    out = []
    for i in range(1, n + 1):
        t = i / n
        mt = 1 - t
        out.append((mt * mt * p0[0] + 2 * mt * t * p1[0] + t * t * p2[0], mt * mt * p0[1] + 2 * mt * t * p1[1] + t * t * p2[1]))
    return out


def polylines_from_svg_d(d):
    """Closed polylines (curves flattened) of an SVG path in absolute M/L/H/V/C/Q/Z (what
    picosvg emits; arcs are converted by picosvg before we see them)."""
    from picosvg.svg_types import SVGPath

    path = SVGPath(d=d).absolute().explicit_lines().arcs_to_cubics()
    polys, cur, start, pos = [], [], None, (0.0, 0.0)
    for cmd, args in path.as_cmd_seq():
        if cmd == "M":
            if len(cur) > 1:
                polys.append(cur)
            pos = (args[0], args[1])
            start = pos
            cur = [pos]
        elif cmd == "L":
            pos = (args[0], args[1])
            cur.append(pos)
        elif cmd == "C":
            p1, p2, p3 = (args[0], args[1]), (args[2], args[3]), (args[4], args[5])
            cur.extend(_sample_cubic(pos, p1, p2, p3))
            pos = p3
        elif cmd == "Q":
            p1, p2 = (args[0], args[1]), (args[2], args[3])
            cur.extend(_sample_quad(pos, p1, p2))
            pos = p2
        elif cmd in ("Z", "z"):
            if start is not None and cur and cur[-1] != start:
                cur.append(start)
            pos = start
        else:
            raise ValueError(f"unexpected path command {cmd}")
    if len(cur) > 1:
        polys.append(cur)
    return polys


def polylines_from_glyph(glyphset, name):
    from fontTools.pens.recordingPen import DecomposingRecordingPen

    pen = DecomposingRecordingPen(glyphset)
    glyphset[name].draw(pen)
    polys, cur, pos, start = [], [], None, None
    for op, args in pen.value:
        if op == "moveTo":
            if len(cur) > 1:
                polys.append(cur)
            pos = start = args[0]
            cur = [pos]
        elif op == "lineTo":
            pos = args[0]
            cur.append(pos)
        elif op == "curveTo":
            pts = list(args)
            if len(pts) == 3:
                cur.extend(_sample_cubic(pos, pts[0], pts[1], pts[2]))
            else:  # super-bezier: approximate piecewise
                for i in range(0, len(pts) - 2, 1):
                    pass
                cur.extend(_sample_cubic(pos, pts[0], pts[-2], pts[-1]))
            pos = pts[-1]
        elif op == "qCurveTo":
            pts = list(args)
            if pts[-1] is None:  # closed contour without on-curve point
                pts = pts[:-1]
                on = ((pts[-1][0] + pts[0][0]) / 2, (pts[-1][1] + pts[0][1]) / 2)
                pos = start = on
                cur = [on]
                pts = pts + [on]
            # implied on-curve points between consecutive off-curve points
            for i in range(len(pts) - 1):
                off = pts[i]
                if i < len(pts) - 2:
                    nxt = ((pts[i][0] + pts[i + 1][0]) / 2, (pts[i][1] + pts[i + 1][1]) / 2)
                else:
                    nxt = pts[-1]
                cur.extend(_sample_quad(pos, off, nxt))
                pos = nxt
        elif op in ("closePath", "endPath"):
            if start is not None and cur and cur[-1] != start:
                cur.append(start)
    if len(cur) > 1:
        polys.append(cur)
    return polys


def map_polys(t, polys):
    return [[apt(t, p) for p in poly] for poly in polys]


def _dist_pt_seg(p, a, b):
    dx, dy = b[0] - a[0], b[1] - a[1]
    L = dx * dx + dy * dy
    if L == 0:
        return math.hypot(p[0] - a[0], p[1] - a[1])
    t = max(0.0, min(1.0, ((p[0] - a[0]) * dx + (p[1] - a[1]) * dy) / L))
    return math.hypot(p[0] - (a[0] + t * dx), p[1] - (a[1] + t * dy))


def _densify(poly, step):
    out = []
    for a, b in zip(poly, poly[1:]):
        n = max(1, int(math.hypot(b[0] - a[0], b[1] - a[1]) / step))
        for i in range(n):
            out.append((a[0] + (b[0] - a[0]) * i / n, a[1] + (b[1] - a[1]) * i / n))
    out.append(poly[-1])
    return out


def boundary_distance(A, B):
    """Symmetric Hausdorff distance between two sets of closed polylines (boundaries)."""

    def directed(X, Y):
        segs = [(a, b) for poly in Y for a, b in zip(poly, poly[1:])]
        if not segs:
            return float("inf")
        size = max(max(abs(p[0]) for poly in X for p in poly), 1.0)
        worst = 0.0
        for poly in X:
            for p in _densify(poly, max(size / 60.0, 1e-6)):
                d = min(_dist_pt_seg(p, a, b) for a, b in segs)
                if d > worst:
                    worst = d
        return worst

    if not A or not B:
        return 0.0 if (not A and not B) else float("inf")
    return max(directed(A, B), directed(B, A))


def polys_bbox(polys):
    xs = [p[0] for poly in polys for p in poly]
    ys = [p[1] for poly in polys for p in poly]
    return (min(xs), min(ys), max(xs), max(ys))


# ------------------------------------------------------------------------------- colours

CSS_NAMES = {"black": (0, 0, 0), "red": (255, 0, 0), "wheat": (245, 222, 179), "white": (255, 255, 255), "blue": (0, 0, 255), "green": (0, 128, 0), "yellow": (255, 255, 0)}


def parse_css_color(s):
    """-> (rgb or 'current', alpha, palette_index or None); an independent, small parser for the
    colour forms the generator emits."""
    s = s.strip()
    m = re.match(r"var\s*\(\s*--color(\d+)\s*,\s*(#?\w+)\s*\)", s)
    if m:
        rgb, a, _ = parse_css_color(m.group(2))
        return rgb, a, int(m.group(1))
    if s == "currentColor":
        return "current", 1.0, None
    if s.startswith("#"):
        h = s[1:]
        if len(h) in (3, 4):
            h = "".join(c + c for c in h)
        rgb = tuple(int(h[i : i + 2], 16) for i in (0, 2, 4))
        a = int(h[6:8], 16) / 255 if len(h) == 8 else 1.0
        return rgb, a, None
    if s in CSS_NAMES:
        return CSS_NAMES[s], 1.0, None
    try:  # CSS colour names: PIL's table (independent of nanoemoji's)
        from PIL import ImageColor

        return tuple(ImageColor.getrgb(s)[:3]), 1.0, None
    except Exception:
        raise ValueError(f"oracle cannot parse colour {s!r}")


# ------------------------------------------------------------------------------- expected


def _num(s, default=0.0):
    if s is None:
        return default
    s = s.strip()
    return float(s[:-1]) / 100 if s.endswith("%") else float(s)


def expected_picture(pico_text, place):
    """Picture the font must show for a picosvg-normalised source placed by `place`."""
    root = etree.fromstring(pico_text.encode("utf-8"))
    ns = "{http://www.w3.org/2000/svg}"
    grads = {}
    for el in root.iter():
        if el.tag in (ns + "linearGradient", ns + "radialGradient"):
            grads[el.get("id")] = el

    def inherited_fill(el):
        while el is not None:
            if el.get("fill") is not None:
                return el.get("fill")
            el = el.getparent()
        return "black"

    def fill_of(el, polys_src):
        fill = inherited_fill(el)
        opacity = _num(el.get("opacity"), 1.0)
        if fill.startswith("url("):
            g = grads[re.match(r"url\(#(.+)\)", fill).group(1)]
            units = g.get("gradientUnits", "objectBoundingBox")
            G = place
            if units == "objectBoundingBox":
                x0, y0, x1, y1 = polys_bbox(polys_src)  # control-box of the flattened source outline
                # picosvg uses the exact curve bounding box; the flattened one differs by < sampling error
                from picosvg.svg_types import SVGPath

                bb = SVGPath(d=el.get("d")).bounding_box()
                G = amul(G, (bb.w, 0, 0, bb.h, bb.x, bb.y))
            G = amul(G, parse_transform(g.get("gradientTransform")))
            stops = []
            for st in g:
                rgb, a, idx = parse_css_color(st.get("stop-color", "black"))
                stops.append((_num(st.get("offset"), 0.0), rgb, a * _num(st.get("stop-opacity"), 1.0) * opacity, idx))
            stops = svg_stops(stops)
            extend = g.get("spreadMethod", "pad")
            if g.tag == ns + "linearGradient":
                p0 = (_num(g.get("x1"), 0.0), _num(g.get("y1"), 0.0))
                p1 = (_num(g.get("x2"), 1.0), _num(g.get("y2"), 0.0))
                p2 = (p0[0] + (p1[1] - p0[1]), p0[1] - (p1[0] - p0[0]))
                return ("linear", stops, extend, apt(G, p0), apt(G, p1), apt(G, p2))
            cx, cy, r = _num(g.get("cx"), 0.5), _num(g.get("cy"), 0.5), _num(g.get("r"), 0.5)
            fx, fy, fr = _num(g.get("fx"), cx), _num(g.get("fy"), cy), _num(g.get("fr"), 0.0)
            return ("radial", stops, extend, G, (fx, fy), fr, (cx, cy), r)
        rgb, a, idx = parse_css_color(fill)
        return ("solid", rgb, a * opacity, idx)

    def walk(el):
        items = []
        for ch in el:
            if ch.tag == ns + "defs":
                continue
            if ch.tag == ns + "g":
                items.append(("group", _num(ch.get("opacity"), 1.0), walk(ch)))
            elif ch.tag == ns + "path":
                src = polylines_from_svg_d(ch.get("d"))
                items.append(("shape", map_polys(place, src), fill_of(ch, src), ch.get("d")[:40]))
            else:
                raise ValueError(f"oracle: unexpected element {ch.tag} in picosvg output")
        return items

    return walk(root)


# ------------------------------------------------------------------------------- COLR


def _paint_transform(p):
    from fontTools.ttLib.tables import otTables as ot

    F = ot.PaintFormat
    f = p.Format
    if f == F.PaintTransform:
        t = p.Transform
        return (t.xx, t.yx, t.xy, t.yy, t.dx, t.dy)
    if f == F.PaintTranslate:
        return (1, 0, 0, 1, p.dx, p.dy)
    if f == F.PaintScale:
        return (p.scaleX, 0, 0, p.scaleY, 0, 0)
    if f == F.PaintScaleAroundCenter:
        return (p.scaleX, 0, 0, p.scaleY, p.centerX - p.scaleX * p.centerX, p.centerY - p.scaleY * p.centerY)
    if f == F.PaintScaleUniform:
        return (p.scale, 0, 0, p.scale, 0, 0)
    if f == F.PaintScaleUniformAroundCenter:
        return (p.scale, 0, 0, p.scale, p.centerX - p.scale * p.centerX, p.centerY - p.scale * p.centerY)
    if f in (F.PaintRotate, F.PaintRotateAroundCenter):
        a = math.radians(p.angle)
        r = (math.cos(a), math.sin(a), -math.sin(a), math.cos(a), 0, 0)
        if f == F.PaintRotateAroundCenter:
            r = amul(amul((1, 0, 0, 1, p.centerX, p.centerY), r), (1, 0, 0, 1, -p.centerX, -p.centerY))
        return r
    if f in (F.PaintSkew, F.PaintSkewAroundCenter):
        r = (1, math.tan(math.radians(p.ySkewAngle)), -math.tan(math.radians(p.xSkewAngle)), 1, 0, 0)
        if f == F.PaintSkewAroundCenter:
            r = amul(amul((1, 0, 0, 1, p.centerX, p.centerY), r), (1, 0, 0, 1, -p.centerX, -p.centerY))
        return r
    return None


def colr_picture(font, glyph_name, require_opaque_palette=True):
    """COLR (v1 or v0) -> picture, by the COLR rendering rules: layers bottom-up; PaintGlyph
    clips its paint to the outline; a transform paint maps its whole subtree (outline and
    paint geometry); PaintComposite(SRC_IN, X, solid black alpha) = group alpha."""
    from fontTools.ttLib.tables import otTables as ot

    F = ot.PaintFormat
    colr = font["COLR"]
    cpal = font["CPAL"].palettes[0]
    glyphset = font.getGlyphSet()
    problems = []

    def color(idx, alpha):
        if idx == 0xFFFF:
            return "current", alpha, None
        c = cpal[idx]
        return (c.red, c.green, c.blue), alpha * c.alpha / 255.0, idx

    if colr.version == 0:
        items = []
        for layer in colr.ColorLayers.get(glyph_name, []):
            rgb, a, idx = color(layer.colorID, 1.0)
            items.append(("shape", polylines_from_glyph(glyphset, layer.name), ("solid", rgb, a, idx), layer.name))
        return items, problems

    table = colr.table
    base = {r.BaseGlyph: r.Paint for r in (table.BaseGlyphList.BaseGlyphPaintRecord if table.BaseGlyphList else [])}
    layers = table.LayerList.Paint if table.LayerList else []

    def fill(p, T):
        if p.Format == F.PaintSolid:
            rgb, a, idx = color(p.PaletteIndex, p.Alpha)
            if require_opaque_palette and idx is not None and cpal[idx].alpha != 255:
                problems.append(f"COLRv1 palette entry {idx} is not opaque")
            return ("solid", rgb, a, idx)
        if p.Format in (F.PaintLinearGradient, F.PaintRadialGradient):
            stops = []
            for s in p.ColorLine.ColorStop:
                rgb, a, idx = color(s.PaletteIndex, s.Alpha)
                stops.append((s.StopOffset, rgb, a, idx))
            extend = {0: "pad", 1: "repeat", 2: "reflect"}[int(p.ColorLine.Extend)]
            if p.Format == F.PaintLinearGradient:
                return ("linear", stops, extend, apt(T, (p.x0, p.y0)), apt(T, (p.x1, p.y1)), apt(T, (p.x2, p.y2)))
            return ("radial", stops, extend, T, (p.x0, p.y0), p.r0, (p.x1, p.y1), p.r1)
        t = _paint_transform(p)
        if t is not None:
            return fill(p.Paint, amul(T, t))
        problems.append(f"unsupported fill paint format {p.Format}")
        return ("unknown",)

    def walk(p, T, depth=0):
        if depth > 32:
            problems.append("paint graph too deep / cyclic")
            return []
        if p.Format == F.PaintColrLayers:
            out = []
            for i in range(p.FirstLayerIndex, p.FirstLayerIndex + p.NumLayers):
                out.extend(walk(layers[i], T, depth + 1))
            return out
        if p.Format == F.PaintGlyph:
            return [("shape", map_polys(T, polylines_from_glyph(glyphset, p.Glyph)), fill(p.Paint, T), p.Glyph, anorm(T))]
        if p.Format == F.PaintColrGlyph:
            return walk(base[p.Glyph], T, depth + 1)
        if p.Format == F.PaintComposite:
            b = p.BackdropPaint
            if int(p.CompositeMode) == int(ot.CompositeMode.SRC_IN) and b.Format == F.PaintSolid:
                rgb, a, idx = color(b.PaletteIndex, b.Alpha)
                if rgb != (0, 0, 0):
                    problems.append("SRC_IN backdrop is not black")
                return [("group", a, walk(p.SourcePaint, T, depth + 1))]
            problems.append("unsupported composite")
            return []
        t = _paint_transform(p)
        if t is not None:
            return walk(p.Paint, amul(T, t), depth + 1)
        problems.append(f"unsupported paint format {p.Format}")
        return []

    if glyph_name not in base:
        return [], problems
    return walk(base[glyph_name], ID), problems


# ------------------------------------------------------------------------------- OT-SVG

SVGNS = "{http://www.w3.org/2000/svg}"
XLINK = "{http://www.w3.org/1999/xlink}href"
MIRROR = (1.0, 0.0, 0.0, -1.0, 0.0, 0.0)


def otsvg_picture(doc_text, gid, whole_document_to_font=None):
    """Render the element glyph<gid> of an OT-SVG document into a picture in font space
    (the document is y-down with the origin on the baseline: mirror y at the end).
    With whole_document_to_font = an affine (viewBox -> font space), render instead every child of
    the root of a stand-alone SVG document and map it by that affine."""
    root = etree.fromstring(doc_text.encode("utf-8") if isinstance(doc_text, str) else doc_text)
    byid = {}
    for el in root.iter():
        i = el.get("id")
        if i is not None:
            byid.setdefault(i, []).append(el)
    problems = []
    dups = [i for i, v in byid.items() if len(v) > 1]
    if dups:
        problems.append(f"duplicate ids {dups[:3]}")
    gl = byid.get(f"glyph{gid}", [])
    if whole_document_to_font is None and len(gl) != 1:
        problems.append(f"{len(gl)} elements with id glyph{gid}")
        return [], problems
    # final map from document space to font space
    FINAL = MIRROR if whole_document_to_font is None else whole_document_to_font

    def gradient_fill(g, T, opacity, el_bbox_polys):
        units = g.get("gradientUnits", "objectBoundingBox")
        G = T
        if units == "objectBoundingBox":
            x0, y0, x1, y1 = polys_bbox(el_bbox_polys)
            G = amul(G, (x1 - x0, 0, 0, y1 - y0, x0, y0))
        G = amul(G, parse_transform(g.get("gradientTransform")))
        stops = []
        for st in g:
            rgb, a, idx = parse_css_color(st.get("stop-color", "black"))
            stops.append((_num(st.get("offset"), 0.0), rgb, a * _num(st.get("stop-opacity"), 1.0) * opacity, idx))
        stops = svg_stops(stops)
        extend = g.get("spreadMethod", "pad")
        if g.tag == SVGNS + "linearGradient":
            p0 = (_num(g.get("x1"), 0.0), _num(g.get("y1"), 0.0))
            p1 = (_num(g.get("x2"), 1.0), _num(g.get("y2"), 0.0))
            p2 = (p0[0] + (p1[1] - p0[1]), p0[1] - (p1[0] - p0[0]))
            return ("linear", stops, extend, apt(G, p0), apt(G, p1), apt(G, p2))
        cx, cy, r = _num(g.get("cx"), 0.5), _num(g.get("cy"), 0.5), _num(g.get("r"), 0.5)
        fx, fy, fr = _num(g.get("fx"), cx), _num(g.get("fy"), cy), _num(g.get("fr"), 0.0)
        return ("radial", stops, extend, G, (fx, fy), fr, (cx, cy), r)

    def render(el, T, inherited, depth=0, slack=0.0):
        """inherited: dict of presentation attributes inherited from ancestors / <use>.
        slack: bound (font units) on the displacement explained by the 3-decimal rounding of
        the transform / x / y attributes above this element."""
        if depth > 16:
            problems.append("use nesting too deep")
            return []
        tag = el.tag
        attrs = dict(inherited)
        for k in ("fill",):
            if el.get(k) is not None:
                attrs[k] = el.get(k)
        if el.get("transform") is not None or el.get("x") is not None or el.get("y") is not None:
            ext = local_extent(el, depth)
            slack = slack + anorm(T) * 0.0005 * (2 * ext + 2)
        T = amul(T, parse_transform(el.get("transform")))
        op = _num(el.get("opacity"), 1.0)
        if tag == SVGNS + "g":
            kids = []
            for ch in el:
                kids.extend(render(ch, T, attrs, depth + 1, slack))
            return [("group", op, kids)] if op != 1.0 else kids
        if tag == SVGNS + "use":
            href = el.get(XLINK) or el.get("href")
            tgt = byid.get(href[1:], []) if href and href.startswith("#") else []
            if len(tgt) != 1:
                problems.append(f"href {href} does not resolve in this document")
                return []
            T2 = amul(T, (1, 0, 0, 1, _num(el.get("x"), 0.0), _num(el.get("y"), 0.0)))
            kids = render(tgt[0], T2, attrs, depth + 1, slack)
            return [("group", op, kids)] if op != 1.0 else kids
        if tag == SVGNS + "path":
            src = polylines_from_svg_d(el.get("d"))
            fill = attrs.get("fill", "black")
            if fill.startswith("url("):
                gid_ = re.match(r"url\(#(.+)\)", fill).group(1)
                g = byid.get(gid_, [])
                if len(g) != 1:
                    problems.append(f"gradient {gid_} does not resolve in this document")
                    f = ("unknown",)
                else:
                    f = gradient_fill(g[0], amul(FINAL, T), op, src)
            else:
                rgb, a, idx = parse_css_color(fill)
                f = ("solid", rgb, a * op, idx)
            return [("shape", map_polys(amul(FINAL, T), src), f, el.get("id") or el.get("d")[:30], 1.0, slack)]
        if tag == SVGNS + "defs":
            return []
        problems.append(f"unexpected element {tag}")
        return []

    def local_extent(el, depth):
        """max |coordinate| of the content below el, in el's child coordinate space"""
        if depth > 16:
            return 0.0
        m = 0.0
        if el.tag == SVGNS + "path":
            for poly in polylines_from_svg_d(el.get("d")):
                for p in poly:
                    m = max(m, abs(p[0]), abs(p[1]))
            return m
        if el.tag == SVGNS + "use":
            href = el.get(XLINK) or el.get("href")
            tgt = byid.get(href[1:], []) if href and href.startswith("#") else []
            if len(tgt) == 1:
                t = parse_transform(tgt[0].get("transform"))
                e = local_extent(tgt[0], depth + 1)
                return anorm(t) * e + abs(t[4]) + abs(t[5]) + abs(_num(el.get("x"), 0.0)) + abs(_num(el.get("y"), 0.0))
            return 0.0
        for ch in el:
            if ch.tag == SVGNS + "defs":
                continue
            t = parse_transform(ch.get("transform"))
            e = local_extent(ch, depth + 1)
            m = max(m, anorm(t) * e + abs(t[4]) + abs(t[5]))
        return m

    def from_ancestors(el):
        """presentation attributes an element inherits from its ancestors (CSS inheritance: fill)"""
        inh = {}
        chain = []
        p = el.getparent() if el is not None else None
        while p is not None:
            chain.append(p)
            p = p.getparent()
        for a in reversed(chain):
            for k in ("fill",):
                if a.get(k) is not None:
                    inh[k] = a.get(k)
        return inh

    if whole_document_to_font is not None:
        items = []
        rootinh = {k: root.get(k) for k in ("fill",) if root.get(k) is not None}
        for ch in root:
            items.extend(render(ch, ID, rootinh))
        return items, problems
    # transforms of ancestors of the glyph element apply too (nanoemoji puts none); inherited paint does
    return render(gl[0], ID, from_ancestors(gl[0])), problems


# ------------------------------------------------------------------------------- compare


def _scale_alpha(fill, k):
    if fill[0] == "solid":
        return ("solid", fill[1], fill[2] * k, fill[3])
    if fill[0] in ("linear", "radial"):
        return (fill[0], [(o, c, a * k, i) for o, c, a, i in fill[1]]) + tuple(fill[2:])
    return fill


def simplify(items):
    """A group around a single shape is that shape with its alpha multiplied."""
    out = []
    for it in items:
        if it[0] == "group":
            kids = simplify(it[2])
            if len(kids) == 1 and kids[0][0] == "shape":
                k = kids[0]
                out.append(("shape", k[1], _scale_alpha(k[2], it[1])) + tuple(k[3:]))
            elif it[1] == 1.0:
                out.extend(kids)
            else:
                out.append(("group", it[1], kids))
        else:
            out.append(it)
    return out


def flatten(items, alpha_stack=(), counter=None):
    """Leaves in paint order, each with the stack of (group alpha, group ordinal) above it."""
    if counter is None:
        counter = [0]
    out = []
    for it in items:
        if it[0] == "group":
            counter[0] += 1
            out.extend(flatten(it[2], alpha_stack + ((round(it[1], 4), counter[0]),), counter))
        else:
            out.append((it, alpha_stack))
    return out


def _lin_t(p0, p1, p2, x):
    d = (p1[0] - p0[0]) * (p2[1] - p0[1]) - (p1[1] - p0[1]) * (p2[0] - p0[0])
    if abs(d) < 1e-12:
        return None
    return ((x[0] - p0[0]) * (p2[1] - p0[1]) - (x[1] - p0[1]) * (p2[0] - p0[0])) / d


def compare_fill(e, a, bbox, unit_tol, palette_check=None):
    """e: expected fill, a: actual fill (both in font space). Returns list of problems."""
    probs = []
    if e[0] != a[0]:
        return [f"fill kind {a[0]} != expected {e[0]}"]
    if e[0] == "solid":
        if e[1] != a[1]:
            probs.append(f"colour {a[1]} != expected {e[1]}")
        if abs(e[2] - a[2]) > 0.005:
            probs.append(f"alpha {a[2]:.4f} != expected {e[2]:.4f}")
        if e[3] is not None and a[3] is not None and e[3] != a[3] and palette_check:
            probs.append(f"palette index {a[3]} != declared var(--color{e[3]})")
        if palette_check == "strict" and (e[3] is None) != (a[3] is None):
            # multi-palette fonts: an entry of the palette and a literal colour are different things (the one follows
            # the palette the user selects, the other does not)
            probs.append(f"palette entry {e[3]} vs {a[3]}: one side names a palette entry, the other a literal colour")
        return probs
    es, as_ = e[1], a[1]
    if len(es) != len(as_):
        return [f"{len(as_)} colour stops != expected {len(es)}"]
    for (eo, ec, ea, ei), (ao, ac, aa, ai) in zip(es, as_):
        if abs(eo - ao) > 1e-3 or ec != ac or abs(ea - aa) > 0.005:
            probs.append(f"stop ({ao:.4f},{ac},{aa:.4f}) != expected ({eo:.4f},{ec},{ea:.4f})")
        if ei is not None and ai is not None and ei != ai and palette_check:
            probs.append(f"stop palette index {ai} != declared {ei}")
        if palette_check == "strict" and (ei is None) != (ai is None):
            probs.append(f"stop palette entry {ei} vs {ai}: one side names a palette entry, the other a literal colour")
    if e[2] != a[2]:
        probs.append(f"extend {a[2]} != expected {e[2]}")
    x0, y0, x1, y1 = bbox
    samples = [(x0, y0), (x1, y0), (x0, y1), (x1, y1), ((x0 + x1) / 2, (y0 + y1) / 2)]
    if e[0] == "linear":
        ep, ap = e[3:6], a[3:6]
        L = math.hypot(ep[1][0] - ep[0][0], ep[1][1] - ep[0][1])
        # the colour line that counts is P0 -> P3 (P1 projected on the perpendicular of P0 -> P2): with P2 nearly in
        # line with P1 it is much shorter than P0 -> P1, and that is the length displacements are measured against
        L2 = math.hypot(ep[2][0] - ep[0][0], ep[2][1] - ep[0][1])
        cross = abs((ep[1][0] - ep[0][0]) * (ep[2][1] - ep[0][1]) - (ep[1][1] - ep[0][1]) * (ep[2][0] - ep[0][0]))
        if L2 > 1e-9:
            L = min(L, cross / L2)
        tol = 0.01 + 3.0 * unit_tol / max(L, 1e-6)
        if 3.0 * unit_tol >= L:
            # the colour line is shorter than the displacement its points may suffer (outline quantisation seen through a
            # large reuse scale): its direction, even its being degenerate, is within the allowed error; stops and
            # extend mode were compared above
            return probs
        for x in samples:
            te, ta = _lin_t(*ep, x), _lin_t(*ap, x)
            if te is None or ta is None:
                if (te is None) != (ta is None):
                    probs.append("degenerate linear gradient on one side only")
                break
            # a displacement u of the gradient's points moves t by about (u/L)(1 + |t| + |x - p0|/L): the last term
            # is the turn of a short gradient line seen from a far sample point
            far = math.hypot(x[0] - ep[0][0], x[1] - ep[0][1]) / max(L, 1e-6)
            if abs(te - ta) > tol * (1 + abs(te) + far):
                probs.append(f"linear gradient t({x[0]:.1f},{x[1]:.1f}) = {ta:.4f} != expected {te:.4f} (tol {tol:.4f})")
                break
        return probs
    # radial: circles of the expected gradient, mapped to font space, pulled back into the
    # actual gradient's own space, must be the actual circles
    G, c0, r0, c1, r1 = e[3:8]
    W, d0, s0, d1, s1 = a[3:8]
    try:
        Winv = ainv(W)
    except ZeroDivisionError:
        return ["actual radial gradient transform is singular"]
    scale = anorm(Winv)
    tol = 1.0 + 2.0 * unit_tol * scale
    for (c, r, d, s, nm) in ((c0, r0, d0, s0, "0"), (c1, r1, d1, s1, "1")):
        q = apt(Winv, apt(G, c))
        if math.hypot(q[0] - d[0], q[1] - d[1]) > tol:
            probs.append(f"radial centre {nm} at {d} != expected {tuple(round(v, 2) for v in q)} (tol {tol:.2f})")
            break
        if r > 0 or s > 0:
            for k in range(8):
                u = (math.cos(k * math.pi / 4), math.sin(k * math.pi / 4))
                y = apt(Winv, apt(G, (c[0] + r * u[0], c[1] + r * u[1])))
                rr = math.hypot(y[0] - d[0], y[1] - d[1])
                if abs(rr - s) > tol + 0.01 * s:
                    probs.append(f"radial circle {nm}: radius {s} != expected {rr:.2f} in direction {k} (tol {tol:.2f})")
                    break
    return probs


def compare_pictures(expected, actual, eps, unit_tol=1.0, palette_check=True, extra_eps=0.0, use_slack=True):
    """Layer-for-layer comparison.  eps: boundary tolerance in font units for an outline drawn
    at its own scale; it is multiplied by the norm of the transform that places a reused
    outline (quantisation of the donor is magnified by it).  extra_eps is added unscaled."""
    probs = []
    E, A = flatten(simplify(expected)), flatten(simplify(actual))
    if len(E) != len(A):
        return [f"{len(A)} layers != expected {len(E)}"]
    for i, ((e, ealpha), (a, aalpha)) in enumerate(zip(E, A)):
        if len(ealpha) != len(aalpha) or any(abs(x[0] - y[0]) > 0.005 or x[1] != y[1] for x, y in zip(ealpha, aalpha)):
            probs.append(f"layer {i}: group alphas {aalpha} != expected {ealpha}")
        d = boundary_distance(e[1], a[1])
        slack = (a[5] if len(a) > 5 else 0.0) if use_slack else 0.0
        tol = eps * max(1.0, a[4] if len(a) > 4 else 1.0, e[4] if len(e) > 4 else 1.0) + extra_eps + slack
        if d > tol:
            probs.append(f"layer {i} ({a[3]}): outline is {d:.2f} units from the source shape (tol {tol:.2f})")
            continue
        sc = max(1.0, a[4] if len(a) > 4 else 1.0, e[4] if len(e) > 4 else 1.0)
        for p in compare_fill(e[2], a[2], polys_bbox(e[1]), unit_tol * sc + slack, palette_check):
            probs.append(f"layer {i} ({a[3]}): {p}")
    return probs
