"""C03 -- COLRv0 and glyf builds lose only what those formats cannot express."""
import random

from harness import build, common, e2e, picture
from harness.common import Report, afflit, evaluate_corr, listlit, proof_gate, report_failure, strlit
from harness.pyconv import paint_json, paintlit

IMPORTS = ["Model.Field Model.Affine Model.Color Model.Paint Model.ColrSem Proofs.Bfs_facts Corr.Common Corr.C03"]


def run_bfs(report, n, rng):
    from harness.c05 import gen_root
    from nanoemoji import paint as P

    cases, meta = [], []
    names = [f"g{i}" for i in range(4)]
    for i in range(n):
        nested = rng.random() < 0.25
        root = gen_root(rng, names, nested, tiny=False)
        ctx = [(c.paint.glyph, tuple(c.transform)) for c in root.breadth_first() if isinstance(c.paint, P.PaintGlyph)]
        cl = listlit([f"({strlit(g)}, {afflit(t)})" for g, t in ctx])
        cases.append(f"({paintlit(root)}, {cl})")
        meta.append(dict(function="Paint.breadth_first (PaintGlyph contexts)", paint=paint_json(root), impl_out=[[g, [str(v) for v in t]] for g, t in ctx]))
        report.count(("bf", repr(root)), len(ctx) > 1)
        report.hist("bfs.tree", "nested transforms" if nested else "nanoemoji-shaped")
    evaluate_corr(report, IMPORTS, "Corr.C03", "breadth_first", "bf_case", cases, meta, "bf_agree", "bf_prop", shard=200)
    report.sample(meta[0])
    if hasattr(P.Paint, "depth_first"):
        cases, meta = [], []
        for i in range(n):
            root = gen_root(rng, names, rng.random() < 0.25, tiny=False)
            ctx = [(c.paint.glyph, tuple(c.transform)) for c in root.depth_first() if isinstance(c.paint, P.PaintGlyph)]
            cl = listlit([f"({strlit(g)}, {afflit(t)})" for g, t in ctx])
            cases.append(f"({paintlit(root)}, {cl})")
            meta.append(dict(function="Paint.depth_first (PaintGlyph contexts)", paint=paint_json(root), impl_out=[[g, [str(v) for v in t]] for g, t in ctx]))
            report.count(("df", repr(root)), len(ctx) > 1)
        evaluate_corr(report, IMPORTS, "Corr.C03", "depth_first", "bf_case", cases, meta, "df_agree", "df_prop", shard=200)


def match_shapes(expected, actual, eps_fn):
    """One-to-one matching of outlines (order-free). Returns problems."""
    used = [False] * len(actual)
    probs = []
    for e in expected:
        best, bi = None, None
        for j, a in enumerate(actual):
            if used[j]:
                continue
            d = picture.boundary_distance(e, a)
            if best is None or d < best:
                best, bi = d, j
        if best is None or best > eps_fn():
            probs.append(f"a source outline has no counterpart (nearest {best})")
        else:
            used[bi] = True
    if not probs and not all(used):
        probs.append(f"{used.count(False)} extra outline(s) not in the source")
    return probs


def run_e2e(report, n_fonts, rng):
    from harness.c06 import CORPUS_SETS

    formats = ["glyf_colr_0", "cff_colr_0", "cff2_colr_0", "glyf"]
    # directed source sets first: solid-filled sets of the reuse corpus (several donors under one transform, mirrors)
    directed = [(name, texts) for name, fmts, tol, texts in CORPUS_SETS if name in ("two-donors-one-transform", "axis-scale-plus-shift", "translucent-black-donor", "bars", "palette-variable-with-opacity")]
    n_directed = len(directed) * 2
    for i in range(n_directed + n_fonts):
        fmt = formats[i % len(formats)]
        solid = fmt != "glyf" and rng.random() < 0.6
        cfg_over = e2e.gen_config(rng, fmt)
        docs, srcs = e2e.gen_sources(rng, solid_only=solid, allow_groups=not solid, var_opaque=True)
        if i < n_directed:
            name, texts = directed[i // 2]
            fmt = ["glyf_colr_0", "glyf"][i % 2]
            solid = fmt != "glyf"
            cfg_over = dict(color_format=fmt, upem=1024, ascender=896, descender=-128, width=1024, reuse_tolerance=0.1)
            srcs = [(build.filename_for((0x1F600 + k,)), t, (0x1F600 + k,)) for k, t in enumerate(texts)]
        # the first fonts go through the real command line with the values most easily lost on the way (zeros, false)
        via = {0: "flag", 1: "file", 3: "flag"}.get(i - n_directed) if i >= n_directed else None
        if via:
            cfg_over = dict(color_format=fmt, upem=1000, ascender=1000, descender=0, width=0 if i - n_directed != 1 else 1000, clip_to_viewbox=i - n_directed != 1, keep_glyph_names=False)
            if fmt.startswith("cff"):
                cfg_over["output_file"] = "Font.otf"
        try:
            font, cfg, picos, data = build.build_cli(cfg_over, srcs, via) if via else build.build_inprocess(cfg_over, srcs)
        except Exception as ex:
            report_failure(report, f"e2e_build_{i}", dict(kind="e2e", format=fmt, config={k: str(v) for k, v in cfg_over.items()}, sources=[s[1] for s in srcs], error=f"{type(ex).__name__}: {ex}"))
            return
        report.hist("e2e.format", fmt + (" solid" if solid else ""))
        report.hist("e2e.built_by", "command line, options by " + via if via else "in process")
        glyphset = font.getGlyphSet()
        for (fn, text, cps), pico in zip(srcs, picos):
            vb = e2e.viewbox_of_pico(pico)
            g = e2e.glyph_for(font, cps)
            adv = font["hmtx"][g][0]
            place = picture.place_font(vb, cfg.ascender, cfg.descender, adv, e2e.user_affine(cfg))
            exp = picture.expected_picture(pico, place)
            base, extra = e2e.eps_for(cfg, vb)
            su = max(1.0, picture.anorm(e2e.user_affine(cfg)))
            probs = []
            if adv != e2e.expected_advance(cfg, vb):
                probs.append(f"advance {adv} != {e2e.expected_advance(cfg, vb)}")
            flat_e = [it for it, _ in picture.flatten(exp)]
            if fmt == "glyf":
                # every source outline exactly once among the glyph's (decomposed) contours
                contours = picture.polylines_from_glyph(glyphset, g)
                exp_contours = [poly for it in flat_e for poly in it[1]]
                probs += match_shapes([[c] for c in exp_contours], [[c] for c in contours], lambda: (base * 3 + extra) * su)
            else:
                act, p2 = picture.colr_picture(font, g)
                probs += p2
                if solid:
                    # image claim: same layers in z-order with colour+alpha from the palette.
                    # COLRv0 cannot attach alpha to the foreground colour (index 0xFFFF has no
                    # palette entry): that loss is what the format cannot express
                    exp = [("shape", it[1], ("solid", "current", 1.0, None) if it[2][1] == "current" else it[2], it[3]) for it in exp]
                    probs += picture.compare_pictures(exp, act, eps=base * 3 * su, extra_eps=extra * su)
                else:
                    flat_a = [it for it, _ in picture.flatten(act)]
                    probs += match_shapes([it[1] for it in flat_e], [it[1] for it in flat_a], lambda: (base * 3 + extra) * su)
                # base glyph bounds cover all layers
                if act:
                    # the base glyph's own extents (whatever the outline flavour) must cover every layer
                    from fontTools.pens.boundsPen import ControlBoundsPen

                    bp = ControlBoundsPen(glyphset)
                    glyphset[g].draw(bp)
                    glyf_bounds = bp.bounds
                    xs = [p[0] for it, _ in picture.flatten(act) for poly in it[1] for p in poly]
                    ys = [p[1] for it, _ in picture.flatten(act) for poly in it[1] for p in poly]
                    if glyf_bounds is None:
                        probs.append("COLRv0 base glyph has no extents although layers paint")
                    elif not (glyf_bounds[0] <= min(xs) + 2.5 and glyf_bounds[1] <= min(ys) + 2.5 and glyf_bounds[2] >= max(xs) - 2.5 and glyf_bounds[3] >= max(ys) - 2.5):
                        probs.append(f"base glyph bounds {glyf_bounds} do not cover the layers {(min(xs), min(ys), max(xs), max(ys))}")
            report.count(("e2e", fmt, text, str(sorted(cfg_over.items(), key=lambda kv: kv[0]))), True)
            if probs:
                report_failure(report, f"e2e_{i}", dict(kind="e2e", format=fmt, solid_only=solid, config={k: str(v) for k, v in cfg_over.items()}, source=fn, glyph=g, problems=probs[:4], sources=[s[1] for s in srcs]))
                return
    report.sample(dict(kind="e2e", format=fmt, config={k: str(v) for k, v in cfg_over.items()}, source=srcs[0][1]))


def main(argv):
    common.setup_env()
    tier = common.tier_from_args(argv)
    report = Report("C03", tier, common.seed_from_env())
    report.rule = (
        "Paint.breadth_first on generated paint trees (nanoemoji-shaped and with nested transforms) vs the model; end to end: "
        "generated source sets (solid-only without groups for the image claim; unrestricted for the placement claim) x "
        "configurations x {glyf_colr_0, cff_colr_0, cff2_colr_0, glyf}: COLRv0 layers compared in z-order with colour and "
        "alpha from CPAL (solid sources) or matched one-to-one by outline (any source), base glyph bounds, glyf contours "
        "matched one-to-one with the placed source outlines"
    )
    st = proof_gate(report)
    rng = random.Random(report.seed)
    if common.vo_ok("Corr/C03.v"):
        run_bfs(report, 300 if tier == "quick" else 5000, rng)
    run_e2e(report, 20 if tier == "quick" else 500, rng)
    if not st["proof_ok"] and not report.violations:
        report.violation("proof", dict(kind="proof", theorem="Props/C03.v", detail=report.notes.get("proof_failure")), found_input=False)
    report.open_obligations = [
        "the glyf single-component inlining rule and the transformed-component glyph creation are exercised end to end, not modelled",
        "that _migrate_paths_to_ufo_glyphs establishes the one-transform invariant is checked on every end-to-end tree by the oracle, not proved",
    ]
    return report.finish()
