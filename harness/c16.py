"""C16 -- Specialised transform paints denote exactly the affine they replace."""
import math
import random
from fractions import Fraction as Fr

from harness import common
from harness.common import Report, report_failure, evaluate_corr, afflit, boollit, eval_bad_indices, optlit, proof_gate, ptlit, qlit
from harness.pyconv import paint_json, paintlit

IMPORTS = [
    "Model.Field Model.Affine Model.Color Model.Paint Model.Fixed Generated.Consts Corr.Common Corr.C16"
]

TINY = [Fr(0), Fr(1, 10**9), Fr(-1, 10**9), Fr(1, 10**10), Fr(2, 10**9), Fr(1, 2 * 10**9), Fr(-3, 10**10)]


def _patch_exact_math():
    """The implementation forces floats through hypot/copysign; give it exact rationals so
    that the same code runs branch-for-branch in exact arithmetic (DESIGN section 4)."""
    import picosvg.svg_transform as st
    import nanoemoji.paint as np_

    calls = []

    def hypot(a, b):
        v = Fr(math.hypot(float(a), float(b)))
        calls.append(v)
        return v

    def copysign(s, d):
        s = abs(s)
        return s if d >= 0 else -s

    st.hypot = hypot
    np_.copysign = copysign
    return calls


def gen_affine(rng, kind=None):
    """Stratified generator: every branch of `transformed` and the boundaries between them."""
    kinds = [
        "identity", "translate_int", "translate_near_int", "translate_frac", "translate_big",
        "scale", "scale_uniform", "scale_near_uniform", "scale_limit", "scale_center",
        "scale_center_uniform", "scale_center_fraccenter", "scale_center_bigcenter",
        "scale_one_axis", "scale_one_axis_bad", "general", "shear", "near_singular", "rot",
        "neg_scale", "tiny_offdiag", "shear_int_translate",
    ]
    kind = kind or rng.choice(kinds)
    R = lambda lo, hi, den=64: Fr(rng.randint(lo * den, hi * den), den)
    one, zero = Fr(1), Fr(0)
    if kind == "identity":
        t = (one, zero, zero, one, zero, zero)
    elif kind == "translate_int":
        t = (one, zero, zero, one, Fr(rng.randint(-32768, 32767)), Fr(rng.choice([0, rng.randint(-32768, 32767)])))
    elif kind == "translate_near_int":
        t = (one, zero, zero, one, rng.randint(-40000, 40000) + rng.choice(TINY), rng.randint(-100, 100) + rng.choice(TINY))
    elif kind == "translate_frac":
        t = (one, zero, zero, one, R(-500, 500), R(-500, 500))
    elif kind == "translate_big":
        t = (one, zero, zero, one, Fr(rng.choice([32767, 32768, -32768, -32769, 40000, 32767])) + rng.choice(TINY), Fr(rng.randint(-5, 5)))
    elif kind == "scale":
        t = (R(-2, 2), zero, zero, R(-2, 2), zero, zero)
    elif kind == "scale_uniform":
        s = R(-2, 2)
        t = (s, zero, zero, s, zero, zero)
    elif kind == "scale_near_uniform":
        s = R(-2, 2)
        t = (s, zero, zero, s + rng.choice(TINY), rng.choice([zero, R(-50, 50)]), rng.choice([zero, R(-50, 50)]))
    elif kind == "scale_limit":
        lim = rng.choice([Fr(-2), Fr(32767, 16384), Fr(2), Fr(-2) - Fr(1, 16384), Fr(32767, 16384) + Fr(1, 10**9), Fr(-2) + Fr(1, 10**9)])
        o = rng.choice([lim, R(-2, 2), one])
        a, d = rng.choice([(lim, o), (o, lim)])
        t = (a, zero, zero, d, rng.choice([zero, R(-100, 100)]), rng.choice([zero, R(-100, 100)]))
    elif kind in ("scale_center", "scale_center_uniform"):
        sx = R(-2, 2)
        sy = sx if kind == "scale_center_uniform" else R(-2, 2)
        cx, cy = Fr(rng.randint(-3000, 3000)), Fr(rng.randint(-3000, 3000))
        t = (sx, zero, zero, sy, cx * (1 - sx), cy * (1 - sy))
    elif kind == "scale_center_fraccenter":
        sx, sy = R(-2, 2), R(-2, 2)
        t = (sx, zero, zero, sy, R(-100, 100), R(-100, 100))
    elif kind == "scale_center_bigcenter":
        sx, sy = R(-2, 2), R(-2, 2)
        cx = Fr(rng.choice([32767, 32768, -32768, -32769, 50000]))
        cy = Fr(rng.randint(-10, 10))
        t = (sx, zero, zero, sy, cx * (1 - sx), cy * (1 - sy))
    elif kind == "scale_one_axis":
        s = R(-2, 2)
        c = Fr(rng.randint(-2000, 2000))
        t = rng.choice([(s, zero, zero, one, c * (1 - s), zero), (one, zero, zero, s, zero, c * (1 - s))])
    elif kind == "scale_one_axis_bad":
        # sx == 1 but dx != 0 (or sy == 1 but dy != 0): no centre exists
        s = R(-2, 2)
        t = rng.choice([(one, zero, zero, s, R(-50, 50), R(-50, 50)), (s, zero, zero, one, R(-50, 50), R(-50, 50))])
    elif kind == "shear":
        t = (one, R(-2, 2), R(-2, 2), one, R(-50, 50), R(-50, 50))
    elif kind == "shear_int_translate":
        # unit diagonal, whole-number translation, and a shear or rotation part that must not be lost
        b, c = rng.choice([(R(-2, 2), zero), (zero, R(-2, 2)), (R(-2, 2), R(-2, 2)), (Fr(111, 64), -Fr(111, 64))])
        if (b, c) == (zero, zero):
            b = Fr(1, 2)
        t = (one, b, c, one, Fr(rng.randint(-300, 300)), Fr(rng.randint(-300, 300)))
    elif kind == "near_singular":
        a, b = R(-3, 3), R(-3, 3)
        k = R(-2, 2)
        t = (a, b, a * k + rng.choice(TINY), b * k, R(-50, 50), R(-50, 50))
    elif kind == "rot":
        m, n = rng.choice([(3, 4), (5, 12), (8, 15), (20, 21), (1, 0), (0, 1)])
        h = Fr(math.isqrt(m * m + n * n))
        c, s = Fr(m) / h, Fr(n) / h
        k = rng.choice([one, R(0, 3) + Fr(1, 64)])
        t = (c * k, s * k, -s * k, c * k, R(-200, 200), R(-200, 200))
    elif kind == "neg_scale":
        t = (rng.choice([one, -one]) * R(0, 2), zero, zero, -R(0, 2) - Fr(1, 64), rng.choice([zero, R(-900, 900)]), rng.choice([zero, Fr(rng.randint(-900, 900))]))
    elif kind == "tiny_offdiag":
        t = (R(-2, 2), rng.choice(TINY), rng.choice(TINY), R(-2, 2), rng.choice([zero, R(-10, 10)]), rng.choice([zero, R(-10, 10)]))
    else:
        t = (R(-4, 4), R(-4, 4), R(-4, 4), R(-4, 4), R(-40000, 40000), R(-40000, 40000))
    return kind, tuple(Fr(v) for v in t)


def gen_stops(rng):
    from nanoemoji.colors import Color
    from nanoemoji.paint import ColorStop

    n = rng.randint(2, 3)
    return tuple(
        ColorStop(Fr(i, n - 1), Color(rng.randint(0, 255), rng.randint(0, 255), rng.randint(0, 255), Fr(rng.randint(0, 4), 4), rng.choice([None, None, rng.randint(0, 3)])))
        for i in range(n)
    )


def gen_target(rng):
    from nanoemoji import paint as P
    from nanoemoji.colors import Color
    from picosvg.geometric_types import Point

    k = rng.randint(0, 3)
    solid = P.PaintSolid(Color(rng.randint(0, 255), rng.randint(0, 255), rng.randint(0, 255), Fr(rng.randint(0, 4), 4)))
    if k == 0:
        return solid
    if k == 1:
        return P.PaintGlyph(glyph=f"g{rng.randint(0, 9)}", paint=solid)
    if k == 2:
        return P.PaintColrLayers(layers=(P.PaintGlyph(glyph="a", paint=solid), solid))
    return P.PaintTranslate(paint=P.PaintGlyph(glyph="b", paint=solid), dx=Fr(3), dy=Fr(-4))


def run(report: Report, n_cases: int):
    from nanoemoji import paint as P
    from nanoemoji import fixed
    from nanoemoji.paint import Extend
    from picosvg.geometric_types import Point
    from picosvg.svg_transform import Affine2D

    hyp_calls = _patch_exact_math()
    rng = random.Random(report.seed)
    report.rule = (
        "stratified affines over Fractions (22 strata covering every branch of paint.transformed and the "
        "boundaries between them: exact zeros vs 1e-9 near-zeros, F2Dot14/int16 limits, 1-s tiny, mixed signs, "
        "shear, near-singular); non-trivial = not the identity and not a pure integer translation; distinct = "
        "distinct (function, input) after canonicalisation"
    )

    # ---- transformed -----------------------------------------------------------------
    cases, meta = [], []
    for i in range(n_cases):
        kind, t = gen_affine(rng)
        target = gen_target(rng)
        out = P.transformed(Affine2D(*t), target)
        cases.append(f"({afflit(t)}, {paintlit(target)}, {paintlit(out)})")
        meta.append(dict(function="paint.transformed", stratum=kind, transform=[str(v) for v in t], target=paint_json(target), impl_out=paint_json(out)))
        report.hist("transformed.stratum", kind)
        report.hist("transformed.constructor", type(out).__name__)
        nontriv = not (t[:4] == (1, 0, 0, 1) and t[4].denominator == 1 and t[5].denominator == 1)
        report.count(("tr", t, repr(target)), nontriv)
    evaluate_corr(report, IMPORTS, "Corr.C16", "transformed", "tr_case", cases, meta, "tr_agree", "tr_prop")
    report.sample(meta[min(7, len(meta) - 1)])
    # the affine each emitted paint reports for itself (what traversals, clip boxes and COLRv0 components use)
    gcases, gmeta = [], []
    rng2 = random.Random(report.seed + 1)
    for i in range(n_cases):
        kind, t = gen_affine(rng2)
        out = P.transformed(Affine2D(*t), gen_target(rng2))
        if not hasattr(out, "gettransform") or type(out).__name__ in ("PaintGlyph", "PaintSolid", "PaintLinearGradient", "PaintRadialGradient", "PaintColrLayers"):
            continue
        g = tuple(out.gettransform())
        gcases.append(f"({paintlit(out)}, {afflit(g)})")
        gmeta.append(dict(function=type(out).__name__ + ".gettransform", paint=paint_json(out), impl_out=[str(v) for v in g]))
        report.count(("gt", repr(out)), True)
        report.hist("gettransform.constructor", type(out).__name__)
    evaluate_corr(report, IMPORTS, "Corr.C16", "gettransform", "gt_case", gcases, gmeta, "gt_agree", "gt_agree")
    # every transform paint class, built directly (the rotate / skew classes are never emitted by `transformed`, but
    # colr_to_svg reads them from third-party fonts and breadth_first composes them)
    tcases, tmeta = [], []
    rng3 = random.Random(report.seed + 4)
    leaf = P.PaintGlyph(glyph="g", paint=P.PaintSolid())
    for i in range(max(60, n_cases // 5)):
        c = (rng3.randint(-300, 600), rng3.randint(-300, 600))
        k = i % 10
        out = [
            lambda: P.PaintTranslate(paint=leaf, dx=rng3.randint(-500, 500), dy=rng3.randint(-500, 500)),
            lambda: P.PaintScale(paint=leaf, scaleX=rng3.choice([0.5, 1.5, -1.0]), scaleY=rng3.choice([0.25, 1.25, 1.0])),
            lambda: P.PaintScaleAroundCenter(paint=leaf, scaleX=rng3.choice([0.5, 1.5, -1.0]), scaleY=rng3.choice([0.25, 1.25]), center=c),
            lambda: P.PaintScaleUniform(paint=leaf, scale=rng3.choice([0.5, 1.5, 0.75])),
            lambda: P.PaintScaleUniformAroundCenter(paint=leaf, scale=rng3.choice([0.5, 1.5]), center=c),
            lambda: P.PaintRotate(paint=leaf, angle=rng3.choice([30, 45, 90, -60, 135, 17.5])),
            lambda: P.PaintRotateAroundCenter(paint=leaf, angle=rng3.choice([30, 90, -45, 12.25]), center=c),
            lambda: P.PaintSkew(paint=leaf, xSkewAngle=rng3.choice([0, 15, -20, 33]), ySkewAngle=rng3.choice([0, 10, -15])),
            lambda: P.PaintSkewAroundCenter(paint=leaf, xSkewAngle=rng3.choice([10, -20, 30]), ySkewAngle=rng3.choice([0, 15, -5]), center=c),
            lambda: P.PaintTransform(paint=leaf, transform=tuple(float(v) for v in (rng3.choice([1, 0.5]), rng3.choice([0, 0.25]), rng3.choice([0, -0.5]), rng3.choice([1, 2]), rng3.randint(-99, 99), rng3.randint(-99, 99)))),
        ][k]()
        g = tuple(float(v) for v in out.gettransform())
        tcases.append(f"({paintlit(out)}, {afflit(g)})")
        tmeta.append(dict(function=type(out).__name__ + ".gettransform", paint=paint_json(out), impl_out=[str(v) for v in g]))
        report.count(("gt-class", repr(out)), True)
        report.hist("gettransform.class", type(out).__name__)
    evaluate_corr(report, IMPORTS, "Corr.C16", "gettransform_classes", "gt_case", tcases, tmeta, "gt_close", "gt_close")
    run_serialised(report, n_cases, random.Random(report.seed + 2), P, Affine2D)
    run_otsvg_gradient(report, max(60, n_cases // 6), random.Random(report.seed + 3), P, Affine2D)

    # ---- range predicates --------------------------------------------------------------
    cases, meta = [], []
    bases = [Fr(-32768), Fr(32767), Fr(-2), Fr(32767, 16384), Fr(2), Fr(0), Fr(65535), Fr(2**31 - 1, 2**16), Fr(-32769), Fr(32768)]
    for i in range(max(200, n_cases // 3)):
        v = rng.choice(bases) + rng.choice(TINY + [Fr(1, 16384), Fr(-1, 16384), Fr(1, 65536), Fr(1), Fr(-1), Fr(1, 3)]) * rng.choice([1, 1, 2])
        if rng.random() < 0.3:
            v = Fr(rng.randint(-70000 * 64, 70000 * 64), 64)
        got = (fixed.int16_safe(v), fixed.f2dot14_safe(v), fixed.fixed_safe(v))
        cases.append(f"({qlit(v)}, {boollit(got[0])}, {boollit(got[1])}, {boollit(got[2])})")
        meta.append(dict(function="fixed.*_safe", value=str(v), impl_out=list(got)))
        report.count(("rg", v), True)
    evaluate_corr(report, IMPORTS, "Corr.C16", "range_predicates", "rg_case", cases, meta, "rg_agree", "rg_prop")

    # ---- gradients -------------------------------------------------------------------
    def gpt(big=False):
        m = 40000 if big else 1200
        return Point(Fr(rng.randint(-m * 8, m * 8), 8), Fr(rng.randint(-m * 8, m * 8), 8))

    cases, meta = [], []
    for i in range(n_cases // 2):
        kind, t = gen_affine(rng, rng.choice(["general", "rot", "scale", "shear", "scale_center", "translate_frac", "neg_scale", "identity", "near_singular"]))
        p0, p1 = gpt(), gpt()
        p2 = rng.choice([None, gpt()])
        g = P.PaintLinearGradient(extend=rng.choice(list(Extend)), stops=gen_stops(rng), p0=p0, p1=p1, p2=p2)
        chk = rng.random() < 0.7
        try:
            out = g.apply_transform(Affine2D(*t), check_overflows=chk)
        except OverflowError:
            out = None
        cases.append(f"({afflit(t)}, {boollit(chk)}, {paintlit(g)}, {optlit(out, paintlit)})")
        meta.append(dict(function="PaintLinearGradient.apply_transform", stratum=kind, transform=[str(v) for v in t], check=chk, gradient=paint_json(g), impl_out=None if out is None else paint_json(out)))
        report.hist("linear.result", "OverflowError" if out is None else "ok")
        report.count(("ln", t, repr(g), chk), t != (1, 0, 0, 1, 0, 0))
    evaluate_corr(report, IMPORTS, "Corr.C16", "linear_apply_transform", "ln_case", cases, meta, "ln_agree", "ln_prop")
    report.sample(meta[0])

    # ---- _decompose_uniform_transform and radial apply_transform ------------------------
    cases, meta = [], []
    rcases, rmeta = [], []
    for i in range(n_cases // 2):
        kind, t = gen_affine(rng, rng.choice(["general", "rot", "scale", "shear", "scale_center", "translate_frac", "neg_scale", "scale_uniform", "near_singular", "tiny_offdiag", "identity"]))
        if rng.random() < 0.7:
            t = t[:4] + (Fr(rng.randint(-900 * 8, 900 * 8), 8), Fr(rng.randint(-900 * 8, 900 * 8), 8))
        del hyp_calls[:]
        try:
            out = P._decompose_uniform_transform(Affine2D(*t))
            err = None
        except (AssertionError, ZeroDivisionError) as e:
            out, err = None, type(e).__name__
        if len(hyp_calls) < 2:
            continue
        hx, hy = hyp_calls[0], hyp_calls[1]
        outlit = "None" if out is None else f"(Some ({afflit(out[0])}, {afflit(out[1])}))"
        cases.append(f"({qlit(hx)}, {qlit(hy)}, {afflit(t)}, {outlit})")
        meta.append(dict(function="paint._decompose_uniform_transform", stratum=kind, transform=[str(v) for v in t], hypot=[str(hx), str(hy)], impl_out=None if out is None else [[str(v) for v in a] for a in out], error=err))
        report.hist("decompose.result", err or "ok")
        report.count(("du", t), t[:4] != (1, 0, 0, 1))

        # radial gradient through the same transform
        c0, c1 = gpt(), gpt()
        if rng.random() < 0.3:
            c1 = c0
        r0, r1 = Fr(rng.randint(0, 400 * 4), 4), Fr(rng.randint(1, 900 * 4), 4)
        g = P.PaintRadialGradient(extend=rng.choice(list(Extend)), stops=gen_stops(rng), c0=c0, c1=c1, r0=r0, r1=r1)
        chk = rng.random() < 0.7
        del hyp_calls[:]
        try:
            rout = g.apply_transform(Affine2D(*t), check_overflows=chk)
            rerr = None
        except (OverflowError, AssertionError, ZeroDivisionError) as e:
            rout, rerr = None, type(e).__name__
        hx, hy = hyp_calls[0], hyp_calls[1]
        rcases.append(f"({qlit(hx)}, {qlit(hy)}, {afflit(t)}, {boollit(chk)}, {paintlit(g)}, {optlit(rout, paintlit)})")
        rmeta.append(dict(function="PaintRadialGradient.apply_transform", stratum=kind, transform=[str(v) for v in t], hypot=[str(hx), str(hy)], check=chk, gradient=paint_json(g), impl_out=None if rout is None else paint_json(rout), error=rerr))
        report.hist("radial.result", rerr or type(rout).__name__)
        report.count(("rd", t, repr(g), chk), True)
    evaluate_corr(report, IMPORTS, "Corr.C16", "decompose_uniform_transform", "du_case", cases, meta, "du_agree", "du_prop")
    evaluate_corr(report, IMPORTS, "Corr.C16", "radial_apply_transform", "rd_case", rcases, rmeta, "rd_agree", "rd_prop")
    if rmeta:
        report.sample(rmeta[0])


def _decode_colr_affine(d):
    """the affine a COLRv1 transform paint record denotes, read from the dict handed to fontTools' builder
    (COLR spec: formats 12 transform, 14 translate, 16 scale, 18 scale around centre, 20/22 uniform)"""
    f = int(d["Format"])
    if f == 12:
        return tuple(d["Transform"])
    if f == 14:
        return (1, 0, 0, 1, d["dx"], d["dy"])
    if f in (16, 18, 20, 22):
        sx = d["scaleX"] if f in (16, 18) else d["scale"]
        sy = d["scaleY"] if f in (16, 18) else d["scale"]
        cx, cy = (d["centerX"], d["centerY"]) if f in (18, 22) else (0, 0)
        return (sx, 0, 0, sy, cx - sx * cx, cy - sy * cy)
    return None


def run_serialised(report, n, rng, P, Affine2D):
    """what transformed() emits is then serialised by to_ufo_paint: the record must denote the paint's own affine"""
    from nanoemoji.colors import Color

    palette = [Color(r, g, b, 1.0) for r in range(0, 256) for g in (0,) for b in (0,)]
    for i in range(n):
        kind, t = gen_affine(rng)
        solid = P.PaintSolid(Color(rng.randint(0, 255), 0, 0, Fr(1)))
        out = P.transformed(Affine2D(*t), P.PaintGlyph(glyph="g", paint=solid))
        if not P.is_transform(out):
            continue
        d = out.to_ufo_paint(palette)
        got = _decode_colr_affine(d)
        want = tuple(out.gettransform())
        report.count(("ser", repr(out)), True)
        report.hist("serialised.format", int(d["Format"]))
        if got is None or any(Fr(a) != Fr(b) for a, b in zip(got, want)):
            report_failure(report, f"serialised_{i}", dict(kind="property", function=type(out).__name__ + ".to_ufo_paint", paint=paint_json(out),
                                                            record={k: str(v) for k, v in d.items() if k != "Paint"}, denotes=[str(v) for v in (got or ())], paint_affine=[str(v) for v in want]))
            return
        # ... and read back from OpenType objects (what the COLR -> SVG direction does) it is the same affine again
        if i % 4 == 0:
            from fontTools.colorLib.builder import buildCOLR

            def floats(x):
                if isinstance(x, dict):
                    return {k: floats(v) for k, v in x.items()}
                if isinstance(x, (list, tuple)):
                    return type(x)(floats(v) for v in x)
                return float(x) if isinstance(x, Fr) else x

            try:
                colr = buildCOLR({"g": floats(d)}, version=1)
                otp = colr.table.BaseGlyphList.BaseGlyphPaintRecord[0].Paint
                back = tuple(P.Paint.from_ot(otp).gettransform())
            except Exception as ex:
                back = None
                report.notes.setdefault("from_ot_skipped", str(ex)[:200])
            if back is not None:
                tol = [1e-3] * 4 + [1e-3 * (1 + abs(float(want[4]))), 1e-3 * (1 + abs(float(want[5])))]
                report.hist("from_ot.format", int(d["Format"]))
                if any(abs(float(a) - float(b)) > t for a, b, t in zip(back, want, tol)):
                    report_failure(report, f"from_ot_{i}", dict(kind="property", function="Paint.from_ot", paint=paint_json(out), read_back_affine=[float(v) for v in back], paint_affine=[float(v) for v in want]))
                    return


def run_otsvg_gradient(report, n, rng, P, Affine2D):
    """svg._apply_paint: a gradient under transform paints, drawn through an outer (reuse) transform, must get the
    gradientTransform  V . T . M1 . M2 ... . V^-1  (V = font units -> viewBox), up to the 3 decimals it is written with"""
    from lxml import etree
    from nanoemoji import svg as svgmod
    from nanoemoji.colors import Color
    from picosvg.geometric_types import Point

    from harness import picture

    def fl(t):
        return tuple(float(v) for v in t)

    for i in range(n):
        stops = (P.ColorStop(0.0, Color(255, 0, 0, 1.0)), P.ColorStop(1.0, Color(0, 0, 255, 1.0)))
        if rng.random() < 0.5:
            grad = P.PaintRadialGradient(stops=stops, c0=Point(rng.randint(-50, 50), rng.randint(-50, 50)), c1=Point(rng.randint(-50, 50), rng.randint(-50, 50)), r0=0, r1=rng.randint(10, 200))
        else:
            grad = P.PaintLinearGradient(stops=stops, p0=Point(rng.randint(-50, 50), 0), p1=Point(rng.randint(60, 200), rng.randint(-40, 40)), p2=Point(rng.randint(-50, 50), rng.randint(60, 200)))
        ms = []
        paint = grad
        for _ in range(rng.randint(1, 2)):
            m = rng.choice([(rng.choice([0.5, 2.0, 1.5]), 0, 0, rng.choice([0.5, 1.0, 3.0]), 0, 0), (1, 0, 0, 1, rng.randint(-300, 300), rng.randint(-300, 300)),
                            (0.8, 0.3, -0.3, 0.8, rng.randint(-50, 50), rng.randint(-50, 50)), (1.2, 0, 0.4, 1, 10, -20)])
            ms.insert(0, m)
            paint = P.PaintTransform(paint=paint, transform=m)
        T = rng.choice([(1, 0, 0, 1, 0, 0), (1, 0, 0, 1, rng.randint(-600, 600), rng.randint(-600, 600)), (0.5, 0, 0, 0.5, 100, -40), (0, 1, -1, 0, 30, 60), (1, 0, 0, -1, 0, 500)])
        s_ = rng.choice([0.1, 0.128, 1.0])
        V = (s_, 0, 0, -s_, rng.choice([0, 5]), rng.choice([95, 100]))  # font units (y up) -> viewBox (y down)
        defs, el = etree.Element("defs"), etree.Element("path")
        try:
            from nanoemoji.glyph_reuse import GlyphReuseCache

            svgmod._apply_paint(defs, el, paint, Affine2D(*V), svgmod.ReuseCache(0.1, GlyphReuseCache(0.1)), Affine2D(*T))
        except TypeError:
            report.notes["otsvg_gradient"] = "svg._apply_paint/ReuseCache signature changed: function-level OT-SVG gradient check skipped"
            return
        g = defs[0]
        G = picture.parse_transform(g.get("gradientTransform")) if g.get("gradientTransform") else (1, 0, 0, 1, 0, 0)
        acc = fl(T)
        for m in ms:
            acc = picture.amul(acc, fl(m))
        E = picture.amul(fl(V), acc)  # the gradient's own (font-unit) space -> viewBox
        Einv, Ginv = picture.ainv(E), picture.ainv(G)
        num = lambda k, dflt=0.0: float(g.get(k, dflt))
        scale = max(abs(v) for v in E[:4])
        probs = []
        if isinstance(grad, P.PaintLinearGradient):
            p1, p2 = (num("x1"), num("y1")), (num("x2"), num("y2"))
            d2 = (p2[0] - p1[0]) ** 2 + (p2[1] - p1[1]) ** 2
            for x in [(0, 0), (100, 0), (0, 100), (37, 81), (-40, 55)]:
                u = picture.apt(Ginv, x)
                t_svg = ((u[0] - p1[0]) * (p2[0] - p1[0]) + (u[1] - p1[1]) * (p2[1] - p1[1])) / d2 if d2 else None
                t_colr = picture._lin_t(tuple(grad.p0), tuple(grad.p1), tuple(grad.p2), picture.apt(Einv, x))
                if t_svg is None or t_colr is None or abs(t_svg - t_colr) > 0.02 * (1 + abs(t_colr)):
                    probs.append(f"colour parameter at viewBox point {x}: OT-SVG {t_svg}, paint tree {t_colr}")
                    break
        else:
            import math

            circles = [((num("fx", g.get("cx", 0)), num("fy", g.get("cy", 0))), num("fr", 0.0), tuple(grad.c0), float(grad.r0)),
                       ((num("cx"), num("cy")), num("r"), tuple(grad.c1), float(grad.r1))]
            for (c_svg, r_svg, c_colr, r_colr) in circles:
                for k in range(8):
                    q = picture.apt(G, (c_svg[0] + r_svg * math.cos(k * math.pi / 4), c_svg[1] + r_svg * math.sin(k * math.pi / 4)))
                    y = picture.apt(Einv, q)
                    dist = math.hypot(y[0] - c_colr[0], y[1] - c_colr[1])
                    # the matrix is written with 3 decimals: up to 0.0005 x coordinate size, seen through E^-1
                    rnd = 0.002 * (abs(c_svg[0]) + abs(c_svg[1]) + r_svg + 1) * max(abs(v) for v in Einv[:4])
                    if abs(dist - r_colr) > 0.02 * (1 + r_colr) + rnd:
                        probs.append(f"circle (centre {c_svg}, radius {r_svg}) of the OT-SVG gradient maps to distance {dist:.3f} from the paint tree's centre {c_colr}, radius {r_colr}")
                        break
                if probs:
                    break
        report.count(("otsvg-grad", repr(paint), T, V), True)
        report.hist("otsvg_gradient.kind", type(grad).__name__)
        if probs:
            report_failure(report, f"otsvg_gradient_{i}", dict(kind="property", function="svg._apply_paint", paint=paint_json(paint), outer_transform=list(T), font_to_viewbox=list(V),
                                                                element=etree.tostring(g).decode(), problems=probs))
            return


def run_fonts(report, rng):
    """gradient geometry in whole COLRv1 fonts where the glyph's advance is not the configured width (wide and narrow
    viewBoxes): the affine a gradient is mapped by must be the one its outline is placed by"""
    from harness import build, e2e

    def src(vb_w, k):
        cx = vb_w * 0.75
        return (build.filename_for((0x1F600 + k,)),
                f'<svg xmlns="http://www.w3.org/2000/svg" viewBox="0 0 {vb_w} 100"><defs>'
                f'<radialGradient id="r" gradientUnits="userSpaceOnUse" cx="{cx}" cy="50" r="30"><stop offset="0" stop-color="#ff0000"/><stop offset="1" stop-color="#0000ff"/></radialGradient>'
                f'<linearGradient id="l" gradientUnits="userSpaceOnUse" x1="10" y1="10" x2="{vb_w * 0.4}" y2="30"><stop offset="0" stop-color="#00ff00"/><stop offset="1" stop-color="#ffff00"/></linearGradient>'
                f'<radialGradient id="o"><stop offset="0" stop-color="#ffffff"/><stop offset="1" stop-color="#000000"/></radialGradient></defs>'
                f'<path d="M{cx - 30},20 L{cx + 30},20 L{cx + 30},80 L{cx - 30},80 Z" fill="url(#r)"/>'
                f'<path d="M10,10 L{vb_w * 0.4},10 L{vb_w * 0.4},40 L10,40 Z" fill="url(#l)"/>'
                f'<path d="M5,60 L{vb_w * 0.3},60 L{vb_w * 0.3},95 L5,95 Z" fill="url(#o)"/></svg>', (0x1F600 + k,))

    srcs = [src(200, 0), src(100, 1), src(50, 2), src(330, 3)]
    for over in (dict(color_format="glyf_colr_1", upem=1000, ascender=800, descender=-200, width=1000), dict(color_format="glyf_colr_1"),
                 dict(color_format="cff_colr_1", output_file="Font.otf", upem=1024, ascender=900, descender=-124, width=0)):
        case = dict(kind="e2e", config={k: str(v) for k, v in over.items()}, sources=[s_[1] for s_ in srcs])
        try:
            font, cfg, picos, _ = build.build_inprocess(over, srcs)
        except Exception as ex:
            case["error"] = f"{type(ex).__name__}: {ex}"[:1200]
            report_failure(report, "font_build", case)
            return
        probs = []
        n = e2e.check_colr_glyphs(font, cfg, srcs, picos, probs)
        report.count(("font", str(over)), True, n)
        report.hist("fonts.width", over.get("width", "default"))
        if probs:
            case["problems"] = [str(p_)[:800] for p_ in probs[:3]]
            report_failure(report, "font", case)
            return
    # gradients whose residual (non-uniform) transform must survive sharing: the second use of one outline at one place,
    # two definitions that differ in that transform only, one definition on several shapes - as COLRv1 and as OT-SVG
    from harness.c02 import check_otsvg_glyphs
    from harness.c06 import CORPUS_SETS

    for name, fmts, tol, texts in CORPUS_SETS:
        if name not in ("second-use-squashed-radial", "radials-differing-in-transform-only", "one-gradient-many-shapes", "gradient-on-reused-shape", "same-shape-same-place-gradient"):
            continue
        srcs = [(build.filename_for((0x1F600 + k,)), t, (0x1F600 + k,)) for k, t in enumerate(texts)]
        for fmt in ("glyf_colr_1", "picosvg"):
            over = dict(color_format=fmt, upem=1024, ascender=896, descender=-128, width=1024, reuse_tolerance=tol)
            case = dict(kind="e2e", corpus=name, config={k: str(v) for k, v in over.items()}, sources=[s_[1] for s_ in srcs])
            try:
                font, cfg, picos, _ = build.build_inprocess(over, srcs)
            except Exception as ex:
                case["error"] = f"{type(ex).__name__}: {ex}"[:1200]
                report_failure(report, "font_build", case)
                return
            probs = []
            if fmt == "picosvg":
                n, entries = check_otsvg_glyphs(font, cfg, srcs, picos, False)
                probs = [f"{e_['source']}: {x}" for e_ in entries if not e_.get("rounding_only") for x in e_["problems"]]
            else:
                n = e2e.check_colr_glyphs(font, cfg, srcs, picos, probs)
            report.count(("font", name, fmt), True, n)
            report.hist("fonts.corpus", f"{name} {fmt}")
            if probs:
                case["problems"] = [str(p_)[:800] for p_ in probs[:3]]
                report_failure(report, "font", case)
                return


def main(argv):
    common.setup_env()
    tier = common.tier_from_args(argv)
    seed = common.seed_from_env()
    report = Report("C16", tier, seed)
    st = proof_gate(report)
    n = 600 if tier == "quick" else 12000
    model_ready = common.vo_ok("Corr/C16.v")
    run_fonts(report, random.Random(seed + 9))  # before run(): that one replaces hypot/copysign by exact versions
    if model_ready and not report.violations:
        run(report, n)
    if not st["proof_ok"]:
        # the proof no longer checks: if the search above found a concrete input it is already
        # reported; otherwise report the broken obligation itself
        if not report.violations:
            report.violation("proof", dict(kind="proof", theorem="Props/C16.v", detail=report.notes.get("proof_failure")), found_input=False)
    report.assumptions = [
        "exact rational arithmetic: the implementation is run on fractions.Fraction with math.hypot/copysign replaced by exact-valued equivalents; IEEE rounding error is outside the claim",
        "hypot is an oracle: the model receives the two values the implementation's hypot returned",
    ]
    return report.finish()
