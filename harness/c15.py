"""C15 -- The palette honours explicit indices and resolves every colour."""
import itertools
import random
from fractions import Fraction as Fr

from harness import common
from harness.common import Report, evaluate_corr, listlit, proof_gate, report_failure
from harness.pyconv import colorlit

IMPORTS = ["Model.Field Model.Color Model.Palette Corr.Common Corr.C15"]


def run_impl(colors):
    from nanoemoji.colors import uniq_sort_cpal_colors

    try:
        pal = uniq_sort_cpal_colors(colors)
        return ("Palette", pal)
    except ValueError:
        return ("ErrConflict", None)
    except IndexError:
        return ("ErrIndex", None)
    except AssertionError:
        return ("ErrAssert", None)


def outlit(o):
    kind, pal = o
    if kind == "Palette":
        return f"(Palette _ {listlit([colorlit(c) for c in pal])})"
    return f"({kind} _)"


def show(c):
    return [c.red, c.green, c.blue, str(c.alpha), c.palette_index]


def small_universe():
    from nanoemoji.colors import Color

    rgba = [(0, 0, 0, Fr(1)), (255, 0, 0, Fr(1)), (255, 0, 0, Fr(1, 2))]
    return [Color(r, g, b, a, i) for (r, g, b, a) in rgba for i in (None, 0, 1, 2, 3, 4, 5)]


def run(report: Report, tier):
    from nanoemoji.colors import Color

    rng = random.Random(report.seed)
    uni = small_universe()
    cases, meta = [], []

    def add(colors, stratum):
        out = run_impl(list(colors))
        cases.append(f"({listlit([colorlit(c) for c in colors])}, {outlit(out)})")
        meta.append(dict(function="colors.uniq_sort_cpal_colors", stratum=stratum, colors=[show(c) for c in colors],
                         impl_out=out[0] if out[1] is None else [show(c) for c in out[1]]))
        idx = [c.palette_index for c in set(colors)]
        nontrivial = any(i is not None for i in idx) and any(i is None for i in idx)
        report.count(("pal", tuple(sorted(map(repr, set(colors))))), nontrivial)
        report.hist("stratum", stratum)
        report.hist("outcome", out[0])
        report.hist("set_size", len(set(colors)))

    if tier == "thorough":
        # the finite universe named by the property, exhaustively: every set of <= 6 colours
        for k in range(0, 7):
            for comb in itertools.combinations(uni, k):
                add(list(comb), "small_universe_exhaustive")
        report.notes["small_universe_exhaustive"] = True
    else:
        add([], "small_universe_sample")
        for _ in range(700):
            k = rng.randint(1, 6)
            add(rng.sample(uni, k), "small_universe_sample")
    # lists with duplicates and in scrambled order (a set is what matters)
    for _ in range(150 if tier == "quick" else 2000):
        k = rng.randint(1, 6)
        l = rng.sample(uni, k)
        l = l + [rng.choice(l) for _ in range(rng.randint(0, 3))]
        rng.shuffle(l)
        add(l, "duplicates_scrambled")
    # larger random sets: many indices, gaps, varied alpha
    for _ in range(250 if tier == "quick" else 4000):
        n = rng.randint(1, 40)
        maxi = rng.choice([3, 10, 60])
        cols = []
        used = set()
        for _ in range(n):
            i = rng.choice([None, None, rng.randint(0, maxi)])
            if i is not None and i in used and rng.random() < 0.9:
                i = None
            if i is not None:
                used.add(i)
            cols.append(Color(rng.randint(0, 3), rng.randint(0, 2), rng.randint(0, 255), Fr(rng.randint(0, 4), 4), i))
        add(cols, "random_large")
    evaluate_corr(report, IMPORTS, "Corr.C15", "uniq_sort_cpal_colors", "pal_case", cases, meta, "pal_agree", "pal_prop", shard=300)
    report.sample(meta[5])
    report.sample(meta[-1])
    if tier == "thorough":
        report.notes["exhaustive_cases"] = sum(1 for m in meta if m["stratum"] == "small_universe_exhaustive")


RGB = {"red": (255, 0, 0), "#0000FF": (0, 0, 255), "black": (0, 0, 0), "#00FF00": (0, 255, 0)}


def run_fonts(report, n, rng):
    """whole COLRv1/COLRv0 fonts whose fills mix plain colours, var(--colorN, c) with the same RGBA at several
    indices (and also unindexed), opacities and currentColor: CPAL layout against an independent spec, and every
    layer's palette index / alpha against its declaration"""
    from harness import build, picture, e2e

    for i in range(n):
        fmt = ["glyf_colr_1", "glyf_colr_0", "cff2_colr_0", "cff_colr_1", "cff_colr_0", "cff2_colr_1"][i % 6]
        by_index = {}  # N -> (css colour, alpha): one colour (and in COLRv0 one alpha) per index in a font
        srcs, expect = [], []
        for k in range(rng.randint(1, 4)):
            shapes, exp, grads = [], [], []
            for j in range(rng.randint(1, 3)):
                x, y, w, h = 5 + 22 * j, 10 + 13 * k + 7 * j, 12 + 3 * j + k, 9 + 2 * k + 5 * j  # distinct outlines: no reuse
                op = rng.choice([1.0, 1.0, 0.5, 0.25, 0.9, 0.1])  # 0.5, 0.9, 0.1: alpha x 255 ends in .5 (rounded, not cut)
                r = rng.random()
                force_hex = k == 0 and j == 0 and not fmt.endswith("_0")  # always: a colour with its own alpha under a shape opacity
                if force_hex:
                    op, r = 0.5, 0.3
                if not fmt.endswith("_0") and r < 0.25:
                    # a linear gradient whose stops declare palette indices (opaque, so one member per stop)
                    stops = []
                    for so in (0, 1):
                        if rng.random() < 0.7:
                            nidx = rng.randint(0, 5)
                            if nidx not in by_index:
                                by_index[nidx] = (rng.choice(list(RGB)), 1.0)
                            c = by_index[nidx][0]
                            stops.append((f"var(--color{nidx}, {c})", RGB[c], nidx))
                        elif rng.random() < 0.5:
                            c = rng.choice(list(RGB))
                            stops.append((c, RGB[c], None))
                        else:
                            # the stop's own colour carries an alpha (#RRGGBBAA)
                            c = rng.choice(list(RGB))
                            aa = rng.choice([0x80, 0x40, 0x10])
                            stops.append(("#%02x%02x%02x%02x" % (RGB[c] + (aa,)), RGB[c], None, aa / 255))
                    gid = f"g{k}_{j}"
                    grads.append(f'<linearGradient id="{gid}" gradientUnits="userSpaceOnUse" x1="{x}" y1="{y}" x2="{x + w}" y2="{y + h}">'
                                 + "".join(f'<stop offset="{so}" stop-color="{st[0]}"/>' for so, st in enumerate(stops)) + "</linearGradient>")
                    shapes.append(f'<path d="M{x},{y} L{x + w},{y} L{x + w},{y + h} L{x},{y + h} Z" fill="url(#{gid})"/>')
                    exp.append(("gradient", [(st[1], st[3] if len(st) > 3 else 1.0, st[2]) for st in stops], None))
                    continue
                if r < 0.1:
                    fill, rgb, idx = "currentColor", "current", None
                elif (force_hex or r < 0.32) and not fmt.endswith("_0"):
                    # the colour itself carries an alpha (#RRGGBBAA): it multiplies with the shape's opacity
                    c = rng.choice(list(RGB))
                    aa = rng.choice([0x80, 0x40, 0xC0])
                    fill, rgb, idx = "#%02x%02x%02x%02x" % (RGB[c] + (aa,)), RGB[c], None
                    shapes.append(f'<path d="M{x},{y} L{x + w},{y} L{x + w},{y + h} L{x},{y + h} Z" fill="{fill}"' + (f' opacity="{op}"' if op != 1.0 else "") + "/>")
                    exp.append((rgb, op * aa / 255, idx))
                    continue
                elif r < 0.45:
                    c = rng.choice(list(RGB))
                    fill, rgb, idx = c, RGB[c], None
                else:
                    nidx = rng.randint(0, 5)
                    if nidx not in by_index:
                        by_index[nidx] = (rng.choice(list(RGB)), op)
                    c, op0 = by_index[nidx]
                    if fmt.endswith("_0"):
                        op = op0
                    fill, rgb, idx = f"var(--color{nidx}, {c})", RGB[c], nidx
                if rgb == "current" and fmt.endswith("_0"):
                    op = 1.0  # COLRv0 has no alpha for the foreground colour
                shapes.append(f'<path d="M{x},{y} L{x + w},{y} L{x + w},{y + h} L{x},{y + h} Z" fill="{fill}"' + (f' opacity="{op}"' if op != 1.0 else "") + "/>")
                exp.append((rgb, op, idx))
            cps = (0x1F600 + k,)
            srcs.append((build.filename_for(cps), '<svg xmlns="http://www.w3.org/2000/svg" viewBox="0 0 100 100"><defs>' + "".join(grads) + "</defs>" + "".join(shapes) + "</svg>", cps))
            expect.append(exp)
        if i < 2:
            # directed (round 7): an explicit index that leaves a gap, next to a plain black and a plain white fill: the gap
            # is filled with black entries, and the black LAYER must still use the slot the unindexed black was given (the
            # lowest free one), not one of the fillers that merely look the same
            srcs = [(build.filename_for((0x1F600,)), '<svg xmlns="http://www.w3.org/2000/svg" viewBox="0 0 100 100"><path d="M5,5 L45,5 L45,45 L5,45 Z" fill="#000000"/>'
                     '<path d="M50,5 L95,5 L95,45 L50,45 Z" fill="#00FF00"/><path d="M5,50 L45,50 L45,95 L5,95 Z" fill="var(--color4, red)"/></svg>', (0x1F600,))]
            expect = [[((0, 0, 0), 1.0, None), ((0, 255, 0), 1.0, None), ((255, 0, 0), 1.0, 4)]]
            by_index = {4: ("red", 1.0)}
        case = dict(kind="e2e", format=fmt, sources=[s[1] for s in srcs])
        try:
            over = dict(color_format=fmt, reuse_tolerance=-1.0)
            if fmt.startswith("cff"):
                over["output_file"] = "Font.otf"
            font, cfg, picos, _ = build.build_inprocess(over, srcs)
        except Exception as ex:
            case["error"] = f"{type(ex).__name__}: {ex}"
            report_failure(report, f"font_build_{i}", case)
            return
        v0 = fmt.endswith("_0")
        # independent spec of the palette
        members = set()
        for exp in expect:
            for rgb, op, idx in exp:
                if rgb == "gradient":
                    for srgb, sop, sidx in op:
                        members.add((srgb, 1.0, sidx))
                elif rgb != "current":
                    members.add((rgb, op if v0 else 1.0, idx))
        indexed = {m[2]: m for m in members if m[2] is not None}
        free = sorted((m for m in members if m[2] is None), key=lambda m: (m[0], m[1]))
        slots = max(len(members), max(indexed, default=-1) + 1, 1)
        want = []
        slot_of = {}  # unindexed member -> the slot the specification gives it
        for sidx in range(slots):
            if sidx in indexed:
                want.append((indexed[sidx][0], indexed[sidx][1]))
            elif free:
                m = free.pop(0)
                want.append((m[0], m[1]))
                slot_of[(m[0], m[1])] = sidx
            else:
                want.append(((0, 0, 0), 1.0))
        got = [((c.red, c.green, c.blue), c.alpha) for c in font["CPAL"].palettes[0]]
        probs = []
        if font["COLR"].version != (0 if v0 else 1):
            probs.append(f"{fmt} built a COLR version {font['COLR'].version} table")
        import math

        # the alpha byte is the alpha times 255 rounded (half up), not cut
        if len(got) != len(want) or any(g[0] != w[0] or g[1] != math.floor(w[1] * 255 + 0.5) for g, w in zip(got, want)):
            probs.append(f"CPAL {got} != specified palette {[(w[0], round(w[1] * 255)) for w in want]}")
        for (fn, text, cps), exp in zip(srcs, expect):
            g = e2e.glyph_for(font, cps)
            act, p2 = picture.colr_picture(font, g)
            probs += p2
            layers = [it for it, _ in picture.flatten(act)]
            if len(layers) != len(exp):
                probs.append(f"{g}: {len(layers)} layers for {len(exp)} shapes")
                continue
            for li, (it, (rgb, op, idx)) in enumerate(zip(layers, exp)):
                if rgb == "gradient":
                    if it[2][0] != "linear" or len(it[2][1]) != len(op):
                        probs.append(f"{g} layer {li}: expected a linear gradient with {len(op)} stops, found {it[2][0]}")
                        continue
                    for (so, srgb, salpha, sidx), (ergb, ealpha, eidx) in zip(it[2][1], op):
                        if srgb != ergb or abs(salpha - ealpha) > 0.005:
                            probs.append(f"{g} layer {li}: stop paints {srgb} alpha {salpha}, declared {ergb}")
                        if eidx is not None and sidx != eidx:
                            probs.append(f"{g} layer {li}: stop uses palette entry {sidx}, declared var(--color{eidx})")
                    continue
                kind, argb, aalpha, aidx = it[2][:4]
                if rgb == "current":
                    if argb != "current":
                        probs.append(f"{g} layer {li}: currentColor became palette entry {aidx}")
                    continue
                if argb != rgb or abs(aalpha - op) > 0.005:
                    probs.append(f"{g} layer {li}: paints {argb} alpha {aalpha:.3f}, declared {rgb} alpha {op}")
                if idx is not None and aidx != idx:
                    probs.append(f"{g} layer {li}: uses palette entry {aidx}, declared var(--color{idx})")
                key = (rgb, op if v0 else 1.0)
                if idx is None and key in slot_of and (rgb, op if v0 else 1.0, None) in members and aidx != slot_of[key] and not any(m_[:2] == key and m_[2] is not None for m_ in members):
                    probs.append(f"{g} layer {li}: the unindexed colour {rgb} was given slot {slot_of[key]} but the layer uses entry {aidx}")
            report.count(("font", fmt, text), True)
        report.hist("fonts.format", fmt)
        report.hist("fonts.indexed_colours", min(len(by_index), 6))
        if probs:
            case["problems"] = probs[:5]
            report_failure(report, f"font_{i}", case)
            return


def main(argv):
    common.setup_env()
    tier = common.tier_from_args(argv)
    report = Report("C15", tier, common.seed_from_env())
    report.rule = (
        "sets of colours with optional palette indices: the property's small universe (3 RGBA values x indices "
        "{None,0..5}, all sets of <= 6 colours; exhaustive in the thorough tier, sampled in quick), lists with "
        "duplicates in scrambled order, random large sets with gaps and conflicts; non-trivial = at least one indexed "
        "and one unindexed colour; distinct = distinct sets"
    )
    st = proof_gate(report)
    if common.vo_ok("Corr/C15.v"):
        run(report, tier)
    if not report.violations:
        run_fonts(report, 10 if tier == "quick" else 200, random.Random(report.seed + 15))
    if not st["proof_ok"] and not report.violations:
        report.violation("proof", dict(kind="proof", theorem="Props/C15.v", detail=report.notes.get("proof_failure")), found_input=False)
    report.open_obligations = [
        "font-level half (CPAL + palette indices of built COLRv0/v1 fonts) is exercised by the C01/C03 end-to-end oracles, not here",
        "set-iteration independence (result depends on the set only) is covered by the correspondence on scrambled duplicates, not yet a theorem",
    ]
    return report.finish()
