"""C15 -- The palette honours explicit indices and resolves every colour."""
import itertools
import random
from fractions import Fraction as Fr

from harness import common
from harness.common import Report, evaluate_corr, listlit, proof_gate
from harness.pyconv import colorlit

IMPORTS = ["Model.Field Model.Color Model.Palette Corr.Common Corr.C15"]


def run_impl(colors):
    from nanoemoji.colors import uniq_sort_cpal_colors

    try:
        pal = uniq_sort_cpal_colors(colors)
        return ("Palette", pal)
    except ValueError:
        return ("ErrConflict", None)
    except IndexError:
        return ("ErrIndex", None)
    except AssertionError:
        return ("ErrAssert", None)


def outlit(o):
    kind, pal = o
    if kind == "Palette":
        return f"(Palette _ {listlit([colorlit(c) for c in pal])})"
    return f"({kind} _)"


def show(c):
    return [c.red, c.green, c.blue, str(c.alpha), c.palette_index]


def small_universe():
    from nanoemoji.colors import Color

    rgba = [(0, 0, 0, Fr(1)), (255, 0, 0, Fr(1)), (255, 0, 0, Fr(1, 2))]
    return [Color(r, g, b, a, i) for (r, g, b, a) in rgba for i in (None, 0, 1, 2, 3, 4, 5)]


def run(report: Report, tier):
    from nanoemoji.colors import Color

    rng = random.Random(report.seed)
    uni = small_universe()
    cases, meta = [], []

    def add(colors, stratum):
        out = run_impl(list(colors))
        cases.append(f"({listlit([colorlit(c) for c in colors])}, {outlit(out)})")
        meta.append(dict(function="colors.uniq_sort_cpal_colors", stratum=stratum, colors=[show(c) for c in colors],
                         impl_out=out[0] if out[1] is None else [show(c) for c in out[1]]))
        idx = [c.palette_index for c in set(colors)]
        nontrivial = any(i is not None for i in idx) and any(i is None for i in idx)
        report.count(("pal", tuple(sorted(map(repr, set(colors))))), nontrivial)
        report.hist("stratum", stratum)
        report.hist("outcome", out[0])
        report.hist("set_size", len(set(colors)))

    if tier == "thorough":
        # the finite universe named by the property, exhaustively: every set of <= 6 colours
        for k in range(0, 7):
            for comb in itertools.combinations(uni, k):
                add(list(comb), "small_universe_exhaustive")
        report.notes["small_universe_exhaustive"] = True
    else:
        add([], "small_universe_sample")
        for _ in range(700):
            k = rng.randint(1, 6)
            add(rng.sample(uni, k), "small_universe_sample")
    # lists with duplicates and in scrambled order (a set is what matters)
    for _ in range(150 if tier == "quick" else 2000):
        k = rng.randint(1, 6)
        l = rng.sample(uni, k)
        l = l + [rng.choice(l) for _ in range(rng.randint(0, 3))]
        rng.shuffle(l)
        add(l, "duplicates_scrambled")
    # larger random sets: many indices, gaps, varied alpha
    for _ in range(250 if tier == "quick" else 4000):
        n = rng.randint(1, 40)
        maxi = rng.choice([3, 10, 60])
        cols = []
        used = set()
        for _ in range(n):
            i = rng.choice([None, None, rng.randint(0, maxi)])
            if i is not None and i in used and rng.random() < 0.9:
                i = None
            if i is not None:
                used.add(i)
            cols.append(Color(rng.randint(0, 3), rng.randint(0, 2), rng.randint(0, 255), Fr(rng.randint(0, 4), 4), i))
        add(cols, "random_large")
    evaluate_corr(report, IMPORTS, "Corr.C15", "uniq_sort_cpal_colors", "pal_case", cases, meta, "pal_agree", "pal_prop", shard=300)
    report.sample(meta[5])
    report.sample(meta[-1])
    if tier == "thorough":
        report.notes["exhaustive_cases"] = sum(1 for m in meta if m["stratum"] == "small_universe_exhaustive")


def main(argv):
    common.setup_env()
    tier = common.tier_from_args(argv)
    report = Report("C15", tier, common.seed_from_env())
    report.rule = (
        "sets of colours with optional palette indices: the property's small universe (3 RGBA values x indices "
        "{None,0..5}, all sets of <= 6 colours; exhaustive in the thorough tier, sampled in quick), lists with "
        "duplicates in scrambled order, random large sets with gaps and conflicts; non-trivial = at least one indexed "
        "and one unindexed colour; distinct = distinct sets"
    )
    st = proof_gate(report)
    if common.vo_ok("Corr/C15.v"):
        run(report, tier)
    if not st["proof_ok"] and not report.violations:
        report.violation("proof", dict(kind="proof", theorem="Props/C15.v", detail=report.notes.get("proof_failure")), found_input=False)
    report.open_obligations = [
        "font-level half (CPAL + palette indices of built COLRv0/v1 fonts) is exercised by the C01/C03 end-to-end oracles, not here",
        "set-iteration independence (result depends on the set only) is covered by the correspondence on scrambled duplicates, not yet a theorem",
    ]
    return report.finish()
