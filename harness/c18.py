"""C18 -- A variable colour font reproduces each master at its location."""
import copy
import io
import random
from concurrent.futures import ThreadPoolExecutor
from pathlib import Path

from harness import build, common, picture, svggen
from harness.common import Report, proof_gate, report_failure, scratch_dir


def gen_masters(rng, nmasters):
    """structurally identical documents whose coordinates differ per master"""
    kinds = rng.sample(["rect", "triangle", "pentagon", "lshape"], rng.randint(1, 3))
    ndocs = rng.randint(1, 2)
    docs = []  # docs[m][d]
    base = []
    for d in range(ndocs):
        items = []
        for k in kinds[: rng.randint(1, len(kinds))]:
            segs = svggen.base_shape(rng, k, 1.0)
            items.append((k, segs, rng.choice(svggen.COLORS[:6]), (rng.uniform(25, 45), rng.uniform(30, 60), rng.uniform(30, 60))))
        base.append(items)
    for m in range(nmasters):
        md = []
        grow = 1.0 + 0.35 * m  # heavier masters are bigger
        for d in range(ndocs):
            shapes = []
            for k, segs, col, (size, cx, cy) in base[d]:
                t = (size * grow * 0.6, 0, 0, size * grow * 0.6, cx + 3 * m, cy - 2 * m)
                shapes.append(svggen.Shape(svggen.segs_to_d(svggen.apply_affine(t, segs)), svggen.Solid(col), 1.0))
            md.append(svggen.Doc((0, 0, 100, 100), shapes).to_svg())
        docs.append(md)
    return docs


def load(path):
    from fontTools import ttLib

    return ttLib.TTFont(str(path), lazy=False)


def glyph_pictures(font):
    out = {}
    for cp, g in sorted(font.getBestCmap().items()):
        if cp >= 0x1F600:
            pic, probs = picture.colr_picture(font, g)
            out[cp] = (g, pic, probs, font["hmtx"][g][0])
    return out


def clip_box_at(vfont, glyph, user_loc):
    """The clip box of `glyph` in force at a user-space location, evaluated from COLR's own
    variation data (ClipBox format 2 + VarIndexMap + ItemVariationStore)."""
    from fontTools.varLib.models import normalizeLocation, piecewiseLinearMap
    from fontTools.varLib.varStore import VarStoreInstancer

    colr = vfont["COLR"].table
    if colr.ClipList is None or glyph not in colr.ClipList.clips:
        return None
    box = colr.ClipList.clips[glyph]
    vals = [box.xMin, box.yMin, box.xMax, box.yMax]
    if box.Format == 1:
        return tuple(vals)
    axes = {a.axisTag: (a.minValue, a.defaultValue, a.maxValue) for a in vfont["fvar"].axes}
    loc = normalizeLocation(user_loc, axes)
    if "avar" in vfont:
        loc = {k: piecewiseLinearMap(v, vfont["avar"].segments[k]) for k, v in loc.items()}
    inst = VarStoreInstancer(colr.VarStore, vfont["fvar"].axes, loc)
    out = []
    for i, v in enumerate(vals):
        idx = box.VarIndexBase + i
        var_idx = colr.VarIndexMap.mapping[idx] if colr.VarIndexMap is not None else idx
        out.append(v + inst[var_idx])
    return tuple(out)


def run_case(job):
    i, seed, nmasters, default_idx = job[:4]
    variant = job[4] if len(job) > 4 else "weight"
    rng = random.Random(seed)
    if variant == "slant":
        # the default is 0 and is NOT the lowest position
        nmasters, default_idx = 2, 0
        axes, names = [("slnt", "Slant")], ["upright", "slanted"]
        locs = [{"slnt": 0}, {"slnt": -12}]
    elif variant == "two-axes":
        # axes declared in an order that is not the alphabetical order of their tags
        nmasters, default_idx = 3, 0
        axes, names = [("wght", "Weight"), ("wdth", "Width")], ["thin", "black", "wide"]
        locs = [{"wght": 100, "wdth": 100}, {"wght": 900, "wdth": 100}, {"wght": 100, "wdth": 125}]
    else:
        positions = [100, 400, 700, 900][:nmasters] if nmasters > 2 else [400, 700]
        if i % 2 == 0:  # registered width-style values are fractional (62.5, 87.5, 112.5)
            positions = [62.5, 87.5, 100, 112.5][:nmasters] if nmasters > 2 else [87.5, 112.5]
        names = ["thin", "regular", "bold", "black"][:nmasters] if nmasters > 2 else ["regular", "bold"]  # config order is not name order
        axes = [("wght", "Weight")]
        locs = [{"wght": p_} for p_ in positions]
    docs = gen_masters(rng, nmasters)
    upem = rng.choice([1000, 1024])
    eps, slack = 2.5, 2.0
    metrics = None
    if variant == "half-unit-grid":
        # whole-number coordinates in a 128 viewBox at the default metrics land on k.5 font units: static build, master
        # UFOs and the variation data must round them the same way (straight lines only: no curve conversion involved)
        nmasters, default_idx = 3, 1
        axes, names = [("wght", "Weight")], ["light", "regular", "heavy"]
        locs = [{"wght": 100}, {"wght": 400}, {"wght": 900}]
        # x = 8k with k odd gives 75k + 37.5, an even whole part; y = 4j with 950 - 37.5j likewise: round-half-even and
        # round-half-up (otRound) differ exactly there
        docs = []
        for x0, x1, y0, y1, tx in ((40, 72, 52, 84, 88), (24, 88, 36, 100, 104), (8, 104, 20, 116, 120)):
            docs.append(['<svg xmlns="http://www.w3.org/2000/svg" viewBox="0 0 128 128"><path d="M%d,%d L%d,%d L%d,%d L%d,%d Z" fill="#cc0000"/><path d="M%d,%d L%d,%d L%d,%d Z" fill="#0000cc"/></svg>'
                         % (x0, y0, x1, y0, x1, y1, x0, y1, 56, 20, tx, 52, 72, y1)])
        upem, eps, slack = 1024, 0.01, 1.0  # intermediate instances are rounded to whole units by the instancer
        metrics = 'color_format = "glyf_colr_1"\nreuse_tolerance = -1.0\nclipbox_quantization = 1\n'  # everything else at its default
    res = dict(case=i, variant=variant, masters=nmasters, positions=[tuple(l.values()) for l in locs], default=tuple(locs[default_idx].values()), sources=[d[0] for d in docs])

    def axis_toml(default_loc):
        return "".join(f'[axis.{tag}]\nname = "{name}"\ndefault = {default_loc[tag]}\n' for tag, name in axes)

    def master_toml(m):
        return f'[master.{names[m]}]\nstyle_name = "{names[m]}"\nsrcs = ["{names[m]}/*.svg"]\n[master.{names[m]}.position]\n' + "".join(f"{tag} = {locs[m][tag]}\n" for tag, _ in axes)

    with scratch_dir("verif-c18-") as d:
        for m, md in enumerate(docs):
            (d / names[m]).mkdir()
            for k, text in enumerate(md):
                (d / names[m] / f"emoji_u{0x1F600 + k:x}.svg").write_text(text)
        common_opts = f'color_format = "glyf_colr_1"\nupem = {upem}\nascender = {int(upem * 0.8)}\ndescender = {-int(upem * 0.2)}\nwidth = {upem}\nreuse_tolerance = -1.0\n'
        if metrics is not None:
            common_opts = metrics
        vf = common_opts + 'output_file = "VF.ttf"\n' + axis_toml(locs[default_idx]) + "".join(master_toml(m) for m in range(nmasters))
        (d / "vf.toml").write_text(vf)
        rc, out = build.run_cli(["--build_dir", d / "build_vf", d / "vf.toml"], cwd=d)
        res["exit_vf"] = rc
        if rc != 0:
            res["log"] = out[-1500:]
            return res
        vfont_path = d / "build_vf" / "VF.ttf"
        statics, static_clips = [], []
        for m in range(nmasters):
            st = common_opts + f'output_file = "S{m}.ttf"\n' + axis_toml(locs[m]) + master_toml(m)
            (d / f"s{m}.toml").write_text(st)
            rc, out = build.run_cli(["--build_dir", d / f"build_s{m}", d / f"s{m}.toml"], cwd=d)
            if rc != 0:
                res["exit_static"] = rc
                res["log"] = out[-1500:]
                return res
            sf = load(d / f"build_s{m}" / f"S{m}.ttf")
            statics.append(glyph_pictures(sf))
            static_clips.append({g: (b.xMin, b.yMin, b.xMax, b.yMax) for g, b in (sf["COLR"].table.ClipList.clips.items() if sf["COLR"].table.ClipList else [])})
        from fontTools import ttLib
        from fontTools.varLib import instancer

        probs = []
        vfont = load(vfont_path)
        if "fvar" not in vfont:
            probs.append("no fvar table")
            res["problems"] = probs
            return res
        by_tag = {ax.axisTag: ax for ax in vfont["fvar"].axes}
        for tag, _ in axes:
            vals = [l[tag] for l in locs]
            want = (min(vals), locs[default_idx][tag], max(vals))
            ax = by_tag.get(tag)
            if ax is None or (ax.minValue, ax.defaultValue, ax.maxValue) != want:
                probs.append(f"axis {tag} range {(ax.minValue, ax.defaultValue, ax.maxValue) if ax else None} != {want}")
        # the default location, without instancing, is the default master
        for cp, (g, pic, p1, adv) in glyph_pictures(vfont).items():
            sg, spic, p2, sadv = statics[default_idx][cp]
            pp = p1 + p2 + picture.compare_pictures(spic, pic, eps=eps, palette_check=False, use_slack=eps > 1)
            if adv != sadv:
                pp.append(f"advance {adv} != static {sadv}")
            probs += [f"default location (not instanced) vs master {names[default_idx]}, U+{cp:X}: {x}" for x in pp[:2]]
        # every master location reproduces the static build of that master
        for m in range(nmasters):
            if probs:
                break
            try:
                inst = instancer.instantiateVariableFont(load(vfont_path), dict(locs[m]))
            except Exception as ex:
                probs.append(f"master {names[m]} at {locs[m]} cannot be instantiated: {type(ex).__name__}: {ex}")
                break
            buf = io.BytesIO()
            inst.save(buf)
            inst = ttLib.TTFont(io.BytesIO(buf.getvalue()), lazy=False)
            got = glyph_pictures(inst)
            for cp, (g, pic, p1, adv) in got.items():
                sg, spic, p2, sadv = statics[m][cp]
                pp = p1 + p2 + picture.compare_pictures(spic, pic, eps=eps, palette_check=False, use_slack=eps > 1)
                if adv != sadv:
                    pp.append(f"advance {adv} != static {sadv}")
                cb = clip_box_at(vfont, g, dict(locs[m]))
                if cb is not None and tuple(round(v) for v in cb) != static_clips[m].get(sg):
                    pp.append(f"clip box {tuple(round(v) for v in cb)} != static {static_clips[m].get(sg)}")
                probs += [f"master {names[m]} ({locs[m]}), U+{cp:X}: {x}" for x in pp[:2]]
        # intermediate locations along the first axis: the clip box in force contains the interpolated geometry
        tag0 = axes[0][0]
        lo, hi = min(l[tag0] for l in locs), max(l[tag0] for l in locs)
        for t in (0.3, 0.5, 0.8):
            if probs:
                break
            loc = dict(locs[default_idx])
            loc[tag0] = lo + t * (hi - lo)
            inst = instancer.instantiateVariableFont(load(vfont_path), dict(loc))
            buf = io.BytesIO()
            inst.save(buf)
            inst = ttLib.TTFont(io.BytesIO(buf.getvalue()), lazy=False)
            for cp, (g, pic, p1, adv) in glyph_pictures(inst).items():
                pts = [p for it, _ in picture.flatten(pic) for poly in it[1] for p in poly]
                if not pts:
                    continue
                b = clip_box_at(vfont, g, dict(loc))
                if b is None:
                    probs.append(f"{loc}: no clip box for {g}")
                    continue
                x0, y0, x1, y1 = min(p[0] for p in pts), min(p[1] for p in pts), max(p[0] for p in pts), max(p[1] for p in pts)
                if x0 < b[0] - slack or y0 < b[1] - slack or x1 > b[2] + slack or y1 > b[3] + slack:
                    probs.append(f"{loc}: clip box {tuple(round(v, 1) for v in b)} cuts geometry {(round(x0), round(y0), round(x1), round(y1))} of {g}")
        # round 7: the configuration file edited (another advance width) and the command run again in the same build directory:
        # masters and variable font are rebuilt - the result is the font of a fresh directory
        if not probs and variant in ("weight", "two-axes"):
            new_width = upem + 200
            vf2 = vf.replace(f"width = {upem}\n", f"width = {new_width}\n")
            (d / "vf.toml").write_text(vf2)
            rc2, out2 = build.run_cli(["--build_dir", d / "build_vf", d / "vf.toml"], cwd=d)
            rc3, out3 = build.run_cli(["--build_dir", d / "build_fresh", d / "vf.toml"], cwd=d)
            res["rerun"] = dict(width=new_width, exit_rerun=rc2, exit_fresh=rc3)
            if rc2 != 0 or rc3 != 0:
                probs.append(f"re-run after editing the configuration: exit {rc2}, fresh directory: exit {rc3}: " + (out2 if rc2 else out3)[-600:])
            else:
                a, b = load(d / "build_vf" / "VF.ttf"), load(d / "build_fresh" / "VF.ttf")
                for cp, (g, pic, p1, adv) in glyph_pictures(a).items():
                    g2, pic2, p2, adv2 = glyph_pictures(b)[cp]
                    if adv != adv2:
                        probs.append(f"after width = {new_width} and a second run in the same build directory U+{cp:X} has advance {adv}; a fresh directory gives {adv2}")
                    pp = picture.compare_pictures(pic2, pic, eps=0.01, palette_check=False, use_slack=False)
                    probs += [f"second run in the same build directory vs fresh directory, U+{cp:X}: {x}" for x in pp[:2]]
        res["problems"] = probs
        return res


def geometry_at(path, user_loc):
    """bounding box of what each colour glyph of a variable COLRv1 font paints at a user-space location: outlines from the
    instancer (glyf/gvar), transform paints evaluated from COLR's own variation data (PaintVar* + VarIndexMap + store).
    -> (font, {glyph: (xMin, yMin, xMax, yMax)}, whether some variable transform paint was met)"""
    from fontTools.misc.transform import Transform
    from fontTools.pens.boundsPen import BoundsPen
    from fontTools.pens.transformPen import TransformPen
    from fontTools.ttLib.tables import otTables as ot
    from fontTools.varLib import instancer
    from fontTools.varLib.models import normalizeLocation
    from fontTools.varLib.varStore import VarStoreInstancer

    vfont = load(path)
    colr = vfont["COLR"].table
    axes = {a.axisTag: (a.minValue, a.defaultValue, a.maxValue) for a in vfont["fvar"].axes}
    vsi = VarStoreInstancer(colr.VarStore, vfont["fvar"].axes, normalizeLocation(user_loc, axes)) if colr.VarStore else None

    def delta(base, i):
        idx = base + i
        return vsi[colr.VarIndexMap.mapping[idx] if colr.VarIndexMap is not None else idx]

    gs = instancer.instantiateVariableFont(load(path), dict(user_loc)).getGlyphSet()
    F = ot.PaintFormat
    met = [False]

    def walk(p, m, acc):
        if p.Format == F.PaintColrLayers:
            for l in colr.LayerList.Paint[p.FirstLayerIndex : p.FirstLayerIndex + p.NumLayers]:
                walk(l, m, acc)
        elif p.Format == F.PaintGlyph:
            bp = BoundsPen(gs)
            gs[p.Glyph].draw(TransformPen(bp, m))
            if bp.bounds:
                acc.append(bp.bounds)
        elif p.Format in (F.PaintTransform, F.PaintVarTransform):
            t = p.Transform
            v = [t.xx, t.yx, t.xy, t.yy, t.dx, t.dy]
            if p.Format == F.PaintVarTransform:
                met[0] = True
                v = [v[i] + delta(t.VarIndexBase, i) / 65536 for i in range(6)]
            walk(p.Paint, m.transform(tuple(v)), acc)
        elif p.Format in (F.PaintTranslate, F.PaintVarTranslate):
            dx, dy = p.dx, p.dy
            if p.Format == F.PaintVarTranslate:
                met[0] = True
                dx, dy = dx + delta(p.VarIndexBase, 0), dy + delta(p.VarIndexBase, 1)
            walk(p.Paint, m.translate(dx, dy), acc)
        elif p.Format in (F.PaintScale, F.PaintVarScale, F.PaintScaleUniform, F.PaintVarScaleUniform, F.PaintScaleAroundCenter, F.PaintVarScaleAroundCenter, F.PaintScaleUniformAroundCenter, F.PaintVarScaleUniformAroundCenter):
            uni = p.Format in (F.PaintScaleUniform, F.PaintVarScaleUniform, F.PaintScaleUniformAroundCenter, F.PaintVarScaleUniformAroundCenter)
            centred = p.Format in (F.PaintScaleAroundCenter, F.PaintVarScaleAroundCenter, F.PaintScaleUniformAroundCenter, F.PaintVarScaleUniformAroundCenter)
            var = p.Format in (F.PaintVarScale, F.PaintVarScaleUniform, F.PaintVarScaleAroundCenter, F.PaintVarScaleUniformAroundCenter)
            vals = ([p.scale] if uni else [p.scaleX, p.scaleY]) + ([p.centerX, p.centerY] if centred else [])
            if var:
                met[0] = True
                ns = 1 if uni else 2
                vals = [v_ + (delta(p.VarIndexBase, i) / 16384 if i < ns else delta(p.VarIndexBase, i)) for i, v_ in enumerate(vals)]
            sx, sy = (vals[0], vals[0]) if uni else (vals[0], vals[1])
            cx, cy = (vals[-2], vals[-1]) if centred else (0, 0)
            walk(p.Paint, m.translate(cx, cy).scale(sx, sy).translate(-cx, -cy), acc)
        elif p.Format == F.PaintComposite:
            walk(p.SourcePaint, m, acc)
        else:
            raise ValueError(f"paint format {p.Format} not handled")

    out = {}
    for rec in colr.BaseGlyphList.BaseGlyphPaintRecord:
        acc = []
        walk(rec.Paint, Transform(), acc)
        if acc:
            out[rec.BaseGlyph] = (min(b[0] for b in acc), min(b[1] for b in acc), max(b[2] for b in acc), max(b[3] for b in acc))
    return vfont, out, met[0]


def run_reuse_clip(report):
    """the clip-box clause with shape reuse ON (the default tolerance): a shape reused inside one glyph under a scale that
    differs between the masters is placed by a variable transform paint applied to a variable outline, so its extent is
    quadratic in the axis value, while the variable clip box moves linearly between the masters' boxes (F40)"""
    H = '<svg xmlns="http://www.w3.org/2000/svg" viewBox="0 0 100 100">'
    thin = H + '<path d="M10,10 L20,10 L20,20 L10,20 Z" fill="red"/><path d="M40,40 L60,40 L60,60 L40,60 Z" fill="blue"/></svg>'
    bold = H + '<path d="M10,10 L30,10 L30,30 L10,30 Z" fill="red"/><path d="M40,40 L50,40 L50,50 L40,50 Z" fill="blue"/></svg>'
    with scratch_dir("verif-c18rc-") as d:
        for m, t in (("thin", thin), ("bold", bold)):
            (d / m).mkdir()
            (d / m / "emoji_u1f600.svg").write_text(t)
        (d / "vf.toml").write_text('output_file = "VF.ttf"\ncolor_format = "glyf_colr_1"\n[axis.wght]\nname = "Weight"\ndefault = 300\n[master.thin]\nstyle_name = "Thin"\nsrcs = ["thin/*.svg"]\n'
                                   '[master.thin.position]\nwght = 300\n[master.bold]\nstyle_name = "Bold"\nsrcs = ["bold/*.svg"]\n[master.bold.position]\nwght = 700\n')
        rc, out = build.run_cli(["--build_dir", d / "build", d / "vf.toml"], cwd=d)
        case = dict(kind="e2e-cli", what="two masters, default reuse tolerance: the blue square is the red one scaled by 2 in the thin master and by 0.5 in the bold one", sources=dict(thin=thin, bold=bold))
        report.count(("reuse-clip",), True)
        if rc != 0:
            case["log"] = out[-1200:]
            report_failure(report, "reuse_clip_build", case)
            return
        worst = None
        for w in (300, 400, 500, 600, 700):
            vfont, geo, variable_transform = geometry_at(d / "build" / "VF.ttf", {"wght": w})
            for g, bb in geo.items():
                cb = clip_box_at(vfont, g, {"wght": w})
                if cb is None:
                    continue
                cut = max(cb[0] - bb[0], cb[1] - bb[1], bb[2] - cb[2], bb[3] - cb[3])
                if cut > 2.0 and (worst is None or cut > worst[0]):
                    worst = (cut, w, g, tuple(round(v, 1) for v in cb), tuple(round(v, 1) for v in bb), variable_transform)
        report.hist("reuse_clip.outcome", "geometry leaves the clip box" if worst else "contained")
        if worst:
            cut, w, g, cb, bb, vt = worst
            case.update(location=dict(wght=w), glyph=g, clip_box=cb, geometry=bb, outside_by=round(cut, 1))
            # F40's class: an intermediate location, and the glyph is painted through a variable transform paint
            known = vt and w not in (300, 700)
            report_failure(report, "reuse_clip", case, "F40-variable-clipbox-linear-geometry-quadratic" if known else None)


def run_designspace(report, n, rng):
    """the designspace document the real write_variable_font.main builds (the font compiler and the UFO reader
    stubbed out, in a process of its own) against Model.VarModel: axis descriptors and every master's location, on
    generated configurations (1-3 axes declared in random order, 2-4 masters, defaults anywhere in or out of the
    range, fractional positions; and positions on a tag no axis declares)"""
    import json
    import subprocess
    from concurrent.futures import ThreadPoolExecutor
    from fractions import Fraction

    from harness.common import listlit, strlit

    def qlit_(v):
        f = Fraction(v)
        return f"({f.numerator} # {f.denominator})%Q" if f.numerator >= 0 else f"(({f.numerator}) # {f.denominator})%Q"

    TAGS = [("wght", "Weight"), ("wdth", "Width"), ("slnt", "Slant"), ("opsz", "Optical Size"), ("ital", "Italic")]
    plans = []
    for i in range(n):
        axes = rng.sample(TAGS, rng.randint(1, 3))
        nm = rng.randint(2, 4)
        masters = []
        for m in range(nm):
            pos = {t: rng.choice([0, -12, 100, 400, 87.5, 112.5, 900, 62.5, 125.5]) for t, _ in axes}
            masters.append(pos)
        kind = ["plain", "sparse-positions", "default-zero-not-lowest", "unknown-tag", "plain", "sparse-positions"][i % 6]
        defaults = {t: rng.choice([masters[0][t], masters[-1][t], 0, 400]) for t, _ in axes}
        if kind == "sparse-positions":
            # round 7: the default master first, at every axis' default; each later master names only the axis it moves on
            # (the others are left out: it sits at their defaults) - what one master says must not leak into the next
            if len(axes) < 2:
                axes = rng.sample(TAGS, 2)
            defaults = {t: rng.choice([0, 100, 400]) for t, _ in axes}
            masters = [dict(defaults)] + [{axes[m % len(axes)][0]: defaults[axes[m % len(axes)][0]] + rng.choice([50, 300, 12.5])} for m in range(max(2, nm))]
        if kind == "default-zero-not-lowest":
            t0 = axes[0][0]
            masters[0][t0], masters[1][t0], defaults[t0] = 0, -12, 0
        if kind == "unknown-tag":
            masters[-1]["zzzz"] = 5
        plans.append((kind, axes, defaults, masters))

    def work(plan):
        kind, axes, defaults, masters = plan
        with scratch_dir("verif-c18ds-") as d:
            text = 'output_file="VF.ttf"\n' + "".join(f'[axis.{t}]\nname="{nme}"\ndefault={defaults[t]}\n' for t, nme in axes)
            for m, pos in enumerate(masters):
                text += f'[master.m{m}]\nstyle_name="M{m}"\n[master.m{m}.position]\n' + "".join(f"{t}={v}\n" for t, v in pos.items())
            (d / "c.toml").write_text(text)
            p = subprocess.run(["/venv/bin/python", str(Path(__file__).resolve().parent / "vf_probe.py"), "c.toml"], cwd=d, env=build.cli_env(), capture_output=True, text=True, timeout=300)
            lines = [l for l in p.stdout.splitlines() if l.startswith("{")]
            return json.loads(lines[-1]) if lines else dict(ok=False, error="no output: " + p.stderr[-400:])

    with ThreadPoolExecutor(8) as ex:
        outs = list(ex.map(work, plans))
    cases, metas = [], []
    for (kind, axes, defaults, masters), out in zip(plans, outs):
        report.hist("designspace.kind", kind)
        report.hist("designspace.outcome", "document" if out.get("ok") else "stopped: " + out.get("error", "?").split(":")[0])
        report.count(("designspace", kind, str(axes), str(masters), str(defaults)), True)
        al = listlit([f"({strlit(t)}, {strlit(nme)}, {qlit_(defaults[t])})" for t, nme in axes])
        # config.load sorts every master's positions by tag
        ml = listlit([listlit([f"({strlit(t)}, {qlit_(v)})" for t, v in sorted(pos.items())]) for pos in masters])
        if out.get("ok"):
            ods = listlit([f"({strlit(a[0])}, {strlit(a[1])}, {qlit_(a[2])}, {qlit_(a[3])}, {qlit_(a[4])})" for a in out["axes"]])
            ols = listlit([listlit([f"({strlit(k)}, {qlit_(v)})" for k, v in s_[1]]) for s_ in out["sources"]])
            obs = f"(Some ({ods}, {ols}))"
        else:
            obs = "None"
        cases.append(f"({al}, {ml}, {obs})")
        metas.append(dict(kind="corr", function="write_variable_font.main (designspace document)", case_kind=kind, axes=axes, defaults=defaults, masters=masters, observed=out))
    common.evaluate_corr(report, ["Model.VarModel Corr.Common Corr.C18"], "Corr.C18", "designspace", "ds_case", cases, metas, "ds_agree", "ds_prop", shard=40)


def run_negative(report):
    """masters whose source sets differ must not yield a font (C17's master class)"""
    with scratch_dir("verif-c18n-") as d:
        sq = '<svg xmlns="http://www.w3.org/2000/svg" viewBox="0 0 100 100"><path d="M10,10 L40,10 L40,40 L10,40 Z" fill="red"/></svg>'
        (d / "a").mkdir()
        (d / "b").mkdir()
        (d / "a" / "emoji_u1f600.svg").write_text(sq)
        (d / "b" / "emoji_u1f601.svg").write_text(sq)
        (d / "vf.toml").write_text('output_file = "VF.ttf"\n[axis.wght]\nname = "Weight"\ndefault = 400\n[master.a]\nstyle_name = "A"\nsrcs = ["a/*.svg"]\n[master.a.position]\nwght = 400\n[master.b]\nstyle_name = "B"\nsrcs = ["b/*.svg"]\n[master.b.position]\nwght = 700\n')
        rc, out = build.run_cli(["--build_dir", d / "build", d / "vf.toml"], cwd=d)
        report.count(("negative",), True)
        if rc == 0 or (d / "build" / "VF.ttf").exists():
            report_failure(report, "masters_disagree", dict(kind="e2e-cli", exit=rc, problem="masters with different source sets were accepted", log=out[-800:]))


def main(argv):
    common.setup_env()
    tier = common.tier_from_args(argv)
    report = Report("C18", tier, common.seed_from_env(), level="other")
    report.explanation = ("machine-checked theorems cover nanoemoji's own designspace logic and the convexity argument; the property's main content (interpolation by ufo2ft/fontTools) cannot be modelled and is decided by instantiating real CLI builds")
    report.rule = (
        "two- and three-master configurations with structurally identical sources (same shapes and colours, different sizes "
        "and positions), varying default master and metrics, built through the real CLI; the variable font is instantiated "
        "with fontTools.varLib.instancer at every master location and compared (COLR picture, advance) with the static CLI "
        "build of that master; at intermediate locations the clip box must contain the interpolated outlines; a configuration "
        "whose masters disagree on their source sets must fail; model correspondence: the designspace document the real write_variable_font.main builds (compiler and UFO reader stubbed, own process) against Model.VarModel on generated axes/masters"
    )
    st = proof_gate(report)
    rng = random.Random(report.seed)
    n = 2 if tier == "quick" else 24
    jobs = []
    for i in range(n):
        nm = 2 if i % 2 == 0 else 3
        jobs.append((i, rng.randrange(10**9), nm, rng.randrange(nm)))
    jobs.append((n, rng.randrange(10**9), 2, 0, "slant"))
    jobs.append((n + 1, rng.randrange(10**9), 3, 0, "two-axes"))
    jobs.append((n + 2, rng.randrange(10**9), 3, 1, "half-unit-grid"))
    with ThreadPoolExecutor(max_workers=4) as ex:
        results = list(ex.map(run_case, jobs))
    for r in results:
        report.count(("vf", r["masters"], tuple(r["positions"]), r["default"], tuple(r["sources"])), True, r["masters"] + 3)
        report.hist("masters", r["masters"])
        report.hist("variant", r.get("variant", "weight"))
        if r.get("exit_vf", 0) != 0 or r.get("exit_static", 0) != 0:
            report_failure(report, f"build_{r['case']}", dict(kind="e2e-cli", case={k: str(v)[:1500] for k, v in r.items()}, problem="a compatible multi-master configuration failed to build"))
            break
        if r.get("problems"):
            report_failure(report, f"vf_{r['case']}", dict(kind="e2e-cli", case={k: str(v)[:1500] for k, v in r.items()}))
            break
    report.sample({k: str(v)[:400] for k, v in results[0].items()})
    run_negative(report)
    run_reuse_clip(report)
    if common.vo_ok("Corr/C18.v") and not report.violations:
        run_designspace(report, 16 if tier == "quick" else 160, random.Random(rng.getrandbits(48)))
    if not st["proof_ok"] and not report.violations:
        report.violation("proof", dict(kind="proof", theorem="Props/C18.v", detail=report.notes.get("proof_failure")), found_input=False)
    report.open_obligations = [
        "interpolation is ufo2ft.compileVariableTTF / fontTools.varLib (assumed piecewise linear between adjacent masters on an axis): observed through the instancer, not modelled",
        "masters whose reuse decisions differ are avoided by building with reuse disabled; structure mismatches are ufo2ft errors (loud)",
    ]
    return report.finish()
