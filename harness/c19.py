"""C19 -- Congruent copies of a shape are stored once."""
import math
import random

from harness import build, common, e2e, picture, svggen
from harness.common import Report, proof_gate, report_failure

KINDS = ["rect", "triangle", "pentagon", "lshape", "ellipse", "blob"]


def ring(rng, size):
    """outer ellipse + inner reversed ellipse (a ring): two subpaths"""
    outer = svggen.base_shape(rng, "ellipse", size)
    inner = [(s[0],) + tuple((p[0] * 0.5, -p[1] * 0.5) for p in s[1:]) for s in outer]
    return outer, inner


GRID_SHAPES = {
    # outlines on an integer grid whose points are multiples of 5, so that quarter turns, mirrors
    # and the 3-4-5 rotation keep every coordinate exactly representable in 3 decimals
    "rect": [("M", (-30, -20)), ("L", (30, -20)), ("L", (30, 20)), ("L", (-30, 20))],
    "triangle": [("M", (-30, 20)), ("L", (35, 15)), ("L", (-5, -30))],
    "pentagon": [("M", (30, 10)), ("L", (5, 35)), ("L", (-20, 15)), ("L", (-25, -20)), ("L", (15, -30))],
    "lshape": [("M", (-30, -30)), ("L", (30, -30)), ("L", (30, -10)), ("L", (-10, -10)), ("L", (-10, 30)), ("L", (-30, 30))],
    "blob": [("M", (30, 0)), ("C", (30, 15), (20, 25), (0, 25)), ("C", (-20, 25), (-35, 10), (-35, 0)), ("C", (-35, -20), (-15, -30), (0, -30)), ("C", (15, -30), (30, -20), (30, 0))],
    "ellipse": [("M", (40, 0)), ("C", (40, 10), (20, 20), (0, 20)), ("C", (-20, 20), (-40, 10), (-40, 0)), ("C", (-40, -10), (-20, -20), (0, -20)), ("C", (20, -20), (40, -10), (40, 0))],
}


def gen_family_sources(rng, exact_only):
    """A font's worth of sources built from a few base shapes and isometric copies of them.
    Returns (sources, families, kinds) with families[(doc index, item index)] = (base id, isometry kind)."""
    nbases = rng.randint(1, 3)
    kinds = rng.sample(KINDS, nbases)
    if exact_only:
        bases = [GRID_SHAPES[k] for k in kinds]
        vbsize = rng.choice([200, 500, 1000])
    else:
        bases = [svggen.base_shape(rng, k, 1.0) for k in kinds]
        vbsize = rng.choice([24, 64, 128, 1000])
    ndocs = rng.randint(1, 4)
    srcs, fam = [], {}
    for di in range(ndocs):
        items = []
        for ii in range(rng.randint(1, 4)):
            b = rng.randrange(nbases)
            if exact_only:
                kind = rng.choice(["translate", "rot90", "mirror", "pyth345"])
                iso = (0.6, 0.8, -0.8, 0.6, 0, 0) if kind == "pyth345" else svggen.isometry(rng, kind)
                t = tuple(iso[:4]) + (5 * rng.randint(12, (vbsize - 60) // 5), 5 * rng.randint(12, (vbsize - 60) // 5))
            else:
                kind = rng.choice(["translate", "rot90", "mirror", "pyth", "generic", "generic"])
                iso = svggen.isometry(rng, kind)
                size = vbsize * 0.3  # congruent: same size for every copy of a base
                t = tuple(v * size for v in iso[:4]) + (vbsize * rng.uniform(0.3, 0.7), vbsize * rng.uniform(0.3, 0.7))
            segs = svggen.apply_affine(t, bases[b])
            fill = svggen.Solid(rng.choice(svggen.COLORS[:6]))
            items.append(svggen.Shape(svggen.segs_to_d(segs, nd=3), fill, 1.0))
            fam[(di, ii)] = (b, kind)
        doc = svggen.Doc((0, 0, vbsize, vbsize), items)
        cps = (0x1F600 + di,)
        srcs.append((build.filename_for(cps), doc.to_svg(), cps))
    return srcs, fam, kinds


def directed_sets():
    """source sets with a fixed structure that random generation reaches only now and then:
    a glyph that borrows one outline from each of two other glyphs; mirrored and quarter-turned copies"""
    kinds = KINDS[:2]
    bases = [GRID_SHAPES[k] for k in kinds]
    vb = 500
    plans = [
        # (doc, [(base, isometry kind, affine)])
        [[(0, "translate", (1, 0, 0, 1, 100, 100))], [(1, "translate", (1, 0, 0, 1, 150, 120))], [(0, "pyth345", (0.6, 0.8, -0.8, 0.6, 300, 150)), (1, "mirror", (-1, 0, 0, 1, 350, 320))]],
        [[(0, "translate", (1, 0, 0, 1, 100, 100)), (0, "mirror", (1, 0, 0, -1, 250, 400)), (0, "rot90", (0, 1, -1, 0, 400, 150)), (0, "mirror", (-1, 0, 0, 1, 420, 380))]],
    ]
    out = []
    for plan in plans:
        srcs, fam = [], {}
        for di, items in enumerate(plan):
            shapes = []
            for ii, (b, kind, t) in enumerate(items):
                shapes.append(svggen.Shape(svggen.segs_to_d(svggen.apply_affine(t, bases[b]), nd=3), svggen.Solid(svggen.COLORS[(di + ii) % 6]), 1.0))
                fam[(di, ii)] = (b, kind)
            cps = (0x1F600 + di,)
            srcs.append((build.filename_for(cps), svggen.Doc((0, 0, vb, vb), shapes).to_svg(), cps))
        out.append((srcs, fam, kinds))
    return out


def outline_key(font, glyph_name, depth=0):
    """The outline glyph a (possibly composite) glyph ultimately draws."""
    if "glyf" in font:
        g = font["glyf"][glyph_name]
        if g.isComposite() and len(g.components) == 1 and depth < 4:
            return outline_key(font, g.components[0].glyphName, depth + 1)
    return glyph_name


def donors_colr(font, glyph):
    """outline glyph used by each layer, in paint order"""
    from fontTools.ttLib.tables import otTables as ot

    colr = font["COLR"]
    if colr.version == 0:
        return [outline_key(font, l.name) for l in colr.ColorLayers.get(glyph, [])]
    t = colr.table
    base = {r.BaseGlyph: r.Paint for r in t.BaseGlyphList.BaseGlyphPaintRecord}
    layers = t.LayerList.Paint if t.LayerList else []
    out = []

    def walk(p):
        if p.Format == ot.PaintFormat.PaintColrLayers:
            for i in range(p.FirstLayerIndex, p.FirstLayerIndex + p.NumLayers):
                walk(layers[i])
        elif p.Format == ot.PaintFormat.PaintGlyph:
            out.append(outline_key(font, p.Glyph))
        elif hasattr(p, "Paint"):
            walk(p.Paint)
        elif p.Format == ot.PaintFormat.PaintComposite:
            walk(p.SourcePaint)

    if glyph in base:
        walk(base[glyph])
    return out


def donors_otsvg(font, gid):
    """for each painted element of glyph<gid>: the id of the <path> it draws"""
    from lxml import etree

    for d in font["SVG "].docList:
        text, s, e = (d.data, d.startGlyphID, d.endGlyphID) if hasattr(d, "data") else d
        if s <= gid <= e:
            root = etree.fromstring(text.encode() if isinstance(text, str) else text)
            g = [el for el in root.iter(picture.SVGNS + "g") if el.get("id") == f"glyph{gid}"]
            out = []
            for el in g[0]:
                if el.tag == picture.SVGNS + "use":
                    out.append((el.get(picture.XLINK) or "")[1:])
                elif el.tag == picture.SVGNS + "path":
                    out.append(el.get("id") or el.get("d"))
            return out
    return []


def normal_form_split(seen_paths, tol):
    """known finding F14: two paths that picosvg's own affine_between relates by a congruence (so they
    are copies) were given different normal forms by picosvg's normalize (a coordinate of the
    normal form sits on a rounding boundary of its snap-to-multiples-of-tolerance)."""
    from picosvg.svg_reuse import affine_between
    from picosvg.svg_types import SVGPath

    items = list(seen_paths.items())
    for a in range(len(items)):
        for b in range(a + 1, len(items)):
            if items[a][1] == items[b][1]:
                continue
            try:
                aff = affine_between(SVGPath(d=items[a][0]), SVGPath(d=items[b][0]), tol)
            except Exception:
                aff = None
            if aff is not None and abs(abs(aff.a * aff.d - aff.b * aff.c) - 1.0) < 0.02:
                return True
    return False


def otsvg_normal_form_split(srcs, tol):
    from picosvg.svg import SVG
    from picosvg.svg_reuse import normalize
    from picosvg.svg_types import SVGPath

    seen = {}
    for fn, text, cps in srcs:
        for shape in SVG.fromstring(text).topicosvg().shapes():
            d = shape.as_path().d
            seen[d] = normalize(SVGPath(d=d), tol / 10).d
    return normal_form_split(seen, tol)


def run_e2e(report, n, rng):
    formats = ["glyf_colr_1", "glyf_colr_0", "picosvg"]
    directed = [(fmt, d) for d in directed_sets() for fmt in formats]
    for i in range(len(directed) + n):
        if i < len(directed):
            fmt, (srcs, fam, kinds) = directed[i]
            exact, tol = True, 0.1
        else:
            fmt = formats[i % 3]
            exact = rng.random() < 0.6
            srcs, fam, kinds = gen_family_sources(rng, exact)
            tol = rng.choice([0.1, 0.1, 0.2, -1.0])
        over = dict(color_format=fmt, upem=1000, ascender=800, descender=-200, width=1000, reuse_tolerance=tol, keep_glyph_names=True)
        case = dict(kind="e2e", format=fmt, reuse_tolerance=tol, stream="exact isometries" if exact else "incl. generic angles", sources=[s[1] for s in srcs])
        import nanoemoji.glyph_reuse as gr

        seen_paths = {}
        real_norm = gr.normalize

        def norm_rec(path, tolerance):
            r = real_norm(path, tolerance)
            seen_paths[path.d] = r.d
            return r

        gr.normalize = norm_rec
        try:
            font, cfg, picos, _ = build.build_inprocess(over, srcs)
        except Exception as ex:
            case["error"] = f"{type(ex).__name__}: {ex}"
            report_failure(report, f"build_{i}", case)
            return
        finally:
            gr.normalize = real_norm
        donor_of_base, used = {}, []
        bad = None
        for di, (fn, text, cps) in enumerate(srcs):
            g = e2e.glyph_for(font, cps)
            ds = donors_otsvg(font, font.getGlyphID(g)) if fmt == "picosvg" else donors_colr(font, g)
            items = [k for k in sorted(fam) if k[0] == di]
            if len(ds) != len(items):
                bad = f"{fn}: {len(ds)} painted elements for {len(items)} shapes"
                break
            for (d_, ii), donor in zip(items, ds):
                b, kind = fam[(d_, ii)]
                used.append((b, donor, kind))
        if bad is None:
            if tol == -1.0:
                # disabling reuse is the only configuration that stores copies separately
                if len({d for _, d, _ in used}) != len(used):
                    bad = "reuse disabled (-1) but two shapes share an outline"
            else:
                for b, donor, kind in used:
                    if donor_of_base.setdefault(b, donor) != donor:
                        bad = f"congruent copies of base shape {b} ({kinds[b]}, copy placed by {kind}) are drawn from different outlines: {donor_of_base[b]} and {donor}"
                        break
        ncopies = len(used) - len({b for b, _, _ in used})
        report.count(("c19", fmt, tol, tuple(s[1] for s in srcs)), ncopies > 0)
        report.hist("e2e.format", fmt)
        report.hist("e2e.stream", case["stream"])
        report.hist("e2e.copies_per_font", min(ncopies, 8))
        if bad:
            case["problem"] = bad
            fid = "F14-normal-form-rounding" if (fmt != "picosvg" and normal_form_split(seen_paths, tol)) else None
            if fmt == "picosvg":
                fid = "F14-normal-form-rounding" if otsvg_normal_form_split(srcs, tol) else None
            if report_failure(report, f"e2e_{i}", case, fid):
                return
    report.sample(dict(kind="e2e", format=fmt, reuse_tolerance=tol, source=srcs[0][1]))
    # the same through the real command line: "reuse off" by flag and by file stores copies separately, the
    # default shares them
    srcs, fam, kinds = directed_sets()[1]
    base = dict(upem=1000, ascender=800, descender=-200, width=1000, keep_glyph_names=True)
    plans = [("glyf_colr_1", "flag", -1.0, {}), ("picosvg", "file", -1.0, {}), ("glyf_colr_0", "file", 0.1, {}),
             # sharing asked for in a build directory where the same sources were just built without it (and the reverse)
             ("glyf_colr_1", "flag", 0.1, dict(before=(dict(base, color_format="glyf_colr_1", reuse_tolerance=-1.0), None))),
             ("picosvg", "flag", -1.0, dict(before=(dict(base, color_format="picosvg", reuse_tolerance=0.1), None))),
             # ... and next to another configuration over the same files that asks for the opposite
             ("glyf_colr_1", "file", 0.1, dict(companion=(dict(base, color_format="glyf_colr_1", reuse_tolerance=-1.0), None))),
             ("glyf_colr_0", "file", -1.0, dict(companion=(dict(base, color_format="glyf_colr_0", reuse_tolerance=0.1), None)))]
    for fmt, via, tol, extra in plans:
        over = dict(base, color_format=fmt, reuse_tolerance=tol)
        case = dict(kind="e2e", format=fmt, reuse_tolerance=tol, built_by="command line, options by " + via + "".join(", " + k for k in extra), sources=[s_[1] for s_ in srcs])
        try:
            font, cfg, picos, _ = build.build_cli(over, srcs, via, **extra)
        except Exception as ex:
            case["error"] = str(ex)[-1200:]
            report_failure(report, f"cli_build_{fmt}", case)
            return
        g = e2e.glyph_for(font, srcs[0][2])
        ds = donors_otsvg(font, font.getGlyphID(g)) if fmt == "picosvg" else donors_colr(font, g)
        report.count(("c19-cli", fmt, tol, via, tuple(extra)), True)
        report.hist("e2e.format", fmt + " via command line" + "".join(", " + k for k in extra))
        if tol == -1.0 and len(set(ds)) != len(ds):
            case["problem"] = f"reuse disabled (-1) on the command line but shapes share an outline: {ds}"
            report_failure(report, f"cli_{fmt}", case)
            return
        if tol != -1.0 and len(set(ds)) != 1:
            case["problem"] = f"four congruent copies are drawn from {len(set(ds))} outlines: {ds}"
            fid = "F14-normal-form-rounding" if otsvg_normal_form_split(srcs, tol) else None
            if report_failure(report, f"cli_{fmt}", case, fid):
                return


def run_small_and_many(report):
    """exact translated copies of (a) a shape only a few tolerances across and (b) one shape in more than thirty glyphs:
    stored once, in OT-SVG (one <path>, the rest <use>) and in COLRv1 (one outline glyph)"""
    import re

    from harness.c02 import svg_docs

    def poly(pts, dx=0.0, dy=0.0):
        return "M" + " L".join(f"{x + dx:g},{y + dy:g}" for x, y in pts) + " Z"

    quad = [(2.0, 3.0), (6.4, 3.5), (5.9, 7.2), (2.6, 6.6)]          # 4.4 units across in a 24-unit viewBox
    dot = [(3.0, 3.0), (3.8, 3.1), (3.7, 3.8), (3.1, 3.7)]           # 0.8 units across
    face = [(10.0, 10.0), (90.0, 14.0), (96.0, 80.0), (40.0, 110.0), (6.0, 70.0)]
    svg = lambda vb, ds, cols=("#cc0000", "#00aa00", "#0000cc", "#884400", "#444444"): (
        f'<svg xmlns="http://www.w3.org/2000/svg" viewBox="0 0 {vb} {vb}">' + "".join(f'<path d="{d}" fill="{cols[k % len(cols)]}"/>' for k, d in enumerate(ds)) + "</svg>")
    cases = [
        ("quad 4.4 units, viewBox 24, tolerance 0.5", 0.5, [svg(24, [poly(quad, 4 * k, 3 * k) for k in range(5)])], 5),
        ("quad 4.4 units, viewBox 24, tolerance 0.25", 0.25, [svg(24, [poly(quad, 4 * k, 3 * k) for k in range(5)])], 5),
        ("dot 0.8 units, viewBox 24, default tolerance", 0.1, [svg(24, [poly(dot, 5 * k, 4 * k) for k in range(3)])], 3),
        ("one shape in 34 glyphs", 0.1, [svg(128, [poly(face, (k % 5), (k % 7))], cols=("#%02x%02x40" % (40 + 5 * k, 200 - 4 * k),)) for k in range(34)], 34),
    ]
    # round 7: two different shapes, each with an exact copy, where the second shape's FIRST contour is an affine image of
    # the first shape (a frame = a scaled tile outline with a hole): the copies come after both - two stored outlines
    tile = [(10.0, 10.0), (40.0, 12.0), (42.0, 40.0), (8.0, 38.0)]
    frame_outer = [(x * 1.5 + 40, y * 1.5 + 30) for x, y in tile]
    frame_inner = [(70.0, 60.0), (72.0, 80.0), (92.0, 82.0), (90.0, 58.0)]
    frame = lambda dx, dy: poly(frame_outer, dx, dy) + " " + poly(frame_inner, dx, dy)
    cases.append(("tile, frame, tile copy, frame copy (the frame's first contour is a scaled tile)", 0.1, [svg(200, [poly(tile), frame(0, 0), poly(tile, 0, 110), frame(60, 70)])], 4, 2, None))
    # F35 (known): a near-twin of the donor (one vertex moved by 0.2 units: the same normal form, but no affine image
    # within the tolerance) between the donor and its exact copy takes the donor's slot
    penta = [(20.0, 20.0), (80.0, 24.0), (86.0, 60.0), (50.0, 72.0), (18.0, 48.0)]
    twin = [(20.0, 20.0), (80.0, 24.0), (86.0, 60.0), (50.2, 72.0), (18.0, 48.0)]
    cases.append(("donor, near-twin, exact copy of the donor", 0.1, [svg(200, [poly(penta), poly(twin, 30, 40), poly(penta, 10, 50)])], 3, 2, "F35-near-twin-evicts-donor"))
    for case_ in cases:
        name, tol, texts, copies = case_[:4]
        want_outlines, fid = (case_[4], case_[5]) if len(case_) > 4 else (1, None)
        srcs = [(build.filename_for((0x1F600 + k,)), t, (0x1F600 + k,)) for k, t in enumerate(texts)]
        for fmt in ("picosvg", "glyf_colr_1"):
            over = dict(color_format=fmt, upem=1200, ascender=950, descender=-250, width=1200, reuse_tolerance=tol, keep_glyph_names=True)
            case = dict(kind="e2e", format=fmt, reuse_tolerance=tol, what=name, sources=texts[:3])
            try:
                font, cfg, picos, _ = build.build_inprocess(over, srcs)
            except Exception as ex:
                case["error"] = f"{type(ex).__name__}: {ex}"[:800]
                report_failure(report, f"small_many_build_{fmt}", case)
                return
            report.count(("c19-small-many", name, fmt), True)
            report.hist("e2e.stream", "exact translations: " + name.split(",")[0])
            if fmt == "picosvg":
                docs = svg_docs(font)
                paths = sum(len(re.findall(r"<path\b", d_[0])) for d_ in docs)
                uses = sum(len(re.findall(r"<use\b", d_[0])) for d_ in docs)
                if paths != want_outlines:
                    case["problem"] = f"{copies} shapes ({want_outlines} distinct up to translation) are stored as {paths} <path> elements and {uses} <use> elements in {len(docs)} document(s)"
                    if report_failure(report, f"small_many_{fmt}", case, fid):
                        return
            else:
                outlines = set()
                for k in range(len(texts)):
                    outlines |= set(donors_colr(font, e2e.glyph_for(font, (0x1F600 + k,))))
                if len(outlines) != want_outlines:
                    case["problem"] = f"{copies} shapes ({want_outlines} distinct up to translation) are drawn from {len(outlines)} outline glyphs: {sorted(map(str, outlines))[:6]}"
                    if report_failure(report, f"small_many_{fmt}", case, fid):
                        return


def run_normalize(report, n, rng):
    """picosvg's normalize gives the same normal form for exactly representable isometric copies."""
    from picosvg.svg_reuse import normalize
    from picosvg.svg_types import SVGPath

    for i in range(n):
        base = svggen.base_shape(rng, rng.choice(KINDS), 1.0)
        size = rng.choice([30, 300])
        t0 = (size, 0, 0, size, 100, 100)
        iso = svggen.isometry(rng, rng.choice(["translate", "rot90", "mirror", "pyth"]))
        t1 = tuple(v * size for v in iso[:4]) + (rng.randint(0, 500), rng.randint(0, 500))
        a = svggen.segs_to_d(svggen.apply_affine(t0, base), nd=6)
        b = svggen.segs_to_d(svggen.apply_affine(t1, base), nd=6)
        tol = 0.01
        na, nb = normalize(SVGPath(d=a), tol).d, normalize(SVGPath(d=b), tol).d
        report.count(("norm", a, b), iso != (1, 0, 0, 1, 0, 0))
        if na != nb:
            report_failure(report, f"normalize_{i}", dict(kind="property", function="picosvg.svg_reuse.normalize", path=a, copy=b, isometry=list(iso), normal_forms=[na, nb]))
            return


def main(argv):
    common.setup_env()
    tier = common.tier_from_args(argv)
    report = Report("C19", tier, common.seed_from_env())
    report.rule = (
        "fonts of 1-4 sources made of 1-3 structurally different base shapes (polygons, ellipses, blobs) and congruent "
        "copies placed by translations, quarter turns, mirrors, Pythagorean rotations (exact stream) and generic angles "
        "(second stream), viewBox 24..1000, tolerance default or larger, or -1; formats glyf_colr_1, glyf_colr_0, picosvg; "
        "the outline glyph / <path> each layer draws is read from the built font; non-trivial = at least one copy"
    )
    st = proof_gate(report)
    rng = random.Random(report.seed)
    run_normalize(report, 150 if tier == "quick" else 3000, rng)
    if common.vo_ok("Corr/C06.v"):
        # the reuse cache (GlyphReuseCache: who becomes a donor, when a shape is taken from one) is the state machine of
        # Model/Reuse.v; its correspondence lives with C06 and is run here too
        from harness import c06

        c06.run_cache(report, 150 if tier == "quick" else 2500, random.Random(rng.getrandbits(48)))
    run_e2e(report, 30 if tier == "quick" else 900, rng)
    if not report.violations:
        run_small_and_many(report)
    if not st["proof_ok"] and not report.violations:
        report.violation("proof", dict(kind="proof", theorem="Props/C19.v", detail=report.notes.get("proof_failure")), found_input=False)
    report.open_obligations = [
        "that picosvg's affine_between succeeds on isometric copies, and float noise at the rounding boundaries of its normal form, are outside the model: exercised end to end",
    ]
    return report.finish()
