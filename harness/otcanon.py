"""Name-keyed canonical form of OpenType layout (and a few other) tables, driven by the
hand-written schema: coverage-indexed arrays become dicts keyed by glyph name, coverages
become sorted name lists, gid-ordered inner lists become dicts keyed by their key glyph.
Two fonts with equal canonical forms apply the same substitution/positioning to each
named glyph, whatever their glyph order."""
from fontTools.ttLib.tables import otBase, otTables
from fontTools.ttLib.tables.otBase import ValueRecord

from harness.ot_schema import SCHEMA


def _dotted(obj, path):
    for p in path.split("."):
        obj = getattr(obj, p)
    return obj


def canon(obj, seen_types=None):
    if isinstance(obj, otTables.Coverage):
        return ("Coverage", tuple(sorted(obj.glyphs)))
    if isinstance(obj, otTables.ClassDef):
        return ("ClassDef", tuple(sorted(obj.classDefs.items())))
    if isinstance(obj, ValueRecord):
        return ("ValueRecord", tuple(sorted((k, canon(v, seen_types)) for k, v in obj.__dict__.items())))
    if isinstance(obj, otBase.BaseTable):
        tname = type(obj).__name__
        fmt = getattr(obj, "Format", None)
        entry = SCHEMA.get((tname, fmt), {})
        if seen_types is not None:
            seen_types.add((tname, fmt))
        d = {}
        handled = set()
        for cov_attr, par_attr in entry.get("coverages", []):
            cov = getattr(obj, cov_attr)
            handled.add(cov_attr)
            if isinstance(cov, list):
                d[cov_attr] = tuple(tuple(sorted(c.glyphs)) for c in cov)
            elif par_attr:
                par = _dotted(obj, par_attr)
                if len(par) != len(cov.glyphs):
                    d[cov_attr + "||" + par_attr] = ("LENGTH MISMATCH", len(par), len(cov.glyphs))
                else:
                    d[cov_attr + "||" + par_attr] = tuple(sorted((g, canon(p, seen_types)) for g, p in zip(cov.glyphs, par)))
                handled.add(par_attr.split(".")[0])
            else:
                d[cov_attr] = tuple(sorted(cov.glyphs))
        for list_attr, key in entry.get("lists", []):
            lst = getattr(obj, list_attr)
            handled.add(list_attr)
            d[list_attr] = tuple(sorted((getattr(v, key), canon(v, seen_types)) for v in lst))
        for k, v in obj.__dict__.items():
            if k in handled or k.endswith("Count") or k in ("reader", "writer", "sortCoverageLast"):
                continue
            d[k] = canon(v, seen_types)
        return (tname, tuple(sorted(d.items(), key=lambda kv: kv[0])))
    if isinstance(obj, dict):
        return ("dict", tuple(sorted(((k, canon(v, seen_types)) for k, v in obj.items()), key=lambda kv: repr(kv[0]))))
    if isinstance(obj, (list, tuple)):
        return tuple(canon(v, seen_types) for v in obj)
    if isinstance(obj, (int, float, str, bytes, type(None), bool)):
        return obj
    if hasattr(obj, "__dict__"):
        return (type(obj).__name__, tuple(sorted((k, canon(v, seen_types)) for k, v in obj.__dict__.items())))
    return repr(obj)


def layout_canon(font, seen_types=None):
    out = {}
    for tag in ("GSUB", "GPOS", "GDEF"):
        if tag in font:
            out[tag] = canon(font[tag].table, seen_types)
    return out


def coverage_violations(font):
    """Every Coverage in the (reloaded) layout tables lists glyphs in increasing glyph id."""
    bad = []

    def walk(obj, path):
        if isinstance(obj, otTables.Coverage):
            gids = [font.getGlyphID(g) for g in obj.glyphs]
            if any(b <= a for a, b in zip(gids, gids[1:])):
                bad.append((path, obj.glyphs, gids))
        elif isinstance(obj, otBase.BaseTable):
            for k, v in obj.__dict__.items():
                walk(v, f"{path}.{k}")
        elif isinstance(obj, (list, tuple)):
            for i, v in enumerate(obj):
                walk(v, f"{path}[{i}]")

    for tag in ("GSUB", "GPOS", "GDEF"):
        if tag in font:
            walk(font[tag].table, tag)
    return bad


def other_tables_canon(font):
    """cmap, metrics, outlines, colour records keyed by glyph name."""
    out = {}
    out["cmap"] = tuple(sorted(font.getBestCmap().items()))
    out["hmtx"] = tuple(sorted(font["hmtx"].metrics.items()))
    if "glyf" in font:
        glyf = font["glyf"]
        g = {}
        for name in font.getGlyphOrder():
            gl = glyf[name]
            if gl.isComposite():
                g[name] = ("composite", tuple((c.glyphName, c.x, c.y, getattr(c, "transform", None) and tuple(map(tuple, c.transform))) for c in gl.components))
            elif gl.numberOfContours > 0:
                g[name] = ("simple", tuple(map(tuple, gl.coordinates)), tuple(gl.endPtsOfContours))
            else:
                g[name] = ("empty",)
        out["glyf"] = tuple(sorted(g.items()))
    for tag in ("CFF ", "CFF2"):
        if tag in font:
            # charstrings are stored by glyph id; what a name draws is what must survive
            from fontTools.pens.recordingPen import RecordingPen

            gs = font.getGlyphSet()
            g = {}
            for name in font.getGlyphOrder():
                pen = RecordingPen()
                gs[name].draw(pen)
                g[name] = tuple((op, tuple(tuple(p) if p is not None else None for p in args)) for op, args in pen.value)
            out[tag] = tuple(sorted(g.items()))
    if "COLR" in font:
        colr = font["COLR"]
        if colr.version == 0:
            out["COLR"] = tuple(sorted((k, tuple((l.name, l.colorID) for l in v)) for k, v in colr.ColorLayers.items()))
        else:
            t = colr.table
            recs = {}
            layers = t.LayerList.Paint if t.LayerList else []

            def paint(p):
                d = {}
                for k, v in p.__dict__.items():
                    if isinstance(v, otTables.Paint):
                        d[k] = paint(v)
                    elif k == "FirstLayerIndex":
                        d["layers"] = tuple(paint(layers[i]) for i in range(p.FirstLayerIndex, p.FirstLayerIndex + p.NumLayers))
                    elif k == "NumLayers":
                        pass
                    else:
                        d[k] = canon(v)
                return tuple(sorted(d.items()))

            if t.BaseGlyphList:
                for r in t.BaseGlyphList.BaseGlyphPaintRecord:
                    recs[r.BaseGlyph] = paint(r.Paint)
            v0 = ()
            if t.BaseGlyphRecordArray:
                v0 = tuple(sorted((r.BaseGlyph, tuple((t.LayerRecordArray.LayerRecord[i].LayerGlyph, t.LayerRecordArray.LayerRecord[i].PaletteIndex) for i in range(r.FirstLayerIndex, r.FirstLayerIndex + r.NumLayers))) for r in t.BaseGlyphRecordArray.BaseGlyphRecord))
            clips = ()
            if t.ClipList:
                clips = tuple(sorted((k, canon(v)) for k, v in t.ClipList.clips.items()))
            out["COLR"] = (tuple(sorted(recs.items())), v0, clips)
    return out
