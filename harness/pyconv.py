"""Python values of the implementation -> Coq literals of the model (executable instance)."""
import math
from fractions import Fraction

from harness.common import afflit, listlit, optlit, ptlit, qlit, strlit, zlit


def colorlit(c):
    idx = "None" if c.palette_index is None else f"(Some {zlit(c.palette_index)})"
    return f"(C5 {zlit(c.red)} {zlit(c.green)} {zlit(c.blue)} {qlit(c.alpha)} {idx})"


def extendlit(e):
    return {"PAD": "EPad", "REPEAT": "ERepeat", "REFLECT": "EReflect"}[e.name]


def stoplit(s):
    return f"(St {qlit(s.stopOffset)} {colorlit(s.color)})"


def _cs(angle_deg):
    a = math.radians(angle_deg)
    return Fraction(math.cos(a)), Fraction(math.sin(a))


def paintlit(p):
    from nanoemoji import paint as P

    t = type(p).__name__
    if t == "PaintColrLayers":
        return f"(LLayers {listlit([paintlit(x) for x in p.layers])})"
    if t == "PaintSolid":
        return f"(LSolid {colorlit(p.color)})"
    if t == "PaintLinearGradient":
        return f"(LLinear {extendlit(p.extend)} {listlit([stoplit(s) for s in p.stops])} {ptlit(p.p0)} {ptlit(p.p1)} {ptlit(p.p2)})"
    if t == "PaintRadialGradient":
        return f"(LRadial {extendlit(p.extend)} {listlit([stoplit(s) for s in p.stops])} {ptlit(p.c0)} {ptlit(p.c1)} {qlit(p.r0)} {qlit(p.r1)})"
    if t == "PaintGlyph":
        return f"(LGlyph {strlit(p.glyph)} {paintlit(p.paint)})"
    if t == "PaintColrGlyph":
        return f"(LColrGlyph {strlit(p.glyph)})"
    if t == "PaintTransform":
        return f"(LTransform {afflit(p.transform)} {paintlit(p.paint)})"
    if t == "PaintTranslate":
        return f"(LTranslate {qlit(p.dx)} {qlit(p.dy)} {paintlit(p.paint)})"
    if t == "PaintScale":
        return f"(LScale {qlit(p.scaleX)} {qlit(p.scaleY)} {paintlit(p.paint)})"
    if t == "PaintScaleAroundCenter":
        return f"(LScaleC {qlit(p.scaleX)} {qlit(p.scaleY)} {ptlit(p.center)} {paintlit(p.paint)})"
    if t == "PaintScaleUniform":
        return f"(LScaleU {qlit(p.scale)} {paintlit(p.paint)})"
    if t == "PaintScaleUniformAroundCenter":
        return f"(LScaleUC {qlit(p.scale)} {ptlit(p.center)} {paintlit(p.paint)})"
    if t == "PaintRotate":
        c, s = _cs(p.angle)
        return f"(LRotate {qlit(c)} {qlit(s)} {paintlit(p.paint)})"
    if t == "PaintRotateAroundCenter":
        c, s = _cs(p.angle)
        return f"(LRotateC {qlit(c)} {qlit(s)} {ptlit(p.center)} {paintlit(p.paint)})"
    if t == "PaintSkew":
        tx, ty = Fraction(math.tan(-math.radians(p.xSkewAngle))), Fraction(math.tan(math.radians(p.ySkewAngle)))
        return f"(LSkew {qlit(tx)} {qlit(ty)} {paintlit(p.paint)})"
    if t == "PaintSkewAroundCenter":
        tx, ty = Fraction(math.tan(-math.radians(p.xSkewAngle))), Fraction(math.tan(math.radians(p.ySkewAngle)))
        return f"(LSkewC {qlit(tx)} {qlit(ty)} {ptlit(p.center)} {paintlit(p.paint)})"
    if t == "PaintComposite":
        return f"(LComposite {zlit(int(p.mode))} {paintlit(p.source)} {paintlit(p.backdrop)})"
    raise TypeError(f"no model constructor for {t}")


def paint_json(p):
    """A readable rendering for replay files."""
    import dataclasses

    def conv(v):
        if isinstance(v, Fraction):
            return str(v)
        if dataclasses.is_dataclass(v) and not isinstance(v, type):
            d = {"_": type(v).__name__}
            for f in dataclasses.fields(v):
                d[f.name] = conv(getattr(v, f.name))
            return d
        if isinstance(v, (tuple, list)):
            return [conv(x) for x in v]
        if hasattr(v, "name") and hasattr(v, "value"):
            return v.name
        return v

    return conv(p)
