"""A minimal reference shaper over a compiled font: cmap, then GSUB ligature substitution
(lookup type 4, incl. through extension lookups) in lookup order, first matching ligature of
the first glyph's LigatureSet in stored order -- the way OpenType layout engines apply them."""


def ligature_lookups(font):
    if "GSUB" not in font:
        return []
    table = font["GSUB"].table
    out = []
    if table.LookupList is None:
        return out
    for lk in table.LookupList.Lookup:
        for st in lk.SubTable:
            t = st
            if lk.LookupType == 7:
                t = st.ExtSubTable
            if type(t).__name__ == "LigatureSubst":
                out.append(t.ligatures)
    return out


def shape(font, cps):
    cmap = font.getBestCmap()
    glyphs = []
    for c in cps:
        g = cmap.get(c)
        if g is None:
            return None
        glyphs.append(g)
    for ligs in ligature_lookups(font):
        out, i = [], 0
        while i < len(glyphs):
            done = False
            for lig in ligs.get(glyphs[i], []):
                comp = list(lig.Component)
                if glyphs[i + 1 : i + 1 + len(comp)] == comp:
                    out.append(lig.LigGlyph)
                    i += 1 + len(comp)
                    done = True
                    break
            if not done:
                out.append(glyphs[i])
                i += 1
        glyphs = out
    return glyphs
