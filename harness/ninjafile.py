"""Parser for the build.ninja files nanoemoji's driver writes (fail-closed: anything it does
not understand raises)."""
import re
from pathlib import Path


def _unescape(tok):
    return tok.replace("$ ", " ").replace("$:", ":").replace("$$", "$")


def _split(s):
    """split on unescaped spaces"""
    out, cur, i = [], "", 0
    while i < len(s):
        c = s[i]
        if c == "$" and i + 1 < len(s) and s[i + 1] in " :$":
            cur += s[i : i + 2]
            i += 2
            continue
        if c == " ":
            if cur:
                out.append(cur)
            cur = ""
        else:
            cur += c
        i += 1
    if cur:
        out.append(cur)
    return [_unescape(t) for t in out]


def parse(path):
    text = Path(path).read_text()
    text = re.sub(r"\$\n\s*", "", text)  # line continuations
    rules, edges = {}, []
    cur = None
    for line in text.splitlines():
        if not line.strip() or line.startswith("#"):
            continue
        if line.startswith("rule "):
            cur = ("rule", line[5:].strip())
            rules[cur[1]] = {}
        elif line.startswith("build "):
            m = re.match(r"build (.+?): (\S+)(.*)$", line)
            if not m:
                raise ValueError(f"cannot parse build line: {line!r}")
            outs = _split(m.group(1))
            rest = m.group(3)
            if "||" in rest:
                raise ValueError("order-only dependencies are not expected")
            explicit, _, implicit = rest.partition("|")
            e = dict(outs=outs, rule=m.group(2), ins=_split(explicit.strip()), implicit=_split(implicit.strip()), vars={})
            edges.append(e)
            cur = ("build", e)
        elif line.startswith("  ") or line.startswith("\t"):
            k, _, v = line.strip().partition("=")
            if cur is None:
                raise ValueError(f"variable outside a block: {line!r}")
            if cur[0] == "rule":
                rules[cur[1]][k.strip()] = v.strip()
            else:
                cur[1]["vars"][k.strip()] = v.strip()
        elif re.match(r"^\w+\s*=", line):
            pass  # top-level variable
        else:
            raise ValueError(f"cannot parse line: {line!r}")
    for e in edges:
        if e["rule"] != "phony" and e["rule"] not in rules:
            raise ValueError(f"edge uses unknown rule {e['rule']}")
    return rules, edges


def toposort(edges):
    """edges in a topological order (producers first); raises on a cycle or a duplicate output"""
    producer = {}
    for e in edges:
        for o in e["outs"]:
            if o in producer:
                raise ValueError(f"two edges produce {o}")
            producer[o] = e
    order, state = [], {}

    def visit(e):
        k = id(e)
        if state.get(k) == 2:
            return
        if state.get(k) == 1:
            raise ValueError("dependency cycle")
        state[k] = 1
        for i in e["ins"] + e["implicit"]:
            if i in producer:
                visit(producer[i])
        state[k] = 2
        order.append(e)

    for e in edges:
        visit(e)
    return order, producer


def command_id(rules, e):
    """what ninja hashes: the rule's command with variables substituted, plus rspfile content"""
    r = rules.get(e["rule"], {})
    env = dict(e["vars"])
    env["in"] = " ".join(e["ins"])
    env["out"] = " ".join(e["outs"])

    def sub(s):
        return re.sub(r"\$\{?(\w+)\}?", lambda m: env.get(m.group(1), ""), s)

    return sub(r.get("command", "")) + "\n" + sub(r.get("rspfile_content", ""))


def expand(rules, e, key):
    """the rule variable `key` (command, rspfile_content, ...) with $in/$out/edge variables substituted"""
    r = rules.get(e["rule"], {})
    env = dict(e["vars"])
    env["in"] = " ".join(e["ins"])
    env["out"] = " ".join(e["outs"])
    return re.sub(r"\$\{?(\w+)\}?", lambda m: env.get(m.group(1), ""), r.get(key, ""))


def command_text(rules, e):
    """the string ninja hashes into .ninja_log (ninja 1.13 hashes it with rapidhash; the harness
    compares the strings themselves instead of re-implementing the hash)"""
    cmd = expand(rules, e, "command")
    if rules.get(e["rule"], {}).get("rspfile"):
        cmd += ";rspfile=" + expand(rules, e, "rspfile_content")
    return cmd


def read_log(path):
    """.ninja_log -> {output: (recorded mtime, command hash)} (last entry wins)"""
    out = {}
    p = Path(path)
    if not p.is_file():
        return out
    for line in p.read_text().splitlines():
        if line.startswith("#") or not line.strip():
            continue
        f = line.split("\t")
        if len(f) != 5:
            continue  # a torn line
        try:
            out[f[3]] = (int(f[2]), int(f[4], 16))
        except ValueError:
            continue
    return out
