"""C20 -- Every configuration option reaches the font it configures."""
import io
import random
import re
from concurrent.futures import ThreadPoolExecutor
from pathlib import Path

from harness import build, common, picture
from harness.common import Report, proof_gate, report_failure, scratch_dir

SQ = '<svg xmlns="http://www.w3.org/2000/svg" viewBox="0 0 100 100"><path d="M10,10 L40,10 L40,40 L10,40 Z" fill="red"/><path d="M50,50 L80,50 L80,80 L50,80 Z" fill="blue"/></svg>'
# content sticking out of the viewBox on the left (x from -30)
OUT = '<svg xmlns="http://www.w3.org/2000/svg" viewBox="0 0 100 100"><path d="M-30,20 L60,20 L60,60 L-30,60 Z" fill="green"/></svg>'
SOURCES = [("emoji_u1f600.svg", SQ), ("emoji_u1f601.svg", OUT), ("emoji_u1f468_200d_1f469.svg", SQ.replace("red", "#123456"))]

MASTER = '[axis.wght]\nname="Weight"\ndefault=400\n[master.regular]\nstyle_name="Regular"\nsrcs=["src/*.svg"]\n[master.regular.position]\nwght=400\n'
# the same sources as two masters (a variable font): options must reach that font too
MASTERS2 = ('[axis.wght]\nname="Weight"\ndefault=400\n[master.regular]\nstyle_name="Regular"\nsrcs=["src/*.svg"]\n[master.regular.position]\nwght=400\n'
            '[master.bold]\nstyle_name="Bold"\nsrcs=["src2/*.svg"]\n[master.bold.position]\nwght=700\n')


def toml_value(v):
    if isinstance(v, bool):
        return "true" if v else "false"
    if isinstance(v, (int, float)):
        return repr(v)
    return '"' + str(v).replace("\\", "\\\\").replace('"', '\\"') + '"'


def flag_args(k, v):
    if isinstance(v, bool):
        return [f"--{k}" if v else f"--no{k}"]
    return [f"--{k}={v}"]


# ---- observers: font -> observed value of the option ---------------------------------------


def load(path):
    from fontTools import ttLib

    return ttLib.TTFont(str(path), lazy=False)


def obs(field, out_dir, build_dir, cfg):
    """what the written font (and build directory) says about `field`; cfg = effective config"""
    fonts = sorted(p for p in build_dir.iterdir() if p.suffix in (".ttf", ".otf"))
    if field == "output_file":
        f = load(fonts[0])
        return ([p.name for p in fonts], "CFF" if "CFF " in f else ("CFF2" if "CFF2" in f else "glyf"))
    font = load(fonts[0])
    cmap = font.getBestCmap()
    g0 = cmap[0x1F600]
    if field == "family":
        return font["name"].getDebugName(1)
    if field == "version_major":
        return int(font["head"].fontRevision)
    if field == "version_minor":
        return round((font["head"].fontRevision % 1) * 1000)
    if field == "upem":
        return font["head"].unitsPerEm
    if field == "ascender":
        return (font["hhea"].ascent, font["OS/2"].sTypoAscender, bool(font["OS/2"].fsSelection & (1 << 7)))
    if field == "descender":
        return (font["hhea"].descent, font["OS/2"].sTypoDescender)
    if field == "linegap":
        return (font["hhea"].lineGap, font["OS/2"].sTypoLineGap)
    if field == "width":
        return (font["hmtx"][g0][0], font["hmtx"][cmap[0x20]][0])
    if field == "color_format":
        return (sorted(t for t in font.keys() if t in ("COLR", "CPAL", "SVG ", "CBDT", "CBLC", "sbix", "glyf", "CFF ", "CFF2")), fonts[0].suffix, font["COLR"].version if "COLR" in font else None)
    if field == "keep_glyph_names":
        return font["post"].formatType
    if field == "clipbox_quantization":
        clips = font["COLR"].table.ClipList.clips
        b = clips[g0]
        return (b.xMin, b.yMin, b.xMax, b.yMax)
    if field == "bitmap_resolution":
        st = font["CBLC"].strikes[0]
        d = font["CBDT"].strikeData[0][g0]
        return (st.bitmapSizeTable.ppemX, d.metrics.height)
    if field == "fea_file":
        from harness import shaper

        return bool(shaper.ligature_lookups(font))
    if field == "glyphmap_generator":
        return g0
    if field == "transform":
        if "COLR" in font:
            pic, _ = picture.colr_picture(font, g0)
        else:  # OT-SVG: the glyph's group in its document
            from harness.c02 import svg_docs

            gid = font.getGlyphID(g0)
            doc = [d_ for d_ in svg_docs(font) if d_[1] <= gid <= d_[2]][0]
            pic, _ = picture.otsvg_picture(doc[0], gid)
        x0, y0, x1, y1 = picture.polys_bbox([p for it, _ in picture.flatten(pic) for p in it[1]])
        return (round(x0), round(y0), round(x1), round(y1))
    if field == "reuse_tolerance":
        # both squares of SQ are congruent: one outline when reuse is on, two when off
        pic, _ = picture.colr_picture(font, g0)
        return len({it[3] for it, _ in picture.flatten(pic)})
    if field == "clip_to_viewbox":
        g1 = cmap[0x1F601]
        pic, _ = picture.colr_picture(font, g1)
        x0, y0, x1, y1 = picture.polys_bbox([p for it, _ in picture.flatten(pic) for p in it[1]])
        return x0 < -1  # content left of the em origin survives only when not clipped
    if field == "pretty_print":
        d = font["SVG "].docList[0]
        text = d.data if hasattr(d, "data") else d[0]
        return "\n" in text.strip()
    if field in ("use_pngquant", "use_zopflipng", "pngquant_flags"):
        ninja = (build_dir / "build.ninja").read_text()
        if field == "use_pngquant":
            return "build pngquant/" in ninja
        if field == "use_zopflipng":
            return "build zopflipng/" in ninja
        m = re.search(r"pngquant_flags = (.*)", ninja)
        return m.group(1).strip() if m else None
    if field == "ignore_reuse_error":
        return None
    raise KeyError(field)


# field -> (base options needed, [(value, expected observation or predicate)])
def table():
    up, asc, desc = 1000, 800, -200
    colr = {"color_format": "glyf_colr_1"}
    return {
        "family": ({}, [("Fam One", "Fam One"), ("Other Fam", "Other Fam")]),
        "version_major": ({}, [(3, 3), (12, 12)]),
        "version_minor": ({}, [(7, 7), (280, 280)]),
        "upem": ({}, [(2048, 2048), (500, 500)]),
        "ascender": ({}, [(900, (900, 900, True)), (750, (750, 750, True))]),
        "descender": ({}, [(-100, (-100, -100)), (-300, (-300, -300))]),
        "linegap": ({}, [(50, (50, 50)), (123, (123, 123))]),
        "width": ({}, [(1500, (1500, 1500)), (0, (asc - desc, 0))]),
        "color_format": ({}, [("glyf_colr_0", (["COLR", "CPAL", "glyf"], ".ttf", 0)), ("cff2_colr_1", (["COLR", "CPAL", "glyf"], ".ttf", 1)), ("picosvg", (["SVG ", "glyf"], ".ttf", None)), ("glyf", (["glyf"], ".ttf", None))]),
        "output_file": ({"color_format": "cff_colr_1"}, [("Renamed.otf", (["Renamed.otf"], "CFF")), ("Another Name.ttf", (["Another Name.ttf"], "glyf"))]),
        "keep_glyph_names": (colr, [(True, 2.0), (False, 3.0)]),
        "clipbox_quantization": (colr, [(64, lambda b: all(v % 64 == 0 for v in b)), (7, lambda b: all(v % 7 == 0 for v in b))]),
        # not given: the documented default is 2% of upem, rounded (41 at upem 2048, 22 at 1080)
        "clipbox_default_step": (colr, [(2048, lambda b: all(v % 41 == 0 for v in b)), (1080, lambda b: all(v % 22 == 0 for v in b))]),
        "bitmap_resolution": ({"color_format": "cbdt"}, [(32, lambda o: o[1] == 32), (48, lambda o: o[1] == 48)]),
        "fea_file": ({}, None),  # handled specially below
        "transform": (colr, [("translate(100, 0)", lambda b: b[0] == 200), ("translate(0, 50)", lambda b: b[1] == 50 and b[3] == 750)]),
        "reuse_tolerance": (colr, [(-1.0, 2), (0.1, 1)]),
        "clip_to_viewbox": (colr, [(False, True), (True, False)]),
        "pretty_print": ({"color_format": "picosvg"}, [(True, True), (False, False)]),
        "use_pngquant": ({"color_format": "cbdt", "bitmap_resolution": 32}, [(False, False), (True, True)]),
        "use_zopflipng": ({"color_format": "cbdt", "bitmap_resolution": 32}, [(False, False), (True, True)]),
        "pngquant_flags": ({"color_format": "cbdt", "bitmap_resolution": 32}, [("--speed 3", "--speed 3"), ("--quality 50-60", "--quality 50-60")]),
    }


BASE = dict(upem=1000, ascender=800, descender=-200, width=1000, family="Base Fam")


ALIAS = {"clipbox_default_step": ("upem", "clipbox_quantization")}  # pseudo-field -> (option set, observable read)


def run_job(job):
    field, mode, base, v_file, v_flag, expect = job[:6]
    shown = field
    field, observe = ALIAS.get(field, (field, field))
    earlier = job[6] if len(job) > 6 else None  # a value the same build directory was built with just before
    with scratch_dir("verif-c20-") as d:
        sd = d / "src"
        sd.mkdir()
        for fn, text in SOURCES:
            (sd / fn).write_text(text)
        filecfg = dict(BASE)
        filecfg.update(base)
        tail = MASTER
        if filecfg.pop("_two_masters", False):
            tail = MASTERS2
            (d / "src2").mkdir()
            for fn, text in SOURCES:
                (d / "src2" / fn).write_text(text.replace("L40,10 L40,40", "L44,10 L44,44"))
        args = []
        if mode in ("file", "both"):
            filecfg[field] = v_file
        if mode in ("flag", "both"):
            args += flag_args(field, v_flag)
        if earlier is not None:
            first = dict(filecfg)
            first_args = []
            if mode == "file":
                first[field] = earlier
            else:
                first_args = flag_args(field, earlier)
            (d / "cfg.toml").write_text("".join(f"{k} = {toml_value(v)}\n" for k, v in first.items()) + tail)
            rc0, out0 = build.run_cli(["--build_dir", d / "build"] + first_args + [d / "cfg.toml"], cwd=d)
            if rc0 != 0:
                return dict(field=field, mode=mode, earlier_value=earlier, exit=rc0, log=out0[-1000:]), None
        (d / "cfg.toml").write_text("".join(f"{k} = {toml_value(v)}\n" for k, v in filecfg.items()) + tail)
        rc, out = build.run_cli(["--build_dir", d / "build"] + args + [d / "cfg.toml"], cwd=d)
        res = dict(field=shown, mode=mode, file_value=v_file if mode in ("file", "both") else None, flag_value=v_flag if mode in ("flag", "both") else None, exit=rc)
        if earlier is not None:
            res["earlier_value_in_the_same_build_dir"] = earlier
        if rc != 0:
            res["log"] = out[-1000:]
            return res, None
        try:
            res["observed"] = obs(observe, d, d / "build", filecfg)
        except Exception as ex:
            res["observed"] = f"observer failed: {type(ex).__name__}: {ex}"
        return res, expect


def matches(observed, expect):
    if callable(expect):
        try:
            return bool(expect(observed))
        except Exception:
            return False
    if isinstance(expect, (tuple, list)) and isinstance(observed, (tuple, list)):
        return list(observed) == list(expect)
    return observed == expect


def fea_job(mode):
    """a feature file of the user's own: its features must be in the font (F22)"""
    with scratch_dir("verif-c20f-") as d:
        sd = d / "src"
        sd.mkdir()
        for fn, text in SOURCES:
            (sd / fn).write_text(text)
        (d / "my.fea").write_text("languagesystem DFLT dflt;\nfeature ss01 { sub .space by .notdef; } ss01;\n")
        filecfg = dict(BASE)
        args = []
        if mode == "file":
            filecfg["fea_file"] = str(d / "my.fea")
        else:
            args = [f"--fea_file={d / 'my.fea'}"]
        (d / "cfg.toml").write_text("".join(f"{k} = {toml_value(v)}\n" for k, v in filecfg.items()) + MASTER)
        rc, out = build.run_cli(["--build_dir", d / "build"] + args + [d / "cfg.toml"], cwd=d)
        res = dict(field="fea_file", mode=mode, value="my.fea (feature ss01)", exit=rc)
        if rc != 0:
            res["log"] = out[-800:]
            return res
        font = load(sorted(p for p in (d / "build").iterdir() if p.suffix == ".ttf")[0])
        res["features"] = sorted({fr.FeatureTag for fr in font["GSUB"].table.FeatureList.FeatureRecord}) if "GSUB" in font else []
        return res


def defaults_job():
    """no option given anywhere: the documented defaults"""
    with scratch_dir("verif-c20d-") as d:
        sd = d / "src"
        sd.mkdir()
        for fn, text in SOURCES:
            (sd / fn).write_text(text)
        rc, out = build.run_cli(["--build_dir", d / "build"] + [str(sd / fn) for fn, _ in SOURCES], cwd=d)
        if rc != 0:
            return dict(exit=rc, log=out[-800:])
        font = load(d / "build" / "Font.ttf")
        return dict(exit=0, family=font["name"].getDebugName(1), upem=font["head"].unitsPerEm, ascender=font["hhea"].ascent, descender=font["hhea"].descent,
                    tables=sorted(t for t in font.keys() if t in ("COLR", "SVG ", "CBDT", "sbix")), colr_version=font["COLR"].version, post=font["post"].formatType,
                    advance=font["hmtx"][font.getBestCmap()[0x1F600]][0])


def pair_job(job):
    """two configurations in one invocation vs each alone"""
    name, a, b = job
    with scratch_dir("verif-c20p-") as d:
        sd = d / "src"
        sd.mkdir()
        for fn, text in SOURCES[:2]:
            (sd / fn).write_text(text)

        def write(nm, over):
            over = dict(over)
            # "_bare": a configuration file that sets nothing but its output file - every option at its default, whatever
            # the configuration listed before it sets (round 7: defaults shared between the configurations of one invocation)
            c = {} if over.pop("_bare", False) else dict(BASE)
            c.update(over)
            (d / nm).write_text("".join(f"{k} = {toml_value(v)}\n" for k, v in c.items()) + MASTER)

        write("a.toml", dict(a, output_file="A.ttf"))
        write("b.toml", dict(b, output_file="B.ttf"))
        import hashlib

        res = dict(pair=name, a=a, b=b)
        rc, out = build.run_cli(["--build_dir", d / "both", d / "a.toml", d / "b.toml"], cwd=d)
        res["exit_together"] = rc
        if rc != 0:
            res["log"] = out[-800:]
            return res
        for nm in ("a", "b"):
            rc1, out1 = build.run_cli(["--build_dir", d / f"alone_{nm}", d / f"{nm}.toml"], cwd=d)
            if rc1 != 0:
                res["exit_alone_" + nm] = rc1
                return res
            f = f"{nm.upper()}.ttf"
            res[f"same_{nm}"] = hashlib.sha256((d / "both" / f).read_bytes()).hexdigest() == hashlib.sha256((d / f"alone_{nm}" / f).read_bytes()).hexdigest()
        return res


def run_model_corr(report, rng):
    """the real config._pop_flag (absl's FLAGS replaced by a plain object for the call) against Model.Config.pop_flag:
    every combination of flag / file value in {absent, 0, negative, positive, the default itself} for integer fields"""
    import types

    from nanoemoji import config as cfgmod

    from harness.common import zlit

    fields = ["upem", "width", "descender", "linegap", "version_major", "bitmap_resolution"]
    values = [None, 0, -7, 5, 1024]
    real_flags = cfgmod.FLAGS
    cases, metas = [], []
    try:
        for field in fields:
            dflt = getattr(cfgmod._DEFAULT_CONFIG, field)
            for fl in values + [dflt]:
                for fv in values + [dflt]:
                    cfgmod.FLAGS = types.SimpleNamespace(**{field: fl})
                    cfg = {} if fv is None else {field: fv}
                    got = cfgmod._pop_flag(cfg, field)
                    if not isinstance(got, int) or isinstance(got, bool):
                        report_failure(report, f"pop_flag_{field}", dict(kind="property", case=dict(function="config._pop_flag", field=field, flag=fl, file=fv, default=dflt, impl_out=repr(got)),
                                                                        problem="neither the flag, nor the file's value, nor the default came back"))
                        return
                    opt = lambda v: "None" if v is None else f"(Some {zlit(v)})"
                    cases.append(f"({opt(fl)}, {opt(fv)}, {zlit(dflt)}, {zlit(got)})")
                    metas.append(dict(function="config._pop_flag", field=field, flag=fl, file=fv, default=dflt, impl_out=got, consumed_from_file=field not in cfg))
                    report.count(("pop_flag", field, fl, fv), fl is not None or fv is not None)
                    if field in cfg:
                        report_failure(report, f"pop_flag_leaves_{field}", dict(kind="property", case=metas[-1], problem="_pop_flag did not take the value out of the file's table (load() would then refuse the file as having unexpected keys)"))
                        return
    finally:
        cfgmod.FLAGS = real_flags
    common.evaluate_corr(report, ["Model.Config Corr.Common Corr.C20"], "Corr.C20", "pop_flag", "pf_case", cases, metas, "pf_agree", "pf_agree", shard=300)


def main(argv):
    common.setup_env()
    tier = common.tier_from_args(argv)
    report = Report("C20", tier, common.seed_from_env())
    report.rule = (
        "single-option perturbations of a base configuration through the real CLI, each option given by file, by flag, or by "
        "both with different values (the flag must win), its observable read from the written font (name, head, hhea, OS/2, hmtx, "
        "post, table tags, file name, COLR ClipList, CBLC/CBDT strike, SVG text, GSUB, glyph placement) or from build.ninja for "
        "compression options; a build with no options (defaults); pairs of configurations in one invocation vs each alone"
    )
    st = proof_gate(report)
    rng = random.Random(report.seed)
    if common.vo_ok("Corr/C20.v"):
        run_model_corr(report, rng)
    tab = table()
    jobs = []
    fields = [f for f in tab if tab[f][1]]
    for field in fields:
        base, vals = tab[field]
        for mode in ("file", "flag", "both"):
            (v1, e1), (v2, e2) = vals[0], vals[1]
            if mode == "file":
                jobs.append((field, mode, base, v1, None, e1))
            elif mode == "flag":
                jobs.append((field, mode, base, None, v2, e2))
            else:
                jobs.append((field, mode, base, v1, v2, e2))  # flag wins
        if field == "transform":
            # the user transform must reach OT-SVG glyph placement too (a horizontal shift: the vertical case is known finding F6)
            for fmt_ in ("picosvg", "untouchedsvg"):
                jobs.append((field, "file", {"color_format": fmt_}, "translate(100, 0)", None, lambda b: abs(b[0] - 200) <= 1))
                jobs.append((field, "flag", {"color_format": fmt_}, None, "translate(100, 0)", lambda b: abs(b[0] - 200) <= 1))
        if len(vals) > 2:
            for v, e in vals[2:]:
                jobs.append((field, "flag", base, None, v, e))
        if field in ("family", "upem", "width", "linegap", "keep_glyph_names", "clipbox_quantization", "version_major"):
            # the option changed between two runs in one build directory: the second font follows the second value
            (v1, e1), (v2, e2) = vals[0], vals[1]
            jobs.append((field, "flag", base, None, v2, e2, v1))
            jobs.append((field, "file", base, v1, None, e1, v2))
        if field in ("keep_glyph_names", "family", "upem", "version_major"):
            # ... and in a variable font (two masters)
            b2 = dict(base, _two_masters=True, reuse_tolerance=-1.0)
            (v1, e1), (v2, e2) = vals[0], vals[1]
            jobs.append((field, "file", b2, v2, None, e2))
            jobs.append((field, "flag", b2, None, v1, e1))
        if field == "keep_glyph_names":
            # ... and in the charstring flavours (names live in post for CFF2, in the CFF table for CFF)
            for fmt_, exp_off in (("cff2_colr_1", 3.0), ("cff_colr_1", 3.0), ("cff2_colr_0", 3.0)):
                b_ = {"color_format": fmt_, "output_file": "Font.otf"}
                jobs.append((field, "file", b_, False, None, exp_off))
                jobs.append((field, "flag", b_, None, True, 2.0 if fmt_.startswith("cff2") else (lambda o: o in (2.0, 3.0))))
    if tier == "quick":
        # not a random sample: every field by file AND by flag (a falsy value among them where the field has one), one
        # "both" job per three fields, every OT-SVG transform job, some re-runs, the charstring flavours
        rng.shuffle(jobs)
        plain = [j for j in jobs if len(j) == 6 and not j[2].get("_two_masters") and "output_file" not in j[2]]
        pick = []
        for k, field in enumerate(fields):
            fj = [j for j in plain if j[0] == field]
            for mode in ("file", "flag"):
                mj = [j for j in fj if j[1] == mode]
                falsy = [j for j in mj if (j[3] if mode == "file" else j[4]) in (0, False, 0.0)]
                pick += (falsy or mj)[:1]
                if falsy and len(mj) > len(falsy) and k % 2 == 0:
                    pick += [j for j in mj if j not in falsy][:1]
            if k % 3 == 0:
                pick += [j for j in fj if j[1] == "both"][:1]
        pick += [j for j in plain if j[0] == "transform" and j[2].get("color_format") in ("picosvg", "untouchedsvg") and j not in pick]
        reruns = [j for j in jobs if len(j) > 6]
        cffs = [j for j in jobs if j[0] == "keep_glyph_names" and "output_file" in j[2]]
        # names switched off in both CFF2 flavours and in CFF first (that is where post has to change), then the rest
        cffs.sort(key=lambda j: (not (j[1] == "file" and j[3] is False), not j[2]["color_format"].startswith("cff2")))
        vfs = [j for j in jobs if j[2].get("_two_masters")]
        vfs = [j for j in jobs if j[2].get("_two_masters") and j not in pick]
        pick += reruns[:3] + cffs[:3] + [j for j in vfs if j[0] == "keep_glyph_names"][:2] + [j for j in vfs if j[0] != "keep_glyph_names"][:1] + [j for j in vfs if j[0] == "keep_glyph_names"][:2] + [j for j in vfs if j[0] != "keep_glyph_names"][:1]
        jobs = [j for n_, j in enumerate(pick) if j not in pick[:n_]]
    with ThreadPoolExecutor(max_workers=12) as ex:
        results = list(ex.map(run_job, jobs))
    for i, (res, expect) in enumerate(results):
        report.count(("opt", res["field"], res["mode"], str(res.get("file_value")), str(res.get("flag_value"))), True)
        report.hist("field", res["field"])
        report.hist("mode", res["mode"])
        if res["exit"] != 0:
            if report_failure(report, f"option_build_{res['field']}_{res['mode']}", dict(kind="e2e-cli", case=res, problem="the build failed")):
                break
            continue
        if not matches(res["observed"], expect):
            res["expected"] = "predicate" if callable(expect) else expect
            if report_failure(report, f"option_{res['field']}_{res['mode']}", dict(kind="e2e-cli", case={k: str(v) for k, v in res.items()}, problem="the option did not reach its observable")):
                break
    report.sample({k: str(v) for k, v in results[0][0].items()})

    d = defaults_job()
    report.count(("defaults",), True)
    want = dict(exit=0, family="An Emoji Family", upem=1024, ascender=950, descender=-250, tables=["COLR"], colr_version=1, post=3.0, advance=1275)
    if {k: d.get(k) for k in want} != want:
        report_failure(report, "defaults", dict(kind="e2e-cli", observed=d, expected=want, problem="an option that is not given does not leave its observable at the documented default"))

    for mode in ("file", "flag"):
        r = fea_job(mode)
        report.count(("fea_file", mode), True)
        report.hist("field", "fea_file")
        if r["exit"] != 0 or "ss01" not in r.get("features", []):
            report_failure(report, f"option_fea_file_{mode}", dict(kind="e2e-cli", case={k: str(v) for k, v in r.items()}, problem="the user's feature file did not reach GSUB"),
                           "F22-fea-file-ignored" if r["exit"] == 0 else None)

    pairs = [
        ("clip_to_viewbox", {"color_format": "glyf_colr_1", "clip_to_viewbox": True}, {"color_format": "glyf_colr_1", "clip_to_viewbox": False}),
        ("metrics", {"color_format": "glyf_colr_1", "upem": 2048, "ascender": 1600, "descender": -448}, {"color_format": "glyf_colr_1"}),
        ("format", {"color_format": "glyf_colr_0"}, {"color_format": "picosvg"}),
        ("reuse_tolerance", {"color_format": "glyf_colr_1", "reuse_tolerance": -1.0}, {"color_format": "glyf_colr_1", "reuse_tolerance": 0.1}),
        ("bitmap_resolution", {"color_format": "cbdt", "bitmap_resolution": 32}, {"color_format": "cbdt", "bitmap_resolution": 48}),
    ]
    pairs.append(("everything set, then nothing set", {"color_format": "glyf_colr_1", "upem": 2048, "ascender": 1900, "descender": -500, "linegap": 90, "width": 2600, "version_major": 3, "version_minor": 7,
                                                          "keep_glyph_names": True, "clipbox_quantization": 64, "family": "Set Everything"}, {"_bare": True}))
    # (every pair in the quick tier too: seeded changes used to slip through when the quick tier drew three of them)
    with ThreadPoolExecutor(max_workers=6) as ex:
        pres = list(ex.map(pair_job, pairs))
    for r in pres:
        report.count(("pair", r["pair"]), True)
        report.hist("pair", r["pair"])
        bad = r["exit_together"] != 0 or not r.get("same_a", False) or not r.get("same_b", False)
        if bad:
            fid = "F5b-bitmap-keyed-by-name" if r["pair"] == "bitmap_resolution" else None
            report_failure(report, f"pair_{r['pair']}", dict(kind="e2e-cli", case={k: str(v) for k, v in r.items()}, problem="a font built together with another configuration differs from the one built alone"), fid)
    if not st["proof_ok"] and not report.violations:
        report.violation("proof", dict(kind="proof", theorem="Props/C20.v", detail=report.notes.get("proof_failure")), found_input=False)
    report.open_obligations = [
        "ignore_reuse_error has no observable at all (no module reads it); glyphmap_generator is exercised through the default generator only",
        "UFO info -> binary tables is ufo2ft: observed, not modelled",
    ]
    return report.finish()
