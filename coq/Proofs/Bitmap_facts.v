From Coq Require Import List ZArith QArith Qround Qminmax Qabs Bool Lia Lqa.
From Verif Require Import Model.Fixed Model.Bitmap.
Import ListNotations.
Local Open Scope Q_scope.

Lemma inject_Z_minus (x y : Z) : inject_Z (x - y) = inject_Z x - inject_Z y.
Proof. unfold Z.sub, Qminus. rewrite inject_Z_plus, inject_Z_opp. reflexivity. Qed.

Lemma Zabs_le1_Q r v : (Z.abs (r - v) <= 1)%Z ->
  inject_Z v - 1 <= inject_Z r /\ inject_Z r <= inject_Z v + 1.
Proof.
  intros H. assert (A : (v - 1 <= r)%Z) by lia. assert (B : (r <= v + 1)%Z) by lia.
  rewrite Zle_Qle in A, B. rewrite inject_Z_minus in A. rewrite inject_Z_plus in B.
  change (inject_Z 1) with 1 in *. split; assumption.
Qed.

Ltac half := unfold Qdiv in *; change (/ 2) with (1 # 2) in *.

(* ---------- Python round ---------- *)
Lemma py_round_bounds x : inject_Z (py_round x) - (1#2) <= x /\ x <= inject_Z (py_round x) + (1#2).
Proof.
  unfold py_round. pose proof (Qfloor_le x) as H1. pose proof (Qlt_floor x) as H2.
  rewrite inject_Z_plus in H2. change (inject_Z 1) with 1 in H2.
  set (f := Qfloor x) in *. clearbody f.
  destruct (Qcompare (x - inject_Z f) (1#2)) eqn:E.
  - apply Qeq_alt in E. destruct (Z.even f); [|rewrite inject_Z_plus; change (inject_Z 1) with 1]; split; lra.
  - apply Qlt_alt in E. split; lra.
  - apply Qgt_alt in E. rewrite inject_Z_plus; change (inject_Z 1) with 1. split; lra.
Qed.
Lemma py_round_int z : py_round (inject_Z z) = z.
Proof.
  unfold py_round. rewrite Qfloor_Z.
  assert (E : Qcompare (inject_Z z - inject_Z z) (1#2) = Lt) by (apply (proj1 (Qlt_alt _ _)); lra).
  rewrite E. reflexivity.
Qed.

(* ---------- nudge ---------- *)
Lemma nudge_spec lo hi v : (lo <= hi)%Z ->
  let r := nudge lo hi v in
  (Z.abs (r - v) <= 1)%Z /\
  ((lo - 1 <= v <= hi + 1)%Z <-> (lo <= r <= hi)%Z) /\
  ((lo <= v <= hi)%Z -> r = v).
Proof.
  intros Hl. unfold nudge, in_range. cbv zeta.
  repeat (match goal with
          | |- context [Z.leb ?a ?b] => destruct (Z.leb_spec a b)
          | |- context [Z.ltb ?a ?b] => destruct (Z.ltb_spec a b)
          end; cbn [andb]); repeat split; lia.
Qed.

(* ---------- ppem ---------- *)
Theorem ppem_spec c h p : ppem c h = Some p ->
  em c <> 0%Z /\
  Qabs (zq p - zq (b_upem c * h) / zq (em c)) <= 1#2.
Proof.
  unfold ppem. destruct (Z.eqb_spec (em c) 0); [discriminate|]. intros [= <-].
  split; [assumption|]. pose proof (py_round_bounds (zq (b_upem c * h) / zq (em c))) as [H1 H2].
  set (X := zq (b_upem c * h) / zq (em c)) in *. clearbody X.
  apply Qabs_Qle_condition. unfold zq in *. split; lra.
Qed.

(* ---------- representability ---------- *)
Theorem create_in_range xref c w h p m : metrics_create_gen xref c w h p = Some m ->
  (-128 <= m_y_offset m <= 127)%Z /\ (0 <= b_resolution c <= 255)%Z.
Proof.
  unfold metrics_create_gen. destruct (b_upem c =? 0)%Z; [discriminate|].
  destruct (width_in_pixels c w h); [|discriminate].
  destruct (in_range 0 255 (b_resolution c)) eqn:Er; cbn [negb]; [|discriminate].
  match goal with |- context [in_range (-128) 127 ?y] => destruct (in_range (-128) 127 y) eqn:Ey end;
    cbn [negb]; [|discriminate].
  intros [= <-]. cbn [m_y_offset]. unfold in_range in *.
  apply andb_prop in Er, Ey. destruct Er, Ey. lia.
Qed.

(* ---------- vertical placement ---------- *)
(* k = ppem/upem pixels per font unit.  The bitmap's vertical centre (top - res/2, with
   top = BearingY = y_offset) is within 3/4 px of the centre of the em box
   [descender, ascender] scaled to the strike; one more pixel if the offset was nudged. *)
Theorem vertical_centre xref c w h p m :
  metrics_create_gen xref c w h p = Some m -> (0 < b_upem c)%Z ->
  let k := zq p / zq (b_upem c) in
  Qabs ((zq (m_y_offset m) - zq (b_resolution c) / 2)
        - (zq (b_ascender c) * k + zq (b_descender c) * k) / 2) <= (7#4) /\
  Qabs (zq (m_line_height m) - zq (em c) * k) <= 1#2.
Proof.
  unfold metrics_create_gen. destruct (Z.eqb_spec (b_upem c) 0); [discriminate|].
  destruct (width_in_pixels c w h); [|discriminate].
  destruct (in_range 0 255 (b_resolution c)) eqn:Er; cbn [negb]; [|discriminate].
  match goal with |- context [in_range (-128) 127 ?y] => destruct (in_range (-128) 127 y) eqn:Ey end;
    cbn [negb]; [|discriminate].
  intros [= <-] Hu. cbv zeta. cbn [m_y_offset m_line_height]. set (k := zq p / zq (b_upem c)).
  set (lh := py_round (zq ((b_ascender c - b_descender c) * p) / zq (b_upem c))) in *.
  set (la := zq (b_ascender c * p) / zq (b_upem c)) in *.
  set (yraw := py_round (la - (1 # 2) * zq (lh - b_resolution c))) in *.
  pose proof (nudge_spec (-128) 127 yraw ltac:(lia)) as (Hn & _ & _).
  pose proof (py_round_bounds (la - (1 # 2) * zq (lh - b_resolution c))) as Hy. fold yraw in Hy.
  pose proof (py_round_bounds (zq ((b_ascender c - b_descender c) * p) / zq (b_upem c))) as Hl. fold lh in Hl.
  assert (Hupos : 0 < inject_Z (b_upem c)) by (rewrite <- (Zlt_Qlt 0); exact Hu).
  assert (Ela : la == zq (b_ascender c) * k).
  { unfold la, k, zq. rewrite inject_Z_mult. field. lra. }
  assert (Eem : zq ((b_ascender c - b_descender c) * p) / zq (b_upem c) == zq (em c) * k).
  { unfold em, k, zq. rewrite inject_Z_mult. field. lra. }
  assert (Edk : zq (b_descender c) * k == zq (b_ascender c) * k - zq (em c) * k).
  { unfold em, zq. rewrite inject_Z_minus. ring. }
  pose proof (Zabs_le1_Q _ _ Hn) as Hnq.
  unfold zq in *. rewrite !inject_Z_minus in Hy.
  clearbody yraw la lh k.
  set (T := inject_Z ((b_ascender c - b_descender c) * p) / inject_Z (b_upem c)) in *. clearbody T.
  set (AK := inject_Z (b_ascender c) * k) in *. clearbody AK.
  set (DK := inject_Z (b_descender c) * k) in *. clearbody DK.
  set (EK := inject_Z (em c) * k) in *. clearbody EK.
  destruct Hy, Hl, Hnq. half.
  split; apply Qabs_Qle_condition; split; lra.
Qed.

(* edges: top vs ascender*k, bottom vs descender*k, in terms of the size mismatch
   d = res - em*k between the bitmap height and the scaled em *)
Theorem vertical_edges xref c w h p m :
  metrics_create_gen xref c w h p = Some m -> (0 < b_upem c)%Z ->
  let k := zq p / zq (b_upem c) in
  let d := zq (b_resolution c) - zq (em c) * k in
  Qabs (zq (m_y_offset m) - zq (b_ascender c) * k - d / 2) <= (7#4) /\
  Qabs ((zq (m_y_offset m) - zq (b_resolution c)) - zq (b_descender c) * k + d / 2) <= (7#4).
Proof.
  intros H Hu k d. destruct (vertical_centre xref c w h p m H Hu) as [Hc _].
  fold k in Hc. apply Qabs_Qle_condition in Hc.
  assert (Edk : zq (b_descender c) * k == zq (b_ascender c) * k - zq (em c) * k).
  { unfold em, zq. rewrite inject_Z_minus. ring. }
  unfold d. destruct Hc. clearbody k. half.
  set (AK := zq (b_ascender c) * k) in *. clearbody AK.
  set (DK := zq (b_descender c) * k) in *. clearbody DK.
  set (EK := zq (em c) * k) in *. clearbody EK.
  split; apply Qabs_Qle_condition; split; lra.
Qed.

(* ---------- horizontal centring ---------- *)
(* with the image width as reference, the bitmap [x_offset, x_offset + w] is centred in
   the pixel advance to within half a pixel (one and a half if nudged), whenever the
   advance is at least the image width *)
Theorem horizontal_centre c w h p m wpx :
  metrics_create_gen w c w h p = Some m -> width_in_pixels c w h = Some wpx -> (w <= wpx)%Z ->
  Qabs ((zq (m_x_offset m) + zq w / 2) - zq wpx / 2) <= 3#2.
Proof.
  unfold metrics_create_gen. destruct (Z.eqb_spec (b_upem c) 0); [discriminate|].
  intros H Hw Hle. rewrite Hw in H.
  destruct (in_range 0 255 (b_resolution c)); cbn [negb] in H; [|discriminate].
  match type of H with context [in_range (-128) 127 ?y] => destruct (in_range (-128) 127 y) end;
    cbn [negb] in H; [|discriminate].
  injection H as <-. cbn [m_x_offset].
  set (xr := py_round (zq (wpx - w) / 2)) in *.
  pose proof (py_round_bounds (zq (wpx - w) / 2)) as Hx. fold xr in Hx.
  pose proof (nudge_spec (-128) 127 (Z.max xr 0) ltac:(lia)) as (Hn & _ & _).
  pose proof (Zabs_le1_Q _ _ Hn) as Hnq.
  assert (Hge : 0 <= zq (wpx - w)) by (unfold zq; rewrite <- (Zle_Qle 0); lia).
  assert (Hxr : (0 <= xr)%Z).
  { destruct (Z.le_gt_cases 0 xr); [assumption|]. exfalso.
    assert (Hm : (xr <= -1)%Z) by lia. rewrite Zle_Qle in Hm. change (inject_Z (-1)) with (-(1)) in Hm.
    destruct Hx. half. rewrite inject_Z_minus in *. lra. }
  rewrite Z.max_l in * by lia.
  unfold zq in *. rewrite inject_Z_minus in Hx. destruct Hx, Hnq. clearbody xr. half.
  apply Qabs_Qle_condition; split; lra.
Qed.

(* the original code subtracted bitmap_resolution instead: a wide proportional bitmap is
   then pushed right of its advance (finding F8) *)
Lemma horizontal_centre_resolution_refuted :
  exists c w h p m wpx,
    metrics_create_gen (b_resolution c) c w h p = Some m /\ width_in_pixels c w h = Some wpx /\
    (w <= wpx)%Z /\ ~ (Qabs ((zq (m_x_offset m) + zq w / 2) - zq wpx / 2) <= 3#2).
Proof.
  exists (BConfig 1000 800 (-200) 0 128), 200%Z, 128%Z, 128%Z.
  eexists. eexists. split; [vm_compute; reflexivity|]. split; [vm_compute; reflexivity|].
  split; [lia|]. vm_compute. intros H. apply H. reflexivity.
Qed.

(* ---------- pixel advance ---------- *)
Theorem width_in_pixels_spec c w h wpx : width_in_pixels c w h = Some wpx ->
  let wf := Qmax (zq (b_width c)) (zq (w * em c) / zq h) in
  0 < wf /\ Qabs (zq wpx - wf * zq h / zq (em c)) <= 1#2.
Proof.
  unfold width_in_pixels. destruct ((h =? 0)%Z || (em c =? 0)%Z); [discriminate|].
  cbv zeta. set (wf := Qmax _ _).
  destruct (Qle_bool wf 0) eqn:E; [discriminate|]. intros [= <-].
  split.
  - destruct (Qlt_le_dec 0 wf); [assumption|]. apply Qle_bool_iff in q. congruence.
  - pose proof (py_round_bounds (wf * zq h / zq (em c))) as [H1 H2].
    set (X := wf * zq h / zq (em c)) in *. clearbody X.
    apply Qabs_Qle_condition. unfold zq in *. split; lra.
Qed.

(* ---------- CBDT offsets ---------- *)
Fixpoint contiguous (start : Z) (l : list (Z * Z)) : Prop :=
  match l with [] => True | (a, b) :: r => a = start /\ contiguous b r end.
Theorem cbdt_offsets_spec lens : forall off,
  length (cbdt_offsets off lens) = length lens /\
  contiguous off (cbdt_offsets off lens) /\
  Forall2 (fun ab n => (snd ab - fst ab = 9 + n)%Z) (cbdt_offsets off lens) lens.
Proof.
  induction lens as [|n r IH]; intros off; cbn [cbdt_offsets length contiguous].
  - repeat split; constructor.
  - destruct (IH (off + 9 + n)%Z) as (L & C & F). repeat split; auto.
    constructor; [cbn [fst snd]; lia|exact F].
Qed.

(* ---------- runs of consecutive gids ---------- *)
Fixpoint consecutive_from (g : Z) (l : list Z) : Prop :=
  match l with [] => True | x :: r => x = (g + 1)%Z /\ consecutive_from x r end.
Definition is_run (l : list Z) : Prop := match l with [] => False | g :: r => consecutive_from g r end.

Lemma last_nonempty_default (x : Z) l d d' : last (x :: l) d = last (x :: l) d'.
Proof.
  revert x; induction l as [|y l IH]; intros x; [reflexivity|].
  change (last (x :: y :: l) d) with (last (y :: l) d).
  change (last (x :: y :: l) d') with (last (y :: l) d'). apply IH.
Qed.

Lemma take_run_spec l : forall prev a b, take_run prev l = (a, b) ->
  l = a ++ b /\ consecutive_from prev a /\
  (match b with [] => True | x :: _ => x <> (last (prev :: a) prev + 1)%Z end) /\
  (length b <= length l)%nat.
Proof.
  induction l as [|g r IH]; intros prev a b H; simpl in H.
  - injection H as <- <-. simpl. auto.
  - destruct (Z.eqb_spec g (prev + 1)).
    + destruct (take_run g r) as [a' b'] eqn:E. injection H as <- <-.
      destruct (IH g a' b' E) as (H1 & H2 & H3 & H4). subst r.
      cbn [app consecutive_from length]. repeat split; auto.
      all: try (rewrite app_length in *; simpl; lia).
      destruct b' as [|x b'']; auto.
      change (last (prev :: g :: a') prev) with (last (g :: a') prev).
      rewrite (last_nonempty_default g a' prev g). exact H3.
    + injection H as <- <-. simpl. repeat split; auto.
Qed.

Lemma split_runs_spec fuel : forall l, (length l <= fuel)%nat ->
  concat (split_runs fuel l) = l /\ Forall is_run (split_runs fuel l).
Proof.
  induction fuel as [|n IH]; intros l Hl.
  - destruct l; [simpl; auto|simpl in Hl; lia].
  - destruct l as [|g r]; [simpl; auto|]. simpl. destruct (take_run g r) as [a b] eqn:E.
    destruct (take_run_spec r g a b E) as (H1 & H2 & _ & H4).
    destruct (IH b) as [C F]; [simpl in Hl; lia|].
    simpl. rewrite C. split; [rewrite H1; reflexivity|constructor; [exact H2|exact F]].
Qed.

(* every glyph lands in exactly one run (the runs concatenate to the input, in order)
   and each run is a non-empty sequence of consecutive gids *)
Theorem cbdt_runs_spec gids :
  concat (cbdt_runs gids) = gids /\ Forall is_run (cbdt_runs gids).
Proof. apply split_runs_spec. lia. Qed.

(* runs are maximal: the gid that starts the next run is not the successor of the gid
   that ends the previous one *)
Fixpoint runs_maximal (rs : list (list Z)) : Prop :=
  match rs with
  | r1 :: ((r2 :: _) as rest) =>
      (match r2 with [] => True | x :: _ => x <> (last r1 0 + 1)%Z end) /\ runs_maximal rest
  | _ => True
  end.
Lemma split_runs_maximal fuel : forall l, (length l <= fuel)%nat -> runs_maximal (split_runs fuel l).
Proof.
  induction fuel as [|n IH]; intros l Hl; [simpl; auto|].
  destruct l as [|g r]; [simpl; auto|]. cbn [split_runs]. destruct (take_run g r) as [a b] eqn:E.
  destruct (take_run_spec r g a b E) as (H1 & H2 & H3 & H4).
  assert (Hb : (length b <= n)%nat) by (simpl in Hl; lia).
  specialize (IH b Hb).
  destruct n as [|n']; [cbn [split_runs runs_maximal]; auto|].
  destruct b as [|x b']; [cbn [split_runs runs_maximal]; auto|].
  cbn [split_runs runs_maximal] in *. destruct (take_run x b') as [a2 b2] eqn:E2.
  cbn [runs_maximal] in *. split; [|exact IH].
  rewrite (last_nonempty_default g a 0%Z g). exact H3.
Qed.
Theorem cbdt_runs_maximal gids : runs_maximal (cbdt_runs gids).
Proof. apply split_runs_maximal. lia. Qed.
