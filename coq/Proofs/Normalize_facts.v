(* picosvg.svg_reuse.normalize in exact arithmetic, on the path's relative vectors:
   step 1 maps the first significant vector v to (1,0) by the orientation-preserving similarity
   M_v = |v|^-2 [[vx, vy], [-vy, vx]];  step 2 divides every y by the first significant y.
   T1 (C19): the result is the same for a path and any isometric copy of it. *)
From Coq Require Import List ZArith Bool Field Ring.
From Verif Require Import Model.Field Model.Affine Proofs.Affine_facts.
Import ListNotations.
Local Open Scope F_scope.

Section Normalize.
Context {O : fops}.
Hypothesis Fth : field_theory (f0 O) (f1 O) (fadd O) (fmul O) (fsub O) (fopp O) (fdiv O) (finv O) eq.
Add Field FF5 : Fth.
Notation pt := (pt O).

Definition nrm2 (v : pt) : F O := px v * px v + py v * py v.
Definition Mv (v w : pt) : pt :=
  Pt ((px v * px w + py v * py w) / nrm2 v) ((py w * px v - py v * px w) / nrm2 v).
Definition rot (c s : F O) (w : pt) : pt := Pt (c * px w - s * py w) (s * px w + c * py w).
Definition refl (c s : F O) (w : pt) : pt := Pt (c * px w + s * py w) (s * px w - c * py w).
Definition flipy (w : pt) : pt := Pt (px w) (- py w).

Definition zero : pt := Pt 0 0.
(* i: index of the first significant vector, j: index of the first vector with significant y
   after step 1 (both chosen by threshold tests on norms / |y|, which isometries preserve) *)
Definition normalize_exact (ws : list pt) (i j : nat) : list pt :=
  let v := nth i ws zero in
  let ws1 := map (Mv v) ws in
  let yk := py (nth j ws1 zero) in
  map (fun w => Pt (px w) (py w / yk)) ws1.

Lemma nrm2_rot c s v : c * c + s * s = 1 -> nrm2 (rot c s v) = nrm2 v.
Proof.
  intros H. unfold nrm2, rot; simpl.
  transitivity ((c * c + s * s) * (px v * px v + py v * py v)); [ring|rewrite H; ring].
Qed.
Lemma nrm2_refl c s v : c * c + s * s = 1 -> nrm2 (refl c s v) = nrm2 v.
Proof.
  intros H. unfold nrm2, refl; simpl.
  transitivity ((c * c + s * s) * (px v * px v + py v * py v)); [ring|rewrite H; ring].
Qed.

Lemma Mv_rot c s v w : c * c + s * s = 1 -> nrm2 v <> 0 -> Mv (rot c s v) (rot c s w) = Mv v w.
Proof.
  intros H Hv. unfold Mv. rewrite (nrm2_rot c s v H). unfold rot; simpl. f_equal.
  - transitivity ((c * c + s * s) * (px v * px w + py v * py w) / nrm2 v); [field; exact Hv|rewrite H; field; exact Hv].
  - transitivity ((c * c + s * s) * (py w * px v - py v * px w) / nrm2 v); [field; exact Hv|rewrite H; field; exact Hv].
Qed.
Lemma Mv_refl c s v w : c * c + s * s = 1 -> nrm2 v <> 0 -> Mv (refl c s v) (refl c s w) = flipy (Mv v w).
Proof.
  intros H Hv. unfold Mv, flipy. rewrite (nrm2_refl c s v H). unfold refl; simpl. f_equal.
  - transitivity ((c * c + s * s) * (px v * px w + py v * py w) / nrm2 v); [field; exact Hv|rewrite H; field; exact Hv].
  - transitivity (- ((c * c + s * s) * (py w * px v - py v * px w) / nrm2 v)); [field; exact Hv|rewrite H; field; exact Hv].
Qed.

Lemma nth_map_zero (f : pt -> pt) (l : list pt) n : f zero = zero -> nth n (map f l) zero = f (nth n l zero).
Proof. intros H. rewrite <- H at 1. apply map_nth. Qed.

Lemma rot_zero c s : rot c s zero = zero.
Proof. unfold rot, zero; simpl. f_equal; ring. Qed.
Lemma refl_zero c s : refl c s zero = zero.
Proof. unfold refl, zero; simpl. f_equal; ring. Qed.

(* rotations *)
Theorem normalize_rotation_invariant (c s : F O) (ws : list pt) (i j : nat) :
  c * c + s * s = 1 -> nrm2 (nth i ws zero) <> 0 ->
  normalize_exact (map (rot c s) ws) i j = normalize_exact ws i j.
Proof.
  intros H Hv. unfold normalize_exact.
  rewrite (nth_map_zero (rot c s) ws i (rot_zero c s)).
  set (v := nth i ws zero) in *.
  assert (E : map (Mv (rot c s v)) (map (rot c s) ws) = map (Mv v) ws).
  { rewrite map_map. apply map_ext. intros w. apply Mv_rot; assumption. }
  rewrite E. reflexivity.
Qed.

(* reflections: step 1 yields the y-mirror of the original's step 1; step 2 divides it away *)
Theorem normalize_reflection_invariant (c s : F O) (ws : list pt) (i j : nat) :
  c * c + s * s = 1 -> nrm2 (nth i ws zero) <> 0 ->
  py (nth j (map (Mv (nth i ws zero)) ws) zero) <> 0 ->
  normalize_exact (map (refl c s) ws) i j = normalize_exact ws i j.
Proof.
  intros H Hv Hy. unfold normalize_exact.
  rewrite (nth_map_zero (refl c s) ws i (refl_zero c s)).
  set (v := nth i ws zero) in *.
  assert (E : map (Mv (refl c s v)) (map (refl c s) ws) = map flipy (map (Mv v) ws)).
  { rewrite !map_map. apply map_ext. intros w. apply Mv_refl; assumption. }
  rewrite E. set (ws1 := map (Mv v) ws) in *.
  assert (Ef : flipy zero = zero) by (unfold flipy, zero; simpl; f_equal; ring).
  rewrite (nth_map_zero flipy ws1 j Ef). rewrite map_map. apply map_ext. intros w.
  unfold flipy; simpl. f_equal. field. split; [exact Hy|].
  intros E0. apply Hy. transitivity (- - py (nth j ws1 zero)); [ring|rewrite E0; ring].
Qed.
End Normalize.
