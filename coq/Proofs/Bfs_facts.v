(* Paint.breadth_first vs the COLR placement semantics (C03-T1, used by C05). *)
From Coq Require Import List ZArith Bool Field Ring String Permutation Lia.
From Verif Require Import Model.Field Model.Affine Model.Color Model.Paint Model.ColrSem
  Proofs.Affine_facts.
Import ListNotations.

Section Facts.
Context {O : fops}.
Hypothesis Fth : field_theory (f0 O) (f1 O) (fadd O) (fmul O) (fsub O) (fopp O) (fdiv O) (finv O) eq.
Hypothesis Eqb : feqb_ok O.
Notation aff := (aff O).
Notation paint := (paint O).

Definition is_wrap (p : paint) : bool :=
  match p with
  | PTransform _ _ | PTranslate _ _ _ | PScale _ _ _ | PScaleAroundCenter _ _ _ _
  | PScaleUniform _ _ | PScaleUniformAroundCenter _ _ _ | PRotate _ _ _
  | PRotateAroundCenter _ _ _ _ | PSkew _ _ _ | PSkewAroundCenter _ _ _ _ => true
  | _ => false
  end.

(* a nested induction principle for paint *)
Section PaintInd.
Variable Q : paint -> Prop.
Hypothesis HLayers : forall ls, Forall Q ls -> Q (PColrLayers ls).
Hypothesis HSolid : forall c, Q (PSolid c).
Hypothesis HLinear : forall e s a b c, Q (PLinear e s a b c).
Hypothesis HRadial : forall e s a b r0 r1, Q (PRadial e s a b r0 r1).
Hypothesis HGlyph : forall g p, Q p -> Q (PGlyph g p).
Hypothesis HColrGlyph : forall g, Q (PColrGlyph g).
Hypothesis HWrap : forall p q, is_wrap p = true -> children p = [q] -> Q q -> Q p.
Hypothesis HComposite : forall m s b, Q s -> Q b -> Q (PComposite m s b).
Fixpoint paint_ind' (p : paint) : Q p.
Proof.
  destruct p.
  - apply HLayers. induction ls as [|x r IH]; constructor; [apply paint_ind'|exact IH].
  - apply HSolid.
  - apply HLinear.
  - apply HRadial.
  - apply HGlyph. apply paint_ind'.
  - apply HColrGlyph.
  - apply (HWrap _ p); [reflexivity|reflexivity|apply paint_ind'].
  - apply (HWrap _ p); [reflexivity|reflexivity|apply paint_ind'].
  - apply (HWrap _ p); [reflexivity|reflexivity|apply paint_ind'].
  - apply (HWrap _ p); [reflexivity|reflexivity|apply paint_ind'].
  - apply (HWrap _ p); [reflexivity|reflexivity|apply paint_ind'].
  - apply (HWrap _ p); [reflexivity|reflexivity|apply paint_ind'].
  - apply (HWrap _ p); [reflexivity|reflexivity|apply paint_ind'].
  - apply (HWrap _ p); [reflexivity|reflexivity|apply paint_ind'].
  - apply (HWrap _ p); [reflexivity|reflexivity|apply paint_ind'].
  - apply (HWrap _ p); [reflexivity|reflexivity|apply paint_ind'].
  - apply HComposite; apply paint_ind'.
Defined.
End PaintInd.

(* depth-first enumeration of the same contexts breadth_first yields *)
Fixpoint ctxs_fuel (fuel : nat) (p : paint) (t : aff) : list (paint * aff) :=
  match fuel with
  | 0%nat => []
  | S n => (p, t) :: flat_map (fun c => ctxs_fuel n c (compose_ltr [t; gettransform p])) (children p)
  end.

Lemma psize_children (p : paint) : psize p = S (fold_right (fun q n => (psize q + n)%nat) 0%nat (children p)).
Proof. destruct p; simpl; try reflexivity; lia. Qed.

Definition total (fr : list (paint * aff)) : nat := fold_right (fun c n => (psize (fst c) + n)%nat) 0%nat fr.
Lemma total_app a b : total (a ++ b) = (total a + total b)%nat.
Proof. induction a as [|x r IH]; simpl; [reflexivity|]. unfold total in *. simpl. rewrite IH. lia. Qed.
Lemma total_map_children (p : paint) (t : aff) :
  total (map (fun q => (q, t)) (children p)) = fold_right (fun q n => (psize q + n)%nat) 0%nat (children p).
Proof. induction (children p) as [|x r IH]; simpl; [reflexivity|]. unfold total in *. simpl. rewrite IH. reflexivity. Qed.

(* ctxs with enough fuel does not depend on the fuel *)
Lemma ctxs_fuel_enough : forall n (p : paint) (t : aff) m, (psize p <= n)%nat -> (psize p <= m)%nat -> ctxs_fuel n p t = ctxs_fuel m p t.
Proof.
  induction n as [|n IH]; intros p t m Hn Hm.
  - pose proof (psize_children p). lia.
  - destruct m as [|m]; [pose proof (psize_children p); lia|].
    simpl. f_equal. rewrite (psize_children p) in Hn, Hm.
    revert Hn Hm. generalize (compose_ltr [t; gettransform p]) as t'. intros t'.
    induction (children p) as [|c r IHr]; simpl; intros Hn Hm; [reflexivity|].
    f_equal; [apply IH; lia|apply IHr; lia].
Qed.
Definition ctxs (p : paint) (t : aff) : list (paint * aff) := ctxs_fuel (psize p) p t.

Lemma ctxs_unfold (p : paint) (t : aff) :
  ctxs p t = (p, t) :: flat_map (fun c => ctxs c (compose_ltr [t; gettransform p])) (children p).
Proof.
  unfold ctxs. rewrite (psize_children p) at 1. simpl. f_equal.
  assert (H : forall c, In c (children p) -> (psize c <= fold_right (fun q n => (psize q + n)%nat) 0%nat (children p))%nat).
  { induction (children p) as [|x r IH]; simpl; [intros c []|intros c [<-|Hc]; [lia|]]. specialize (IH c Hc). lia. }
  revert H. generalize (fold_right (fun q n => (psize q + n)%nat) 0%nat (children p)) as k.
  intros k. induction (children p) as [|x r IH]; simpl; intros H; [reflexivity|].
  f_equal; [apply ctxs_fuel_enough; [apply H; left; reflexivity|lia]|apply IH; intros c Hc; apply H; right; exact Hc].
Qed.

(* breadth-first and depth-first visit the same contexts *)
Lemma bfs_perm : forall fuel fr, (total fr < fuel)%nat ->
  Permutation (bfs fuel fr) (flat_map (fun c => ctxs (fst c) (snd c)) fr).
Proof.
  induction fuel as [|n IH]; intros fr H; [lia|].
  destruct fr as [|[p t] rest]; [reflexivity|].
  cbn [bfs]. rewrite (IH (rest ++ map (fun q => (q, compose_ltr [t; gettransform p])) (children p))).
  - cbn [flat_map fst snd]. rewrite ctxs_unfold. cbn [app]. constructor.
    rewrite flat_map_app. rewrite Permutation_app_comm. apply Permutation_app_tail.
    rewrite flat_map_concat_map, map_map, <- flat_map_concat_map. reflexivity.
  - rewrite total_app, total_map_children. unfold total in H. cbn [fold_right fst] in H.
    rewrite (psize_children p) in H. unfold total. lia.
Qed.

Theorem breadth_first_perm (p : paint) : Permutation (breadth_first p) (ctxs p aid).
Proof.
  unfold breadth_first. rewrite (bfs_perm (S (psize p)) [(p, aid)]).
  - simpl. rewrite app_nil_r. reflexivity.
  - unfold total. simpl. lia.
Qed.

(* the PaintGlyph contexts: (glyph, accumulated transform, fill) *)
Definition glyph_ctx (c : paint * aff) : list (string * aff * paint) :=
  match fst c with PGlyph g q => [(g, snd c, q)] | _ => [] end.
Definition glyph_ctxs (l : list (paint * aff)) := flat_map glyph_ctx l.

Lemma glyph_ctxs_perm a b : Permutation a b -> Permutation (glyph_ctxs a) (glyph_ctxs b).
Proof. intros H. unfold glyph_ctxs. rewrite H. reflexivity. Qed.

(* with no transform paint below, depth-first contexts and placements agree for any
   accumulated transform *)
Lemma compose_id_r (t : aff) : compose_ltr [t; aid] = t.
Proof. rewrite (compose_ltr_two Fth). apply (matmul_id_l Fth). Qed.
Lemma compose_id_l (t : aff) : compose_ltr [aid; t] = t.
Proof. rewrite (compose_ltr_two Fth). apply (matmul_id_r Fth). Qed.

Lemma gettransform_nonwrap (p : paint) : is_wrap p = false -> gettransform p = aid.
Proof. destruct p; simpl; intros H; try discriminate; reflexivity. Qed.

Lemma no_glyph_ctxs : forall (p : paint) (t : aff), no_glyph p = true -> glyph_ctxs (ctxs p t) = [].
Proof.
  induction p as [ls H|c|e s0 a b c|e s0 a b r0 r1|g p IHp|g|p q H0 H IHp|m p1 p2 IHp1 IHp2] using paint_ind'; intros t Hn; rewrite ctxs_unfold; unfold glyph_ctxs; cbn [flat_map glyph_ctx fst app].
  - cbn [children]. simpl in Hn. generalize (compose_ltr [t; gettransform (PColrLayers ls)]) as t'. intros t'.
    induction ls as [|x r IHr]; [reflexivity|]. inversion H as [|? ? Hx Hr]; subst.
    simpl in Hn. apply andb_prop in Hn. destruct Hn as [Hnx Hnr].
    cbn [flat_map]. rewrite flat_map_app. fold (glyph_ctxs (ctxs x t')). rewrite (Hx t' Hnx). cbn [app].
    apply IHr; assumption.
  - reflexivity.
  - reflexivity.
  - reflexivity.
  - discriminate.
  - reflexivity.
  - rewrite H. cbn [flat_map]. rewrite app_nil_r.
    assert (Hq : no_glyph q = true).
    { destruct p; simpl in H0; try discriminate; simpl in H; inversion H; subst; exact Hn. }
    assert (Hg : glyph_ctx (p, t) = []).
    { unfold glyph_ctx. cbn [fst]. destruct p; try reflexivity. discriminate. }
    rewrite Hg. cbn [app]. apply (IHp _ Hq).
  - cbn [children flat_map]. rewrite app_nil_r, flat_map_app. simpl in Hn. apply andb_prop in Hn. destruct Hn as [H1 H2].
    fold (glyph_ctxs (ctxs p1 (compose_ltr [t; gettransform (PComposite m p1 p2)]))).
    fold (glyph_ctxs (ctxs p2 (compose_ltr [t; gettransform (PComposite m p1 p2)]))).
    rewrite IHp1, IHp2 by assumption. reflexivity.
Qed.

(* with no transform paint below: breadth_first's contexts are the COLR placements, for any
   accumulated transform *)
Lemma ctxs_placements_0 : forall (p : paint) (t : aff),
  transform_depth_le 0 p = true -> simple_fills p = true ->
  Permutation (glyph_ctxs (ctxs p t)) (placements p t).
Proof.
  induction p as [ls H|c|e s0 a b c|e s0 a b r0 r1|g p IHp|g|p q H0 H IHp|m p1 p2 IHp1 IHp2] using paint_ind'; intros t Hd Hs; rewrite ctxs_unfold; unfold glyph_ctxs; cbn [flat_map glyph_ctx fst snd app].
  - cbn [children gettransform placements]. rewrite compose_id_r.
    simpl in Hd, Hs. induction ls as [|x r IHr]; [reflexivity|]. inversion H as [|? ? Hx Hr]; subst.
    simpl in Hd, Hs. apply andb_prop in Hd, Hs. destruct Hd as [Hdx Hdr], Hs as [Hsx Hsr].
    cbn [flat_map]. rewrite flat_map_app. apply Permutation_app; [apply Hx; assumption|apply IHr; assumption].
  - reflexivity.
  - reflexivity.
  - reflexivity.
  - cbn [children gettransform placements flat_map]. rewrite app_nil_r, compose_id_r.
    fold (glyph_ctxs (ctxs p t)). simpl in Hs. rewrite (no_glyph_ctxs p t Hs). reflexivity.
  - reflexivity.
  - (* a transform paint: excluded by transform_depth_le 0 *)
    exfalso. destruct p; simpl in H0; try discriminate; simpl in Hd; discriminate.
  - cbn [children gettransform placements flat_map]. rewrite app_nil_r, compose_id_r, flat_map_app.
    simpl in Hd, Hs. apply andb_prop in Hd, Hs. destruct Hd as [Hd1 Hd2], Hs as [Hs1 Hs2].
    rewrite Permutation_app_comm. apply Permutation_app; [apply IHp2|apply IHp1]; assumption.
Qed.

(* T1: with at most one transform paint above any PaintGlyph -- what
   _migrate_paths_to_ufo_glyphs produces -- the (glyph, transform, fill) triples breadth_first
   yields are exactly the placements of the COLR rendering semantics *)
Lemma ctxs_placements_1 : forall (p : paint),
  transform_depth_le 1 p = true -> simple_fills p = true ->
  Permutation (glyph_ctxs (ctxs p aid)) (placements p aid).
Proof.
  induction p as [ls H|c|e s0 a b c|e s0 a b r0 r1|g p IHp|g|p q H0 H IHp|m p1 p2 IHp1 IHp2] using paint_ind'; intros Hd Hs; rewrite ctxs_unfold; unfold glyph_ctxs; cbn [flat_map glyph_ctx fst snd app].
  - cbn [children gettransform placements]. rewrite compose_id_r.
    simpl in Hd, Hs. induction ls as [|x r IHr]; [reflexivity|]. inversion H as [|? ? Hx Hr]; subst.
    simpl in Hd, Hs. apply andb_prop in Hd, Hs. destruct Hd as [Hdx Hdr], Hs as [Hsx Hsr].
    cbn [flat_map]. rewrite flat_map_app. apply Permutation_app; [apply Hx; assumption|apply IHr; assumption].
  - reflexivity.
  - reflexivity.
  - reflexivity.
  - cbn [children gettransform placements flat_map]. rewrite app_nil_r, compose_id_r.
    fold (glyph_ctxs (ctxs p aid)). simpl in Hs. rewrite (no_glyph_ctxs p aid Hs). reflexivity.
  - reflexivity.
  - (* the one transform paint: below it depth 0; both sides continue with gettransform p *)
    rewrite H. cbn [flat_map]. rewrite app_nil_r, compose_id_l.
    assert (Hg : glyph_ctx (p, aid) = []).
    { unfold glyph_ctx. cbn [fst]. destruct p; try reflexivity. discriminate. }
    rewrite Hg. cbn [app].
    assert (Hpl : placements p aid = placements q (gettransform p) /\
                  transform_depth_le 0 q = true /\ simple_fills q = true).
    { destruct p; simpl in H0; try discriminate; simpl in H; inversion H; subst;
        cbn [placements]; rewrite ?(matmul_id_l Fth); simpl in Hd, Hs; auto. }
    destruct Hpl as (-> & Hd0 & Hs0). apply ctxs_placements_0; assumption.
  - cbn [children gettransform placements flat_map]. rewrite app_nil_r, compose_id_r, flat_map_app.
    simpl in Hd, Hs. apply andb_prop in Hd, Hs. destruct Hd as [Hd1 Hd2], Hs as [Hs1 Hs2].
    rewrite Permutation_app_comm. apply Permutation_app; [apply IHp2|apply IHp1]; assumption.
Qed.

Theorem breadth_first_placements (p : paint) :
  transform_depth_le 1 p = true -> simple_fills p = true ->
  Permutation (glyph_ctxs (breadth_first p)) (placements p aid).
Proof.
  intros Hd Hs. rewrite (glyph_ctxs_perm _ _ (breadth_first_perm p)). apply ctxs_placements_1; assumption.
Qed.

End Facts.
