From Coq Require Import List ZArith Bool Field Ring String.
From Verif Require Import Model.Field Model.Affine Model.Color Model.Paint Proofs.Affine_facts.
Import ListNotations.
Local Open Scope F_scope.

Section Facts.
Context {O : fops}.
Hypothesis Fth : field_theory (f0 O) (f1 O) (fadd O) (fmul O) (fsub O) (fopp O) (fdiv O) (finv O) eq.
Hypothesis Eqb : feqb_ok O.
Add Field FF2 : Fth.
Variable K : consts.
Notation aff := (aff O).
Notation pt := (pt O).
Notation paint := (paint O).

(* the single paint a transform paint wraps *)
Definition unwrap (p : paint) : option paint :=
  match p with
  | PTransform _ q | PTranslate _ _ q | PScale _ _ q | PScaleAroundCenter _ _ _ q
  | PScaleUniform _ q | PScaleUniformAroundCenter _ _ q | PRotate _ _ q
  | PRotateAroundCenter _ _ _ q | PSkew _ _ q | PSkewAroundCenter _ _ _ q => Some q
  | _ => None
  end.

Definition is_uniform_variant (p : paint) : bool :=
  match p with PScaleUniform _ _ | PScaleUniformAroundCenter _ _ _ => true | _ => false end.

Lemma around_scale (c : pt) sx sy :
  around c (Aff sx 0 0 sy 0 0) = Aff sx 0 0 sy (px c - sx * px c) (py c - sy * py c).
Proof.
  unfold around. rewrite !(atranslate_spec Fth Eqb). apply aff_ext; simpl; ring.
Qed.

Lemma sub_neq (x : F O) : x <> 1 -> 1 - x <> 0.
Proof. intros H E. apply H. transitivity (x + (1 - x)); [rewrite E; ring | ring]. Qed.

(* What [transformed t target] denotes: either nothing was added (t is the identity), or
   exactly one transform paint wraps [target], and its gettransform is t -- exactly,
   except that the two *uniform* variants replace sy by sx (the encoder only picks them
   when |sx - sy| <= 1e-9), which moves the y-translation by cy*(sy - sx). *)
Definition uniform_image (t : aff) : aff :=
  let cy := if feqb O (ad t) 1 then 0 else af t / (1 - ad t) in
  Aff (aa t) 0 0 (aa t) (ae t)
      (if feqb O (ae t) 0 && feqb O (af t) 0 then 0 else af t + cy * (ad t - aa t)).

Theorem transformed_sem (t : aff) (target : paint) :
  (t = aid /\ transformed K t target = target) \/
  (t <> aid /\ unwrap (transformed K t target) = Some target /\
   (if is_uniform_variant (transformed K t target)
    then aeq K (aa t) (ad t) = true /\ gettransform (transformed K t target) = uniform_image t
    else gettransform (transformed K t target) = t)).
Proof.
  unfold transformed.
  destruct (aff_eqb t aid) eqn:Eid.
  { left. apply (aff_eqb_true Eqb) in Eid. auto. }
  right. split; [apply (aff_eqb_false Eqb); exact Eid|].
  destruct t as [sx b c sy dx dy]; cbn [aa ab ac ad ae af].
  (* translate *)
  destruct (negb (feqb O dx 0 && feqb O dy 0) && aff_eqb (atranslate aid dx dy) _
            && int16_safe1 K dx && int16_safe1 K dy) eqn:Etr.
  { repeat (apply andb_prop in Etr; destruct Etr as [Etr ?]).
    match goal with H : aff_eqb _ _ = true |- _ => apply (aff_eqb_true Eqb) in H; rename H into Ht end.
    split; [reflexivity|]. cbn [is_uniform_variant gettransform]. exact Ht. }
  clear Etr.
  destruct (negb (feqb O sx 1 && feqb O sy 1) && (feqb O b 0 && feqb O c 0)
            && (f2dot14_safe1 K sx && f2dot14_safe1 K sy)) eqn:Esc;
    [|split; reflexivity].
  apply andb_prop in Esc; destruct Esc as [Esc _].
  apply andb_prop in Esc; destruct Esc as [_ Ebc].
  apply andb_prop in Ebc; destruct Ebc as [Eb Ec].
  apply (feqb_true Eqb) in Eb, Ec; subst b c.
  destruct (feqb O dx 0 && feqb O dy 0) eqn:Ed.
  { apply andb_prop in Ed; destruct Ed as [Edx Edy].
    pose proof Edx as Edx'; pose proof Edy as Edy'.
    apply (feqb_true Eqb) in Edx, Edy; subst dx dy.
    destruct (aeq K sx sy) eqn:Eu; (split; [reflexivity|]); cbn [is_uniform_variant gettransform].
    - split; [reflexivity|]. unfold uniform_image; cbn [aa ab ac ad ae af].
      rewrite (feqb_refl Eqb). cbn [andb]. unfold ascale. apply aff_ext; simpl; ring.
    - unfold ascale. apply aff_ext; simpl; ring. }
  destruct (Bool.eqb (feqb O 1 sx) (feqb O 0 dx) && Bool.eqb (feqb O 1 sy) (feqb O 0 dy)) eqn:Eg;
    [|split; reflexivity].
  apply andb_prop in Eg; destruct Eg as [Egx Egy].
  apply Bool.eqb_prop in Egx, Egy.
  set (cx := if feqb O sx 1 then 0 else dx / (1 - sx)).
  set (cy := if feqb O sy 1 then 0 else dy / (1 - sy)).
  destruct (int16_safe1 K cx && int16_safe1 K cy) eqn:Ei; [|split; reflexivity].
  assert (Hcx : cx - sx * cx = dx).
  { unfold cx. destruct (feqb O sx 1) eqn:E1.
    - apply (feqb_true Eqb) in E1; subst sx. rewrite (feqb_refl Eqb) in Egx.
      symmetry in Egx. apply (feqb_true Eqb) in Egx. rewrite <- Egx. ring.
    - apply (feqb_false Eqb) in E1. field. apply sub_neq; exact E1. }
  assert (Hcy : cy - sy * cy = dy).
  { unfold cy. destruct (feqb O sy 1) eqn:E1.
    - apply (feqb_true Eqb) in E1; subst sy. rewrite (feqb_refl Eqb) in Egy.
      symmetry in Egy. apply (feqb_true Eqb) in Egy. rewrite <- Egy. ring.
    - apply (feqb_false Eqb) in E1. field. apply sub_neq; exact E1. }
  destruct (aeq K sx sy) eqn:Eu; (split; [reflexivity|]); cbn [is_uniform_variant gettransform].
  - split; [reflexivity|]. rewrite around_scale. unfold uniform_image; cbn [aa ab ac ad ae af px py].
    rewrite Ed. fold cy. apply aff_ext; cbn [aa ab ac ad ae af]; try reflexivity.
    + exact Hcx.
    + rewrite <- Hcy. ring.
  - rewrite around_scale. cbn [px py]. apply aff_ext; cbn [aa ab ac ad ae af]; auto.
Qed.

(* Encodability: whatever narrower paint the encoder picks, every numeric field of it
   passed the range predicate of its OpenType field; otherwise the general matrix is
   used (never a wrapped or clamped narrower field). *)
Definition fields_in_range (p : paint) : bool :=
  match p with
  | PTranslate dx dy _ => int16_safe1 K dx && int16_safe1 K dy
  | PScale sx sy _ => f2dot14_safe1 K sx && f2dot14_safe1 K sy
  | PScaleUniform s _ => f2dot14_safe1 K s
  | PScaleAroundCenter sx sy c _ =>
      f2dot14_safe1 K sx && f2dot14_safe1 K sy && int16_safe1 K (px c) && int16_safe1 K (py c)
  | PScaleUniformAroundCenter s c _ => f2dot14_safe1 K s && int16_safe1 K (px c) && int16_safe1 K (py c)
  | PTransform _ _ => true
  | _ => false
  end.

Theorem transformed_encodable (t : aff) (target : paint) :
  t <> aid -> fields_in_range (transformed K t target) = true.
Proof.
  intros Hn. unfold transformed.
  destruct (aff_eqb t aid) eqn:Eid; [apply (aff_eqb_true Eqb) in Eid; contradiction|].
  destruct t as [sx b c sy dx dy]; cbn [aa ab ac ad ae af].
  destruct (negb (feqb O dx 0 && feqb O dy 0) && aff_eqb (atranslate aid dx dy) _
            && int16_safe1 K dx && int16_safe1 K dy) eqn:Etr.
  { apply andb_prop in Etr; destruct Etr as [Etr H2].
    apply andb_prop in Etr; destruct Etr as [Etr H1]. cbn. now rewrite H1, H2. }
  destruct (negb (feqb O sx 1 && feqb O sy 1) && (feqb O b 0 && feqb O c 0)
            && (f2dot14_safe1 K sx && f2dot14_safe1 K sy)) eqn:Esc; [|reflexivity].
  apply andb_prop in Esc; destruct Esc as [_ Es].
  apply andb_prop in Es; destruct Es as [Esx Esy].
  destruct (feqb O dx 0 && feqb O dy 0).
  { destruct (aeq K sx sy); cbn; rewrite ?Esx, ?Esy; reflexivity. }
  destruct (Bool.eqb _ _ && Bool.eqb _ _); [|reflexivity].
  match goal with |- context [int16_safe1 K ?x && int16_safe1 K ?y] =>
    destruct (int16_safe1 K x) eqn:E1; [destruct (int16_safe1 K y) eqn:E2|] end;
    cbn [andb]; try reflexivity.
  destruct (aeq K sx sy); cbn [fields_in_range px py]; rewrite ?Esx, ?Esy, ?E1, ?E2; reflexivity.
Qed.

End Facts.
