(* The glyph-map step of maximum_color pairs every "<gid>.svg" with its "<gid>.png" when the
   SVG files are listed before the bitmaps (as maximum_color lists them). *)
From Coq Require Import List Arith Bool Lia Sorted Permutation.
From Verif Require Import Model.GlyphmapPairs.
Import ListNotations.

(* descending composite order: larger number first; for one number the .svg before the .png *)
Definition cgt (a b : file) : Prop :=
  fst a > fst b \/ (fst a = fst b /\ snd a = KSvg /\ snd b = KPng).
Definition clt (a b : file) : Prop := cgt b a.

Lemma insert_desc_perm x l : Permutation (insert_desc x l) (x :: l).
Proof.
  induction l as [|y r IH]; cbn [insert_desc]; [reflexivity|].
  destruct (Nat.ltb (fst x) (fst y)); [|reflexivity].
  rewrite IH. apply perm_swap.
Qed.

Lemma sorted_desc_perm l : Permutation (sorted_desc l) l.
Proof.
  induction l as [|x r IH]; cbn [sorted_desc fold_right]; [reflexivity|].
  fold (sorted_desc r). rewrite insert_desc_perm. now constructor.
Qed.

Lemma cgt_trans a b c : cgt a b -> cgt b c -> cgt a c.
Proof. unfold cgt. intros [H|[H1 [H2 H3]]] [K|[K1 [K2 K3]]]; try (left; lia). congruence. Qed.

(* inserting x keeps the list sorted when every element with x's number is a .png and x is a .svg,
   or no element has x's number *)
Lemma insert_desc_sorted x l :
  StronglySorted cgt l ->
  (forall y, In y l -> fst y = fst x -> snd x = KSvg /\ snd y = KPng) ->
  StronglySorted cgt (insert_desc x l).
Proof.
  induction l as [|y r IH]; intros Hs Hx; cbn [insert_desc]; [repeat constructor|].
  apply StronglySorted_inv in Hs. destruct Hs as [Hr Hy].
  destruct (Nat.ltb (fst x) (fst y)) eqn:E.
  - apply Nat.ltb_lt in E. constructor.
    + apply IH; [exact Hr|]. intros z Hz. apply Hx. now right.
    + rewrite Forall_forall. intros z Hz.
      apply (Permutation_in _ (insert_desc_perm x r)) in Hz. destruct Hz as [<-|Hz].
      * left. lia.
      * rewrite Forall_forall in Hy. now apply Hy.
  - apply Nat.ltb_ge in E. constructor; [now constructor|].
    rewrite Forall_forall. intros z [<-|Hz].
    + destruct (Nat.eq_dec (fst y) (fst x)) as [Q|Q].
      * right. destruct (Hx y (or_introl eq_refl) Q). repeat split; congruence.
      * left. lia.
    + rewrite Forall_forall in Hy. specialize (Hy z Hz).
      destruct (Nat.eq_dec (fst z) (fst x)) as [Q|Q].
      * right. destruct (Hx z (or_intror Hz) Q). repeat split; congruence.
      * left. destruct Hy as [Hy|[Hy _]]; lia.
Qed.

Definition svg_files (ks : list nat) : list file := map (fun k => (k, KSvg)) ks.
Definition png_files (ks : list nat) : list file := map (fun k => (k, KPng)) ks.

Lemma in_png_files y ks : In y (png_files ks) <-> snd y = KPng /\ In (fst y) ks.
Proof.
  unfold png_files. rewrite in_map_iff. split.
  - intros [k [<- Hk]]. now split.
  - intros [H1 H2]. exists (fst y). split; [|exact H2]. destruct y; cbn in *; congruence.
Qed.
Lemma in_svg_files y ks : In y (svg_files ks) <-> snd y = KSvg /\ In (fst y) ks.
Proof.
  unfold svg_files. rewrite in_map_iff. split.
  - intros [k [<- Hk]]. now split.
  - intros [H1 H2]. exists (fst y). split; [|exact H2]. destruct y; cbn in *; congruence.
Qed.

Lemma sorted_pngs ks : NoDup ks -> StronglySorted cgt (sorted_desc (png_files ks)).
Proof.
  induction 1 as [|k r Hk Hr IH]; cbn; [constructor|].
  fold (png_files r). fold (sorted_desc (png_files r)).
  apply insert_desc_sorted; [exact IH|].
  intros y Hy Q. apply (Permutation_in _ (sorted_desc_perm _)) in Hy.
  apply in_png_files in Hy. cbn in Q. destruct Hy as [_ Hy]. rewrite Q in Hy. contradiction.
Qed.

Lemma sorted_desc_app a b : sorted_desc (a ++ b) = fold_right insert_desc (sorted_desc b) a.
Proof. unfold sorted_desc. apply fold_right_app. Qed.

Lemma sorted_files svgs pngs :
  NoDup svgs -> NoDup pngs ->
  StronglySorted cgt (sorted_desc (svg_files svgs ++ png_files pngs)).
Proof.
  intros Hs Hp. rewrite sorted_desc_app.
  induction Hs as [|k r Hk Hr IH]; cbn [svg_files map fold_right]; [now apply sorted_pngs|].
  fold (svg_files r). apply insert_desc_sorted; [exact IH|].
  intros y Hy Q. cbn in Q. split; [reflexivity|].
  assert (Hy' : In y (svg_files r ++ png_files pngs)).
  { rewrite <- sorted_desc_app in Hy. now apply (Permutation_in _ (sorted_desc_perm _)) in Hy. }
  apply in_app_or in Hy'. destruct Hy' as [Hy'|Hy'].
  - apply in_svg_files in Hy'. destruct Hy' as [_ Hy']. rewrite Q in Hy'. contradiction.
  - now apply in_png_files in Hy'.
Qed.

Lemma sorted_rev l : StronglySorted cgt l -> StronglySorted clt (rev l).
Proof.
  induction 1 as [|x r Hr IH Hx]; cbn; [constructor|].
  assert (G : forall a b, StronglySorted clt a -> StronglySorted clt b ->
              (forall u v, In u a -> In v b -> clt u v) -> StronglySorted clt (a ++ b)).
  { induction a as [|u a IHa]; intros b Ha Hb Hab; cbn; [exact Hb|].
    apply StronglySorted_inv in Ha. destruct Ha as [Ha Hu]. constructor.
    - apply IHa; [exact Ha|exact Hb|]. intros; apply Hab; [now right|assumption].
    - rewrite Forall_forall. intros z Hz. apply in_app_or in Hz. destruct Hz as [Hz|Hz].
      + rewrite Forall_forall in Hu. now apply Hu.
      + apply Hab; [now left|assumption]. }
  apply G; [exact IH|repeat constructor|].
  intros u v Hu [<-|[]]. rewrite <- in_rev in Hu. rewrite Forall_forall in Hx. now apply Hx.
Qed.

(* ---- the loop on an ascending queue *)
Definition is_svg (f : file) : bool := match snd f with KSvg => true | KPng => false end.
Definition rows_ok (pngs : list nat) (rows : list (nat * bool)) : Prop :=
  forall k b, In (k, b) rows -> (b = true <-> In k pngs).

Lemma clt_irrefl a : ~ clt a a.
Proof. unfold clt, cgt. intros [H|[_ [H1 H2]]]; [lia|congruence]. Qed.

Lemma pair_rows_sorted pngs : forall fuel q,
  length q <= fuel ->
  StronglySorted clt q ->
  (forall k, In (k, KPng) q -> In (k, KSvg) q) ->
  (forall k, In (k, KPng) q <-> In k pngs /\ In (k, KSvg) q) ->
  exists rows, pair_rows fuel q = Some rows /\
    map fst rows = map fst (filter is_svg q) /\
    rows_ok pngs rows.
Proof.
  induction fuel as [|n IH]; intros q Hl Hs Hp Hpng.
  - destruct q; [|cbn in Hl; lia]. exists []. split; [reflexivity|]. split; [reflexivity|]. intros k b [].
  - destruct q as [|[k kd] r]; [exists []; split; [reflexivity|]; split; [reflexivity|]; intros k b []|].
    apply StronglySorted_inv in Hs. destruct Hs as [Hr Hk]. rewrite Forall_forall in Hk.
    destruct kd.
    + (* a lone .svg: no bitmap with this number can follow *)
      assert (Hno : ~ In k pngs).
      { intros Hin. assert (Hq : In (k, KPng) ((k, KSvg) :: r)) by (apply Hpng; split; [exact Hin|now left]).
        destruct Hq as [Hq|Hq]; [discriminate|]. specialize (Hk _ Hq).
        unfold clt, cgt in Hk. cbn in Hk. destruct Hk as [Hk|[_ [Hk _]]]; [lia|discriminate]. }
      destruct (IH r) as [rows [Hrows [Hfst Hok]]].
      * cbn in Hl. lia.
      * exact Hr.
      * intros k' Hk'. destruct (Hp k' (or_intror Hk')) as [Q|Q]; [|exact Q].
        injection Q as ->. specialize (Hk _ Hk'). unfold clt, cgt in Hk. cbn in Hk.
        destruct Hk as [Hk|[_ [Hk _]]]; [lia|discriminate].
      * intros k'. split.
        -- intros Hk'. assert (Hq : In (k', KPng) ((k, KSvg) :: r)) by now right.
           apply Hpng in Hq. destruct Hq as [Q1 [Q2|Q2]]; [|now split].
           injection Q2 as ->. contradiction.
        -- intros [Q1 Q2]. assert (Hq : In (k', KPng) ((k, KSvg) :: r)) by (apply Hpng; split; [exact Q1|now right]).
           destruct Hq as [Hq|Hq]; [discriminate|exact Hq].
      * exists ((k, false) :: rows). cbn [pair_rows]. rewrite Hrows. cbn. split; [reflexivity|].
        split; [now rewrite Hfst|].
        intros k' b [Q|Q]; [injection Q as <- <-; split; [discriminate|contradiction]|now apply Hok].
    + (* a .png: the next file is its .svg *)
      assert (Hsv : In (k, KSvg) r).
      { destruct (Hp k (or_introl eq_refl)) as [Q|Q]; [discriminate|exact Q]. }
      destruct r as [|[k' kd'] r']; [destruct Hsv|].
      apply StronglySorted_inv in Hr. destruct Hr as [Hr' Hk']. rewrite Forall_forall in Hk'.
      assert (Hhead : k' = k /\ kd' = KSvg).
      { destruct Hsv as [Q|Q]; [injection Q as -> ->; now split|].
        pose proof (Hk _ (or_introl eq_refl)) as H1. pose proof (Hk' _ Q) as H2.
        unfold clt, cgt in H1, H2. cbn in H1, H2.
        exfalso. destruct H1 as [H1|[H1 [H1' _]]]; destruct H2 as [H2|[H2 [_ H2']]]; try lia. congruence. }
      destruct Hhead as [-> ->].
      assert (Hin : In k pngs) by (apply (Hpng k); now left).
      destruct (IH r') as [rows [Hrows [Hfst Hok]]].
      * cbn in Hl. lia.
      * exact Hr'.
      * intros k2 Hk2. destruct (Hp k2 (or_intror (or_intror Hk2))) as [Q|[Q|Q]]; [discriminate| |exact Q].
        injection Q as ->. specialize (Hk' _ Hk2). unfold clt, cgt in Hk'. cbn in Hk'.
        destruct Hk' as [Hk'|[_ [Hk' _]]]; [lia|discriminate].
      * intros k2. split.
        -- intros Hk2. assert (Hq : In (k2, KPng) ((k, KPng) :: (k, KSvg) :: r')) by (right; now right).
           apply Hpng in Hq. destruct Hq as [Q1 [Q2|[Q2|Q2]]]; [discriminate| |now split].
           injection Q2 as ->. specialize (Hk' _ Hk2). unfold clt, cgt in Hk'. cbn in Hk'.
           destruct Hk' as [Hk'|[_ [Hk' _]]]; [lia|discriminate].
        -- intros [Q1 Q2]. assert (Hq : In (k2, KPng) ((k, KPng) :: (k, KSvg) :: r')).
           { apply Hpng. split; [exact Q1|right; now right]. }
           destruct Hq as [Hq|[Hq|Hq]]; [|discriminate|exact Hq].
           injection Hq as <-. specialize (Hk' _ Q2). exfalso. now apply (clt_irrefl (k, KSvg)).
      * exists ((k, true) :: rows). cbn [pair_rows]. rewrite Nat.eqb_refl, Hrows. cbn. split; [reflexivity|].
        split; [now rewrite Hfst|].
        intros k2 b [Q|Q]; [injection Q as <- <-; split; [intros _; exact Hin|reflexivity]|now apply Hok].
Qed.

(* ---- the statement for the files maximum_color lists: all .svg first, then the .png *)
Theorem glyphmap_rows_spec (svgs pngs : list nat) :
  NoDup svgs -> NoDup pngs -> incl pngs svgs ->
  exists rows,
    glyphmap_rows (svg_files svgs ++ png_files pngs) = Some rows /\
    StronglySorted lt (map fst rows) /\
    Permutation (map fst rows) svgs /\
    (forall k b, In (k, b) rows -> (b = true <-> In k pngs)).
Proof.
  intros Hs Hp Hincl. unfold glyphmap_rows.
  set (F := svg_files svgs ++ png_files pngs).
  assert (HinF : forall y, In y (rev (sorted_desc F)) <-> In y F).
  { intros y. rewrite <- in_rev. split; apply Permutation_in; [apply sorted_desc_perm|symmetry; apply sorted_desc_perm]. }
  assert (HF_svg : forall k, In (k, KSvg) F <-> In k svgs).
  { intros k. unfold F. rewrite in_app_iff, in_svg_files, in_png_files. cbn. intuition discriminate. }
  assert (HF_png : forall k, In (k, KPng) F <-> In k pngs).
  { intros k. unfold F. rewrite in_app_iff, in_svg_files, in_png_files. cbn. intuition discriminate. }
  destruct (pair_rows_sorted pngs (length F) (rev (sorted_desc F))) as [rows [Hrows [Hfst Hok]]].
  - rewrite rev_length. now rewrite (Permutation_length (sorted_desc_perm F)).
  - apply sorted_rev. now apply sorted_files.
  - intros k Hk. apply HinF. apply HF_svg. apply Hincl. apply HF_png. now apply HinF.
  - intros k. rewrite !HinF, HF_png, HF_svg. split; [intros H; split; [exact H|now apply Hincl]|tauto].
  - exists rows. split; [exact Hrows|].
    set (q := rev (sorted_desc F)) in *.
    assert (Hq_sorted : StronglySorted clt q) by (apply sorted_rev; now apply sorted_files).
    split; [|split; [|exact Hok]].
    + rewrite Hfst. clear -Hq_sorted. induction Hq_sorted as [|x r Hr IH Hx]; cbn; [constructor|].
      destruct (is_svg x) eqn:E; [|exact IH]. cbn. constructor; [exact IH|].
      rewrite Forall_forall in *. intros z Hz. apply in_map_iff in Hz. destruct Hz as [y [<- Hy]].
      apply filter_In in Hy. destruct Hy as [Hy Hy']. specialize (Hx y Hy).
      unfold clt, cgt in Hx. destruct Hx as [Hx|[_ [_ Hx]]]; [lia|].
      unfold is_svg in E. rewrite Hx in E. discriminate.
    + rewrite Hfst.
      (* the .svg files of q, by number, are the svgs *)
      apply NoDup_Permutation.
      * clear -Hq_sorted. induction Hq_sorted as [|x r Hr IH Hx]; cbn; [constructor|].
        destruct (is_svg x) eqn:E; [|exact IH]. cbn. constructor; [|exact IH].
        intros Hin. apply in_map_iff in Hin. destruct Hin as [y [Q Hy]]. apply filter_In in Hy.
        destruct Hy as [Hy Hy']. rewrite Forall_forall in Hx. specialize (Hx y Hy).
        unfold clt, cgt in Hx. destruct Hx as [Hx|[_ [_ Hx]]]; [lia|].
        unfold is_svg in E. rewrite Hx in E. discriminate.
      * exact Hs.
      * intros k. rewrite in_map_iff. split.
        -- intros [y [<- Hy]]. apply filter_In in Hy. destruct Hy as [Hy Hy'].
           apply HinF in Hy. destruct y as [k' kd]. unfold is_svg in Hy'. cbn in Hy'. destruct kd; [|discriminate].
           now apply HF_svg.
        -- intros Hk. exists (k, KSvg). split; [reflexivity|]. apply filter_In. split; [|reflexivity].
           apply HinF. now apply HF_svg.
Qed.
