From Coq Require Import List ZArith Bool Arith Lia Permutation.
From Verif Require Import Model.Build.
Import ListNotations.

(* ================= C08-T1: the source list depends on the *set* of arguments ================= *)
Fixpoint strictly_sorted (l : list Z) : Prop :=
  match l with
  | [] => True
  | x :: r => (forall y, In y r -> (x < y)%Z) /\ strictly_sorted r
  end.

Lemma insert_sorted_in x l y : In y (insert_sorted x l) <-> y = x \/ In y l.
Proof.
  induction l as [|z r IH]; simpl; [intuition|].
  destruct (Z.ltb_spec x z); [simpl; intuition|].
  destruct (Z.eqb_spec x z); simpl; [subst; intuition|]. rewrite IH. intuition.
Qed.
Lemma insert_sorted_sorted x l : strictly_sorted l -> strictly_sorted (insert_sorted x l).
Proof.
  induction l as [|z r IH]; simpl; intros H; [split; [intros ? []|exact I]|].
  destruct H as [Hz Hr]. destruct (Z.ltb_spec x z).
  - simpl. split; [|split; assumption]. intros y [<-|Hy]; [lia|]. specialize (Hz y Hy). lia.
  - destruct (Z.eqb_spec x z); [simpl; split; assumption|].
    simpl. split; [|apply IH; exact Hr]. intros y Hy. apply insert_sorted_in in Hy.
    destruct Hy as [->|Hy]; [lia|auto].
Qed.
Lemma sources_in args y : In y (sources args) <-> In y args.
Proof.
  induction args as [|x r IH]; simpl; [reflexivity|]. rewrite insert_sorted_in, IH. intuition.
Qed.
Lemma sources_sorted args : strictly_sorted (sources args).
Proof. induction args; simpl; [exact I|apply insert_sorted_sorted; assumption]. Qed.

Lemma strictly_sorted_ext l : forall l', strictly_sorted l -> strictly_sorted l' ->
  (forall x, In x l <-> In x l') -> l = l'.
Proof.
  induction l as [|x r IH]; intros [|x' r'] Hs Hs' Hin.
  - reflexivity.
  - exfalso. apply (proj2 (Hin x')). left; reflexivity.
  - exfalso. apply (proj1 (Hin x)). left; reflexivity.
  - destruct Hs as [Hx Hr], Hs' as [Hx' Hr'].
    assert (x = x').
    { destruct (proj1 (Hin x) (or_introl eq_refl)) as [E|E]; [auto|].
      destruct (proj2 (Hin x') (or_introl eq_refl)) as [E'|E']; [auto|].
      specialize (Hx x' E'). specialize (Hx' x E). lia. }
    subst x'. f_equal. apply IH; auto. intros y. split; intros Hy.
    + destruct (proj1 (Hin y) (or_intror Hy)) as [E|E]; [|exact E]. subst. specialize (Hx _ Hy). lia.
    + destruct (proj2 (Hin y) (or_intror Hy)) as [E|E]; [|exact E]. subst. specialize (Hx' _ Hy). lia.
Qed.

(* permuting, repeating or re-globbing the arguments does not change the source list *)
Theorem sources_set_invariant (a b : list Z) : (forall x, In x a <-> In x b) -> sources a = sources b.
Proof.
  intros H. apply strictly_sorted_ext; try apply sources_sorted.
  intros x. rewrite !sources_in. apply H.
Qed.
Corollary sources_perm_invariant (a b : list Z) : Permutation a b -> sources a = sources b.
Proof. intros H. apply sources_set_invariant. intros x. split; apply Permutation_in; [exact H|symmetry; exact H]. Qed.

(* ================= C08-T4: any dependency-respecting schedule computes the same outputs ========= *)
Section Exec.
Variable exec : Z -> list Z -> Z.
Notation run_edge := (run_edge exec).
Notation run_schedule := (run_schedule exec).

Definition outs (g : list edge) : list Z := map e_out g.

Lemma read_upd_same f k v : read (upd f k v) k = v.
Proof. unfold read, upd. rewrite Z.eqb_refl. reflexivity. Qed.
Lemma read_upd_other f k v x : x <> k -> read (upd f k v) x = read f x.
Proof. intros H. unfold read, upd. destruct (Z.eqb_spec x k); [contradiction|reflexivity]. Qed.

Lemma run_frame g : forall f x, ~ In x (outs g) -> read (run_schedule f g) x = read f x.
Proof.
  induction g as [|e r IH]; intros f x H; [reflexivity|]. simpl in *.
  rewrite IH by tauto. unfold Build.run_edge. apply read_upd_other. intros E. apply H. left. auto.
Qed.

Lemma existsb_eqb_false x l : existsb (Z.eqb x) l = false <-> ~ In x l.
Proof.
  rewrite <- Bool.not_true_iff_false, existsb_exists. split.
  - intros H Hin. apply H. exists x. split; [exact Hin|apply Z.eqb_refl].
  - intros H (y & Hy & E). apply Z.eqb_eq in E. subst. contradiction.
Qed.

Lemma wf_outs_fresh g : forall seen, wf_graph_from seen g = true ->
  NoDup (outs g) /\ forall x, In x (outs g) -> ~ In x seen.
Proof.
  induction g as [|e r IH]; intros seen H; simpl in *; [split; [constructor|intros ? []]|].
  repeat (apply andb_prop in H; destruct H as [H ?]).
  apply negb_true_iff, existsb_eqb_false in H.
  destruct (IH (e_out e :: seen) H0) as [Hn Hf]. split.
  - constructor; [|exact Hn]. intros Hin. apply (Hf _ Hin). left; reflexivity.
  - intros x [<-|Hx]; [exact H|]. intros Hs. apply (Hf x Hx). right; exact Hs.
Qed.

(* in graph order every edge sees final inputs: the final state is a fixed point *)
Theorem value_fixed_point g : forall seen f0,
  wf_graph_from seen g = true ->
  let val := read (run_schedule f0 g) in
  (forall e, In e g -> val (e_out e) = exec (e_cmd e) (map val (e_ins e))) /\
  (forall x, ~ In x (outs g) -> val x = read f0 x).
Proof.
  induction g as [|e r IH]; intros seen f0 H val.
  - split; [intros ? []|reflexivity].
  - pose proof H as Hwf. simpl in H. repeat (apply andb_prop in H; destruct H as [H ?]).
    rename H0 into Hr, H1 into Hlater, H2 into Hself.
    apply negb_true_iff, existsb_eqb_false in Hself.
    destruct (wf_outs_fresh r (e_out e :: seen) Hr) as [_ Hfresh].
    destruct (IH (e_out e :: seen) (run_edge f0 e) Hr) as [IH1 IH2].
    unfold val. simpl run_schedule. split.
    + intros e' [<-|He']; [|apply IH1; exact He'].
      assert (Hout : ~ In (e_out e) (outs r)) by (intros Hin; apply (Hfresh _ Hin); left; reflexivity).
      rewrite (IH2 _ Hout). unfold Build.run_edge at 1. rewrite read_upd_same. f_equal.
      apply map_ext_in. intros i Hi.
      assert (Hi_r : ~ In i (outs r)).
      { intros Hin. unfold outs in Hin. apply in_map_iff in Hin. destruct Hin as (e' & <- & He').
        rewrite forallb_forall in Hlater. specialize (Hlater e' He').
        apply negb_true_iff, existsb_eqb_false in Hlater. contradiction. }
      rewrite (IH2 _ Hi_r). unfold Build.run_edge. symmetry. apply read_upd_other.
      intros E. subst i. contradiction.
    + intros x Hx. simpl in Hx. rewrite IH2 by tauto. unfold Build.run_edge. apply read_upd_other.
      intros E. apply Hx. left. auto.
Qed.

(* the invariant of an arbitrary valid schedule *)
Lemma valid_schedule_inv g (Hwf : wf_graph g = true) src :
  let val := read (run_schedule src g) in
  forall sched done f,
    (forall e, In e sched -> In e g) ->
    valid_from g done sched = true ->
    (forall x, In x done -> read f x = val x) ->
    (forall x, ~ In x (outs g) -> read f x = read src x) ->
    (forall x, In x done -> In x (outs g)) ->
    forall x, In x done \/ In x (map e_out sched) -> read (run_schedule f sched) x = val x.
Proof.
  intros val. destruct (value_fixed_point g [] src Hwf) as [FP Fsrc]. fold val in FP, Fsrc.
  induction sched as [|e r IH]; intros done f Hsub Hv Hdone Hsrc Hdg x Hx.
  - simpl. destruct Hx as [Hx|[]]. auto.
  - simpl in Hv. apply andb_prop in Hv. destruct Hv as [Hv Hr]. apply andb_prop in Hv. destruct Hv as [Hins Hnew].
    apply negb_true_iff, existsb_eqb_false in Hnew.
    assert (He : In e g) by (apply Hsub; left; reflexivity).
    assert (Hval_e : exec (e_cmd e) (map (read f) (e_ins e)) = val (e_out e)).
    { rewrite (FP e He). f_equal. apply map_ext_in. intros i Hi.
      rewrite forallb_forall in Hins. specialize (Hins i Hi).
      destruct (produced_by g i) as [p|] eqn:Ep.
      - apply existsb_exists in Hins. destruct Hins as (y & Hy & Ey). apply Z.eqb_eq in Ey. subst y. auto.
      - assert (~ In i (outs g)).
        { intros Hin. unfold outs in Hin. apply in_map_iff in Hin. destruct Hin as (e' & Eo & He').
          unfold produced_by in Ep. apply (find_none _ _ Ep) in He'. rewrite Eo, Z.eqb_refl in He'. discriminate. }
        rewrite Hsrc by assumption. symmetry. apply Fsrc. assumption. }
    simpl run_schedule. apply (IH (e_out e :: done) (run_edge f e)).
    + intros e' He'. apply Hsub. right; exact He'.
    + exact Hr.
    + intros y [<-|Hy].
      * unfold Build.run_edge. rewrite read_upd_same. exact Hval_e.
      * unfold Build.run_edge. rewrite read_upd_other; [auto|]. intros E. subst y. contradiction.
    + intros y Hy. unfold Build.run_edge. rewrite read_upd_other; [auto|].
      intros E. apply Hy. subst y. unfold outs. apply in_map. exact He.
    + intros y [<-|Hy]; [unfold outs; apply in_map; exact He|auto].
    + destruct Hx as [Hx|[<-|Hx]]; [left; right; exact Hx|left; left; reflexivity|right; exact Hx].
Qed.

(* T4: for a well-formed graph, every schedule that respects the dependency order and runs
   the graph's edges ends with the same content in every output (and leaves sources alone) *)
Theorem schedule_independent g sched src :
  wf_graph g = true -> Permutation sched g -> valid_schedule g sched = true ->
  forall x, read (run_schedule src sched) x = read (run_schedule src g) x.
Proof.
  intros Hwf Hp Hv x.
  destruct (value_fixed_point g [] src Hwf) as [_ Fsrc].
  destruct (in_dec Z.eq_dec x (outs g)) as [Hin|Hnin].
  - apply (valid_schedule_inv g Hwf src sched [] src); auto.
    + intros e He. eapply Permutation_in; eassumption.
    + intros ? [].
    + intros ? [].
    + right. unfold outs in Hin. eapply Permutation_in; [|exact Hin]. apply Permutation_map. symmetry. exact Hp.
  - rewrite Fsrc by assumption. apply run_frame.
    intros Hin. apply Hnin. unfold outs in *. eapply Permutation_in; [|exact Hin]. apply Permutation_map. exact Hp.
Qed.
End Exec.
