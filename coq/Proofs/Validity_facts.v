From Coq Require Import List Arith Bool Lia.
From Verif Require Import Model.Validity Model.OtSvg.
Import ListNotations.

(* T1: the (first gid, count) ranges the reshuffle assigns to non-empty groups form a valid SVG
   document list: sorted by start glyph, pairwise disjoint, inside the glyph set *)
Lemma group_ranges_valid (G : Type) (groups : list (list G)) : forall start lo n,
  lo <= start -> Forall (fun g => g <> []) groups -> start + length (concat groups) <= n ->
  svg_ranges_ok_from lo (to_records (group_ranges G start groups)) n = true.
Proof.
  induction groups as [|g r IH]; intros start lo n Hlo Hne Hn; [reflexivity|].
  inversion Hne as [|? ? Hg Hr]; subst. simpl in Hn. rewrite app_length in Hn.
  assert (Hl : 0 < length g) by (destruct g; [congruence|simpl; lia]).
  cbn [group_ranges to_records map fst snd svg_ranges_ok_from].
  replace (Nat.leb lo start) with true by (symmetry; apply Nat.leb_le; lia).
  replace (Nat.leb start (start + length g - 1)) with true by (symmetry; apply Nat.leb_le; lia).
  replace (Nat.ltb (start + length g - 1) n) with true by (symmetry; apply Nat.ltb_lt; lia).
  cbn [andb]. apply IH; [lia|exact Hr|lia].
Qed.

Theorem reshuffle_doclist_valid (G : Type) (geqb : G -> G -> bool) (old : list G) (groups : list (list G)) :
  Forall (fun g => g <> []) groups ->
  length (ensure_order G geqb old groups) = length old ->
  valid_svg_doclist (to_records (ranges G geqb old groups)) (length old) = true.
Proof.
  intros Hne Hlen. unfold valid_svg_doclist, ranges. apply group_ranges_valid; [lia|exact Hne|].
  unfold ensure_order in Hlen. rewrite app_length in Hlen. lia.
Qed.

(* T2: in a CBLC that passes valid_cblc no glyph id is indexed twice (by one strike or by two), and every indexed id
   lies in its strike's start..end *)
Lemma consecutive_from_spec : forall l g, consecutive_from g l = true -> l = seq g (length l).
Proof.
  induction l as [|x r IH]; intros g H; [reflexivity|].
  cbn [consecutive_from] in H. apply andb_prop in H. destruct H as [Hx Hr].
  apply Nat.eqb_eq in Hx. subst x. cbn [length seq]. f_equal. apply IH. exact Hr.
Qed.

Lemma strike_gids_in_range st x :
  valid_cblc_strike st = true -> In x (snd st) -> fst (fst st) <= x <= snd (fst st).
Proof.
  destruct st as [[s e] gids]. cbn [fst snd]. unfold valid_cblc_strike. intros H Hin.
  apply andb_prop in H. destruct H as [H Hne]. apply andb_prop in H. destruct H as [Hc Hl].
  apply consecutive_from_spec in Hc. apply Nat.eqb_eq in Hl. rewrite Hc in Hin. apply in_seq in Hin. lia.
Qed.

Lemma strike_gids_nodup st : valid_cblc_strike st = true -> NoDup (snd st).
Proof.
  destruct st as [[s e] gids]. cbn [snd]. unfold valid_cblc_strike. intros H.
  apply andb_prop in H. destruct H as [H _]. apply andb_prop in H. destruct H as [Hc _].
  apply consecutive_from_spec in Hc. rewrite Hc. apply seq_NoDup.
Qed.

Lemma nodup_app_intro (A : Type) (l1 l2 : list A) :
  NoDup l1 -> NoDup l2 -> (forall x, In x l1 -> In x l2 -> False) -> NoDup (l1 ++ l2).
Proof.
  induction l1 as [|a r IH]; intros H1 H2 Hd; [exact H2|].
  inversion H1 as [|? ? Ha Hr]; subst. cbn [app]. constructor.
  - intros Hin. apply in_app_or in Hin. destruct Hin as [Hin|Hin]; [contradiction|].
    apply (Hd a); [left; reflexivity|exact Hin].
  - apply IH; [exact Hr|exact H2|]. intros x Hx Hx2. apply (Hd x); [right; exact Hx|exact Hx2].
Qed.

Lemma strikes_apart_lower : forall strikes lo x,
  forallb valid_cblc_strike strikes = true -> strikes_apart_from lo strikes = true ->
  In x (concat (map snd strikes)) -> lo <= x.
Proof.
  induction strikes as [|st r IH]; intros lo x Hv Ha Hin; [destruct Hin|].
  cbn [forallb] in Hv. apply andb_prop in Hv. destruct Hv as [Hst Hr].
  cbn [strikes_apart_from] in Ha. apply andb_prop in Ha. destruct Ha as [Ha Hrest].
  apply andb_prop in Ha. destruct Ha as [Hlo Hse]. apply Nat.leb_le in Hlo. apply Nat.leb_le in Hse.
  cbn [map concat] in Hin. apply in_app_or in Hin. destruct Hin as [Hin|Hin].
  - pose proof (strike_gids_in_range st x Hst Hin). lia.
  - pose proof (IH (S (snd (fst st))) x Hr Hrest Hin). lia.
Qed.

Theorem valid_cblc_no_glyph_twice strikes n :
  valid_cblc strikes n = true ->
  NoDup (concat (map snd strikes)) /\
  forall st x, In st strikes -> In x (snd st) -> fst (fst st) <= x <= snd (fst st) /\ x < n.
Proof.
  unfold valid_cblc. intros H. apply andb_prop in H. destruct H as [H Hap].
  apply andb_prop in H. destruct H as [Hv Hn]. split.
  - clear Hn. revert Hv Hap. generalize 0 as lo. induction strikes as [|st r IH]; intros lo Hv Hap; [constructor|].
    cbn [forallb] in Hv. apply andb_prop in Hv. destruct Hv as [Hst Hr].
    cbn [strikes_apart_from] in Hap. apply andb_prop in Hap. destruct Hap as [Ha Hrest].
    cbn [map concat]. apply nodup_app_intro.
    + apply strike_gids_nodup. exact Hst.
    + apply (IH (S (snd (fst st)))); assumption.
    + intros x Hx Hx2. pose proof (strike_gids_in_range st x Hst Hx).
      pose proof (strikes_apart_lower r (S (snd (fst st))) x Hr Hrest Hx2). lia.
  - intros st x Hst Hx. rewrite forallb_forall in Hv, Hn. split.
    + apply strike_gids_in_range; auto.
    + pose proof (strike_gids_in_range st x (Hv st Hst) Hx). specialize (Hn st Hst). apply Nat.ltb_lt in Hn. lia.
Qed.
