From Coq Require Import List Arith Bool Lia.
From Verif Require Import Model.Validity Model.OtSvg.
Import ListNotations.

(* T1: the (first gid, count) ranges the reshuffle assigns to non-empty groups form a valid SVG
   document list: sorted by start glyph, pairwise disjoint, inside the glyph set *)
Lemma group_ranges_valid (G : Type) (groups : list (list G)) : forall start lo n,
  lo <= start -> Forall (fun g => g <> []) groups -> start + length (concat groups) <= n ->
  svg_ranges_ok_from lo (to_records (group_ranges G start groups)) n = true.
Proof.
  induction groups as [|g r IH]; intros start lo n Hlo Hne Hn; [reflexivity|].
  inversion Hne as [|? ? Hg Hr]; subst. simpl in Hn. rewrite app_length in Hn.
  assert (Hl : 0 < length g) by (destruct g; [congruence|simpl; lia]).
  cbn [group_ranges to_records map fst snd svg_ranges_ok_from].
  replace (Nat.leb lo start) with true by (symmetry; apply Nat.leb_le; lia).
  replace (Nat.leb start (start + length g - 1)) with true by (symmetry; apply Nat.leb_le; lia).
  replace (Nat.ltb (start + length g - 1) n) with true by (symmetry; apply Nat.ltb_lt; lia).
  cbn [andb]. apply IH; [lia|exact Hr|lia].
Qed.

Theorem reshuffle_doclist_valid (G : Type) (geqb : G -> G -> bool) (old : list G) (groups : list (list G)) :
  Forall (fun g => g <> []) groups ->
  length (ensure_order G geqb old groups) = length old ->
  valid_svg_doclist (to_records (ranges G geqb old groups)) (length old) = true.
Proof.
  intros Hne Hlen. unfold valid_svg_doclist, ranges. apply group_ranges_valid; [lia|exact Hne|].
  unfold ensure_order in Hlen. rewrite app_length in Hlen. lia.
Qed.
