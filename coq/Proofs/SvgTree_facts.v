(* The COLR -> SVG traversal paints, in the viewBox, what the COLR graph paints in font space. *)
From Coq Require Import List ZArith Bool Field Ring String.
From Verif Require Import Model.Field Model.Affine Model.Color Model.Paint Model.ColrToSvg
  Model.ViewBox Model.SvgTree Proofs.Affine_facts Proofs.ViewBox_facts Proofs.ColrToSvg_facts.
Import ListNotations.
Local Open Scope F_scope.

Section Facts.
Context {O : fops}.
Hypothesis Fth : field_theory (f0 O) (f1 O) (fadd O) (fmul O) (fsub O) (fopp O) (fdiv O) (finv O) eq.
Hypothesis Eqb : feqb_ok O.
Notation aff := (aff O).
Notation paint := (paint O).
Notation svgel := (svgel O).
Notation layer := (layer O).

Variable V : aff.
Variable env : string -> option paint.
Hypothesis HV : adet V <> 0.

Lemma svg_sem_groupT (ctm : aff) (ops : list (F O)) (m : aff) (kids : list svgel) :
  svg_sem ctm ops (SGroupT m kids) = svg_sem_list (matmul ctm m) ops kids.
Proof. unfold svg_sem_list. cbn [svg_sem]. induction kids as [|x r IH]; cbn [flat_map]; [reflexivity|now rewrite IH]. Qed.

Lemma svg_sem_groupO (ctm : aff) (ops : list (F O)) (a : F O) (kids : list svgel) :
  svg_sem ctm ops (SGroupO a kids) = svg_sem_list ctm (a :: ops) kids.
Proof. unfold svg_sem_list. cbn [svg_sem]. induction kids as [|x r IH]; cbn [flat_map]; [reflexivity|now rewrite IH]. Qed.

Lemma svg_sem_list_app (ctm : aff) (ops : list (F O)) (a b : list svgel) :
  svg_sem_list ctm ops (a ++ b) = svg_sem_list ctm ops a ++ svg_sem_list ctm ops b.
Proof. unfold svg_sem_list. apply flat_map_app. Qed.

Lemma svg_sem_list_one (ctm : aff) (ops : list (F O)) (e : svgel) : svg_sem_list ctm ops [e] = svg_sem ctm ops e.
Proof. unfold svg_sem_list. cbn [flat_map]. apply app_nil_r. Qed.

(* the attribute written for an accumulated transform t, composed with V, is V ; t *)
Lemma attr_V (t : aff) : matmul (transform_attr V t) V = matmul V t.
Proof.
  unfold transform_attr. destruct (aff_eqb t aid) eqn:E.
  - apply (aff_eqb_true Eqb) in E. subst t. now rewrite (matmul_id_l Fth), (matmul_id_r Fth).
  - unfold svg_transform_attr. rewrite (compose_ltr_three Fth).
    rewrite <- (matmul_assoc Fth). rewrite (ainverse_l Fth Eqb V HV). apply (matmul_id_r Fth).
Qed.

Lemma svg_attr_V (t : aff) : matmul (svg_transform_attr V t) V = matmul V t.
Proof.
  unfold svg_transform_attr. rewrite (compose_ltr_three Fth).
  rewrite <- (matmul_assoc Fth). rewrite (ainverse_l Fth Eqb V HV). apply (matmul_id_r Fth).
Qed.

(* Invariant: the SVG side is inside user space C with pending font-space transform t; the COLR
   side has accumulated acc; they agree when  V ; acc  =  C ; V ; t  (as maps: V(acc x) = C(V(t x))). *)
Theorem to_svg_refines : forall fuel p t acc C ops els,
  matmul V acc = matmul (matmul C V) t ->
  to_svg V env fuel p t = Some els ->
  exists ls, colr_sem env fuel p acc ops = Some ls /\ svg_sem_list C ops els = map (through V) ls.
Proof.
  induction fuel as [|n IH]; intros p t acc C ops els Hinv Hsvg; [discriminate|].
  assert (Hwrap : forall w : aff, matmul V (matmul acc w) = matmul (matmul C V) (matmul t w)).
  { intros w. rewrite !(matmul_assoc Fth). now rewrite Hinv. }
  destruct p; cbn [to_svg colr_sem] in *;
    try (eapply IH; [|eassumption]; apply Hwrap); try discriminate.
  - (* PColrLayers *)
    revert els Hsvg. induction ls as [|x r IHr]; cbn [map concat_opt]; intros els Hsvg.
    + injection Hsvg as <-. exists []. split; reflexivity.
    + destruct (to_svg V env n x t) as [ex|] eqn:Ex; [|discriminate].
      destruct (concat_opt (map (fun q => to_svg V env n q t) r)) as [er|] eqn:Er; [|discriminate].
      injection Hsvg as <-.
      destruct (IH x t acc C ops ex Hinv Ex) as [lx [Hx Hsx]].
      destruct (IHr er eq_refl) as [lr [Hr Hsr]].
      rewrite Hx, Hr. exists (lx ++ lr). split; [reflexivity|].
      rewrite svg_sem_list_app, map_app, Hsx, Hsr. reflexivity.
  - (* PGlyph *)
    destruct (fill_of p aid) as [[leaf ft]|]; [|discriminate].
    injection Hsvg as <-. eexists; split; [reflexivity|].
    rewrite svg_sem_list_one. cbn [svg_sem map through].
    assert (H1 : matmul (matmul C (transform_attr V t)) V = matmul V acc).
    { rewrite <- (matmul_assoc Fth), attr_V, (matmul_assoc Fth). now rewrite Hinv. }
    rewrite (compose_ltr_two Fth), (matmul_assoc Fth _ V ft), H1, <- (matmul_assoc Fth).
    reflexivity.
  - (* PColrGlyph *)
    destruct (env g) as [q|]; [|discriminate].
    destruct (aff_eqb t aid) eqn:E.
    + apply (aff_eqb_true Eqb) in E. subst t.
      eapply IH; [|eassumption]. rewrite Hinv. now rewrite !(matmul_id_r Fth).
    + destruct (to_svg V env n q aid) as [kids|] eqn:Ek; [|discriminate].
      injection Hsvg as <-.
      destruct (IH q aid acc (matmul C (svg_transform_attr V t)) ops kids) as [ls [Hl Hs]]; [|exact Ek|].
      * rewrite (matmul_id_r Fth). rewrite <- (matmul_assoc Fth C). rewrite svg_attr_V.
        now rewrite (matmul_assoc Fth).
      * exists ls. split; [exact Hl|]. now rewrite svg_sem_list_one, svg_sem_groupT.
  - (* PComposite *)
    destruct (group_opacity mode p2) as [a|]; [|discriminate].
    destruct (to_svg V env n p1 t) as [kids|] eqn:Ek; [|discriminate].
    injection Hsvg as <-.
    destruct (IH p1 t acc C (a :: ops) kids Hinv Ek) as [ls [Hl Hs]].
    exists ls. split; [exact Hl|]. now rewrite svg_sem_list_one, svg_sem_groupO.
Qed.

(* the statement for a whole glyph: no enclosing user space, nothing pending *)
Corollary glyph_to_svg_refines fuel p els :
  to_svg V env fuel p aid = Some els ->
  exists ls, colr_sem env fuel p aid [] = Some ls /\ svg_sem_list aid [] els = map (through V) ls.
Proof.
  intros H. eapply to_svg_refines; [|exact H].
  now rewrite !(matmul_id_r Fth), (matmul_id_l Fth).
Qed.

(* more fuel never changes an answer: the answer does not depend on the fuel chosen *)
Lemma concat_opt_ext {A} (f g : paint -> option (list A)) ls r :
  (forall q x, f q = Some x -> g q = Some x) ->
  concat_opt (map f ls) = Some r -> concat_opt (map g ls) = Some r.
Proof.
  intros Hfg. revert r. induction ls as [|x l IHl]; cbn [map concat_opt]; intros r Hr; [exact Hr|].
  destruct (f x) as [fx|] eqn:Ex; [|discriminate]. rewrite (Hfg _ _ Ex).
  destruct (concat_opt (map f l)) as [fl|]; [|discriminate]. now rewrite (IHl fl eq_refl).
Qed.

Lemma to_svg_fuel_mono : forall fuel p t els,
  to_svg V env fuel p t = Some els -> to_svg V env (S fuel) p t = Some els.
Proof.
  induction fuel as [|n IH]; intros p t els H; [discriminate|].
  remember (S n) as m eqn:Em.
  destruct p; cbn [to_svg]; subst m; cbn [to_svg] in H;
    try (apply IH; exact H); try discriminate; try exact H.
  - eapply concat_opt_ext; [|exact H]. intros q x Hx. now apply IH.
  - destruct (env g) as [q|]; [|discriminate].
    destruct (aff_eqb t aid); [now apply IH|].
    destruct (to_svg V env n q aid) as [k|] eqn:Ek; [|discriminate]. now rewrite (IH _ _ _ Ek).
  - destruct (group_opacity mode p2); [|discriminate].
    destruct (to_svg V env n p1 t) as [k|] eqn:Ek; [|discriminate]. now rewrite (IH _ _ _ Ek).
Qed.

(* What a layer's fill map means for a linear gradient: the SVG gradient is written with the
   mapped points (fm p0) and P3 of the mapped points (_map_gradient_coordinates, then
   _define_linear_gradient); at the image of any point z of the gradient's own space it has the
   colour parameter the COLR gradient has at z. *)
Theorem linear_fill_sem (fm : aff) (p0 p1 p2 z : pt O) :
  adet fm <> 0 ->
  det2 (px p1 - px p0) (py p1 - py p0) (px p2 - px p0) (py p2 - py p0) <> 0 ->
  let q0 := map_point fm p0 in let q1 := map_point fm p1 in let q2 := map_point fm p2 in
  let n := perp (vsub q2 q0) in
  dot n n <> 0 -> dot (vsub q1 q0) n <> 0 ->
  svg_lin_t q0 (linear_p3 q0 q1 q2) (map_point fm z) = lin_t p0 p1 p2 z.
Proof.
  intros Hd Hg q0 q1 q2 n Hn Hq.
  rewrite (linear_p3_sem Fth q0 q1 q2 (map_point fm z) Hn Hq).
  apply (lin_covariant Fth); assumption.
Qed.

End Facts.
