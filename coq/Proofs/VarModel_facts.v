From Coq Require Import List QArith Qminmax Lqa Lia.
From Verif Require Import Model.VarModel.
Import ListNotations.
Local Open Scope Q_scope.

Lemma qmin_list_le d l : qmin_list d l <= d /\ forall x, In x l -> qmin_list d l <= x.
Proof.
  induction l as [|y r [IH1 IH2]]; simpl; [split; [lra|intros ? []]|].
  pose proof (Q.le_min_l y (qmin_list d r)). pose proof (Q.le_min_r y (qmin_list d r)).
  split; [lra|]. intros x [<-|Hx]; [assumption|]. specialize (IH2 x Hx). lra.
Qed.
Lemma qmax_list_ge d l : d <= qmax_list d l /\ forall x, In x l -> x <= qmax_list d l.
Proof.
  induction l as [|y r [IH1 IH2]]; simpl; [split; [lra|intros ? []]|].
  pose proof (Q.le_max_l y (qmax_list d r)). pose proof (Q.le_max_r y (qmax_list d r)).
  split; [lra|]. intros x [<-|Hx]; [assumption|]. specialize (IH2 x Hx). lra.
Qed.

(* T1: every master lies inside the axis range the designspace declares *)
Theorem axis_range_contains positions lo hi :
  axis_range positions = Some (lo, hi) -> forall p, In p positions -> lo <= p <= hi.
Proof.
  destruct positions as [|p0 r]; simpl; [discriminate|]. intros [= <- <-] p Hp.
  destruct (qmin_list_le p0 r) as [A1 A2]. destruct (qmax_list_ge p0 r) as [B1 B2].
  destruct Hp as [<-|Hp]; [split; assumption|split; auto].
Qed.

(* T2: interpolation with non-negative weights preserves containment edge by edge: if every
   master's box edge is <= (>=) that master's point coordinate, so is the interpolated edge *)
Theorem wsum_monotone : forall w a b,
  Forall (fun x => 0 <= x) w -> length a = length w -> length b = length w ->
  Forall2 Qle a b -> wsum w a <= wsum w b.
Proof.
  induction w as [|x w IH]; intros a b Hw La Lb Hab; [simpl; lra|].
  destruct a as [|a0 a]; [discriminate|]. destruct b as [|b0 b]; [discriminate|].
  inversion Hw as [|? ? Hx Hw']; subst. inversion Hab as [|? ? ? ? H0 Hab']; subst.
  simpl in *. specialize (IH a b Hw' ltac:(lia) ltac:(lia) Hab').
  assert (Hm : x * a0 <= x * b0).
  { destruct (Qlt_le_dec 0 x) as [Hpos|Hz].
    - apply Qmult_le_l; assumption.
    - assert (x == 0) by lra. rewrite H. lra. }
  lra.
Qed.
