From Coq Require Import List QArith Qminmax Lqa Lia.
From Verif Require Import Model.VarModel.
Import ListNotations.
Local Open Scope Q_scope.

Lemma qmin_list_le d l : qmin_list d l <= d /\ forall x, In x l -> qmin_list d l <= x.
Proof.
  induction l as [|y r [IH1 IH2]]; simpl; [split; [lra|intros ? []]|].
  pose proof (Q.le_min_l y (qmin_list d r)). pose proof (Q.le_min_r y (qmin_list d r)).
  split; [lra|]. intros x [<-|Hx]; [assumption|]. specialize (IH2 x Hx). lra.
Qed.
Lemma qmax_list_ge d l : d <= qmax_list d l /\ forall x, In x l -> x <= qmax_list d l.
Proof.
  induction l as [|y r [IH1 IH2]]; simpl; [split; [lra|intros ? []]|].
  pose proof (Q.le_max_l y (qmax_list d r)). pose proof (Q.le_max_r y (qmax_list d r)).
  split; [lra|]. intros x [<-|Hx]; [assumption|]. specialize (IH2 x Hx). lra.
Qed.

(* T1: every master lies inside the axis range the designspace declares *)
Theorem axis_range_contains positions lo hi :
  axis_range positions = Some (lo, hi) -> forall p, In p positions -> lo <= p <= hi.
Proof.
  destruct positions as [|p0 r]; simpl; [discriminate|]. intros [= <- <-] p Hp.
  destruct (qmin_list_le p0 r) as [A1 A2]. destruct (qmax_list_ge p0 r) as [B1 B2].
  destruct Hp as [<-|Hp]; [split; assumption|split; auto].
Qed.

(* T2: interpolation with non-negative weights preserves containment edge by edge: if every
   master's box edge is <= (>=) that master's point coordinate, so is the interpolated edge *)
Theorem wsum_monotone : forall w a b,
  Forall (fun x => 0 <= x) w -> length a = length w -> length b = length w ->
  Forall2 Qle a b -> wsum w a <= wsum w b.
Proof.
  induction w as [|x w IH]; intros a b Hw La Lb Hab; [simpl; lra|].
  destruct a as [|a0 a]; [discriminate|]. destruct b as [|b0 b]; [discriminate|].
  inversion Hw as [|? ? Hx Hw']; subst. inversion Hab as [|? ? ? ? H0 Hab']; subst.
  simpl in *. specialize (IH a b Hw' ltac:(lia) ltac:(lia) Hab').
  assert (Hm : x * a0 <= x * b0).
  { destruct (Qlt_le_dec 0 x) as [Hpos|Hz].
    - apply Qmult_le_l; assumption.
    - assert (x == 0) by lra. rewrite H. lra. }
  lra.
Qed.

(* ---- the designspace document *)
From Coq Require Import String.

Lemma lookup_s_in {A} k (l : list (string * A)) v : lookup_s k l = Some v -> In (k, v) l.
Proof.
  induction l as [|[k' v'] r IH]; cbn [lookup_s]; [discriminate|].
  destruct (String.eqb k k') eqn:E; [apply String.eqb_eq in E; subst; intros [= ->]; now left|].
  intros H. right. now apply IH.
Qed.

Lemma lookup_s_nodup {A} k (l : list (string * A)) v :
  NoDup (map fst l) -> In (k, v) l -> lookup_s k l = Some v.
Proof.
  induction l as [|[k' v'] r IH]; cbn [lookup_s map fst]; intros Hn Hin; [destruct Hin|].
  inversion Hn as [|? ? Hk Hr]; subst.
  destruct Hin as [[= -> ->]|Hin]; [now rewrite String.eqb_refl|].
  destruct (String.eqb k k') eqn:E; [|now apply IH].
  apply String.eqb_eq in E. subst. exfalso. apply Hk. now apply (in_map fst) in Hin.
Qed.

Lemma snd_unique {A B} (l : list (A * B)) a b n :
  NoDup (map snd l) -> In (a, n) l -> In (b, n) l -> a = b.
Proof.
  induction l as [|[x y] r IH]; cbn [map snd]; intros Hn Ha Hb; [destruct Ha|].
  inversion Hn as [|? ? Hy Hr]; subst.
  destruct Ha as [Ha|Ha]; destruct Hb as [Hb|Hb].
  - congruence.
  - injection Ha as -> ->. exfalso. apply Hy. now apply (in_map snd) in Hb.
  - injection Hb as -> ->. exfalso. apply Hy. now apply (in_map snd) in Ha.
  - now apply IH.
Qed.

Lemma location_entries names : forall pos loc,
  location names pos = Some loc ->
  forall n v, In (n, v) loc <-> exists tag, In (tag, v) pos /\ lookup_s tag names = Some n.
Proof.
  induction pos as [|[tag v0] r IH]; cbn [location]; intros loc H n v.
  - injection H as <-. split; [intros []|intros [? [[] _]]].
  - destruct (lookup_s tag names) as [n0|] eqn:E; [|discriminate].
    destruct (location names r) as [rest|] eqn:Er; [|discriminate]. injection H as <-.
    split.
    + intros [[= <- <-]|Hin]; [exists tag; split; [now left|exact E]|].
      apply (IH rest eq_refl) in Hin. destruct Hin as [t [Ht Hl]]. exists t. split; [now right|exact Hl].
    + intros [t [[[= -> ->]|Ht] Hl]].
      * left. congruence.
      * right. apply (IH rest eq_refl). now exists t.
Qed.

(* T3: every master sits, on every axis, at the position its configuration gives for that axis's
   tag - whatever order the axes were declared in - provided tags and names are unambiguous *)
Theorem location_by_tag (names : list (string * string)) (pos : position) loc :
  NoDup (map snd names) -> NoDup (map fst pos) ->
  location names pos = Some loc ->
  forall tag v n, In (tag, v) pos -> lookup_s tag names = Some n -> loc_value n loc = Some v.
Proof.
  intros Hnames Hpos Hloc tag v n Hin Hn. unfold loc_value.
  apply lookup_s_nodup.
  - (* keys of the written dict are distinct *)
    rewrite map_rev. apply NoDup_rev. clear tag v n Hin Hn.
    revert loc Hloc. induction pos as [|[t v0] r IH]; cbn [location]; intros loc Hloc.
    + injection Hloc as <-. constructor.
    + destruct (lookup_s t names) as [n0|] eqn:E; [|discriminate].
      destruct (location names r) as [rest|] eqn:Er; [|discriminate]. injection Hloc as <-.
      inversion Hpos as [|? ? Ht Hr]; subst. cbn [map fst]. constructor; [|now apply IH].
      intros Hc. apply in_map_iff in Hc. destruct Hc as [[n1 v1] [Q Hin1]]. cbn in Q. subst n1.
      apply (location_entries names r rest Er) in Hin1. destruct Hin1 as [t' [Ht' Hl']].
      assert (t = t') by exact (snd_unique names t t' n0 Hnames (lookup_s_in _ _ _ E) (lookup_s_in _ _ _ Hl')).
      subst t'. apply Ht. now apply (in_map fst) in Ht'.
  - rewrite <- in_rev. apply (location_entries names pos loc Hloc). now exists tag.
Qed.

(* a position that names a tag no axis has stops the program (KeyError) *)
Theorem location_unknown_tag names pos tag v :
  In (tag, v) pos -> lookup_s tag names = None -> location names pos = None.
Proof.
  induction pos as [|[t v0] r IH]; cbn [location]; intros Hin Hn; [destruct Hin|].
  destruct Hin as [[= -> ->]|Hin]; [now rewrite Hn|].
  destruct (lookup_s t names); [|reflexivity]. now rewrite (IH Hin Hn).
Qed.

(* T4: the axis descriptor carries the configured default and a range that contains every master *)
Theorem axis_def_spec (a : axis) masters tag name lo dflt hi :
  axis_def a masters = Some (tag, name, lo, dflt, hi) ->
  tag = a_tag a /\ name = a_name a /\ dflt = a_default a /\
  forall m v, In m masters -> In (a_tag a, v) m -> lo <= v <= hi.
Proof.
  unfold axis_def. destruct (axis_range (positions_on (a_tag a) masters)) as [[lo' hi']|] eqn:E; [|discriminate].
  intros [= <- <- <- <- <-]. split; [reflexivity|]. split; [reflexivity|]. split; [reflexivity|].
  intros m v Hm Hv. eapply axis_range_contains; [exact E|].
  unfold positions_on. apply in_flat_map. exists m. split; [assumption|].
  apply in_map_iff. exists (a_tag a, v). split; [reflexivity|]. apply filter_In. split; [assumption|]. cbn. apply String.eqb_refl.
Qed.
