From Coq Require Import List NArith Bool Arith Lia.
From Verif Require Import Model.Shaping.
Import ListNotations.

Section Facts.
Variable G : Type.
Variable geqb : G -> G -> bool.
Variable name : list N -> G.
Hypothesis geqb_ok : forall a b, geqb a b = true <-> a = b.
Notation single := (single G name).
Notation rules := (rules G name).
Notation is_prefix := (is_prefix G geqb).
Notation best_rule := (best_rule G geqb).

(* single-codepoint glyph names are pairwise distinct (true of glyph_name for scalar values
   above U+0020: one ASCII letter, or >= 2 hex digits) *)
Hypothesis single_inj : forall a b, single a = single b -> a = b.

Lemma is_prefix_spec p l : is_prefix p l = true <-> exists t, l = p ++ t.
Proof.
  revert l; induction p as [|x p IH]; intros l; simpl.
  - split; [intros _; exists l; reflexivity|reflexivity].
  - destruct l as [|y l]; [split; [discriminate|intros [t Ht]; discriminate]|].
    rewrite andb_true_iff, geqb_ok, IH. split.
    + intros [-> [t ->]]. exists t. reflexivity.
    + intros [t Ht]. injection Ht as -> ->. split; [reflexivity|exists t; reflexivity].
Qed.

Lemma map_single_inj a b : map single a = map single b -> a = b.
Proof.
  revert b; induction a as [|x a IH]; intros [|y b] H; simpl in H; try discriminate; [reflexivity|].
  injection H as Hx Hr. f_equal; [apply single_inj; exact Hx|apply IH; exact Hr].
Qed.
Lemma map_single_prefix a b t : map single b = map single a ++ t -> exists t', b = a ++ t'.
Proof.
  revert b; induction a as [|x a IH]; intros b H; simpl in H.
  - exists b. reflexivity.
  - destruct b as [|y b]; [discriminate|]. simpl in H. injection H as Hx Hr.
    apply single_inj in Hx. subst y. destruct (IH b Hr) as [t' ->]. exists t'. reflexivity.
Qed.

(* best_rule returns a matching rule of maximal length, and Some whenever one matches *)
Lemma best_rule_spec rs gl :
  match best_rule rs gl with
  | Some r => In r rs /\ is_prefix (fst r) gl = true /\
              forall r', In r' rs -> is_prefix (fst r') gl = true -> length (fst r') <= length (fst r)
  | None => forall r', In r' rs -> is_prefix (fst r') gl = false
  end.
Proof.
  induction rs as [|r rest IH]; simpl; [intros ? []|].
  destruct (is_prefix (fst r) gl) eqn:E.
  - destruct (best_rule rest gl) as [r'|].
    + destruct IH as (Hin & Hp & Hmax). destruct (Nat.ltb_spec (length (fst r)) (length (fst r'))).
      * split; [right; exact Hin|]. split; [exact Hp|]. intros x [<-|Hx] Hpx; [lia|auto].
      * split; [left; reflexivity|]. split; [exact E|]. intros x [<-|Hx] Hpx; [lia|].
        specialize (Hmax x Hx Hpx). lia.
    + split; [left; reflexivity|]. split; [exact E|]. intros x [<-|Hx] Hpx; [lia|].
      rewrite (IH x Hx) in Hpx. discriminate.
  - destruct (best_rule rest gl) as [r'|].
    + destruct IH as (Hin & Hp & Hmax). split; [right; exact Hin|]. split; [exact Hp|].
      intros x [<-|Hx] Hpx; [congruence|auto].
    + intros x [<-|Hx]; [exact E|auto].
Qed.

Lemma in_rules S r : In r (rules S) <-> exists s, In s S /\ 1 < length s /\ r = (map single s, name s).
Proof.
  unfold Shaping.rules. rewrite in_map_iff. split.
  - intros (s & <- & Hs). apply filter_In in Hs. destruct Hs as [Hs Hl]. apply Nat.ltb_lt in Hl. eauto.
  - intros (s & Hs & Hl & ->). exists s. split; [reflexivity|]. apply filter_In. split; [exact Hs|]. apply Nat.ltb_lt. exact Hl.
Qed.

(* T1: every multi-codepoint source sequence shapes to exactly its own glyph, whatever other
   sequences (prefixes, extensions, sequences sharing components) are in the font *)
Theorem shape_sequence (S : list (list N)) (s : list N) :
  In s S -> 1 < length s -> shape G geqb name S s = [name s].
Proof.
  intros Hs Hl. unfold shape. rewrite map_length.
  set (gl := map single s).
  destruct s as [|c0 s']; [simpl in Hl; lia|].
  cbn [apply_liga]. unfold gl at 1. cbn [map]. fold gl.
  pose proof (best_rule_spec (rules S) gl) as Hb.
  destruct (best_rule (rules S) gl) as [[comps tgt]|].
  - destruct Hb as (Hin & Hp & Hmax). cbn [fst] in *.
    apply in_rules in Hin. destruct Hin as (r & Hr & Hrl & E). injection E as -> ->.
    apply is_prefix_spec in Hp. destruct Hp as [t Ht]. unfold gl in Ht.
    destruct (map_single_prefix r (c0 :: s') t Ht) as [t' Et'].
    (* the rule of s itself matches, so the best one is at least as long: r = s *)
    assert (Hself : length (map single (c0 :: s')) <= length (map single r)).
    { apply (Hmax (map single (c0 :: s'), name (c0 :: s'))).
      - apply in_rules. exists (c0 :: s'). auto.
      - apply is_prefix_spec. exists []. rewrite app_nil_r. reflexivity. }
    rewrite !map_length in Hself. rewrite Et', app_length in Hself.
    assert (t' = []) by (destruct t'; [reflexivity|simpl in Hself; lia]). subst t'. rewrite app_nil_r in Et'. subst r.
    rewrite skipn_all2 by (unfold gl; lia).
    destruct (length s'); reflexivity.
  - exfalso.
    assert (Hin : In (map single (c0 :: s'), name (c0 :: s')) (rules S)) by (apply in_rules; exists (c0 :: s'); auto).
    specialize (Hb _ Hin). cbn [fst] in Hb.
    assert (H : is_prefix (map single (c0 :: s')) gl = true) by (apply is_prefix_spec; exists []; rewrite app_nil_r; reflexivity).
    congruence.
Qed.

(* a single codepoint is left alone by the ligature feature: cmap decides *)
Theorem shape_single (S : list (list N)) (c : N) : shape G geqb name S [c] = [single c].
Proof.
  unfold shape. simpl.
  pose proof (best_rule_spec (rules S) [single c]) as Hb.
  destruct (best_rule (rules S) [single c]) as [[comps tgt]|]; [|reflexivity].
  destruct Hb as (Hin & Hp & _). cbn [fst] in *.
  apply in_rules in Hin. destruct Hin as (r & _ & Hrl & E). injection E as -> ->.
  apply is_prefix_spec in Hp. destruct Hp as [t Ht].
  exfalso. assert (length [single c] = length (map single r ++ t)) by (rewrite Ht; reflexivity).
  rewrite app_length, map_length in H. simpl in H. lia.
Qed.
End Facts.

(* T2: after _ensure_codepoints_will_have_glyphs every codepoint of every sequence has a glyph
   with a cmap entry: its own source's, or a blank one; and blanks never shadow a source *)
Theorem every_codepoint_has_a_glyph (seqs : list (list N)) (s : list N) (c : N) :
  In s seqs -> In c s -> In c (direct_cps seqs) \/ In c (need_blanks seqs).
Proof.
  intros Hs Hc. destruct (existsb (N.eqb c) (direct_cps seqs)) eqn:E.
  - left. apply existsb_exists in E. destruct E as (x & Hx & Ex). apply N.eqb_eq in Ex. subst. exact Hx.
  - right. unfold need_blanks. apply filter_In. split; [|rewrite E; reflexivity].
    unfold all_cps. apply in_concat. exists s. auto.
Qed.
Theorem blanks_disjoint_from_sources (seqs : list (list N)) (c : N) :
  In c (need_blanks seqs) -> ~ In c (direct_cps seqs).
Proof.
  unfold need_blanks. intros H Hd. apply filter_In in H. destruct H as [_ H].
  apply negb_true_iff in H. assert (existsb (N.eqb c) (direct_cps seqs) = true).
  { apply existsb_exists. exists c. split; [exact Hd|apply N.eqb_refl]. }
  congruence.
Qed.
