From Coq Require Import List String Bool.
From Verif Require Import Model.Config.

Lemma flag_precedence (A : Type) (flag file : option A) (default v : A) :
  (flag = Some v -> pop_flag flag file default = v) /\
  (flag = None -> file = Some v -> pop_flag flag file default = v) /\
  (flag = None -> file = None -> pop_flag flag file default = default).
Proof. repeat split; intros; subst; reflexivity. Qed.
