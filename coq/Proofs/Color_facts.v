From Coq Require Import List ZArith QArith Qcanon Bool.
From Verif Require Import Model.Field Model.Color.

Lemma optZ_eqb_ok a b : optZ_eqb a b = true <-> a = b.
Proof.
  destruct a, b; simpl; try (split; congruence).
  rewrite Z.eqb_eq. split; congruence.
Qed.

Lemma color_eqb_ok (O : fops) : feqb_ok O -> forall a b : color O, color_eqb a b = true <-> a = b.
Proof.
  intros E [r g b al i] [r' g' b' al' i']; unfold color_eqb; simpl.
  rewrite !andb_true_iff, !Z.eqb_eq, (E al al'), optZ_eqb_ok.
  split; [intros [[[[-> ->] ->] ->] ->]; reflexivity|intros H; inversion H; auto].
Qed.
