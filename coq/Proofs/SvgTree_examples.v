(* A concrete graph with every supported construct, on exact rationals: the hypotheses of the
   traversal theorem are satisfiable and its conclusion is non-trivial (4 layers, a transform
   attribute, a <g transform>, a <g opacity>). *)
From Coq Require Import List ZArith QArith Qcanon Bool String.
From Verif Require Import Model.Field Model.Affine Model.Color Model.Paint Model.ColrToSvg Model.SvgTree.
Import ListNotations.
Local Open Scope Qc_scope.

Definition qz (n : Z) : Qc := Q2Qc (n # 1).
Definition ex_V : aff QcOps := @Aff QcOps (Q2Qc (1 # 8)) 0 0 (Q2Qc (-1 # 8)) 0 (qz 100).
Definition red : color QcOps := @Color QcOps 255 0 0 1 None.
Definition half_black : color QcOps := @Color QcOps 0 0 0 (Q2Qc (1 # 2)) None.
Definition grad : paint QcOps :=
  @PLinear QcOps EPad [] (@Pt QcOps (qz 100) (qz 100)) (@Pt QcOps (qz 400) (qz 100)) (@Pt QcOps (qz 100) (qz 400)).
Definition ex_env (g : string) : option (paint QcOps) :=
  if String.eqb g "inner" then Some (PGlyph "tri" (@PTranslate QcOps (qz 5) (qz 7) grad)) else None.
Definition ex_root : paint QcOps :=
  PColrLayers [
    PGlyph "sq" (PSolid red);
    @PScale QcOps (qz 2) (qz 3) (PGlyph "bar" (PSolid red));
    @PTranslate QcOps (qz 10) (qz 20) (@PColrGlyph QcOps "inner");
    @PComposite QcOps 5 (@PRotate QcOps 0 1 (PGlyph "sq" grad)) (PSolid half_black) ].

Definition ex_layers : option nat :=
  match to_svg ex_V ex_env 16 ex_root aid with
  | Some els => Some (List.length (svg_sem_list aid [] els))
  | None => None
  end.
Lemma traversal_example : ex_layers = Some 4%nat.
Proof. vm_compute. reflexivity. Qed.
