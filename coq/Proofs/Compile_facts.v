From Coq Require Import List Arith Bool Lia.
From Verif Require Import Model.Compile.
Import ListNotations.

Section Facts.
Variables (P A : Type).
Variable alpha_ok : A -> bool.
Notation tree := (tree P A).
Notation forest := (forest P A).
Notation layers := (list (list tree)).
Notation step := (step P A alpha_ok).

Scheme tree_ind2 := Induction for Compile.tree Sort Prop
with forest_ind2 := Induction for Compile.forest Sort Prop.
Combined Scheme tree_forest_ind from tree_ind2, forest_ind2.

(* the state after a subtree rooted at depth d has been consumed: layers has exactly d
   levels and the subtree was appended to level d-1 *)
Definition push (d : nat) (x : tree) (ls : layers) : option layers :=
  append_at P A (d - 1) x (pad P A d ls).

Lemma pad_length n : forall ls, length ls <= n -> length (pad P A n ls) = n.
Proof.
  induction n as [|n IH]; intros ls H; simpl.
  - destruct ls; [reflexivity|simpl in H; lia].
  - destruct ls as [|l r]; simpl; rewrite IH; simpl in *; lia.
Qed.
Lemma pad_id n : forall ls, length ls = n -> pad P A n ls = ls.
Proof.
  induction n as [|n IH]; intros ls H; simpl; [reflexivity|].
  destruct ls as [|l r]; [discriminate|]. simpl in H. rewrite IH by lia. reflexivity.
Qed.
Lemma append_at_length i x : forall ls ls', append_at P A i x ls = Some ls' -> length ls' = length ls.
Proof.
  induction i as [|i IH]; intros [|l r] ls' H; simpl in H; try discriminate.
  - injection H as <-. reflexivity.
  - destruct (append_at P A i x r) eqn:E; [|discriminate]. injection H as <-. simpl. f_equal. eauto.
Qed.
Lemma append_at_some i x : forall ls, i < length ls -> exists ls', append_at P A i x ls = Some ls'.
Proof.
  induction i as [|i IH]; intros [|l r] H; simpl in *; try lia.
  - eauto.
  - destruct (IH r ltac:(lia)) as [r' E]. rewrite E. eauto.
Qed.

(* level d (0-based) of the state, and everything below it *)
Lemma append_at_nth i x : forall ls ls', append_at P A i x ls = Some ls' ->
  nth i ls' [] = nth i ls [] ++ [x] /\ firstn i ls' = firstn i ls /\ skipn (S i) ls' = skipn (S i) ls.
Proof.
  induction i as [|i IH]; intros [|l r] ls' H; simpl in H; try discriminate.
  - injection H as <-. simpl. auto.
  - destruct (append_at P A i x r) eqn:E; [|discriminate]. injection H as <-.
    destruct (IH r l0 E) as (H1 & H2 & H3). simpl. rewrite H2. auto.
Qed.

Definition run (cs : list (nat * ctx P A)) (st : option (bool * layers)) := fold_left step cs st.

Lemma run_app a b st : run (a ++ b) st = run b (run a st).
Proof. unfold run. apply fold_left_app. Qed.

(* consuming, in reverse, the contexts of a list of sibling subtrees at depth d (d >= 1)
   from a state with at most d levels appends them (last sibling first) to level d-1 and
   leaves exactly d levels *)
Fixpoint push_all (d : nat) (xs : list tree) (ls : layers) : option layers :=
  match xs with
  | [] => Some (pad P A d ls)
  | x :: r => match push_all d r ls with Some l1 => push d x l1 | None => None end
  end.

Lemma push_all_length d xs : forall ls ls', 1 <= d -> length ls <= d ->
  push_all d xs ls = Some ls' -> length ls' = d.
Proof.
  induction xs as [|x r IH]; intros ls ls' Hd Hl H; simpl in H.
  - injection H as <-. apply pad_length; assumption.
  - destruct (push_all d r ls) as [l1|] eqn:E; [|discriminate].
    unfold push in H. pose proof (IH ls l1 Hd Hl E) as L1.
    rewrite (pad_id d l1 L1) in H. apply append_at_length in H. lia.
Qed.

Lemma nth_pad n : forall k ls, nth k (pad P A n ls) [] = nth k ls [].
Proof.
  induction n as [|n IHn]; intros k ls; simpl; [reflexivity|].
  destruct ls as [|l r]; destruct k; simpl; auto.
  rewrite IHn. destruct k; reflexivity.
Qed.

Lemma push_all_level d xs : forall ls ls', 1 <= d -> length ls <= d ->
  push_all d xs ls = Some ls' ->
  nth (d - 1) ls' [] = nth (d - 1) ls [] ++ rev xs /\ firstn (d - 1) ls' = firstn (d - 1) (pad P A d ls).
Proof.
  induction xs as [|x r IH]; intros ls ls' Hd Hl H; simpl in H.
  - injection H as <-. simpl. rewrite app_nil_r. split; [apply nth_pad|reflexivity].
  - destruct (push_all d r ls) as [l1|] eqn:E; [|discriminate].
    destruct (IH ls l1 Hd Hl E) as [N1 F1]. pose proof (push_all_length d r ls l1 Hd Hl E) as L1.
    unfold push in H. rewrite (pad_id d l1 L1) in H.
    destruct (append_at_nth _ _ _ _ H) as (H1 & H2 & _).
    rewrite H1, N1, H2, F1. simpl. rewrite app_assoc. auto.
Qed.

Theorem run_tree_forest :
  (forall t : tree, forall d ls seen, 1 <= d -> length ls <= d -> wf P A alpha_ok t = true ->
     exists ls', push d t ls = Some ls' /\
       run (rev (pre P A d t)) (Some (seen, ls)) = Some (seen, ls')) /\
  (forall f : forest, forall d ls seen, 1 <= d -> length ls <= d -> wf_forest P A alpha_ok f = true ->
     exists ls', push_all d (list_of P A f) ls = Some ls' /\
       (f <> FNil P A -> run (rev (pre_forest P A d f)) (Some (seen, ls)) = Some (seen, ls')) /\
       (f = FNil P A -> run (rev (pre_forest P A d f)) (Some (seen, ls)) = Some (seen, ls))).
Proof.
  apply tree_forest_ind.
  - (* Leaf *)
    intros p d ls seen Hd Hl _.
    destruct (append_at_some (d - 1) (Leaf P A p) (pad P A d ls)) as [ls' E].
    { rewrite pad_length by assumption. lia. }
    exists ls'. split; [exact E|]. simpl. unfold Compile.step.
    destruct (Nat.eqb_spec d 0); [lia|].
    rewrite pad_length by assumption. rewrite Nat.eqb_refl. unfold push in E. rewrite E. reflexivity.
  - (* Node *)
    intros a cs IHf d ls seen Hd Hl Hwf. simpl in Hwf.
    apply andb_prop in Hwf. destruct Hwf as [Hwf Hcs]. apply andb_prop in Hwf. destruct Hwf as [Ha Hn].
    apply Nat.ltb_lt in Hn.
    destruct (IHf (S d) ls seen ltac:(lia) ltac:(lia) Hcs) as (l1 & E1 & Hrun & _).
    assert (Hne : cs <> FNil P A) by (destruct cs; [simpl in Hn; lia|discriminate]).
    specialize (Hrun Hne).
    pose proof (push_all_length (S d) _ ls l1 ltac:(lia) ltac:(lia) E1) as L1.
    destruct (push_all_level (S d) _ ls l1 ltac:(lia) ltac:(lia) E1) as [N1 F1].
    replace (S d - 1) with d in * by lia.
    assert (Hnth : nth d ls [] = []) by (apply nth_overflow; lia).
    rewrite Hnth in N1. simpl in N1.
    assert (Hfirst : firstn d l1 = pad P A d ls).
    { rewrite F1. clear - Hl. revert ls Hl. induction d as [|d IH]; intros ls Hl.
      - destruct ls; [reflexivity|simpl in Hl; lia].
      - change (pad P A (S (S d)) ls) with (match ls with [] => [] :: pad P A (S d) [] | l :: r => l :: pad P A (S d) r end).
        destruct ls as [|l r]; cbn [firstn pad]; f_equal.
        + apply (IH []). simpl; lia.
        + apply IH. simpl in Hl. lia. }
    destruct (append_at_some (d - 1) (Node P A a cs) (pad P A d ls)) as [ls' E].
    { rewrite pad_length by assumption. lia. }
    exists ls'. split; [exact E|].
    change (pre P A d (Node P A a cs)) with ((d, CGroup P A a) :: pre_forest P A (S d) cs).
    cbn [rev]. rewrite run_app, Hrun. cbn [run fold_left]. unfold Compile.step.
    destruct (Nat.eqb_spec d 0); [lia|]. rewrite Ha. cbn [negb].
    rewrite L1, Nat.eqb_refl. cbn [negb]. rewrite N1, rev_length.
    assert (Hlen : length (list_of P A cs) = flen P A cs) by (clear; induction cs; simpl; auto).
    rewrite Hlen. destruct (Nat.ltb_spec 1 (flen P A cs)); [|lia]. cbn [negb].
    rewrite rev_involutive, Hfirst.
    assert (Hfo : forest_of P A (list_of P A cs) = cs) by (clear; induction cs; simpl; congruence).
    rewrite Hfo. unfold push in E. rewrite E. reflexivity.
  - (* FNil *)
    intros d ls seen Hd Hl _. exists (pad P A d ls). split; [reflexivity|]. split; [congruence|reflexivity].
  - (* FCons *)
    intros t IHt f IHf d ls seen Hd Hl Hwf. simpl in Hwf. apply andb_prop in Hwf. destruct Hwf as [Ht Hf].
    destruct (IHf d ls seen Hd Hl Hf) as (l1 & E1 & Hrun1 & Hrun0).
    pose proof (push_all_length d _ ls l1 Hd Hl E1) as L1.
    destruct (IHt d l1 seen Hd ltac:(lia) Ht) as (l2 & E2 & Hrun2).
    exists l2. simpl list_of. simpl push_all. rewrite E1. split; [exact E2|]. split; [|discriminate].
    intros _. change (pre_forest P A d (FCons P A t f)) with (pre P A d t ++ pre_forest P A d f).
    rewrite rev_app_distr, run_app.
    destruct f as [|t' f'].
    + rewrite (Hrun0 eq_refl). simpl in E1. injection E1 as <-.
      (* pushing onto the padded state is the same as pushing onto the original *)
      destruct (IHt d ls seen Hd Hl Ht) as (l3 & E3 & Hrun3). rewrite Hrun3. f_equal. f_equal.
      unfold push in E2, E3. rewrite (pad_id d (pad P A d ls)) in E2 by (apply pad_length; assumption).
      congruence.
    + rewrite (Hrun1 ltac:(discriminate)). exact Hrun2.
Qed.

(* T3: for every well-formed source the loop returns the root's children, as trees, in
   source order -- nothing dropped, reordered or regrouped -- and no assertion fires *)
Theorem painted_layers_spec (roots : forest) :
  wf_forest P A alpha_ok roots = true ->
  painted_layers P A alpha_ok (depth_first P A roots) = Some (list_of P A roots).
Proof.
  intros Hwf. unfold painted_layers, depth_first.
  change ((0, CRoot P A) :: (1, CDefs P A) :: pre_forest P A 1 roots)
    with ([(0, CRoot P A); (1, CDefs P A)] ++ pre_forest P A 1 roots).
  rewrite rev_app_distr. fold (run (rev (pre_forest P A 1 roots) ++ rev [(0, CRoot P A); (1, CDefs P A)]) (Some (false, []))).
  rewrite run_app.
  destruct (proj2 run_tree_forest roots 1 [] false ltac:(lia) ltac:(simpl; lia) Hwf) as (l1 & E1 & Hrun1 & Hrun0).
  destruct roots as [|t f].
  - rewrite (Hrun0 eq_refl). reflexivity.
  - rewrite (Hrun1 ltac:(discriminate)).
    pose proof (push_all_length 1 _ [] l1 ltac:(lia) ltac:(simpl; lia) E1) as L1.
    destruct (push_all_level 1 _ [] l1 ltac:(lia) ltac:(simpl; lia) E1) as [N1 _].
    destruct l1 as [|l [|? ?]]; simpl in L1; try lia.
    change (nth (1 - 1) [l] []) with l in N1. change (nth (1 - 1) (@nil (list tree)) []) with (@nil tree) in N1.
    rewrite app_nil_l in N1. subst l.
    cbn [rev app run fold_left Compile.step Nat.eqb negb]. rewrite rev_involutive. reflexivity.
Qed.
End Facts.
