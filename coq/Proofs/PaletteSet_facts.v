(* C15: the palette depends only on the *set* of colours ("a deterministic order"): permuting
   or repeating the colours handed to uniq_sort_cpal_colors changes nothing *)
From Coq Require Import List Arith Bool Lia Permutation.
From Verif Require Import Model.Palette Proofs.Palette_facts.
Import ListNotations.

Local Arguments Nat.max : simpl never.
Section Facts.
Variable C : Type.
Variable ceqb : C -> C -> bool.
Variable cidx : C -> option nat.
Variable cltb : C -> C -> bool.
Variable black : C.
Hypothesis ceqb_ok : forall a b, ceqb a b = true <-> a = b.
(* the rgba comparison is a strict weak order that separates different unindexed colours *)
Hypothesis lt_irrefl : forall a, cltb a a = false.
Hypothesis lt_trans : forall a b c, cltb a b = true -> cltb b c = true -> cltb a c = true.
Hypothesis lt_negtrans : forall a b c, cltb a b = false -> cltb b c = false -> cltb a c = false.
Hypothesis lt_total : forall a b, a <> b -> cidx a = None -> cidx b = None -> cltb a b = true \/ cltb b a = true.

Notation is_indexed := (is_indexed C cidx).
Notation idx_of := (idx_of C cidx).
Notation isort := (isort C).
Notation insert_by := (insert_by C).
Notation the_set := (the_set C ceqb black).

(* ---------- generic: sorted permutations under an antisymmetric order are equal ---------- *)
Section Sorted.
Variable le : C -> C -> bool.
Fixpoint lsorted (l : list C) : Prop :=
  match l with [] => True | x :: r => (forall y, In y r -> le x y = true) /\ lsorted r end.
Hypothesis le_total : forall a b, le a b = false -> le b a = true.
Hypothesis le_trans : forall a b c, le a b = true -> le b c = true -> le a c = true.

Lemma insert_lsorted x l : lsorted l -> lsorted (insert_by le x l).
Proof.
  induction l as [|y r IH]; simpl; intros H; [split; [intros ? []|exact I]|].
  destruct H as [Hy Hr]. destruct (le x y) eqn:E.
  - simpl. split; [|split; assumption]. intros z [<-|Hz]; [exact E|]. apply (le_trans _ y); auto.
  - simpl. split; [|apply IH; exact Hr]. intros z Hz.
    apply (Permutation_in _ (insert_perm C le x r)) in Hz. destruct Hz as [<-|Hz]; [apply le_total; exact E|auto].
Qed.
Lemma isort_lsorted l : lsorted (isort le l).
Proof. induction l; simpl; [exact I|apply insert_lsorted; assumption]. Qed.

Lemma lsorted_perm_eq l1 : forall l2, lsorted l1 -> lsorted l2 -> Permutation l1 l2 ->
  (forall a b, In a l1 -> In b l1 -> le a b = true -> le b a = true -> a = b) -> l1 = l2.
Proof.
  induction l1 as [|x r1 IH]; intros l2 S1 S2 P Anti.
  - apply Permutation_nil in P. auto.
  - destruct l2 as [|y r2]; [apply Permutation_sym, Permutation_nil in P; discriminate|].
    destruct S1 as [Hx S1], S2 as [Hy S2].
    assert (x = y).
    { assert (Hxin : In x (y :: r2)) by (apply (Permutation_in _ P); left; reflexivity).
      assert (Hyin : In y (x :: r1)) by (apply (Permutation_in _ (Permutation_sym P)); left; reflexivity).
      destruct Hxin as [->|Hxin]; [reflexivity|]. destruct Hyin as [->|Hyin]; [reflexivity|].
      apply Anti; [left; reflexivity|right; exact Hyin|apply Hx; exact Hyin|apply Hy; exact Hxin]. }
    subst y. f_equal. apply IH; try assumption.
    + apply Permutation_cons_inv in P. exact P.
    + intros a b Ha Hb. apply Anti; right; assumption.
Qed.
End Sorted.

Lemma filter_perm (p : C -> bool) l1 l2 : Permutation l1 l2 -> Permutation (filter p l1) (filter p l2).
Proof.
  induction 1 as [|x l l' _ IH|x y l|l l' l'' _ IH1 _ IH2]; simpl.
  - reflexivity.
  - destruct (p x); [constructor|]; exact IH.
  - destruct (p x), (p y); try reflexivity. apply perm_swap.
  - etransitivity; eassumption.
Qed.

(* ---------- the pieces of the palette computation are functions of the set ---------- *)
Lemma conflict_with_iff c l : conflict_with C cidx c l = true <->
  exists x i, In x l /\ cidx c = Some i /\ cidx x = Some i.
Proof.
  induction l as [|y r IH]; simpl.
  - split; [discriminate|intros (x & i & [] & _)].
  - rewrite orb_true_iff, IH. split.
    + intros [H|(x & i & Hx & Hc & Hxi)].
      * destruct (cidx c) as [i|] eqn:Ec; [|discriminate]. destruct (cidx y) as [j|] eqn:Ey; [|discriminate].
        apply Nat.eqb_eq in H. subst j. exists y, i. auto.
      * exists x, i. auto.
    + intros (x & i & [<-|Hx] & Hc & Hxi).
      * left. rewrite Hc, Hxi. apply Nat.eqb_refl.
      * right. exists x, i. auto.
Qed.
Lemma has_conflict_iff l : NoDup l -> (has_conflict C cidx l = true <->
  exists a b i, In a l /\ In b l /\ a <> b /\ cidx a = Some i /\ cidx b = Some i).
Proof.
  induction l as [|x r IH]; intros Hn; simpl.
  - split; [discriminate|intros (a & _ & _ & [] & _)].
  - inversion Hn as [|? ? Hx Hr]; subst. rewrite orb_true_iff, conflict_with_iff, (IH Hr). split.
    + intros [(y & i & Hy & Hc & Hyi)|(a & b & i & Ha & Hb & Hab & Hai & Hbi)].
      * exists x, y, i. repeat split; auto. intros ->. contradiction.
      * exists a, b, i. repeat split; auto.
    + intros (a & b & i & [<-|Ha] & [<-|Hb] & Hab & Hai & Hbi).
      * contradiction.
      * left. exists b, i. auto.
      * left. exists a, i. auto.
      * right. exists a, b, i. repeat split; auto.
Qed.
Lemma has_conflict_perm l1 l2 : NoDup l1 -> Permutation l1 l2 ->
  has_conflict C cidx l1 = has_conflict C cidx l2.
Proof.
  intros Hn P. assert (Hn2 : NoDup l2) by (eapply Permutation_NoDup; eassumption).
  apply eq_true_iff_eq. rewrite (has_conflict_iff l1 Hn), (has_conflict_iff l2 Hn2).
  split; intros (a & b & i & Ha & Hb & R); exists a, b, i; (split; [|split]; [| |exact R]);
    first [eapply Permutation_in; [exact P|assumption] | eapply Permutation_in; [apply Permutation_sym; exact P|assumption]].
Qed.
Lemma max_idx_perm l1 l2 : Permutation l1 l2 -> max_idx_plus1 C cidx l1 = max_idx_plus1 C cidx l2.
Proof.
  induction 1 as [|x l l' _ IH|x y l|l l' l'' _ IH1 _ IH2]; simpl.
  - reflexivity.
  - rewrite IH. reflexivity.
  - destruct (cidx x), (cidx y); try reflexivity. lia.
  - congruence.
Qed.

Lemma idx_le_total a b : idx_le C cidx a b = false -> idx_le C cidx b a = true.
Proof. unfold idx_le. intros H. apply Nat.leb_gt in H. apply Nat.leb_le. lia. Qed.
Lemma idx_le_trans a b c : idx_le C cidx a b = true -> idx_le C cidx b c = true -> idx_le C cidx a c = true.
Proof. unfold idx_le. intros H1 H2. apply Nat.leb_le in H1, H2. apply Nat.leb_le. lia. Qed.
Lemma rgba_le_total a b : rgba_le C cltb a b = false -> rgba_le C cltb b a = true.
Proof.
  unfold rgba_le. intros H. apply negb_false_iff in H. apply negb_true_iff.
  destruct (cltb a b) eqn:E; [|reflexivity]. pose proof (lt_trans _ _ _ H E) as X. rewrite lt_irrefl in X. discriminate.
Qed.
Lemma rgba_le_trans a b c : rgba_le C cltb a b = true -> rgba_le C cltb b c = true -> rgba_le C cltb a c = true.
Proof.
  unfold rgba_le. intros H1 H2. apply negb_true_iff in H1, H2. apply negb_true_iff. eapply lt_negtrans; eassumption.
Qed.

Lemma indexed_sorted_perm l1 l2 : NoDup l1 -> has_conflict C cidx l1 = false -> Permutation l1 l2 ->
  indexed_sorted C cidx l1 = indexed_sorted C cidx l2.
Proof.
  intros Hn Hc P. unfold indexed_sorted.
  apply (lsorted_perm_eq (idx_le C cidx)).
  - apply isort_lsorted; [apply idx_le_total|apply idx_le_trans].
  - apply isort_lsorted; [apply idx_le_total|apply idx_le_trans].
  - rewrite !isort_perm. apply filter_perm. exact P.
  - intros a b Ha Hb H1 H2. apply isort_in, filter_In in Ha, Hb. destruct Ha as [Ha Hai], Hb as [Hb Hbi].
    unfold idx_le in H1, H2. apply Nat.leb_le in H1, H2.
    destruct (ceqb a b) eqn:E; [apply ceqb_ok; exact E|]. exfalso.
    assert (a <> b) by (intros ->; rewrite (proj2 (ceqb_ok b b) eq_refl) in E; discriminate).
    assert (Hcf : has_conflict C cidx l1 = true).
    { apply (has_conflict_iff l1 Hn). exists a, b, (idx_of a). repeat split; auto.
      - apply indexed_cidx. exact Hai.
      - rewrite (indexed_cidx C cidx b Hbi). f_equal. lia. }
    congruence.
Qed.
Lemma unindexed_sorted_perm l1 l2 : NoDup l1 -> Permutation l1 l2 ->
  unindexed_sorted C cidx cltb l1 = unindexed_sorted C cidx cltb l2.
Proof.
  intros Hn P. unfold unindexed_sorted.
  apply (lsorted_perm_eq (rgba_le C cltb)).
  - apply isort_lsorted; [apply rgba_le_total|apply rgba_le_trans].
  - apply isort_lsorted; [apply rgba_le_total|apply rgba_le_trans].
  - rewrite !isort_perm. apply filter_perm. exact P.
  - intros a b Ha Hb H1 H2. apply isort_in, filter_In in Ha, Hb. destruct Ha as [Ha Hai], Hb as [Hb Hbi].
    apply negb_true_iff in Hai, Hbi.
    destruct (ceqb a b) eqn:E; [apply ceqb_ok; exact E|]. exfalso.
    assert (Hab : a <> b) by (intros ->; rewrite (proj2 (ceqb_ok b b) eq_refl) in E; discriminate).
    unfold rgba_le in H1, H2. apply negb_true_iff in H1, H2.
    destruct (lt_total a b Hab (unindexed_cidx C cidx a Hai) (unindexed_cidx C cidx b Hbi)); congruence.
Qed.

Lemma the_set_perm l1 l2 : (forall c, In c l1 <-> In c l2) -> Permutation (the_set l1) (the_set l2) /\ NoDup (the_set l1).
Proof.
  intros H. assert (P : Permutation (dedup C ceqb l1) (dedup C ceqb l2)).
  { apply NoDup_Permutation; [apply dedup_nodup; exact ceqb_ok|apply dedup_nodup; exact ceqb_ok|].
    intros c. rewrite !(dedup_in C ceqb ceqb_ok). apply H. }
  unfold Palette_facts.the_set. destruct (dedup C ceqb l1) as [|x r] eqn:E1.
  - apply Permutation_nil in P. rewrite P. split; [reflexivity|constructor; [intros []|constructor]].
  - destruct (dedup C ceqb l2) as [|y r2] eqn:E2; [apply Permutation_sym, Permutation_nil in P; discriminate|].
    split; [exact P|]. rewrite <- E1. apply dedup_nodup. exact ceqb_ok.
Qed.

(* T: the palette is a function of the set of colours *)
Theorem palette_set_invariant (l1 l2 : list C) :
  (forall c, In c l1 <-> In c l2) ->
  uniq_sort_cpal_colors C ceqb cidx cltb black l1 = uniq_sort_cpal_colors C ceqb cidx cltb black l2.
Proof.
  intros H. destruct (the_set_perm l1 l2 H) as [P Hn].
  unfold uniq_sort_cpal_colors. fold (the_set l1). fold (the_set l2).
  rewrite <- (has_conflict_perm _ _ Hn P).
  destruct (has_conflict C cidx (the_set l1)) eqn:Ec; [reflexivity|].
  rewrite <- (Permutation_length P), <- (max_idx_perm _ _ P).
  unfold sorted_deque. rewrite <- (indexed_sorted_perm _ _ Hn Ec P), <- (unindexed_sorted_perm _ _ Hn P). reflexivity.
Qed.
End Facts.
