From Coq Require Import List ZArith Bool Field Ring Permutation Lia.
From Verif Require Import Model.Field Model.Affine Model.OtSvg Proofs.Affine_facts.
Import ListNotations.
Local Open Scope F_scope.

Section UseFacts.
Context {O : fops}.
Hypothesis Fth : field_theory (f0 O) (f1 O) (fadd O) (fmul O) (fsub O) (fopp O) (fdiv O) (finv O) eq.
Hypothesis Eqb : feqb_ok O.
Add Field FF4 : Fth.

(* T3: the x/y + residual-matrix split of a reuse transform denotes exactly that transform *)
Theorem use_element_sem (R : aff O) : use_effective (use_attrs R) = R.
Proof.
  unfold use_effective, use_attrs. rewrite (atranslate_spec Fth Eqb).
  destruct R as [a b c d e f]. apply aff_ext; simpl; ring.
Qed.
End UseFacts.

Local Close Scope F_scope.
Section OrderFacts.
Variable G : Type.
Variable geqb : G -> G -> bool.
Hypothesis geqb_ok : forall a b, geqb a b = true <-> a = b.
Notation gmem := (gmem G geqb).
Notation ensure_order := (ensure_order G geqb).

Lemma gmem_in g l : gmem g l = true <-> In g l.
Proof.
  induction l as [|x r IH]; simpl; [split; [discriminate|intros []]|].
  rewrite orb_true_iff, IH, geqb_ok. split; intros [H|H]; auto.
Qed.

Lemma filter_split_perm (p : G -> bool) (l : list G) :
  Permutation l (filter (fun g => negb (p g)) l ++ filter p l).
Proof.
  induction l as [|x r IH]; simpl; [reflexivity|]. destruct (p x); simpl.
  - apply Permutation_cons_app. exact IH.
  - constructor. exact IH.
Qed.

(* T6a: the new order is a permutation of the old one, provided the grouped glyphs are
   distinct glyphs of the font (the assertions of the code) *)
Theorem ensure_order_perm (old : list G) (groups : list (list G)) :
  NoDup old -> NoDup (concat groups) -> (forall g, In g (concat groups) -> In g old) ->
  Permutation (ensure_order old groups) old.
Proof.
  intros Ho Hg Hin. unfold OtSvg.ensure_order.
  rewrite (filter_split_perm (fun g => gmem g (concat groups)) old) at 2.
  apply Permutation_app_head.
  apply NoDup_Permutation; [exact Hg|apply NoDup_filter; exact Ho|].
  intros x. rewrite filter_In, gmem_in. split; [intros H; split; auto|tauto].
Qed.

(* T6b: each group occupies consecutive glyph ids, in group order, right after the
   ungrouped glyphs; ids assigned by the running counter are positions in the new order *)
Lemma group_ranges_spec (groups : list (list G)) : forall (pre : list G) k grp,
  nth_error groups k = Some grp ->
  exists start, nth_error (group_ranges G (length pre) groups) k = Some (start, length grp) /\
    forall i, i < length grp -> nth_error (pre ++ concat groups) (start + i) = nth_error grp i.
Proof.
  induction groups as [|g r IH]; intros pre k grp Hk; [destruct k; discriminate|].
  destruct k as [|k]; simpl in Hk.
  - injection Hk as <-. exists (length pre). split; [reflexivity|].
    intros i Hi. simpl. rewrite nth_error_app2 by lia. replace (length pre + i - length pre) with i by lia.
    rewrite nth_error_app1 by exact Hi. reflexivity.
  - simpl group_ranges. specialize (IH (pre ++ g) k grp Hk). rewrite app_length in IH.
    destruct IH as (start & H1 & H2). exists start. split; [exact H1|].
    intros i Hi. simpl concat. rewrite app_assoc. apply H2. exact Hi.
Qed.

Theorem ensure_order_ranges (old : list G) (groups : list (list G)) k grp :
  nth_error groups k = Some grp ->
  exists start, nth_error (ranges G geqb old groups) k = Some (start, length grp) /\
    forall i, i < length grp -> nth_error (ensure_order old groups) (start + i) = nth_error grp i.
Proof. intros H. unfold ranges, OtSvg.ensure_order. apply group_ranges_spec. exact H. Qed.

(* T6c: the first glyph (.notdef) stays first when it is not in any group *)
Theorem ensure_order_head (old : list G) (groups : list (list G)) g0 rest :
  old = g0 :: rest -> ~ In g0 (concat groups) -> hd_error (ensure_order old groups) = Some g0.
Proof.
  intros -> Hn. unfold OtSvg.ensure_order. simpl.
  destruct (gmem g0 (concat groups)) eqn:E; [apply gmem_in in E; contradiction|]. reflexivity.
Qed.
End OrderFacts.
