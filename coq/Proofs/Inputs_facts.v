From Coq Require Import List Bool.
From Verif Require Import Model.Inputs.
Import ListNotations.

Section Facts.
Variable G : Type.
Variable geqb : G -> G -> bool.
Hypothesis geqb_ok : forall a b, geqb a b = true <-> a = b.
Notation gmem := (gmem G geqb).

Lemma gmem_in g l : gmem g l = true <-> In g l.
Proof.
  induction l as [|x r IH]; simpl; [split; [discriminate|intros []]|].
  rewrite orb_true_iff, IH, geqb_ok. split; intros [H|H]; auto.
Qed.

Lemma first_duplicate_none names : forall seen,
  first_duplicate G geqb seen names = None <-> (NoDup names /\ forall x, In x names -> ~ In x seen).
Proof.
  induction names as [|n r IH]; intros seen; simpl.
  - split; [intros _; split; [constructor|intros ? []]|reflexivity].
  - destruct (gmem n seen) eqn:E.
    + apply gmem_in in E. split; [discriminate|]. intros [_ H]. exfalso. apply (H n); auto.
    + rewrite IH. assert (Hn : ~ In n seen) by (intros H; apply gmem_in in H; congruence).
      split.
      * intros [Hnd Hf]. split.
        -- constructor; [|exact Hnd]. intros Hin. apply (Hf n Hin). left; reflexivity.
        -- intros x [<-|Hx]; [exact Hn|]. intros Hs. apply (Hf x Hx). right; exact Hs.
      * intros [Hnd Hf]. inversion Hnd; subst. split; [assumption|].
        intros x Hx [<-|Hs]; [contradiction|]. apply (Hf x); auto.
Qed.

(* T2: the inputs are accepted exactly when their glyph names are pairwise distinct -- so an
   accepted build never merges two sources into one glyph *)
Theorem inputs_accepted_iff_nodup names : inputs_accepted G geqb names = true <-> NoDup names.
Proof.
  unfold inputs_accepted. destruct (first_duplicate G geqb [] names) eqn:E.
  - split; [discriminate|]. intros H. assert (first_duplicate G geqb [] names = None).
    { apply first_duplicate_none. split; [exact H|intros ? _ []]. }
    congruence.
  - split; [|reflexivity]. intros _. apply first_duplicate_none in E. tauto.
Qed.

Lemma nodupb_ok l : nodupb G geqb l = true <-> NoDup l.
Proof.
  induction l as [|x r IH]; simpl; [split; [constructor|reflexivity]|].
  rewrite andb_true_iff, negb_true_iff, IH. split.
  - intros [H1 H2]. constructor; [|exact H2]. intros Hin. apply gmem_in in Hin. congruence.
  - intros H. inversion H; subst. split; [|assumption].
    destruct (gmem x r) eqn:E; [apply gmem_in in E; contradiction|reflexivity].
Qed.
Theorem masters_accepted_spec ms :
  masters_accepted G geqb ms = true ->
  ms <> [] /\ Forall (@NoDup G) ms /\
  forall m1 m2, In m1 ms -> In m2 ms -> forall x, In x m1 <-> In x m2.
Proof.
  unfold masters_accepted. intros H. apply andb_prop in H. destruct H as [Hn Hs].
  destruct ms as [|m0 r]; [discriminate|]. split; [discriminate|]. split.
  - apply Forall_forall. intros m Hm. rewrite forallb_forall in Hn. apply nodupb_ok. auto.
  - assert (Heq : forall m, In m (m0 :: r) -> forall x, In x m0 <-> In x m).
    { intros m [<-|Hm] x; [reflexivity|]. rewrite forallb_forall in Hs. specialize (Hs m Hm).
      unfold same_set in Hs. apply andb_prop in Hs. destruct Hs as [H1 H2].
      rewrite forallb_forall in H1, H2. split; intros Hx.
      - apply gmem_in. auto.
      - apply gmem_in. auto. }
    intros m1 m2 H1 H2 x. rewrite <- (Heq m1 H1 x), <- (Heq m2 H2 x). reflexivity.
Qed.
(* the converse: nothing beyond those three conditions is demanded, so a configuration is rejected
   only for one of the defects the property lists *)
Theorem masters_accepted_complete ms :
  ms <> [] -> Forall (@NoDup G) ms ->
  (forall m1 m2, In m1 ms -> In m2 ms -> forall x, In x m1 <-> In x m2) ->
  masters_accepted G geqb ms = true.
Proof.
  intros Hne Hnd Hs. unfold masters_accepted. apply andb_true_intro. split.
  - apply forallb_forall. intros m Hm. apply nodupb_ok. rewrite Forall_forall in Hnd. auto.
  - destruct ms as [|m0 r]; [congruence|]. apply forallb_forall. intros m Hm.
    unfold same_set. apply andb_true_intro.
    pose proof (Hs m0 m (or_introl eq_refl) (or_intror Hm)) as He.
    split; apply forallb_forall; intros x Hx; apply gmem_in; apply He; exact Hx.
Qed.
Theorem masters_accepted_iff ms :
  masters_accepted G geqb ms = true <->
  (ms <> [] /\ Forall (@NoDup G) ms /\
   forall m1 m2, In m1 ms -> In m2 ms -> forall x, In x m1 <-> In x m2).
Proof.
  split; [apply masters_accepted_spec|]. intros [H1 [H2 H3]]. apply masters_accepted_complete; assumption.
Qed.
End Facts.
