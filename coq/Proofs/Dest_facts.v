(* C08-T3: _dest_for_src gives distinct sources distinct intermediate paths, whatever the
   order in which they are first seen, and the same source always the same path *)
From Coq Require Import List ZArith Bool Arith Lia.
From Verif Require Import Model.Build.
Import ListNotations.

Definition bounded (s : seen) : Prop := forall n nm p, lookup_seen n nm s = Some p -> n < length s.

(* the slot found is free or already belongs to this path, and lies within the table *)
Lemma find_slot_spec s nm path : bounded s -> forall fuel n,
  n <= length s -> n + fuel = S (length s) ->
  let r := find_slot fuel n nm path s in
  r <= length s /\ (lookup_seen r nm s = None \/ lookup_seen r nm s = Some path).
Proof.
  intros Hb. induction fuel as [|k IH]; intros n Hle Hn r; unfold r; simpl.
  - lia.
  - destruct (lookup_seen n nm s) as [p|] eqn:El.
    + destruct (Z.eqb_spec p path) as [->|Hne].
      * split; [exact Hle|right; exact El].
      * apply IH; [|lia]. specialize (Hb _ _ _ El). lia.
    + split; [exact Hle|left; exact El].
Qed.

Lemma lookup_cons n nm n' nm' p' s :
  lookup_seen n nm ((n', nm', p') :: s) = if Nat.eqb n n' && Z.eqb nm nm' then Some p' else lookup_seen n nm s.
Proof. reflexivity. Qed.
Lemma dest_unfold s path nm :
  dest_for_src s path nm = let n := find_slot (S (length s)) 0 nm path s in ((n, nm), (n, nm, path) :: s).
Proof. reflexivity. Qed.
Local Opaque find_slot.

Lemma lookup_head n nm p s : lookup_seen n nm ((n, nm, p) :: s) = Some p.
Proof. simpl. rewrite Nat.eqb_refl, Z.eqb_refl. reflexivity. Qed.

Lemma bounded_step s path nm : bounded s -> bounded (snd (dest_for_src s path nm)).
Proof.
  intros Hb n' nm' p' H. rewrite dest_unfold in H. cbn [snd] in H. rewrite lookup_cons in H.
  destruct (find_slot_spec s nm path Hb (S (length s)) 0 ltac:(lia) ltac:(lia)) as [Hr _].
  rewrite dest_unfold. cbn [snd length].
  destruct (Nat.eqb_spec n' (find_slot (S (length s)) 0 nm path s)) as [->|Hne]; cbn [andb] in H.
  - destruct (Z.eqb nm' nm); [lia|]. specialize (Hb _ _ _ H). lia.
  - specialize (Hb _ _ _ H). lia.
Qed.

(* the table only grows: an assigned slot keeps its path *)
Lemma lookup_preserved s path nm n' nm' p' : bounded s ->
  lookup_seen n' nm' s = Some p' -> lookup_seen n' nm' (snd (dest_for_src s path nm)) = Some p'.
Proof.
  intros Hb H. rewrite dest_unfold. cbn [snd]. rewrite lookup_cons.
  destruct (find_slot_spec s nm path Hb (S (length s)) 0 ltac:(lia) ltac:(lia)) as [_ Hs].
  destruct (Nat.eqb_spec n' (find_slot (S (length s)) 0 nm path s)) as [->|Hne]; cbn [andb]; [|exact H].
  destruct (Z.eqb_spec nm' nm) as [->|Hnm]; [|exact H].
  destruct Hs as [Hs|Hs]; rewrite Hs in H; [discriminate|exact H].
Qed.

Lemma dest_recorded s path nm : bounded s ->
  let '(d, s') := dest_for_src s path nm in lookup_seen (fst d) (snd d) s' = Some path.
Proof. intros Hb. rewrite dest_unfold. cbn [fst snd]. apply lookup_head. Qed.

(* every destination handed out is recorded for its source in the final table *)
Lemma dests_recorded srcs : forall s, bounded s ->
  exists s', bounded s' /\
    (forall n nm p, lookup_seen n nm s = Some p -> lookup_seen n nm s' = Some p) /\
    (forall p d, In (p, d) (dests s srcs) -> lookup_seen (fst d) (snd d) s' = Some p).
Proof.
  induction srcs as [|[p nm] r IH]; intros s Hb.
  - exists s. split; [exact Hb|]. split; [auto|intros ? ? []].
  - cbn [dests]. destruct (dest_for_src s p nm) as [d s1] eqn:E.
    assert (Hb1 : bounded s1) by (pose proof (bounded_step s p nm Hb) as H; rewrite E in H; exact H).
    destruct (IH s1 Hb1) as (s' & Hb' & Hmono & Hrec). exists s'. split; [exact Hb'|]. split.
    + intros n nm' p' H. apply Hmono. pose proof (lookup_preserved s p nm n nm' p' Hb H) as H1. rewrite E in H1. exact H1.
    + intros p0 d0 [Hin|Hin].
      * injection Hin as <- <-. apply Hmono. pose proof (dest_recorded s p nm Hb) as H1. rewrite E in H1. exact H1.
      * apply Hrec. exact Hin.
Qed.

Lemma bounded_nil : bounded [].
Proof. intros n nm p H. discriminate. Qed.

(* T3: within one run of the driver two sources never share an intermediate path ... *)
Theorem dests_injective (srcs : list (Z * Z)) (p1 p2 : Z) (d : nat * Z) :
  In (p1, d) (dests [] srcs) -> In (p2, d) (dests [] srcs) -> p1 = p2.
Proof.
  intros H1 H2. destruct (dests_recorded srcs [] bounded_nil) as (s' & _ & _ & Hrec).
  pose proof (Hrec _ _ H1) as E1. pose proof (Hrec _ _ H2) as E2. congruence.
Qed.

(* ... the file name is kept, and a source seen again gets the path it got the first time *)
Lemma dests_keep_name srcs : forall s p d, In (p, d) (dests s srcs) -> exists nm, In (p, nm) srcs /\ snd d = nm.
Proof.
  induction srcs as [|[p nm] r IH]; intros s p0 d0 H; [destruct H|].
  cbn [dests] in H. destruct (dest_for_src s p nm) as [d s1] eqn:E. destruct H as [H|H].
  - injection H as <- <-. exists nm. split; [left; reflexivity|]. rewrite dest_unfold in E. injection E as <- _. reflexivity.
  - destruct (IH _ _ _ H) as (nm' & Hin & Hd). exists nm'. split; [right; exact Hin|exact Hd].
Qed.

Local Transparent find_slot.
Lemma find_slot_same s nm path : forall fuel n n0,
  lookup_seen n0 nm s = Some path -> n <= n0 ->
  (forall m, n <= m < n0 -> exists q, lookup_seen m nm s = Some q /\ q <> path) ->
  n0 - n < fuel -> find_slot fuel n nm path s = n0.
Proof.
  induction fuel as [|k IH]; intros n n0 H0 Hle Hbetween Hf; [lia|]. simpl.
  destruct (Nat.eq_dec n n0) as [->|Hne].
  - rewrite H0, Z.eqb_refl. reflexivity.
  - destruct (Hbetween n ltac:(lia)) as (q & Hq & Hqp). rewrite Hq.
    destruct (Z.eqb_spec q path); [contradiction|]. apply IH; [exact H0|lia| |lia].
    intros m Hm. apply Hbetween. lia.
Qed.

(* the slots of one file name are handed out in order: below an assigned slot every slot
   belongs to another path *)
Definition canonical (s : seen) : Prop :=
  forall n nm p, lookup_seen n nm s = Some p -> forall m, m < n -> exists q, lookup_seen m nm s = Some q /\ q <> p.

Lemma find_slot_below s nm path : forall fuel n,
  forall m, n <= m < find_slot fuel n nm path s -> exists q, lookup_seen m nm s = Some q /\ q <> path.
Proof.
  induction fuel as [|k IH]; intros n m Hm; simpl in Hm; [lia|].
  destruct (lookup_seen n nm s) as [p|] eqn:El; [|lia].
  destruct (Z.eqb_spec p path) as [->|Hne]; [lia|].
  destruct (Nat.eq_dec m n) as [->|Hmn]; [exists p; split; assumption|].
  apply (IH (S n)). lia.
Qed.
Local Opaque find_slot.

Lemma canonical_step s path nm : bounded s -> canonical s -> canonical (snd (dest_for_src s path nm)).
Proof.
  intros Hb Hc n' nm' p' H m Hm. rewrite dest_unfold in *. cbn [snd] in *. rewrite lookup_cons in *.
  set (r := find_slot (S (length s)) 0 nm path s) in *.
  destruct (find_slot_spec s nm path Hb (S (length s)) 0 ltac:(lia) ltac:(lia)) as [_ Hs]. fold r in Hs.
  pose proof (find_slot_below s nm path (S (length s)) 0) as Hbelow. fold r in Hbelow.
  destruct (Nat.eqb_spec n' r) as [->|Hn]; cbn [andb] in H.
  - destruct (Z.eqb_spec nm' nm) as [->|Hnm].
    + injection H as <-. destruct (Hbelow m ltac:(lia)) as (q & Hq & Hqp). exists q. split; [|exact Hqp].
      destruct (Nat.eqb_spec m r); [lia|]. exact Hq.
    + destruct (Hc _ _ _ H m Hm) as (q & Hq & Hqp). exists q. split; [|exact Hqp].
      destruct (Nat.eqb_spec m r); cbn [andb]; [|exact Hq]. destruct (Z.eqb_spec nm' nm); [contradiction|exact Hq].
  - destruct (Hc _ _ _ H m Hm) as (q & Hq & Hqp). exists q. split; [|exact Hqp].
    destruct (Nat.eqb_spec m r) as [->|Hmr]; cbn [andb]; [|exact Hq].
    destruct (Z.eqb_spec nm' nm) as [->|Hnm]; [|exact Hq].
    (* slot r of this name was free or path's own: but it is occupied by q below n' *)
    destruct Hs as [Hs|Hs]; rewrite Hs in Hq; [discriminate|]. exact Hq.
Qed.
Local Transparent find_slot.

(* a source that already has a slot gets that slot again (the same intermediate path on every
   later lookup, hence on every re-run of the driver over a superset of the sources) *)
Theorem dest_stable s path nm n0 : bounded s -> canonical s ->
  lookup_seen n0 nm s = Some path -> fst (dest_for_src s path nm) = (n0, nm).
Proof.
  intros Hb Hc H. rewrite dest_unfold. cbn [fst]. f_equal.
  apply find_slot_same; [exact H|lia| |specialize (Hb _ _ _ H); lia].
  intros m Hm. apply (Hc _ _ _ H). lia.
Qed.
