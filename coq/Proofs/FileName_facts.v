From Coq Require Import List NArith Bool Lia.
From Verif Require Import Model.Csv Model.FileName Proofs.Csv_facts.
Import ListNotations.
Local Open Scope N_scope.

(* what a printer of one code point must guarantee ("%04x", "%04X", "%05x", "%x" all do) *)
Definition hex_printer (pr : N -> text) : Prop :=
  forall n, pr n <> [] /\ Forall (fun c => is_hex c = true) (pr n) /\ parse_hex (pr n) = Some n.

Lemma sep_not_hex c : is_sep c = true -> is_hex c = false.
Proof.
  unfold is_sep, is_hex. intros H. apply orb_prop in H. destruct H as [H|H]; apply N.eqb_eq in H; subst; reflexivity.
Qed.

Lemma take_hex_app h rest : Forall (fun c => is_hex c = true) h ->
  (rest = [] \/ exists c r, rest = c :: r /\ is_hex c = false) ->
  take_hex (h ++ rest) = (h, rest).
Proof.
  induction h as [|x h IH]; intros Hh Hr; simpl.
  - destruct Hr as [->|(c & r & -> & Hc)]; [reflexivity|]. simpl. rewrite Hc. reflexivity.
  - inversion Hh as [|? ? Hx Hh']; subst. rewrite Hx. rewrite (IH Hh' Hr). reflexivity.
Qed.

(* the text after the first printed code point: nothing, or a separator and more *)
Definition tail_of (sep : N) (pr : N -> text) (cps : list N) : text :=
  match cps with [] => [] | _ => sep :: join_c sep (map pr cps) end.

Lemma join_cons sep pr c cps : join_c sep (map pr (c :: cps)) = pr c ++ tail_of sep pr cps.
Proof. destruct cps; simpl; [rewrite app_nil_r|]; reflexivity. Qed.

Lemma groups_join sep pr : is_sep sep = true -> hex_printer pr ->
  forall cps fuel, (length cps <= fuel)%nat ->
  groups fuel (tail_of sep pr cps) = map pr cps.
Proof.
  intros Hsep Hpr. induction cps as [|c cps IH]; intros fuel Hf.
  - destruct fuel; reflexivity.
  - destruct fuel as [|k]; [simpl in Hf; lia|].
    unfold tail_of. rewrite join_cons. cbn [groups]. rewrite Hsep.
    destruct (Hpr c) as (Hne & Hhex & _).
    rewrite (take_hex_app (pr c) (tail_of sep pr cps) Hhex).
    + destruct (pr c) eqn:E; [contradiction|]. rewrite <- E. cbn [map]. f_equal. apply IH. simpl in Hf. lia.
    + destruct cps; [left; reflexivity|right]. unfold tail_of. eexists _, _. split; [reflexivity|apply sep_not_hex; exact Hsep].
Qed.

Lemma groups_head sep pr : is_sep sep = true -> hex_printer pr ->
  forall c cps fuel, (S (length cps) <= fuel)%nat ->
  groups fuel (join_c sep (map pr (c :: cps))) = map pr (c :: cps).
Proof.
  intros Hsep Hpr c cps fuel Hf. destruct fuel as [|k]; [lia|].
  rewrite join_cons. cbn [groups]. destruct (Hpr c) as (Hne & Hhex & _).
  destruct (pr c) as [|x h] eqn:E; [contradiction|]. cbn [app].
  assert (Hx : is_hex x = true) by (inversion Hhex; assumption).
  assert (Hns : is_sep x = false) by (destruct (is_sep x) eqn:S; [apply sep_not_hex in S; congruence|reflexivity]).
  rewrite Hns. change (x :: h ++ tail_of sep pr cps) with ((x :: h) ++ tail_of sep pr cps).
  rewrite (take_hex_app (x :: h) (tail_of sep pr cps) Hhex).
  - cbn [map]. rewrite E. f_equal. apply (groups_join sep pr Hsep Hpr). lia.
  - destruct cps; [left; reflexivity|right]. unfold tail_of. eexists _, _. split; [reflexivity|apply sep_not_hex; exact Hsep].
Qed.

Lemma all_some_parse pr : hex_printer pr -> forall cps, all_some (map parse_hex (map pr cps)) = Some cps.
Proof.
  intros Hpr. induction cps as [|c r IH]; [reflexivity|]. cbn [map FileName.all_some].
  destruct (Hpr c) as (_ & _ & ->). rewrite IH. reflexivity.
Qed.

Lemma length_join_ge sep pr : hex_printer pr -> forall cps, (length cps <= length (join_c sep (map pr cps)))%nat.
Proof.
  intros Hpr. induction cps as [|c r IH]; [simpl; lia|]. rewrite join_cons. rewrite app_length.
  destruct (Hpr c) as (Hne & _ & _). destruct (pr c); [contradiction|]. unfold tail_of. destruct r; simpl in *; lia.
Qed.

Lemma strip_prefix_app p t : strip_prefix p (p ++ t) = Some t.
Proof. induction p as [|a p IH]; [reflexivity|]. simpl. rewrite N.eqb_refl. exact IH. Qed.

(* a joined name never begins with "emoji_u": its second character is a hex digit or a separator, not 'm' *)
Lemma no_false_prefix sep pr : is_sep sep = true -> hex_printer pr ->
  forall c cps, strip_prefix EMOJI_U (join_c sep (map pr (c :: cps))) = None.
Proof.
  intros Hsep Hpr c cps. rewrite join_cons. destruct (Hpr c) as (Hne & Hhex & _).
  destruct (pr c) as [|x h]; [contradiction|]. inversion Hhex as [|? ? Hx Hh]; subst.
  unfold EMOJI_U. cbn [app strip_prefix]. destruct (101 =? x) eqn:E1; [|reflexivity].
  destruct h as [|y h'].
  - cbn [app]. destruct cps as [|c2 r]; [reflexivity|]. unfold tail_of. cbn [strip_prefix].
    destruct (109 =? sep) eqn:E2; [|reflexivity]. apply N.eqb_eq in E2. subst sep. vm_compute in Hsep. discriminate.
  - cbn [app strip_prefix]. inversion Hh as [|? ? Hy _]; subst.
    destruct (109 =? y) eqn:E2; [|reflexivity]. apply N.eqb_eq in E2. subst y. vm_compute in Hy. discriminate.
Qed.

(* T: a conventional file stem reads back as its sequence, with or without the "emoji_u" prefix,
   with '-' or '_' between code points, whatever padding or letter case the hexadecimal uses *)
Theorem from_filename_roundtrip (pr : N -> text) (sep : N) (c : N) (cps : list N) :
  hex_printer pr -> is_sep sep = true ->
  from_filename (join_c sep (map pr (c :: cps))) = Some (c :: cps) /\
  from_filename (EMOJI_U ++ join_c sep (map pr (c :: cps))) = Some (c :: cps).
Proof.
  intros Hpr Hsep. split.
  - unfold from_filename. rewrite (no_false_prefix sep pr Hsep Hpr).
    rewrite (groups_head sep pr Hsep Hpr) by (pose proof (length_join_ge sep pr Hpr (c :: cps)); simpl in *; lia).
    exact (all_some_parse pr Hpr (c :: cps)).
  - unfold from_filename. rewrite strip_prefix_app.
    rewrite (groups_head sep pr Hsep Hpr) by (pose proof (length_join_ge sep pr Hpr (c :: cps)); simpl in *; lia).
    exact (all_some_parse pr Hpr (c :: cps)).
Qed.

(* "%04x" is such a printer *)
Lemma hex04_is_printer : hex_printer hex04.
Proof.
  intros n. split; [apply hex04_nonempty|]. split; [|apply hex04_roundtrip].
  unfold hex04. apply Forall_app. split.
  - apply Forall_forall. intros x Hx. apply repeat_spec in Hx. subst. reflexivity.
  - pose proof (to_hex_spec n) as _. unfold to_hex. apply Forall_rev.
    assert (H : forall k m, Forall (fun c => is_hex c = true) (hex_rev k m)).
    { induction k as [|k IH]; intros m; [constructor|]. cbn [hex_rev].
      assert (D : forall d, d < 16 -> is_hex (hex_digit d) = true).
      { intros d Hd. unfold hex_digit, is_hex. destruct (N.ltb_spec d 10).
        - apply orb_true_iff. left. apply orb_true_iff. left. apply andb_true_iff. split; apply N.leb_le; lia.
        - apply orb_true_iff. left. apply orb_true_iff. right. apply andb_true_iff. split; apply N.leb_le; lia. }
      destruct (N.ltb_spec m 16).
      - constructor; [apply D; assumption|constructor].
      - constructor; [apply D; apply N.mod_lt; lia|apply IH]. }
    apply H.
Qed.
