From Coq Require Import List NArith Bool Lia.
From Verif Require Import Model.Csv.
Import ListNotations.
Local Open Scope N_scope.

Ltac neqb := repeat match goal with
  | H : (?a =? ?b) = false |- _ => apply N.eqb_neq in H
  | H : (?a =? ?b) = true |- _ => apply N.eqb_eq in H
  end.

(* characters of a field that needs no quoting, none of them special *)
Definition plain (c : N) : Prop := c <> COMMA /\ c <> QUOTE /\ c <> LF /\ c <> CR.

Lemma needs_quote_false f : needs_quote f = false -> Forall (fun c => c <> COMMA /\ c <> QUOTE) f.
Proof.
  unfold needs_quote. induction f as [|c r IH]; simpl; intros H; [constructor|].
  apply orb_false_iff in H. destruct H as [H1 H2]. apply orb_false_iff in H1. destruct H1 as [Ha Hb].
  neqb. constructor; auto.
Qed.
Lemma no_newline_forall f : no_newline f = true -> Forall (fun c => c <> LF /\ c <> CR) f.
Proof.
  unfold no_newline. rewrite negb_true_iff. induction f as [|c r IH]; simpl; intros H; [constructor|].
  apply orb_false_iff in H. destruct H as [H1 H2]. apply orb_false_iff in H1. destruct H1 as [Ha Hb].
  neqb. constructor; auto.
Qed.

(* reading plain characters inside an unquoted field just accumulates them *)
Lemma rd_InF_plain f : forall cur acc rows rest,
  Forall plain f -> rd InF cur acc rows (f ++ rest) = rd InF (cur ++ f) acc rows rest.
Proof.
  induction f as [|c r IH]; intros cur acc rows rest H; simpl.
  - now rewrite app_nil_r.
  - inversion H as [|? ? (Hc & Hq & Hl & Hr) H']; subst.
    apply N.eqb_neq in Hc, Hq, Hl, Hr. rewrite Hl, Hr, Hc.
    rewrite IH by assumption. rewrite <- app_assoc. reflexivity.
Qed.

(* reading the doubled-quote body of a quoted field *)
Lemma rd_InQ_body f : forall cur acc rows rest,
  rd InQ cur acc rows (double_quotes f ++ rest) = rd InQ (cur ++ f) acc rows rest.
Proof.
  induction f as [|c r IH]; intros cur acc rows rest; simpl.
  - now rewrite app_nil_r.
  - unfold double_quotes in *. simpl. destruct (c =? QUOTE) eqn:E.
    + neqb. subst c. simpl. change (QUOTE =? QUOTE) with true. cbn iota.
      rewrite IH. rewrite <- app_assoc. reflexivity.
    + simpl. rewrite E. rewrite IH. rewrite <- app_assoc. reflexivity.
Qed.

(* one written field followed by a terminator c (comma, LF, or end of text), started in
   a field-start state, ends in the state that terminator dictates with the field saved *)
Definition start_state (s : st) : Prop := s = SRec \/ s = SField.

Lemma rd_start_same rows t c :
  c <> LF -> c <> CR -> c <> SP -> c <> COMMA ->
  rd SRec [] [] rows (c :: t) = rd SField [] [] rows (c :: t).
Proof.
  intros H1 H2 H3 H4. apply N.eqb_neq in H1, H2, H3, H4. simpl. rewrite H1, H2, H3, H4. reflexivity.
Qed.

Lemma rd_field_comma f : field_safe f = true -> forall acc rows rest,
  rd SField [] acc rows (write_field f ++ COMMA :: rest) = rd SField [] (acc ++ [f]) rows rest.
Proof.
  intros Hs acc rows rest. unfold field_safe in Hs. apply andb_prop in Hs. destruct Hs as [Hn Hq].
  unfold write_field. destruct (needs_quote f) eqn:Eq.
  - simpl. change (QUOTE =? LF) with false. change (QUOTE =? CR) with false. change (QUOTE =? QUOTE) with true.
    cbn iota. rewrite <- app_assoc. rewrite rd_InQ_body. simpl.
    change (QUOTE =? QUOTE) with true. cbn iota. change (COMMA =? QUOTE) with false.
    change (COMMA =? COMMA) with true. cbn iota. reflexivity.
  - simpl in Hq. pose proof (needs_quote_false f Eq) as Hp. pose proof (no_newline_forall f Hn) as Hl.
    destruct f as [|c r].
    + simpl. change (COMMA =? LF) with false. change (COMMA =? CR) with false.
      change (COMMA =? QUOTE) with false. change (COMMA =? SP) with false. change (COMMA =? COMMA) with true.
      reflexivity.
    + inversion Hp as [|? ? [Hc1 Hc2] Hp']; inversion Hl as [|? ? [Hc3 Hc4] Hl']; subst.
      apply negb_true_iff in Hq. neqb.
      simpl. apply N.eqb_neq in Hc1, Hc2, Hc3, Hc4, Hq. rewrite Hc3, Hc4, Hc2, Hq, Hc1.
      assert (Hplain : Forall plain r).
      { apply Forall_forall. intros x Hx. rewrite Forall_forall in Hp', Hl'.
        destruct (Hp' x Hx), (Hl' x Hx). repeat split; auto. }
      rewrite (rd_InF_plain r [c] acc rows (COMMA :: rest) Hplain). simpl.
      change (COMMA =? LF) with false. change (COMMA =? CR) with false. change (COMMA =? COMMA) with true.
      reflexivity.
Qed.

Lemma rd_field_lf f : field_safe f = true -> forall acc rows rest,
  rd SField [] acc rows (write_field f ++ LF :: rest) = rd SRec [] [] (rows ++ [acc ++ [f]]) rest.
Proof.
  intros Hs acc rows rest. unfold field_safe in Hs. apply andb_prop in Hs. destruct Hs as [Hn Hq].
  unfold write_field. destruct (needs_quote f) eqn:Eq.
  - simpl. change (QUOTE =? LF) with false. change (QUOTE =? CR) with false. change (QUOTE =? QUOTE) with true.
    cbn iota. rewrite <- app_assoc. rewrite rd_InQ_body. simpl.
    change (QUOTE =? QUOTE) with true. cbn iota. change (LF =? QUOTE) with false.
    change (LF =? COMMA) with false. change (LF =? LF) with true. cbn iota. reflexivity.
  - simpl in Hq. pose proof (needs_quote_false f Eq) as Hp. pose proof (no_newline_forall f Hn) as Hl.
    destruct f as [|c r].
    + simpl. change (LF =? LF) with true. reflexivity.
    + inversion Hp as [|? ? [Hc1 Hc2] Hp']; inversion Hl as [|? ? [Hc3 Hc4] Hl']; subst.
      apply negb_true_iff in Hq. neqb.
      simpl. apply N.eqb_neq in Hc1, Hc2, Hc3, Hc4, Hq. rewrite Hc3, Hc4, Hc2, Hq, Hc1.
      assert (Hplain : Forall plain r).
      { apply Forall_forall. intros x Hx. rewrite Forall_forall in Hp', Hl'.
        destruct (Hp' x Hx), (Hl' x Hx). repeat split; auto. }
      rewrite (rd_InF_plain r [c] acc rows (LF :: rest) Hplain). simpl.
      change (LF =? LF) with true. reflexivity.
Qed.

(* a row of at least two fields (every glyphmap row has >= 4), all safe *)
Lemma rd_join_fields fs : forall f0 acc rows rest,
  Forall (fun f => field_safe f = true) (f0 :: fs) ->
  rd SField [] acc rows (join_fields (f0 :: fs) ++ LF :: rest)
  = rd SRec [] [] (rows ++ [acc ++ f0 :: fs]) rest.
Proof.
  induction fs as [|f1 fs IH]; intros f0 acc rows rest H.
  - inversion H; subst. simpl join_fields. apply rd_field_lf. assumption.
  - inversion H as [|? ? H0 H']; subst.
    change (join_fields (f0 :: f1 :: fs)) with (write_field f0 ++ COMMA :: join_fields (f1 :: fs)).
    rewrite <- app_assoc, <- app_comm_cons. rewrite (rd_field_comma f0 H0).
    rewrite IH by assumption. rewrite <- app_assoc. reflexivity.
Qed.

(* SRec behaves like SField on the first character of a written row with >= 2 fields *)
Lemma rd_SRec_row f0 f1 fs rows rest :
  Forall (fun f => field_safe f = true) (f0 :: f1 :: fs) ->
  rd SRec [] [] rows (join_fields (f0 :: f1 :: fs) ++ LF :: rest)
  = rd SField [] [] rows (join_fields (f0 :: f1 :: fs) ++ LF :: rest).
Proof.
  intros H. inversion H as [|? ? H0 _]; subst.
  change (join_fields (f0 :: f1 :: fs)) with (write_field f0 ++ COMMA :: join_fields (f1 :: fs)).
  unfold write_field. destruct (needs_quote f0) eqn:Eq.
  - reflexivity.
  - destruct f0 as [|c r].
    + reflexivity.
    + unfold field_safe in H0. apply andb_prop in H0. destruct H0 as [Hn Hq]. rewrite Eq in Hq. simpl in Hq.
      pose proof (needs_quote_false _ Eq) as Hp. pose proof (no_newline_forall _ Hn) as Hl.
      inversion Hp as [|? ? [Hc1 Hc2] _]; inversion Hl as [|? ? [Hc3 Hc4] _]; subst.
      apply negb_true_iff in Hq. neqb. simpl app. apply rd_start_same; assumption.
Qed.

Definition row_ok (r : list text) : Prop :=
  (2 <= length r)%nat /\ Forall (fun f => field_safe f = true) r.

Lemma write_row_two f0 f1 fs : write_row (f0 :: f1 :: fs) = join_fields (f0 :: f1 :: fs).
Proof. destruct f0; reflexivity. Qed.

Theorem csv_roundtrip_from rs : forall rows,
  Forall row_ok rs -> rd SRec [] [] rows (write_rows rs) = Some (rows ++ rs).
Proof.
  induction rs as [|r rs IH]; intros rows H.
  - simpl. now rewrite app_nil_r.
  - inversion H as [|? ? [Hlen Hsafe] H']; subst.
    destruct r as [|f0 [|f1 fs]]; [simpl in Hlen; lia|simpl in Hlen; lia|].
    change (write_rows ((f0 :: f1 :: fs) :: rs)) with ((write_row (f0 :: f1 :: fs) ++ [LF]) ++ write_rows rs).
    rewrite write_row_two. rewrite <- app_assoc. change ([LF] ++ write_rows rs) with (LF :: write_rows rs).
    rewrite rd_SRec_row by assumption. rewrite rd_join_fields by assumption.
    rewrite IH by assumption. rewrite <- app_assoc. reflexivity.
Qed.

Theorem csv_roundtrip rs : Forall row_ok rs -> read_text (write_rows rs) = Some rs.
Proof. intros H. unfold read_text. now rewrite csv_roundtrip_from. Qed.

(* the hypothesis is needed: a leading space or a line break in a field is not preserved (F4) *)
Lemma csv_roundtrip_refuted_space :
  exists r, (2 <= length r)%nat /\ read_text (write_rows [r]) <> Some [r].
Proof. exists [[SP; 97]; [98]]. split; [simpl; lia|]. vm_compute. discriminate. Qed.
Lemma csv_roundtrip_refuted_newline :
  exists r, (2 <= length r)%nat /\ read_text (write_rows [r]) <> Some [r].
Proof. exists [[97; LF; 98]; [99]]. split; [simpl; lia|]. vm_compute. discriminate. Qed.

(* ---------- hexadecimal ---------- *)
Lemma hex_val_digit d : d < 16 -> hex_val (hex_digit d) = Some d.
Proof.
  intros H. unfold hex_digit, hex_val.
  destruct (N.ltb_spec d 10).
  - replace ((48 <=? 48 + d) && (48 + d <=? 57)) with true.
    + f_equal. lia.
    + symmetry. apply andb_true_iff. split; apply N.leb_le; lia.
  - replace ((48 <=? 87 + d) && (87 + d <=? 57)) with false.
    + replace ((97 <=? 87 + d) && (87 + d <=? 102)) with true; [f_equal; lia|].
      symmetry. apply andb_true_iff. split; apply N.leb_le; lia.
    + symmetry. apply andb_false_iff. right. apply N.leb_gt. lia.
Qed.

Lemma parse_hex_acc_snoc t : forall a c,
  parse_hex_acc a (t ++ [c]) =
  match parse_hex_acc a t with
  | Some v => match hex_val c with Some d => Some (v * 16 + d) | None => None end
  | None => None
  end.
Proof.
  induction t as [|x r IH]; intros a c; simpl.
  - destruct (hex_val c); reflexivity.
  - destruct (hex_val x); [apply IH|reflexivity].
Qed.

Lemma hex_rev_spec k : forall n, n < 2 ^ N.of_nat k ->
  hex_rev (S k) n <> [] /\ parse_hex_acc 0 (rev (hex_rev (S k) n)) = Some n.
Proof.
  induction k as [|k IH]; intros n Hn.
  - change (2 ^ N.of_nat 0) with 1 in Hn. assert (n = 0) by lia. subst.
    split; [discriminate|reflexivity].
  - cbn [hex_rev]. destruct (N.ltb_spec n 16).
    + split; [discriminate|]. simpl. rewrite hex_val_digit by assumption. f_equal.
    + assert (Hd : n / 16 < 2 ^ N.of_nat k).
      { rewrite Nat2N.inj_succ, N.pow_succ_r' in Hn.
        apply N.div_lt_upper_bound; [lia|]. lia. }
      destruct (IH (n / 16) Hd) as [_ IHp]. split; [discriminate|].
      cbn [rev]. cbn [hex_rev] in IHp. rewrite parse_hex_acc_snoc, IHp.
      rewrite hex_val_digit by (apply N.mod_lt; lia).
      f_equal. pose proof (N.div_mod n 16 ltac:(lia)). lia.
Qed.

Lemma to_hex_spec n : to_hex n <> [] /\ parse_hex_acc 0 (to_hex n) = Some n.
Proof.
  unfold to_hex.
  assert (Hb : n < 2 ^ N.of_nat (S (N.to_nat (N.log2 n)))).
  { rewrite Nat2N.inj_succ, N2Nat.id. destruct n as [|p]; [simpl; lia|].
    apply N.log2_spec. lia. }
  destruct (hex_rev_spec _ n Hb) as [Hne Hp]. split; [|exact Hp].
  intros E. apply Hne. destruct (hex_rev _ n) as [|x l]; [reflexivity|].
  simpl in E. destruct (rev l); discriminate.
Qed.

Lemma parse_hex_acc_zeros k t : parse_hex_acc 0 (repeat 48 k ++ t) = parse_hex_acc 0 t.
Proof. induction k as [|k IH]; [reflexivity|]. simpl. exact IH. Qed.

Theorem hex04_roundtrip n : parse_hex (hex04 n) = Some n.
Proof.
  destruct (to_hex_spec n) as [Hne Hp]. unfold parse_hex, hex04.
  destruct (repeat 48 (4 - length (to_hex n)) ++ to_hex n) eqn:E.
  - apply app_eq_nil in E. destruct E. contradiction.
  - rewrite <- E. rewrite parse_hex_acc_zeros. exact Hp.
Qed.

Lemma hex04_nonempty n : hex04 n <> [].
Proof.
  unfold hex04. intros E. apply app_eq_nil in E. destruct E as [_ E].
  destruct (to_hex_spec n) as [Hne _]. contradiction.
Qed.

(* ---------- GlyphMapping rows ---------- *)
Definition gmap_ok (g : gmap) : Prop :=
  g_svg g <> Some [] /\ g_bitmap g <> Some [] /\ (g_svg g <> None \/ g_bitmap g <> None).

Lemma all_some_hex cps : all_some (map parse_hex (map hex04 cps)) = Some cps.
Proof.
  induction cps as [|c r IH]; [reflexivity|]. simpl. rewrite hex04_roundtrip, IH. reflexivity.
Qed.

Lemma cps_match (l : list text) : (forall x, In x l -> x <> []) ->
  (match l with [] | [[]] => Some [] | _ => all_some (map parse_hex l) end) = all_some (map parse_hex l).
Proof.
  intros H. destruct l as [|x r]; [reflexivity|].
  destruct x as [|a b]; [exfalso; apply (H []); [left; reflexivity|reflexivity]|].
  destruct r; reflexivity.
Qed.

Theorem glyphmap_row_roundtrip g : gmap_ok g -> parse_row (csv_row g) = Some g.
Proof.
  intros (Hs & Hb & Hone). destruct g as [s b n cps]. unfold csv_row, parse_row. cbn [g_svg g_bitmap g_name g_cps app] in *.
  assert (Es : text_opt (opt_text s) = s).
  { destruct s as [[|? ?]|]; simpl; [exfalso; apply Hs; reflexivity|reflexivity|reflexivity]. }
  assert (Eb : text_opt (opt_text b) = b).
  { destruct b as [[|? ?]|]; simpl; [exfalso; apply Hb; reflexivity|reflexivity|reflexivity]. }
  destruct cps as [|c r].
  - cbn. rewrite Es, Eb. destruct s, b; try reflexivity. destruct Hone; congruence.
  - rewrite (cps_match (map hex04 (c :: r))).
    + rewrite all_some_hex, Es, Eb. destruct s, b; try reflexivity. destruct Hone; congruence.
    + intros x Hx. apply in_map_iff in Hx. destruct Hx as (y & <- & _). apply hex04_nonempty.
Qed.
