From Coq Require Import List ZArith Bool Field Ring.
From Verif Require Import Model.Field Model.Affine Model.ViewBox Proofs.Affine_facts.
Import ListNotations.
Local Open Scope F_scope.

Section Facts.
Context {O : fops}.
Hypothesis Fth : field_theory (f0 O) (f1 O) (fadd O) (fmul O) (fsub O) (fopp O) (fdiv O) (finv O) eq.
Hypothesis Eqb : feqb_ok O.
Add Field FF3 : Fth.
Notation aff := (aff O).
Notation pt := (pt O).
Hypothesis two_neq_0 : (1 + 1 : F O) <> 0.

(* T1: the placement is  user o (flip at ascender) o (uniform scale to the em height,
   horizontally centred in the advance) o (viewBox origin to 0) *)
Theorem place_spec (vb : rect O) asc desc width (U : aff) (p : pt) :
  rh vb <> 0 ->
  let s := (asc - desc) / rh vb in
  let dx := (width - s * rw vb) / (1 + 1) in
  map_point (map_viewbox_to_font_space vb asc desc width U) p =
  map_point U (Pt (s * (px p - rx vb) + dx) (asc - s * (py p - ry vb))).
Proof.
  intros Hh s dx. unfold map_viewbox_to_font_space, scale_viewbox_to_font_metrics.
  rewrite !compose_ltr_cons, compose_ltr_nil, (matmul_id_l Fth), !(map_point_matmul Fth).
  f_equal. destruct p as [x y]. unfold map_point; simpl. fold s. fold dx. f_equal; ring.
Qed.

(* the viewBox's top edge lands on the ascender, its bottom edge on the descender, its
   vertical mid-line on half the advance (before the user transform) *)
Corollary place_corners (vb : rect O) asc desc width :
  rh vb <> 0 ->
  let T := map_viewbox_to_font_space vb asc desc width aid in
  py (map_point T (Pt (rx vb) (ry vb))) = asc /\
  py (map_point T (Pt (rx vb) (ry vb + rh vb))) = desc /\
  px (map_point T (Pt (rx vb + rw vb / (1 + 1)) (ry vb))) = width / (1 + 1) /\
  (forall p q, px (map_point T p) - px (map_point T q) = (asc - desc) / rh vb * (px p - px q)) /\
  (forall p q, py (map_point T p) - py (map_point T q) = - ((asc - desc) / rh vb * (py p - py q))).
Proof.
  intros Hh T. unfold T.
  repeat split; intros; rewrite !(place_spec vb asc desc width aid) by assumption;
    rewrite ?(map_point_id Fth); simpl; field; auto.
Qed.

(* OT-SVG placement = mirror of the font-space placement, *when the user transform
   commutes with the mirror* (b = c = f = 0) *)
Theorem otsvg_place_spec_partial (vb : rect O) asc desc width (U : aff) :
  rh vb <> 0 -> ab U = 0 -> ac U = 0 -> af U = 0 ->
  map_viewbox_to_otsvg_space vb asc desc width U =
  matmul mirror_y (map_viewbox_to_font_space vb asc desc width U).
Proof.
  intros Hh Hb Hc Hf. unfold map_viewbox_to_otsvg_space, map_viewbox_to_font_space, scale_viewbox_to_font_metrics.
  rewrite !compose_ltr_cons, compose_ltr_nil, !(matmul_id_l Fth).
  destruct U as [a b c d e f]; simpl in *; subst. apply aff_ext; simpl; field; auto.
Qed.

(* the general statement: the OT-SVG placement equals the mirrored font placement of the
   *conjugated* user transform  M U M *)
Theorem otsvg_place_conjugate (vb : rect O) asc desc width (U : aff) :
  rh vb <> 0 ->
  map_viewbox_to_otsvg_space vb asc desc width (matmul mirror_y (matmul U mirror_y)) =
  matmul mirror_y (map_viewbox_to_font_space vb asc desc width U).
Proof.
  intros Hh. unfold map_viewbox_to_otsvg_space, map_viewbox_to_font_space, scale_viewbox_to_font_metrics.
  rewrite !compose_ltr_cons, compose_ltr_nil, !(matmul_id_l Fth).
  destruct U as [a b c d e f]; simpl in *. apply aff_ext; simpl; field; auto.
Qed.

(* ---- gradient geometry ---- *)
Definition det2 (ax ay bx by_ : F O) : F O := ax * by_ - ay * bx.
(* COLRv1 linear gradient: t(x) for the three points p0 p1 p2 *)
Definition lin_t (p0 p1 p2 x : pt) : F O :=
  det2 (px x - px p0) (py x - py p0) (px p2 - px p0) (py p2 - py p0) /
  det2 (px p1 - px p0) (py p1 - py p0) (px p2 - px p0) (py p2 - py p0).

(* mapping the three points by an invertible affine maps the colour function with it:
   the colour at A x under the transformed gradient is the colour at x under the original *)
Theorem lin_covariant (A : aff) (p0 p1 p2 x : pt) :
  adet A <> 0 ->
  det2 (px p1 - px p0) (py p1 - py p0) (px p2 - px p0) (py p2 - py p0) <> 0 ->
  lin_t (map_point A p0) (map_point A p1) (map_point A p2) (map_point A x) = lin_t p0 p1 p2 x.
Proof.
  intros Hd Hg. unfold lin_t, det2, adet in *.
  destruct A as [a b c d e f], p0 as [x0 y0], p1 as [x1 y1], p2 as [x2 y2], x as [xx xy]; simpl in *.
  assert (Hm : (a * x1 + c * y1 + e - (a * x0 + c * y0 + e)) * (b * x2 + d * y2 + f - (b * x0 + d * y0 + f)) -
               (b * x1 + d * y1 + f - (b * x0 + d * y0 + f)) * (a * x2 + c * y2 + e - (a * x0 + c * y0 + e))
               = (a * d - b * c) * ((x1 - x0) * (y2 - y0) - (y1 - y0) * (x2 - x0))) by ring.
  assert (Hn : (a * x1 + c * y1 + e - (a * x0 + c * y0 + e)) * (b * x2 + d * y2 + f - (b * x0 + d * y0 + f)) -
               (b * x1 + d * y1 + f - (b * x0 + d * y0 + f)) * (a * x2 + c * y2 + e - (a * x0 + c * y0 + e)) <> 0).
  { rewrite Hm. apply (fmul_nonzero Fth); assumption. }
  field. split; assumption.
Qed.

(* the default p2 = p0 + perpendicular(p1 - p0): t is the orthogonal projection onto p0->p1,
   the SVG linear-gradient formula *)
Theorem lin_t_default_p2 (p0 p1 x : pt) :
  (px p1 - px p0) * (px p1 - px p0) + (py p1 - py p0) * (py p1 - py p0) <> 0 ->
  lin_t p0 p1 (Pt (px p0 + (py p1 - py p0)) (py p0 - (px p1 - px p0))) x =
  ((px x - px p0) * (px p1 - px p0) + (py x - py p0) * (py p1 - py p0)) /
  ((px p1 - px p0) * (px p1 - px p0) + (py p1 - py p0) * (py p1 - py p0)).
Proof.
  intros H. unfold lin_t, det2. destruct p0 as [x0 y0], p1 as [x1 y1], x as [xx xy]; simpl in *.
  assert (Hd : (x1 - x0) * (y0 - (x1 - x0) - y0) - (y1 - y0) * (x0 + (y1 - y0) - x0) <> 0).
  { intros E. apply H.
    transitivity (- ((x1 - x0) * (y0 - (x1 - x0) - y0) - (y1 - y0) * (x0 + (y1 - y0) - x0))); [ring|].
    rewrite E. ring. }
  field. split; assumption.
Qed.

(* radial gradients: a uniform transform U = (s,0,0,+-s,e,f) maps circle t of
   (c0,r0,c1,r1) onto circle t of (U c0, s r0, U c1, s r1): squared distances scale by s^2 *)
Theorem rad_uniform_covariant (s e f : F O) (sgn : F O) (c x : pt) :
  sgn * sgn = 1 ->
  let U := Aff s 0 0 (sgn * s) e f in
  let dx := px (map_point U x) - px (map_point U c) in
  let dy := py (map_point U x) - py (map_point U c) in
  dx * dx + dy * dy = (s * s) * ((px x - px c) * (px x - px c) + (py x - py c) * (py x - py c)).
Proof.
  intros Hs U dx dy. unfold dx, dy, U, map_point; destruct c, x; simpl.
  transitivity (s * s * ((px0 - px) * (px0 - px)) + (sgn * sgn) * (s * s) * ((py0 - py) * (py0 - py))); [ring|].
  rewrite Hs. ring.
Qed.

End Facts.
