From Coq Require Import List ZArith Bool String Field Ring.
From Verif Require Import Model.Field Model.Affine Model.Color Model.Paint Model.Reuse Proofs.Affine_facts.
Import ListNotations.

Section Facts.
Context {O : fops}.
Hypothesis Fth : field_theory (f0 O) (f1 O) (fadd O) (fmul O) (fsub O) (fopp O) (fdiv O) (finv O) eq.
Hypothesis Eqb : feqb_ok O.
Variable K : consts.
Variable normalize : Z -> Z.
Variable affine_between : Z -> Z -> option (aff O).
Notation try_reuse := (try_reuse K normalize affine_between).
Notation add_glyph := (add_glyph normalize).

(* T1: the documented negative tolerance disables reuse for every path and every history *)
Theorem reuse_off_is_identity (c : cache) path : disabled c = true -> try_reuse c path = None.
Proof. intros H. unfold Reuse.try_reuse. rewrite H. reflexivity. Qed.
Lemma add_keeps_disabled (c : cache) n p : disabled (add_glyph c n p) = disabled c.
Proof. reflexivity. Qed.

(* invariant over every history of add_glyph calls: each stored entry was added, under the
   key its path normalises to *)
Definition cache_inv (added : list (string * Z)) (c : cache) : Prop :=
  forall k g gp, lookup k (reusable c) = Some (g, gp) ->
    In (g, gp) added /\ k = (if disabled c then gp else normalize gp).
Lemma cache_inv_empty dis : cache_inv [] (empty_cache dis).
Proof. intros k g gp H. discriminate. Qed.
Lemma cache_inv_add added (c : cache) n p :
  cache_inv added c -> cache_inv ((n, p) :: added) (add_glyph c n p).
Proof.
  intros Hinv k g gp H. unfold Reuse.add_glyph in H. cbn [reusable lookup disabled] in *.
  destruct (Z.eqb_spec k (if disabled c then p else normalize p)).
  - injection H as <- <-. split; [left; reflexivity|assumption].
  - destruct (Hinv k g gp H) as [Hin Hk]. split; [right; exact Hin|exact Hk].
Qed.

(* T4: whatever try_reuse returns is usable: the donor was really added, it normalises like
   the path, the oracle produced the affine for exactly this (donor path, path) pair, and the
   affine fits OpenType Fixed; in every other case the caller falls back to a fresh glyph *)
Theorem try_reuse_sound added (c : cache) path g a :
  cache_inv added c -> try_reuse c path = Some (g, a) ->
  disabled c = false /\
  exists gp, In (g, gp) added /\ normalize gp = normalize path /\
             affine_between gp path = Some a /\ fixed_safe_aff K a = true.
Proof.
  intros Hinv H. unfold Reuse.try_reuse in H.
  destruct (disabled c) eqn:Ed; [discriminate|]. split; [reflexivity|].
  destruct (lookup (normalize path) (reusable c)) as [[g' gp]|] eqn:El; [|discriminate].
  destruct (affine_between gp path) as [a'|] eqn:Ea; [|discriminate].
  destruct (fixed_safe_aff K a') eqn:Ef; [|discriminate]. injection H as <- <-.
  destruct (Hinv _ _ _ El) as [Hin Hk]. rewrite Ed in Hk.
  exists gp. repeat split; auto.
Qed.

(* C19-T2: reuse is taken whenever a donor with the same normal form exists and the oracle
   finds a representable affine *)
Theorem reuse_taken (c : cache) path g gp a :
  disabled c = false -> lookup (normalize path) (reusable c) = Some (g, gp) ->
  affine_between gp path = Some a -> fixed_safe_aff K a = true ->
  try_reuse c path = Some (g, a).
Proof. intros Hd Hl Ha Hf. unfold Reuse.try_reuse. rewrite Hd, Hl, Ha, Hf. reflexivity. Qed.

(* T2 (algebraic heart of the rewrite): wrapping the donor in the reuse transform R while
   pre-composing the gradient's own transform C with R^-1 leaves the gradient where it was *)
Theorem reuse_counter_transform (R C : aff O) :
  adet R <> f0 O -> compose_ltr [compose_ltr [C; ainverse R]; R] = C.
Proof.
  intros Hd. rewrite !(compose_ltr_two Fth), (matmul_assoc Fth), (ainverse_r Fth Eqb) by assumption.
  apply (matmul_id_l Fth).
Qed.
Corollary reuse_counter_transform_point (R C : aff O) (p : pt O) :
  adet R <> f0 O -> map_point R (map_point (compose_ltr [C; ainverse R]) p) = map_point C p.
Proof.
  intros Hd. rewrite <- (map_point_matmul Fth). rewrite <- (compose_ltr_two Fth).
  rewrite reuse_counter_transform by assumption. reflexivity.
Qed.
End Facts.
