From Coq Require Import List ZArith Bool Lia.
From Verif Require Import Model.Build Model.Ninja Proofs.Build_facts.
Import ListNotations.
Local Open Scope Z_scope.

Section Facts.
Variable exec : Z -> list Z -> Z.
Variable garbage : Z.
(* which paths are build outputs (never edited by the user), and the inputs a command for an
   output reads: nanoemoji's rules name every input in the command line or the response file *)
Variable isout : Z -> bool.
Variable insof : Z -> Z -> list Z.

Notation step := (step exec garbage).
Notation ninja_run := (ninja_run exec garbage).
Notation apply := (apply exec garbage).
Notation run_ok := (run_ok exec).
Notation run_trunc := (run_trunc garbage).

Definition AllLe (s : st) (ins : list Z) (t : Z) : Prop :=
  forall i, In i ins -> exists v m, files s i = Some (v, m) /\ m <= t.
Lemma all_le_spec s ins t : all_le s ins t = true <-> AllLe s ins t.
Proof.
  unfold all_le, AllLe, mtime. rewrite forallb_forall. split; intros H i Hi; specialize (H i Hi).
  - destruct (files s i) as [[v m]|]; [|discriminate]. exists v, m. split; [reflexivity|]. apply Z.leb_le. exact H.
  - destruct H as (v & m & -> & Hm). apply Z.leb_le. exact Hm.
Qed.

(* ---------------- the invariant ---------------- *)
Definition Inv (s : st) : Prop :=
  (forall p v m, files s p = Some (v, m) -> m <= clock s) /\
  (forall o le, nlog s o = Some le ->
     isout o = true /\ l_t le <= clock s /\
     (forall v m, files s o = Some (v, m) -> AllLe s (insof o (l_cmd le)) (l_t le) ->
        v = exec (l_cmd le) (map (content s) (insof o (l_cmd le))))).

Lemma inv_init : Inv init.
Proof. split; [intros p v m H; discriminate|intros o le H; discriminate]. Qed.

Lemma fupd_same {A} (f : Z -> option A) k v : fupd f k v k = v.
Proof. unfold fupd. rewrite Z.eqb_refl. reflexivity. Qed.
Lemma fupd_other {A} (f : Z -> option A) k v x : x <> k -> fupd f k v x = f x.
Proof. intros H. unfold fupd. destruct (Z.eqb_spec x k); [contradiction|reflexivity]. Qed.

(* a path whose file entry is untouched keeps its content *)
Lemma content_ext s s' l : (forall i, In i l -> files s' i = files s i) -> map (content s') l = map (content s) l.
Proof. intros H. apply map_ext_in. intros i Hi. unfold content. rewrite (H i Hi). reflexivity. Qed.
Lemma AllLe_ext s s' l t : (forall i, In i l -> files s' i = files s i) -> AllLe s' l t -> AllLe s l t.
Proof. intros H A i Hi. rewrite <- (H i Hi). apply A. exact Hi. Qed.

(* ---------------- user operations ---------------- *)
Lemma inv_edit s p c : Inv s -> isout p = false -> Inv (edit s p c).
Proof.
  intros [I1 I2] Hp. split.
  - intros q v m H. simpl in *. unfold fupd in H. destruct (Z.eqb_spec q p).
    + injection H as <- <-. lia.
    + specialize (I1 q v m H). lia.
  - intros o le Hl. simpl in Hl. destruct (I2 o le Hl) as (Ho & Ht & Hv).
    split; [exact Ho|]. split; [simpl; lia|].
    intros v m Hf A. simpl in Hf. assert (o <> p) by (intros ->; congruence).
    rewrite fupd_other in Hf by assumption.
    destruct (in_dec Z.eq_dec p (insof o (l_cmd le))) as [Hin|Hnin].
    + exfalso. destruct (A p Hin) as (v' & m' & Hf' & Hm'). simpl in Hf'. rewrite fupd_same in Hf'.
      injection Hf' as <- <-. lia.
    + assert (E : forall i, In i (insof o (l_cmd le)) -> files (edit s p c) i = files s i).
      { intros i Hi. simpl. apply fupd_other. intros ->. contradiction. }
      rewrite (content_ext _ _ _ E). apply (Hv v m Hf). exact (AllLe_ext _ _ _ _ E A).
Qed.

Lemma inv_remove s p : Inv s -> isout p = false -> Inv (remove s p).
Proof.
  intros [I1 I2] Hp. split.
  - intros q v m H. simpl in *. unfold fupd in H. destruct (Z.eqb_spec q p); [discriminate|]. exact (I1 q v m H).
  - intros o le Hl. simpl in Hl. destruct (I2 o le Hl) as (Ho & Ht & Hv).
    split; [exact Ho|]. split; [exact Ht|].
    intros v m Hf A. simpl in Hf. assert (o <> p) by (intros ->; congruence).
    rewrite fupd_other in Hf by assumption.
    destruct (in_dec Z.eq_dec p (insof o (l_cmd le))) as [Hin|Hnin].
    + exfalso. destruct (A p Hin) as (v' & m' & Hf' & _). simpl in Hf'. rewrite fupd_same in Hf'. discriminate.
    + assert (E : forall i, In i (insof o (l_cmd le)) -> files (remove s p) i = files s i).
      { intros i Hi. simpl. apply fupd_other. intros ->. contradiction. }
      rewrite (content_ext _ _ _ E). apply (Hv v m Hf). exact (AllLe_ext _ _ _ _ E A).
Qed.

(* a rename is honest about time when the file that arrives under the name q is newer than
   every logged command that read q (otherwise ninja cannot see that q changed) *)
Definition rename_fresh (s : st) (p q : Z) : Prop :=
  forall o le, nlog s o = Some le -> In q (insof o (l_cmd le)) ->
    match files s p with Some (_, mp) => l_t le < mp | None => True end.

Lemma inv_rename s p q : Inv s -> isout p = false -> isout q = false -> rename_fresh s p q -> Inv (rename s p q).
Proof.
  intros [I1 I2] Hp Hq Hfresh. split.
  - intros x v m H. simpl in *. unfold fupd in H. destruct (Z.eqb_spec x p); [discriminate|].
    destruct (Z.eqb_spec x q); [exact (I1 p v m H)|exact (I1 x v m H)].
  - intros o le Hl. simpl in Hl. destruct (I2 o le Hl) as (Ho & Ht & Hv).
    split; [exact Ho|]. split; [exact Ht|].
    intros v m Hf A. simpl in Hf.
    assert (o <> p) by (intros ->; congruence). assert (o <> q) by (intros ->; congruence).
    rewrite !fupd_other in Hf by assumption.
    destruct (in_dec Z.eq_dec p (insof o (l_cmd le))) as [Hin|Hnin].
    { exfalso. destruct (A p Hin) as (v' & m' & Hf' & _). simpl in Hf'. rewrite fupd_same in Hf'. discriminate. }
    destruct (in_dec Z.eq_dec q (insof o (l_cmd le))) as [Hinq|Hninq].
    { exfalso. specialize (Hfresh o le Hl Hinq). destruct (A q Hinq) as (v' & m' & Hf' & Hm').
      simpl in Hf'. destruct (Z.eq_dec q p) as [->|Hqp]; [contradiction|].
      rewrite fupd_other, fupd_same in Hf' by assumption. rewrite Hf' in Hfresh. lia. }
    assert (E : forall i, In i (insof o (l_cmd le)) -> files (rename s p q) i = files s i).
    { intros i Hi. simpl. rewrite !fupd_other; [reflexivity| |]; intros ->; contradiction. }
    rewrite (content_ext _ _ _ E). apply (Hv v m Hf). exact (AllLe_ext _ _ _ _ E A).
Qed.

(* ---------------- ninja steps ---------------- *)
Definition edge_ok (e : edge) : Prop :=
  isout (e_out e) = true /\ e_ins e = insof (e_out e) (e_cmd e) /\ ~ In (e_out e) (e_ins e).

Lemma inv_run_ok s e : Inv s -> edge_ok e -> Inv (run_ok s e).
Proof.
  intros [I1 I2] (Ho & Hins & Hself). split.
  - intros q v m H. simpl in *. unfold fupd in H. destruct (Z.eqb_spec q (e_out e)).
    + injection H as <- <-. lia.
    + specialize (I1 q v m H). lia.
  - intros o le Hl. simpl in Hl. unfold fupd in Hl. destruct (Z.eqb_spec o (e_out e)) as [->|Hne].
    + injection Hl as <-. simpl. split; [exact Ho|]. split; [lia|].
      intros v m Hf _. rewrite fupd_same in Hf. injection Hf as <- <-. f_equal. rewrite <- Hins.
      symmetry. apply content_ext. intros i Hi. simpl. apply fupd_other. intros ->. contradiction.
    + destruct (I2 o le Hl) as (Ho' & Ht & Hv). split; [exact Ho'|]. split; [simpl; lia|].
      intros v m Hf A. simpl in Hf. rewrite fupd_other in Hf by assumption.
      destruct (in_dec Z.eq_dec (e_out e) (insof o (l_cmd le))) as [Hin|Hnin].
      * exfalso. destruct (A _ Hin) as (v' & m' & Hf' & Hm'). simpl in Hf'. rewrite fupd_same in Hf'.
        injection Hf' as <- <-. lia.
      * assert (E : forall i, In i (insof o (l_cmd le)) -> files (run_ok s e) i = files s i).
        { intros i Hi. simpl. apply fupd_other. intros ->. contradiction. }
        rewrite (content_ext _ _ _ E). apply (Hv v m Hf). exact (AllLe_ext _ _ _ _ E A).
Qed.

(* a truncating kill is harmless when the step's logged result is already invalidated by the
   logged command's own inputs (or there is no logged result) *)
Definition trunc_safe (s : st) (e : edge) : Prop :=
  match nlog s (e_out e) with
  | None => True
  | Some le => ~ AllLe s (insof (e_out e) (l_cmd le)) (l_t le)
  end.

Lemma inv_run_trunc s e : Inv s -> isout (e_out e) = true -> trunc_safe s e -> Inv (run_trunc s e).
Proof.
  intros [I1 I2] Ho Hsafe. split.
  - intros q v m H. simpl in *. unfold fupd in H. destruct (Z.eqb_spec q (e_out e)).
    + injection H as <- <-. lia.
    + specialize (I1 q v m H). lia.
  - intros o le Hl. simpl in Hl. destruct (I2 o le Hl) as (Ho' & Ht & Hv).
    split; [exact Ho'|]. split; [simpl; lia|]. intros v m Hf A.
    destruct (in_dec Z.eq_dec (e_out e) (insof o (l_cmd le))) as [Hin|Hnin].
    + exfalso. destruct (A _ Hin) as (v' & m' & Hf' & Hm'). simpl in Hf'. rewrite fupd_same in Hf'.
      injection Hf' as <- <-. lia.
    + assert (E : forall i, In i (insof o (l_cmd le)) -> files (run_trunc s e) i = files s i).
      { intros i Hi. simpl. apply fupd_other. intros ->. contradiction. }
      pose proof (AllLe_ext _ _ _ _ E A) as A0.
      destruct (Z.eq_dec o (e_out e)) as [->|Hne].
      * exfalso. unfold trunc_safe in Hsafe. rewrite Hl in Hsafe. contradiction.
      * simpl in Hf. rewrite fupd_other in Hf by assumption.
        rewrite (content_ext _ _ _ E). apply (Hv v m Hf). exact A0.
Qed.

(* ---------------- a whole invocation ---------------- *)
(* the side conditions under which faults are covered, checked along the run *)
Fixpoint ok_run (d : edge -> action) (s : st) (g : list edge) : Prop :=
  match g with
  | [] => True
  | e :: r => edge_ok e /\
              (clean s e = false -> d e = Trunc -> trunc_safe s e) /\
              ok_run d (fst (step d (s, true) e)) r
  end.

Lemma step_fst_indep d s b e : fst (step d (s, b) e) = fst (step d (s, true) e).
Proof. unfold Ninja.step. destruct (clean s e); [reflexivity|]. destruct (d e); try reflexivity. destruct (inputs_present s e); reflexivity. Qed.

Lemma inv_step d s b e : Inv s -> edge_ok e ->
  (clean s e = false -> d e = Trunc -> trunc_safe s e) -> Inv (fst (step d (s, b) e)).
Proof.
  intros HI He Hs. unfold Ninja.step. destruct (clean s e) eqn:Ec; [exact HI|].
  destruct (d e) eqn:Ed; simpl; try exact HI.
  - destruct (inputs_present s e); simpl; [apply inv_run_ok; assumption|exact HI].
  - apply inv_run_trunc; [assumption|apply He|auto].
Qed.

Lemma ninja_run_cons d s b e r :
  fold_left (step d) (e :: r) (s, b) = fold_left (step d) r (step d (s, b) e).
Proof. reflexivity. Qed.

Lemma fold_fst_indep d r : forall s b, fst (fold_left (step d) r (s, b)) = fst (fold_left (step d) r (s, true)).
Proof.
  induction r as [|e r IH]; intros s b; [reflexivity|]. cbn [fold_left].
  destruct (step d (s, b) e) as [s1 b1] eqn:E1. destruct (step d (s, true) e) as [s2 b2] eqn:E2.
  assert (Es : s1 = s2). { pose proof (step_fst_indep d s b e) as H. rewrite E1, E2 in H. exact H. }
  rewrite Es. rewrite (IH s2 b1), (IH s2 b2). reflexivity.
Qed.

Lemma inv_ninja_run d g : forall s, Inv s -> ok_run d s g -> Inv (fst (ninja_run d s g)).
Proof.
  unfold Ninja.ninja_run. induction g as [|e r IH]; intros s HI Hok; [exact HI|].
  destruct Hok as (He & Hs & Hr). cbn [fold_left].
  destruct (step d (s, true) e) as [s1 b1] eqn:E1.
  rewrite fold_fst_indep. apply IH.
  - pose proof (inv_step d s true e HI He Hs) as H. rewrite E1 in H. exact H.
  - exact Hr.
Qed.

(* ---------------- histories ---------------- *)
Definition ok_op (s : st) (o : op) : Prop :=
  match o with
  | Edit p _ => isout p = false
  | Remove p => isout p = false
  | Rename p q => isout p = false /\ isout q = false /\ rename_fresh s p q
  | Invoke g d => ok_run d s g
  end.
Fixpoint ok_history (s : st) (h : list op) : Prop :=
  match h with
  | [] => True
  | o :: r => ok_op s o /\ ok_history (apply s o) r
  end.

Lemma inv_apply s o : Inv s -> ok_op s o -> Inv (apply s o).
Proof.
  intros HI Hok. destruct o as [p c|p|p q|g d]; simpl in *.
  - apply inv_edit; assumption.
  - apply inv_remove; assumption.
  - destruct Hok as (A & B & C). apply inv_rename; assumption.
  - apply inv_ninja_run; assumption.
Qed.
Lemma inv_history h : forall s, Inv s -> ok_history s h -> Inv (fold_left apply h s).
Proof.
  induction h as [|o r IH]; intros s HI Hok; [exact HI|]. destruct Hok as [Ho Hr]. simpl.
  apply IH; [apply inv_apply; assumption|exact Hr].
Qed.

(* ---------------- convergence of a fault-free invocation ---------------- *)
Definition settled (s : st) (e : edge) : Prop :=
  content s (e_out e) = exec (e_cmd e) (map (content s) (e_ins e)).

Lemma flag_sticky d r : forall s, snd (fold_left (step d) r (s, false)) = false.
Proof.
  induction r as [|e r IH]; intros s; [reflexivity|]. cbn [fold_left].
  assert (E : snd (step d (s, false) e) = false).
  { unfold Ninja.step. destruct (clean s e); [reflexivity|]. destruct (d e); try reflexivity. destruct (inputs_present s e); reflexivity. }
  destruct (step d (s, false) e) as [s1 b1]. simpl in E. subst b1. apply IH.
Qed.

Lemma step_run_settles s e : Inv s -> edge_ok e ->
  snd (step all_run (s, true) e) = true -> settled (fst (step all_run (s, true) e)) e.
Proof.
  intros [I1 I2] (Ho & Hins & Hself) Hok. unfold Ninja.step in *. destruct (clean s e) eqn:Ec.
  - simpl. unfold clean in Ec. unfold settled, content at 1.
    destruct (files s (e_out e)) as [[v mo]|] eqn:Ef; [|discriminate].
    destruct (nlog s (e_out e)) as [le|] eqn:El; [|discriminate].
    apply andb_prop in Ec. destruct Ec as [Ec A2]. apply andb_prop in Ec. destruct Ec as [Ec A1].
    apply Z.eqb_eq in Ec. destruct (I2 _ _ El) as (_ & _ & Hv).
    rewrite Hins, <- Ec. apply (Hv v mo Ef). apply all_le_spec. rewrite Ec, <- Hins. exact A2.
  - unfold all_run in *. destruct (inputs_present s e); [|discriminate]. simpl.
    unfold settled, content at 1. simpl. rewrite fupd_same. f_equal. symmetry.
    apply content_ext. intros i Hi. simpl. apply fupd_other. intros ->. contradiction.
Qed.

(* processing later edges leaves everything but their outputs alone *)
Lemma run_frame_files d r : forall s b x, ~ In x (map e_out r) -> files (fst (fold_left (step d) r (s, b))) x = files s x.
Proof.
  induction r as [|e r IH]; intros s b x Hx; [reflexivity|]. cbn [fold_left map] in *.
  destruct (step d (s, b) e) as [s1 b1] eqn:E1. rewrite IH by (simpl in Hx; tauto).
  assert (x <> e_out e) by (intros ->; apply Hx; left; reflexivity).
  unfold Ninja.step in E1. destruct (clean s e); [injection E1 as <- _; reflexivity|].
  destruct (d e); try (injection E1 as <- _; reflexivity).
  - destruct (inputs_present s e); injection E1 as <- _; [simpl; apply fupd_other; assumption|reflexivity].
  - injection E1 as <- _. simpl. apply fupd_other; assumption.
Qed.

Lemma ninja_all_run_settles g : forall seen s, Inv s -> wf_graph_from seen g = true ->
  (forall e, In e g -> edge_ok e) ->
  snd (ninja_run all_run s g) = true ->
  forall e, In e g -> settled (fst (ninja_run all_run s g)) e.
Proof.
  unfold Ninja.ninja_run. induction g as [|e r IH]; intros seen s HI Hwf Hedges Hok e0 He0; [destruct He0|].
  simpl in Hwf. repeat (apply andb_prop in Hwf; destruct Hwf as [Hwf ?]).
  rename H into Hr, H0 into Hlater, H1 into Hself.
  cbn [fold_left] in *. destruct (step all_run (s, true) e) as [s1 b1] eqn:E1.
  assert (b1 = true).
  { destruct b1; [reflexivity|]. rewrite flag_sticky in Hok. discriminate. }
  subst b1.
  assert (HI1 : Inv s1).
  { pose proof (inv_step all_run s true e HI (Hedges e (or_introl eq_refl))) as H.
    rewrite E1 in H. apply H. intros _ Hd; discriminate. }
  pose proof (step_run_settles s e HI (Hedges e (or_introl eq_refl))) as Hset. rewrite E1 in Hset.
  specialize (Hset eq_refl). simpl in Hset.
  destruct (wf_outs_fresh r (e_out e :: seen) Hr) as [_ Hfresh].
  destruct He0 as [<-|He0].
  - (* e itself: later edges touch neither its output nor its inputs *)
    unfold settled in *.
    assert (Hout : ~ In (e_out e) (map e_out r)) by (intros Hin; apply (Hfresh _ Hin); left; reflexivity).
    assert (Eo : content (fst (fold_left (step all_run) r (s1, true))) (e_out e) = content s1 (e_out e)).
    { unfold content. rewrite run_frame_files by exact Hout. reflexivity. }
    rewrite Eo, Hset. f_equal. symmetry. apply content_ext. intros i Hi. apply run_frame_files.
    intros Hin. apply in_map_iff in Hin. destruct Hin as (e' & <- & He').
    rewrite forallb_forall in Hlater. specialize (Hlater e' He').
    apply negb_true_iff, existsb_eqb_false in Hlater. contradiction.
  - apply (IH (e_out e :: seen) s1 HI1 Hr); [intros e' He'; apply Hedges; right; exact He'|exact Hok|exact He0].
Qed.

(* T2: after ANY history whose renames are honest about time and whose truncating kills hit
   only steps with an already invalidated (or no) logged result, a further invocation in
   which every step succeeds leaves every output equal to its tool applied to the final
   inputs -- the clean-build value *)
Theorem converges (h : list op) (g : list edge) :
  ok_history init h -> wf_graph g = true -> (forall e, In e g -> edge_ok e) ->
  let s := fold_left apply h init in
  snd (ninja_run all_run s g) = true ->
  let s' := fst (ninja_run all_run s g) in
  forall e, In e g -> content s' (e_out e) = exec (e_cmd e) (map (content s') (e_ins e)).
Proof.
  intros Hok Hwf Hedges s Hrun s' e He.
  apply (ninja_all_run_settles g [] s); try assumption.
  apply inv_history; [apply inv_init|exact Hok].
Qed.

(* the unique solution of the edge equations over given sources is the clean build *)
Lemma fixed_point_unique g : forall seen (f0 : fs) (val : Z -> Z),
  wf_graph_from seen g = true ->
  (forall e, In e g -> val (e_out e) = exec (e_cmd e) (map val (e_ins e))) ->
  (forall x, ~ In x (map e_out g) -> val x = read f0 x) ->
  forall x, val x = read (run_schedule exec f0 g) x.
Proof.
  induction g as [|e r IH]; intros seen f0 val Hwf Heq Hsrc x; [apply Hsrc; intros []|].
  simpl in Hwf. repeat (apply andb_prop in Hwf; destruct Hwf as [Hwf ?]).
  rename H into Hr, H0 into Hlater, H1 into Hself. apply negb_true_iff, existsb_eqb_false in Hself.
  simpl. apply (IH (e_out e :: seen)); [exact Hr|intros e' He'; apply Heq; right; exact He'|].
  intros y Hy. destruct (Z.eq_dec y (e_out e)) as [->|Hne].
  - unfold Build.run_edge. rewrite read_upd_same. rewrite (Heq e (or_introl eq_refl)). f_equal.
    apply map_ext_in. intros i Hi. apply Hsrc. simpl. intros [E|Hin].
    + subst i. contradiction.
    + apply in_map_iff in Hin. destruct Hin as (e' & <- & He').
      rewrite forallb_forall in Hlater. specialize (Hlater e' He').
      apply negb_true_iff, existsb_eqb_false in Hlater. contradiction.
  - unfold Build.run_edge. rewrite read_upd_other by exact Hne. apply Hsrc. simpl. intros [E|Hin]; [congruence|contradiction].
Qed.

Corollary converges_to_clean_build (h : list op) (g : list edge) :
  ok_history init h -> wf_graph g = true -> (forall e, In e g -> edge_ok e) ->
  let s := fold_left apply h init in
  snd (ninja_run all_run s g) = true ->
  let s' := fst (ninja_run all_run s g) in
  (* the clean build: the same graph run from the final sources alone *)
  let src : fs := fun p => if existsb (Z.eqb p) (map e_out g) then None else Some (content s p) in
  forall x, content s' x = read (run_schedule exec src g) x.
Proof.
  intros Hok Hwf Hedges s Hrun s' src x.
  apply (fixed_point_unique g [] src (content s') Hwf).
  - apply converges; assumption.
  - intros y Hy. unfold read, src. rewrite (proj2 (existsb_eqb_false y (map e_out g)) Hy).
    unfold s', content. unfold Ninja.ninja_run. rewrite run_frame_files by exact Hy. reflexivity.
Qed.

(* T3: an invocation reports success only if every step it reached and found dirty was run
   to completion; a step that failed, was killed or not started leaves no log entry *)
Fixpoint failures (d : edge -> action) (s : st) (g : list edge) : nat :=
  match g with
  | [] => 0%nat
  | e :: r =>
      ((if clean s e then 0 else match d e with Run => if inputs_present s e then 0 else 1 | _ => 1 end)
       + failures d (fst (step d (s, true) e)) r)%nat
  end.
Theorem failure_propagates d g : forall s, snd (ninja_run d s g) = true <-> failures d s g = 0%nat.
Proof.
  unfold Ninja.ninja_run. induction g as [|e r IH]; intros s; [simpl; tauto|].
  cbn [fold_left failures]. destruct (step d (s, true) e) as [s1 b1] eqn:E1. cbn [fst].
  unfold Ninja.step in E1. destruct (clean s e).
  - injection E1 as <- <-. simpl. apply IH.
  - destruct (d e).
    + destruct (inputs_present s e); injection E1 as <- <-.
      * simpl. apply IH.
      * rewrite flag_sticky. split; [discriminate|intros H; discriminate].
    + injection E1 as <- <-. rewrite flag_sticky. split; [discriminate|intros H; discriminate].
    + injection E1 as <- <-. rewrite flag_sticky. split; [discriminate|intros H; discriminate].
    + injection E1 as <- <-. rewrite flag_sticky. split; [discriminate|intros H; discriminate].
Qed.
Lemma no_log_without_success d s b e : d e <> Run -> nlog (fst (step d (s, b) e)) = nlog s.
Proof.
  intros H. unfold Ninja.step. destruct (clean s e); [reflexivity|]. destruct (d e); try reflexivity. contradiction.
Qed.

(* T5: the driver rewrites the resolved configuration before every invocation, so every edge
   that reads it is dirty in that invocation *)
Lemma config_edit_dirties s cfg c e : Inv s -> In cfg (e_ins e) -> clean (edit s cfg c) e = false.
Proof.
  intros [I1 I2] Hin. unfold clean. simpl.
  destruct (fupd (files s) cfg (Some (c, clock s + 1)) (e_out e)) as [[v mo]|] eqn:Ef; [|reflexivity].
  destruct (nlog s (e_out e)) as [le|] eqn:El; [|reflexivity].
  destruct (I2 _ _ El) as (_ & Ht & _).
  assert (A : all_le (edit s cfg c) (e_ins e) (l_t le) = false).
  { apply not_true_is_false. intros A. apply all_le_spec in A. destruct (A cfg Hin) as (v' & m' & Hf & Hm).
    simpl in Hf. rewrite fupd_same in Hf. injection Hf as <- <-. lia. }
  simpl in A. rewrite A. rewrite andb_false_r. reflexivity.
Qed.
End Facts.
