From Coq Require Import List ZArith QArith Qround Qminmax Bool Lia Lqa.
From Verif Require Import Model.Fixed Model.Bounds.
Import ListNotations.
Local Open Scope Q_scope.

(* ---------- quantisation (integers) ---------- *)
Lemma floor_to_spec f x : (1 <= f)%Z ->
  (floor_to f x <= x /\ x - floor_to f x < f /\ (floor_to f x mod f = 0))%Z.
Proof.
  intros Hf. unfold floor_to.
  pose proof (Z.div_mod x f ltac:(lia)). pose proof (Z.mod_pos_bound x f ltac:(lia)).
  repeat split; try lia. apply Z.mod_mul. lia.
Qed.
Lemma ceil_to_spec f x : (1 <= f)%Z ->
  (x <= ceil_to f x /\ ceil_to f x - x < f /\ (ceil_to f x mod f = 0))%Z.
Proof.
  intros Hf. unfold ceil_to.
  pose proof (Z.div_mod (- x) f ltac:(lia)). pose proof (Z.mod_pos_bound (- x) f ltac:(lia)).
  repeat split; try lia. apply Z.mod_mul. lia.
Qed.

Theorem quantize_spec x0 y0 x1 y1 f : (1 <= f)%Z ->
  exists a b c d, quantize_rect (x0, y0, x1, y1) f = Some (a, b, c, d) /\
    (a <= x0 /\ x0 - a < f /\ a mod f = 0)%Z /\ (b <= y0 /\ y0 - b < f /\ b mod f = 0)%Z /\
    (x1 <= c /\ c - x1 < f /\ c mod f = 0)%Z /\ (y1 <= d /\ d - y1 < f /\ d mod f = 0)%Z.
Proof.
  intros Hf. unfold quantize_rect. destruct (Z.ltb_spec f 1); [lia|].
  do 4 eexists. split; [reflexivity|].
  repeat split; try apply floor_to_spec; try apply ceil_to_spec; assumption.
Qed.
Lemma quantize_assert x0 y0 x1 y1 f : (f < 1)%Z -> quantize_rect (x0, y0, x1, y1) f = None.
Proof. intros H. unfold quantize_rect. destruct (Z.ltb_spec f 1); [reflexivity|lia]. Qed.

(* ---------- otRound ---------- *)
Lemma otRound_bounds x : inject_Z (otRound x) - (1#2) <= x /\ x < inject_Z (otRound x) + (1#2).
Proof.
  unfold otRound. pose proof (Qfloor_le (x + (1#2))). pose proof (Qlt_floor (x + (1#2))).
  rewrite inject_Z_plus in H0. change (inject_Z 1) with 1 in H0.
  set (k := inject_Z (Qfloor (x + (1 # 2)))) in *. split; lra.
Qed.

(* ---------- containment ---------- *)
Definition inside (b : box) (p : Q * Q) : Prop :=
  let '(x0, y0, x1, y1) := b in x0 <= fst p <= x1 /\ y0 <= snd p <= y1.
Definition box_le (a b : box) : Prop :=   (* a is contained in b *)
  let '(x0, y0, x1, y1) := a in let '(u0, v0, u1, v1) := b in
  u0 <= x0 /\ v0 <= y0 /\ x1 <= u1 /\ y1 <= v1.

Lemma box_le_refl a : box_le a a.
Proof. destruct a as [[[x0 y0] x1] y1]; simpl; repeat split; lra. Qed.
Lemma box_le_trans a b c : box_le a b -> box_le b c -> box_le a c.
Proof.
  destruct a as [[[? ?] ?] ?], b as [[[? ?] ?] ?], c as [[[? ?] ?] ?]; simpl. intuition lra.
Qed.
Lemma inside_mono a b p : box_le a b -> inside a p -> inside b p.
Proof. destruct a as [[[? ?] ?] ?], b as [[[? ?] ?] ?]; simpl. intuition lra. Qed.

Lemma bb_add_grows b p : box_le b (bb_add b p) /\ inside (bb_add b p) p.
Proof.
  destruct b as [[[x0 y0] x1] y1], p as [px py]; simpl.
  pose proof (Q.le_min_l x0 px). pose proof (Q.le_min_r x0 px).
  pose proof (Q.le_min_l y0 py). pose proof (Q.le_min_r y0 py).
  pose proof (Q.le_max_l x1 px). pose proof (Q.le_max_r x1 px).
  pose proof (Q.le_max_l y1 py). pose proof (Q.le_max_r y1 py).
  repeat split; lra.
Qed.
Lemma fold_bb_add_grows r : forall b,
  box_le b (fold_left bb_add r b) /\ forall p, In p r -> inside (fold_left bb_add r b) p.
Proof.
  induction r as [|q r IH]; intros b; simpl.
  - split; [apply box_le_refl|intros ? []].
  - destruct (IH (bb_add b q)) as [H1 H2]. destruct (bb_add_grows b q) as [G1 G2]. split.
    + eapply box_le_trans; eassumption.
    + intros p [<-|Hp]; [eapply inside_mono; eassumption|auto].
Qed.
Lemma glyph_bbox_contains pts b : glyph_bbox pts = Some b -> forall p, In p pts -> inside b p.
Proof.
  destruct pts as [|q r]; simpl; [discriminate|]. intros [= <-] p Hp.
  destruct (fold_bb_add_grows r (bbox1 q)) as [H1 H2]. destruct Hp as [<-|Hp]; [|auto].
  eapply inside_mono; [exact H1|]. destruct q; simpl; repeat split; lra.
Qed.
Lemma glyph_bbox_none pts : glyph_bbox pts = None <-> pts = [].
Proof. destruct pts; simpl; split; congruence. Qed.

Lemma union_rect_grows a b : box_le a (union_rect a b) /\ box_le b (union_rect a b).
Proof.
  destruct a as [[[x0 y0] x1] y1], b as [[[u0 v0] u1] v1]; simpl.
  pose proof (Q.le_min_l x0 u0). pose proof (Q.le_min_r x0 u0).
  pose proof (Q.le_min_l y0 v0). pose proof (Q.le_min_r y0 v0).
  pose proof (Q.le_max_l x1 u1). pose proof (Q.le_max_r x1 u1).
  pose proof (Q.le_max_l y1 v1). pose proof (Q.le_max_r y1 v1).
  repeat split; lra.
Qed.

Definition acc_le (a : option box) (b : option box) : Prop :=
  match a, b with None, _ => True | Some x, Some y => box_le x y | Some _, None => False end.
Lemma bounds_step_grows acc pts :
  acc_le acc (bounds_step acc pts) /\
  (forall p, In p pts -> exists b, bounds_step acc pts = Some b /\ inside b p).
Proof.
  unfold bounds_step. destruct (glyph_bbox pts) as [b|] eqn:E.
  - pose proof (glyph_bbox_contains pts b E) as Hin. destruct acc as [a|]; simpl.
    + destruct (union_rect_grows a b) as [G1 G2]. split; [exact G1|].
      intros p Hp. eexists; split; [reflexivity|]. eapply inside_mono; [exact G2|auto].
    + split; [exact I|]. intros p Hp. eexists; split; [reflexivity|auto].
  - apply glyph_bbox_none in E. subst. split; [destruct acc; simpl; auto using box_le_refl|intros ? []].
Qed.
Lemma acc_le_trans a b c : acc_le a b -> acc_le b c -> acc_le a c.
Proof.
  destruct a, b, c; simpl; auto; try tauto. apply box_le_trans.
Qed.
Lemma fold_bounds_grows gl : forall acc,
  acc_le acc (fold_left bounds_step gl acc) /\
  (forall pts p, In pts gl -> In p pts ->
     exists b, fold_left bounds_step gl acc = Some b /\ inside b p).
Proof.
  induction gl as [|g gl IH]; intros acc; simpl.
  - split; [destruct acc; simpl; auto using box_le_refl|intros ? ? []].
  - destruct (IH (bounds_step acc g)) as [H1 H2]. destruct (bounds_step_grows acc g) as [G1 G2]. split.
    + eapply acc_le_trans; eassumption.
    + intros pts p [<-|Hg] Hp; [|eauto].
      destruct (G2 p Hp) as (b & Eb & Hb). rewrite Eb in H1.
      destruct (fold_left bounds_step gl (Some b)) as [b'|] eqn:E'; simpl in H1; [|contradiction].
      rewrite Eb. exists b'. split; [exact E'|]. eapply inside_mono; eassumption.
Qed.

Theorem bounds_raw_contains gl pts p :
  In pts gl -> In p pts -> exists b, bounds_raw gl = Some b /\ inside b p.
Proof. intros. unfold bounds_raw. destruct (fold_bounds_grows gl None) as [_ H']. eauto. Qed.

Lemma fold_bounds_none gl : forall acc,
  fold_left bounds_step gl acc = None <-> acc = None /\ Forall (fun pts => pts = []) gl.
Proof.
  induction gl as [|g gl IH]; intros acc; simpl.
  - split; [intros ->; auto|tauto].
  - rewrite IH. unfold bounds_step. destruct g as [|q r]; simpl.
    + split; intros [H1 H2]; split; auto. inversion H2; assumption.
    + split; [destruct acc; intros [H _]; discriminate|]. intros [_ H]. inversion H. discriminate.
Qed.

(* T4: no box exactly when no glyph contributes a point *)
Theorem no_paint_no_box gl f : bounds gl f = NoBox <-> Forall (fun pts => pts = []) gl.
Proof.
  unfold bounds. destruct (bounds_raw gl) as [[[[x0 y0] x1] y1]|] eqn:E.
  - split.
    + destruct (1 <? f)%Z; [destruct (quantize_rect _ f)|]; discriminate.
    + intros H. unfold bounds_raw in E. assert (fold_left bounds_step gl None = None) by (apply fold_bounds_none; auto).
      congruence.
  - split; [|reflexivity]. intros _. apply fold_bounds_none in E. tauto.
Qed.

(* T2 + T1: every (transformed) control point lies in the emitted box enlarged by the
   half unit otRound may move an edge inwards; edges are multiples of the step; the
   assertion is unreachable. *)
Theorem bounds_contain gl f pts p :
  In pts gl -> In p pts ->
  exists a b c d, bounds gl f = Box (a, b, c, d) /\
    inject_Z a - (1#2) <= fst p /\ fst p < inject_Z c + (1#2) /\
    inject_Z b - (1#2) <= snd p /\ snd p < inject_Z d + (1#2) /\
    ((1 < f)%Z -> (a mod f = 0 /\ b mod f = 0 /\ c mod f = 0 /\ d mod f = 0)%Z).
Proof.
  intros Hg Hp. destruct (bounds_raw_contains gl pts p Hg Hp) as ([[[x0 y0] x1] y1] & E & Hin).
  unfold bounds. rewrite E. simpl in Hin. destruct Hin as [[Hx0 Hx1] [Hy0 Hy1]].
  pose proof (otRound_bounds x0) as [A0 A1]. pose proof (otRound_bounds y0) as [B0 B1].
  pose proof (otRound_bounds x1) as [C0 C1]. pose proof (otRound_bounds y1) as [D0 D1].
  destruct (Z.ltb_spec 1 f) as [Hf|Hf].
  - destruct (quantize_spec (otRound x0) (otRound y0) (otRound x1) (otRound y1) f ltac:(lia))
      as (a & b & c & d & Eq & (Ha & _ & Ma) & (Hb & _ & Mb) & (Hc & _ & Mc) & (Hd & _ & Md)).
    rewrite Eq. exists a, b, c, d. split; [reflexivity|].
    rewrite Zle_Qle in Ha, Hb, Hc, Hd.
    split; [lra|]. split; [lra|]. split; [lra|]. split; [lra|]. intros _. auto.
  - do 4 eexists. split; [reflexivity|].
    split; [lra|]. split; [lra|]. split; [lra|]. split; [lra|]. intros ?. lia.
Qed.
