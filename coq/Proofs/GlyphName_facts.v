From Coq Require Import List NArith Bool Lia.
From Verif Require Import Model.Csv Model.GlyphName Proofs.Csv_facts.
Import ListNotations.
Local Open Scope N_scope.

Definition is_hexdig (c : N) : bool := ((48 <=? c) && (c <=? 57)) || ((97 <=? c) && (c <=? 102)).

Lemma hex_digit_is_hexdig d : d < 16 -> is_hexdig (hex_digit d) = true.
Proof.
  intros H. unfold hex_digit, is_hexdig. destruct (N.ltb_spec d 10).
  - apply orb_true_iff. left. apply andb_true_iff. split; apply N.leb_le; lia.
  - apply orb_true_iff. right. apply andb_true_iff. split; apply N.leb_le; lia.
Qed.
Lemma hex_rev_hexdig k : forall n, Forall (fun c => is_hexdig c = true) (hex_rev k n).
Proof.
  induction k as [|k IH]; intros n; [constructor|]. cbn [hex_rev]. destruct (N.ltb_spec n 16).
  - constructor; [apply hex_digit_is_hexdig; assumption|constructor].
  - constructor; [apply hex_digit_is_hexdig; apply N.mod_lt; lia|apply IH].
Qed.
Lemma to_hex_hexdig n : Forall (fun c => is_hexdig c = true) (to_hex n).
Proof. unfold to_hex. apply Forall_rev. apply hex_rev_hexdig. Qed.

Lemma to_hex_inj a b : to_hex a = to_hex b -> a = b.
Proof.
  intros E. destruct (to_hex_spec a) as [_ Ha]. destruct (to_hex_spec b) as [_ Hb]. rewrite E in Ha. congruence.
Qed.

(* a one-character hexadecimal string that is a letter is one of a..f = the code points 10..15 *)
Lemma to_hex_single_alpha n c : to_hex n = [c] -> is_ascii_alpha c = true -> 10 <= n <= 15.
Proof.
  intros E Ha. destruct (to_hex_spec n) as [_ Hp]. rewrite E in Hp. simpl in Hp.
  pose proof (to_hex_hexdig n) as Hd. rewrite E in Hd. inversion Hd as [|? ? Hc _]; subst.
  unfold hex_val in Hp. unfold is_hexdig in Hc. unfold is_ascii_alpha in Ha.
  destruct ((48 <=? c) && (c <=? 57)) eqn:E1.
  - exfalso. apply andb_prop in E1. destruct E1 as [A B]. apply N.leb_le in A, B.
    apply orb_prop in Ha. destruct Ha as [Ha|Ha]; apply andb_prop in Ha; destruct Ha as [C D]; apply N.leb_le in C, D; lia.
  - simpl in Hc. rewrite Hc in Hp. apply andb_prop in Hc. destruct Hc as [A B]. apply N.leb_le in A, B.
    injection Hp as Hp. lia.
Qed.

Definition unambiguous (cp : N) : Prop := ~ (10 <= cp <= 15).

Lemma name_tok_inj a b : unambiguous a -> unambiguous b -> name_tok a = name_tok b -> a = b.
Proof.
  intros Ua Ub E. unfold name_tok in E.
  destruct (is_ascii_alpha a) eqn:Aa, (is_ascii_alpha b) eqn:Ab.
  - congruence.
  - exfalso. apply Ub. apply (to_hex_single_alpha b a); [symmetry; exact E|exact Aa].
  - exfalso. apply Ua. apply (to_hex_single_alpha a b); [exact E|exact Ab].
  - apply to_hex_inj. exact E.
Qed.

Definition no_us (t : text) : Prop := ~ In USCORE t.
Lemma name_tok_no_us cp : no_us (name_tok cp) /\ name_tok cp <> [].
Proof.
  unfold name_tok, no_us. destruct (is_ascii_alpha cp) eqn:A.
  - split; [|discriminate]. intros [E|[]]. subst cp. vm_compute in A. discriminate.
  - split; [|apply to_hex_spec]. intros Hin. pose proof (to_hex_hexdig cp) as Hd. rewrite Forall_forall in Hd.
    specialize (Hd _ Hin). vm_compute in Hd. discriminate.
Qed.

(* splitting at the first underscore is unambiguous *)
Lemma split_first t1 : forall t2 r1 r2, no_us t1 -> no_us t2 ->
  (r1 = [] \/ exists x, r1 = USCORE :: x) -> (r2 = [] \/ exists x, r2 = USCORE :: x) ->
  t1 ++ r1 = t2 ++ r2 -> t1 = t2 /\ r1 = r2.
Proof.
  induction t1 as [|c t1 IH]; intros t2 r1 r2 N1 N2 H1 H2 E.
  - destruct t2 as [|d t2]; [auto|]. simpl in E. exfalso.
    destruct H1 as [->|(x & ->)]; [discriminate|]. injection E as <- _. apply N2. left; reflexivity.
  - destruct t2 as [|d t2].
    + simpl in E. exfalso. destruct H2 as [->|(x & ->)]; [discriminate|]. injection E as -> _. apply N1. left; reflexivity.
    + simpl in E. injection E as <- E.
      destruct (IH t2 r1 r2) as [-> ->]; auto; [intros Hin; apply N1; right; exact Hin|intros Hin; apply N2; right; exact Hin].
Qed.

Lemma join_us_cons t r : r <> [] -> join_us (t :: r) = t ++ USCORE :: join_us r.
Proof. destruct r; [contradiction|reflexivity]. Qed.

Lemma join_us_inj ts1 : forall ts2,
  Forall (fun t => no_us t /\ t <> []) ts1 -> Forall (fun t => no_us t /\ t <> []) ts2 ->
  join_us ts1 = join_us ts2 -> ts1 = ts2.
Proof.
  induction ts1 as [|t1 r1 IH]; intros ts2 F1 F2 E.
  - destruct ts2 as [|t2 r2]; [reflexivity|]. exfalso. inversion F2 as [|? ? [_ Hne] _]; subst.
    destruct r2; simpl in E; [congruence|]. destruct t2; [congruence|discriminate].
  - inversion F1 as [|? ? [N1 Hne1] F1']; subst.
    destruct ts2 as [|t2 r2].
    { exfalso. destruct r1; simpl in E; [congruence|]. destruct t1; [congruence|discriminate]. }
    inversion F2 as [|? ? [N2 Hne2] F2']; subst.
    assert (S1 : join_us (t1 :: r1) = t1 ++ match r1 with [] => [] | _ => USCORE :: join_us r1 end)
      by (destruct r1; [simpl; rewrite app_nil_r; reflexivity|reflexivity]).
    assert (S2 : join_us (t2 :: r2) = t2 ++ match r2 with [] => [] | _ => USCORE :: join_us r2 end)
      by (destruct r2; [simpl; rewrite app_nil_r; reflexivity|reflexivity]).
    rewrite S1, S2 in E.
    assert (Hs : t1 = t2 /\ match r1 with [] => [] | _ => USCORE :: join_us r1 end = match r2 with [] => [] | _ => USCORE :: join_us r2 end).
    { apply split_first; try assumption.
      - destruct r1; [left; reflexivity|right; eexists; reflexivity].
      - destruct r2; [left; reflexivity|right; eexists; reflexivity]. }
    destruct Hs as [-> Er].
    f_equal. destruct r1 as [|a r1], r2 as [|b r2]; [reflexivity|discriminate|discriminate|].
    injection Er as Er. apply IH; assumption.
Qed.

Lemma toks_ok cps : Forall (fun t => no_us t /\ t <> []) (map name_tok cps).
Proof. induction cps; constructor; [apply name_tok_no_us|assumption]. Qed.

Lemma map_name_tok_inj a : forall b, Forall unambiguous a -> Forall unambiguous b ->
  map name_tok a = map name_tok b -> a = b.
Proof.
  induction a as [|x a IH]; intros [|y b] Fa Fb E; try discriminate; [reflexivity|].
  inversion Fa; inversion Fb; subst. simpl in E. injection E as E1 E2.
  f_equal; [apply name_tok_inj; assumption|apply IH; assumption].
Qed.

Theorem raw_name_injective a b : Forall unambiguous a -> Forall unambiguous b ->
  raw_name a = raw_name b -> a = b.
Proof.
  intros Fa Fb E. apply map_name_tok_inj; try assumption.
  apply join_us_inj; [apply toks_ok|apply toks_ok|exact E].
Qed.

(* the 'g_' prefix: a name that needed the prefix collides with the sequence that spells it *)
Definition g_spelled (a b : list N) : Prop := a = 103 :: b /\ starts_alpha (raw_name b) = false.

Theorem glyph_name_injective a b na :
  Forall unambiguous a -> Forall unambiguous b -> a <> [] -> b <> [] ->
  glyph_name a = Some na -> glyph_name b = Some na ->
  a = b \/ g_spelled a b \/ g_spelled b a.
Proof.
  intros Fa Fb Na Nb Ha Hb. unfold glyph_name in Ha, Hb.
  destruct (Nat.ltb _ (length (raw_name a))); [discriminate|].
  destruct (Nat.ltb _ (length (raw_name b))); [discriminate|].
  injection Ha as Ha. injection Hb as Hb. unfold prefixed in Ha, Hb.
  assert (Hg : forall x y, Forall unambiguous x -> Forall unambiguous y -> y <> [] ->
             starts_alpha (raw_name y) = false -> raw_name x = 103 :: USCORE :: raw_name y -> g_spelled x y).
  { intros x y Fx Fy Ny Sy E. split; [|exact Sy].
    apply raw_name_injective; [exact Fx|constructor; [unfold unambiguous; lia|exact Fy]|].
    rewrite E. unfold raw_name. cbn [map]. change (name_tok 103) with [103].
    rewrite join_us_cons by (destruct y; [contradiction|discriminate]). reflexivity. }
  destruct (starts_alpha (raw_name a)) eqn:Sa, (starts_alpha (raw_name b)) eqn:Sb.
  - left. apply raw_name_injective; try assumption. congruence.
  - right. left. apply Hg; try assumption. congruence.
  - right. right. apply Hg; try assumption. congruence.
  - left. apply raw_name_injective; try assumption. congruence.
Qed.

(* F3: the exception is real *)
Example g_prefix_collision : glyph_name [103; 128512] = glyph_name [128512].
Proof. vm_compute. reflexivity. Qed.
(* and so is the hexadecimal-letter ambiguity for the control characters U+000A..U+000F *)
Example hex_letter_collision : glyph_name [10] = glyph_name [97].
Proof. vm_compute. reflexivity. Qed.
