From Coq Require Import List ZArith Bool Field Ring.
From Verif Require Import Model.Field Model.Affine.
Import ListNotations.
Local Open Scope F_scope.

Section Facts.
Context {O : fops}.
Hypothesis Fth : field_theory (f0 O) (f1 O) (fadd O) (fmul O) (fsub O) (fopp O) (fdiv O) (finv O) eq.
Hypothesis Eqb : feqb_ok O.
Add Field FF : Fth.
Notation aff := (aff O).
Notation pt := (pt O).

Lemma feqb_true (x y : F O) : feqb O x y = true -> x = y.
Proof. apply Eqb. Qed.
Lemma feqb_false (x y : F O) : feqb O x y = false -> x <> y.
Proof. intros H E. apply Eqb in E. congruence. Qed.
Lemma feqb_refl (x : F O) : feqb O x x = true.
Proof. apply Eqb; reflexivity. Qed.

Lemma aff_eqb_true (s t : aff) : aff_eqb s t = true -> s = t.
Proof.
  destruct s, t; unfold aff_eqb; simpl; intros H.
  repeat (apply andb_prop in H; destruct H as [H ?]).
  repeat match goal with E : feqb O _ _ = true |- _ => apply feqb_true in E end.
  congruence.
Qed.
Lemma aff_eqb_refl (s : aff) : aff_eqb s s = true.
Proof. destruct s; unfold aff_eqb; simpl; rewrite !feqb_refl; reflexivity. Qed.
Lemma aff_eqb_false (s t : aff) : aff_eqb s t = false -> s <> t.
Proof. intros H E; subst; rewrite aff_eqb_refl in H; discriminate. Qed.

Lemma aff_ext (s t : aff) :
  aa s = aa t -> ab s = ab t -> ac s = ac t -> ad s = ad t -> ae s = ae t -> af s = af t -> s = t.
Proof. destruct s, t; simpl; intros; congruence. Qed.

Lemma matmul_id_l (s : aff) : matmul aid s = s.
Proof. apply aff_ext; simpl; ring. Qed.
Lemma matmul_id_r (s : aff) : matmul s aid = s.
Proof. apply aff_ext; simpl; ring. Qed.
Lemma matmul_assoc (r s t : aff) : matmul r (matmul s t) = matmul (matmul r s) t.
Proof. apply aff_ext; simpl; ring. Qed.

Lemma map_point_matmul (s t : aff) (p : pt) : map_point (matmul s t) p = map_point s (map_point t p).
Proof. destruct p; unfold map_point; simpl; f_equal; ring. Qed.
Lemma map_point_id (p : pt) : map_point aid p = p.
Proof. destruct p; unfold map_point; simpl; f_equal; ring. Qed.

Lemma atranslate_spec (s : aff) tx ty : atranslate s tx ty = matmul s (Aff 1 0 0 1 tx ty).
Proof.
  unfold atranslate. destruct (feqb O tx 0) eqn:E1; simpl; [|reflexivity].
  destruct (feqb O ty 0) eqn:E2; simpl; [|reflexivity].
  apply feqb_true in E1, E2; subst. apply aff_ext; simpl; ring.
Qed.

(* compose_ltr [t1; ...; tn] maps by t1 first: = tn @ ... @ t1 *)
Lemma compose_ltr_nil : compose_ltr (O:=O) [] = aid.
Proof. reflexivity. Qed.
Lemma fold_left_matmul (l : list aff) a : fold_left matmul l a = matmul a (fold_left matmul l aid).
Proof.
  revert a; induction l as [|x l IH]; intros a; simpl.
  - now rewrite matmul_id_r.
  - rewrite IH, (IH (matmul aid x)), matmul_id_l, matmul_assoc. reflexivity.
Qed.
Lemma compose_ltr_cons (t : aff) l : compose_ltr (t :: l) = matmul (compose_ltr l) t.
Proof.
  unfold compose_ltr; simpl. rewrite fold_left_app; simpl. reflexivity.
Qed.
Lemma compose_ltr_two (s t : aff) : compose_ltr [s; t] = matmul t s.
Proof. rewrite !compose_ltr_cons, compose_ltr_nil, matmul_id_l. reflexivity. Qed.
Lemma compose_ltr_three (r s t : aff) : compose_ltr [r; s; t] = matmul (matmul t s) r.
Proof. rewrite !compose_ltr_cons, compose_ltr_nil, matmul_id_l. reflexivity. Qed.
Lemma compose_ltr_app (l1 l2 : list aff) : compose_ltr (l1 ++ l2) = matmul (compose_ltr l2) (compose_ltr l1).
Proof.
  induction l1 as [|x l1 IH]; simpl.
  - now rewrite compose_ltr_nil, matmul_id_r.
  - rewrite !compose_ltr_cons, IH, matmul_assoc. reflexivity.
Qed.
Lemma map_point_compose_ltr (l : list aff) (p : pt) :
  map_point (compose_ltr l) p = fold_left (fun q t => map_point t q) l p.
Proof.
  revert p; induction l as [|t l IH]; intros p.
  - apply map_point_id.
  - rewrite compose_ltr_cons, map_point_matmul, IH. reflexivity.
Qed.

(* inverse *)
Lemma adet_matmul (s t : aff) : adet (matmul s t) = adet s * adet t.
Proof. unfold adet; simpl; ring. Qed.

Lemma ainverse_l (s : aff) : adet s <> 0 -> matmul (ainverse s) s = aid.
Proof.
  intros Hd. unfold ainverse.
  destruct (aff_eqb s aid) eqn:E.
  - apply aff_eqb_true in E; subst. apply matmul_id_l.
  - destruct (feqb O (adet s) 0) eqn:E2; [apply feqb_true in E2; contradiction|].
    unfold adet in *. apply aff_ext; simpl; field; exact Hd.
Qed.
Lemma ainverse_r (s : aff) : adet s <> 0 -> matmul s (ainverse s) = aid.
Proof.
  intros Hd. unfold ainverse.
  destruct (aff_eqb s aid) eqn:E.
  - apply aff_eqb_true in E; subst. apply matmul_id_l.
  - destruct (feqb O (adet s) 0) eqn:E2; [apply feqb_true in E2; contradiction|].
    unfold adet in *. apply aff_ext; simpl; field; exact Hd.
Qed.
Lemma ainverse_degenerate (s : aff) : adet s = 0 -> s <> aid -> ainverse s = adegenerate.
Proof.
  intros Hd Hn. unfold ainverse.
  destruct (aff_eqb s aid) eqn:E; [apply aff_eqb_true in E; contradiction|].
  rewrite Hd, feqb_refl. reflexivity.
Qed.
Lemma map_point_inverse (s : aff) (p : pt) : adet s <> 0 -> map_point (ainverse s) (map_point s p) = p.
Proof. intros H. rewrite <- map_point_matmul, ainverse_l, map_point_id; auto. Qed.

Lemma fmul_nonzero (x y : F O) : x <> 0 -> y <> 0 -> x * y <> 0.
Proof.
  intros Hx Hy E. apply Hy. transitivity ((x * y) / x); [field; exact Hx|].
  rewrite E. field. exact Hx.
Qed.

Lemma one_neq_zero : (1 : F O) <> 0.
Proof. destruct Fth; auto. Qed.

End Facts.
