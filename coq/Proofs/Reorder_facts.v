From Coq Require Import List ZArith Bool Lia Permutation Sorted.
From Verif Require Import Model.Reorder.
Import ListNotations.

Section SortFacts.
Context {A : Type}.
Variable key : A -> Z.

Lemma insert_key_perm x l : Permutation (insert_key key x l) (x :: l).
Proof.
  induction l as [|y r IH]; simpl; [reflexivity|].
  destruct (key x <=? key y)%Z; [reflexivity|]. rewrite IH. apply perm_swap.
Qed.
Lemma sort_key_perm l : Permutation (sort_key key l) l.
Proof. induction l as [|x r IH]; simpl; [reflexivity|]. rewrite insert_key_perm. now constructor. Qed.

Definition key_le (a b : A) : Prop := (key a <= key b)%Z.
Lemma insert_key_sorted x l : StronglySorted key_le l -> StronglySorted key_le (insert_key key x l).
Proof.
  induction l as [|y r IH]; simpl; intros H.
  - constructor; constructor.
  - inversion H as [|? ? Hr Hy]; subst. destruct (Z.leb_spec (key x) (key y)).
    + constructor; [assumption|]. constructor; [unfold key_le; lia|].
      eapply Forall_impl; [|exact Hy]. unfold key_le. intros; lia.
    + constructor; [apply IH; assumption|].
      apply Forall_forall. intros z Hz. apply (Permutation_in _ (insert_key_perm x r)) in Hz.
      destruct Hz as [<-|Hz]; [unfold key_le; lia|]. rewrite Forall_forall in Hy. auto.
Qed.
Lemma sort_key_sorted l : StronglySorted key_le (sort_key key l).
Proof. induction l; simpl; [constructor|apply insert_key_sorted; assumption]. Qed.

(* with pairwise distinct keys the result is strictly increasing *)
Lemma sorted_nodup_strict l :
  StronglySorted key_le l -> NoDup (map key l) -> StronglySorted (fun a b => (key a < key b)%Z) l.
Proof.
  induction l as [|x r IH]; intros Hs Hn; [constructor|].
  inversion Hs as [|? ? Hr Hx]; subst. inversion Hn as [|? ? Hnin Hn']; subst.
  constructor; [auto|]. apply Forall_forall. intros y Hy. rewrite Forall_forall in Hx.
  specialize (Hx y Hy). unfold key_le in Hx.
  assert (key x <> key y) by (intros E; apply Hnin; rewrite E; apply in_map; exact Hy). lia.
Qed.
End SortFacts.

Section ReorderFacts.
Variables (G E : Type).
Variable gid : G -> Z.

Lemma combine_map_fst_snd (l : list (G * E)) : combine (map fst l) (map snd l) = l.
Proof. induction l as [|[a b] r IH]; simpl; [reflexivity|]. now rewrite IH. Qed.
Lemma map_fst_combine (a : list G) (b : list E) : length a = length b -> map fst (combine a b) = a.
Proof.
  revert b; induction a as [|x r IH]; intros [|y s] H; simpl in *; try reflexivity; try discriminate.
  f_equal. apply IH. lia.
Qed.

(* T1: what _sort_by_gid guarantees, for a coverage with its parallel array of the same
   length (asserted by the caller) or without one *)
Theorem sort_by_gid_spec (glyphs : list G) (par : option (list E)) :
  (match par with Some p => length p = length glyphs | None => True end) ->
  let '(glyphs', par') := sort_by_gid G E gid glyphs par in
  Permutation glyphs' glyphs /\
  StronglySorted (fun a b => (gid a <= gid b)%Z) glyphs' /\
  match par, par' with
  | Some p, Some p' =>
      length p' = length glyphs' /\ Permutation (combine glyphs' p') (combine glyphs p)
  | None, None => True
  | _, _ => False
  end.
Proof.
  intros Hlen. unfold sort_by_gid. destruct par as [[|e p]|].
  - (* empty parallel list: treated as "no parallel list"; lengths force glyphs = [] *)
    simpl in Hlen. destruct glyphs; [|discriminate]. simpl. repeat split; constructor.
  - set (l := combine glyphs (e :: p)).
    set (s := sort_key (fun ge : G * E => gid (fst ge)) l).
    assert (Hp : Permutation s l) by apply sort_key_perm.
    assert (Hfst : map fst l = glyphs) by (apply map_fst_combine; symmetry; exact Hlen).
    repeat split.
    + rewrite <- Hfst. apply Permutation_map. exact Hp.
    + pose proof (sort_key_sorted (fun ge : G * E => gid (fst ge)) l) as Hs. fold s in Hs.
      clearbody s. clear - Hs. induction Hs as [|x r Hr IH Hx]; simpl; constructor; auto.
      apply Forall_forall. intros y Hy. apply in_map_iff in Hy. destruct Hy as (z & <- & Hz).
      rewrite Forall_forall in Hx. exact (Hx z Hz).
    + now rewrite !map_length.
    + rewrite combine_map_fst_snd. exact Hp.
  - repeat split; [apply sort_key_perm|apply (sort_key_sorted gid)].
Qed.

(* the name-keyed meaning of a coverage-indexed array is unchanged: the same (glyph, record)
   pairs, hence with NoDup glyphs the same finite map *)
Corollary sort_by_gid_meaning (glyphs : list G) (p : list E) :
  length p = length glyphs ->
  match sort_by_gid G E gid glyphs (Some p) with
  | (glyphs', Some p') => forall g e, In (g, e) (combine glyphs' p') <-> In (g, e) (combine glyphs p)
  | _ => False
  end.
Proof.
  intros Hlen. pose proof (sort_by_gid_spec glyphs (Some p) Hlen) as H.
  destruct (sort_by_gid G E gid glyphs (Some p)) as [g' [p'|]]; [|tauto].
  destruct H as (_ & _ & _ & Hperm). intros g e. split; apply Permutation_in; [exact Hperm|symmetry; exact Hperm].
Qed.

(* coverage strictly increasing in glyph id when the glyphs are distinct glyphs of the font *)
Corollary sort_by_gid_strict (glyphs : list G) (par : option (list E)) :
  (match par with Some p => length p = length glyphs | None => True end) ->
  NoDup (map gid glyphs) ->
  StronglySorted (fun a b => (gid a < gid b)%Z) (fst (sort_by_gid G E gid glyphs par)).
Proof.
  intros Hlen Hn. pose proof (sort_by_gid_spec glyphs par Hlen) as H.
  destruct (sort_by_gid G E gid glyphs par) as [g' p']. destruct H as (Hperm & Hs & _). simpl.
  apply sorted_nodup_strict; [exact Hs|].
  eapply Permutation_NoDup; [|exact Hn]. apply Permutation_map. symmetry. exact Hperm.
Qed.

Theorem reorder_list_spec (keyglyph : E -> G) (l : list E) :
  Permutation (reorder_list G E gid keyglyph l) l /\
  StronglySorted (fun a b => (gid (keyglyph a) <= gid (keyglyph b))%Z) (reorder_list G E gid keyglyph l).
Proof. split; [apply sort_key_perm|apply (sort_key_sorted (fun e => gid (keyglyph e)))]. Qed.
End ReorderFacts.
