(* maximum_color: the SVG files handed back to nanoemoji are placed exactly where the
   original colour glyph was (scale 1, no centring shift), and the advance is kept *)
From Coq Require Import List ZArith Bool Field Ring.
From Verif Require Import Model.Field Model.Affine Model.ViewBox Proofs.Affine_facts Proofs.ViewBox_facts.
Import ListNotations.
Local Open Scope F_scope.

Section Facts.
Context {O : fops}.
Hypothesis Fth : field_theory (f0 O) (f1 O) (fadd O) (fmul O) (fsub O) (fopp O) (fdiv O) (finv O) eq.
Hypothesis Eqb : feqb_ok O.
Add Field FF12 : Fth.
Notation aff := (aff O).
Notation pt := (pt O).
Hypothesis two_neq_0 : (1 + 1 : F O) <> 0.

(* T5a extract_svgs_from_otsvg: content wrapped in translate(0, ascender) under
   viewBox "0 0 width (ascender-descender)", rebuilt with width taken from the viewBox:
   an OT-SVG point (x, y) (y down, baseline 0) lands on font-space (x, -y) *)
Theorem extract_otsvg_place (asc desc w : F O) (p : pt) :
  asc - desc <> 0 ->
  map_point (map_viewbox_to_font_space (Rect 0 0 w (asc - desc)) asc desc w aid)
            (map_point (Aff 1 0 0 1 0 asc) p) = Pt (px p) (- py p).
Proof.
  intros Hh. rewrite (place_spec Fth) by exact Hh. rewrite (map_point_id Fth).
  destruct p as [x y]. unfold map_point; simpl. f_equal; field; auto.
Qed.

(* T5b generate_svgs_from_colr: viewBox = glyph_region = (0, -ascender, width, ascender-descender);
   rebuilding an OT-SVG glyph from it applies the identity, so the document keeps the
   coordinates colr_to_svg gave it (the y-mirror of font space, C13) *)
Theorem generate_from_colr_place (asc desc w : F O) :
  asc - desc <> 0 ->
  map_viewbox_to_otsvg_space (Rect 0 (- asc) w (asc - desc)) asc desc w aid = aid.
Proof.
  intros Hh. unfold map_viewbox_to_otsvg_space, scale_viewbox_to_font_metrics.
  rewrite !compose_ltr_cons, compose_ltr_nil, !(matmul_id_l Fth).
  apply aff_ext; simpl; field; auto.
Qed.
End Facts.

(* T4b: width = 0 in the generated config and viewBox "0 0 w h" with h = ascender-descender:
   the advance nanoemoji computes is exactly w *)
From Coq Require Import QArith Qround Lia Lqa.
From Verif Require Import Model.Fixed Proofs.Bitmap_facts.
Local Open Scope Q_scope.
Theorem advance_kept asc desc w :
  (asc - desc <> 0)%Z -> (0 <= w)%Z ->
  advance_width asc desc 0 (inject_Z w) (inject_Z (asc - desc)) = w.
Proof.
  intros Hh Hw. unfold advance_width.
  set (X := inject_Z (asc - desc) * inject_Z w / inject_Z (asc - desc)).
  assert (HX : X == inject_Z w).
  { unfold X. field. intros E. apply Hh. unfold Qeq in E. simpl in E. lia. }
  pose proof (py_round_bounds X) as [H1 H2]. set (r := py_round X) in *. clearbody r.
  rewrite HX in H1, H2. clearbody X.
  assert (r = w).
  { assert (A : inject_Z r < inject_Z (w + 1)). { rewrite inject_Z_plus. change (inject_Z 1) with 1. lra. }
    assert (B : inject_Z w < inject_Z (r + 1)) by (rewrite inject_Z_plus; change (inject_Z 1) with 1; lra).
    rewrite <- Zlt_Qlt in A, B. lia. }
  lia.
Qed.
