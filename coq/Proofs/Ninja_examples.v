(* Machine-checked witnesses: the two side conditions of the convergence theorem are needed
   (each is violated by a concrete history on which ninja's rules leave a stale output while
   reporting success), and they are satisfiable by a history with a real fault in it. *)
From Coq Require Import List ZArith Bool Lia.
From Verif Require Import Model.Build Model.Ninja Proofs.Ninja_facts.
Import ListNotations.
Local Open Scope Z_scope.

Definition ex_exec (c : Z) (vals : list Z) : Z := c * 1000 + fold_left (fun a v => a * 7 + v) vals 0.
Definition ex_garbage : Z := -1.
(* sources 1, 2; outputs 101 <- [1], 102 <- [2], 200 <- [101; 102] *)
Definition ex_isout (p : Z) : bool := 100 <=? p.
Definition ex_insof (o c : Z) : list Z :=
  if o =? 101 then [1] else if o =? 102 then [2] else if o =? 200 then (if c =? 32 then [102] else [101; 102]) else [].
Definition g_opt (k : Z) : list edge := [Edge 101 [1] (10 + k); Edge 102 [2] 21; Edge 200 [101; 102] 31].
Definition g_only2 : list edge := [Edge 102 [2] 21; Edge 200 [102] 32].
Definition trunc_at (o : Z) : edge -> action := fun e => if e_out e =? o then Trunc else Run.

Notation run := (ninja_run ex_exec ex_garbage).
Notation hist := (fold_left (apply ex_exec ex_garbage)).

(* F17: build; change an option so that step 101 gets a new command line and kill it after it
   wrote a truncated output; change the option back: the command line equals the logged one,
   no input is newer -> ninja keeps the truncated file and reports success *)
Definition h_f17 : list op := [Edit 1 5; Edit 2 6; Invoke (g_opt 1) all_run; Invoke (g_opt 2) (trunc_at 101)].
Theorem truncated_output_refutes_convergence :
  exists (h : list op) (g : list edge),
    wf_graph g = true /\
    snd (run all_run (hist h init) g) = true /\
    exists e, In e g /\
      let s' := fst (run all_run (hist h init) g) in
      content s' (e_out e) <> ex_exec (e_cmd e) (map (content s') (e_ins e)).
Proof.
  exists h_f17, (g_opt 1). split; [reflexivity|]. split; [vm_compute; reflexivity|].
  exists (Edge 101 [1] 11). split; [left; reflexivity|]. vm_compute. discriminate.
Qed.

(* F7: build from sources 1 and 2; move file 1 over file 2 (content changes, mtime goes
   back): step 102's logged time is not older than its input -> not re-run *)
Definition h_f7 : list op := [Edit 1 5; Edit 2 6; Invoke (g_opt 1) all_run; Rename 1 2].
Theorem older_mtime_rename_refutes_convergence :
  exists (h : list op) (g : list edge),
    wf_graph g = true /\
    snd (run all_run (hist h init) g) = true /\
    exists e, In e g /\
      let s' := fst (run all_run (hist h init) g) in
      content s' (e_out e) <> ex_exec (e_cmd e) (map (content s') (e_ins e)).
Proof.
  exists h_f7, g_only2. split; [reflexivity|]. split; [vm_compute; reflexivity|].
  exists (Edge 102 [2] 21). split; [left; reflexivity|]. vm_compute. discriminate.
Qed.

(* the hypotheses of the theorem are satisfiable by a history with edits, an option change, a
   failing step and a truncating kill of a step whose input had changed *)
Definition fail_at (o : Z) : edge -> action := fun e => if e_out e =? o then Fail else Run.
Definition h_good : list op :=
  [Edit 1 5; Edit 2 6; Invoke (g_opt 1) all_run;
   Edit 1 9; Invoke (g_opt 1) (trunc_at 101);
   Invoke (g_opt 2) (fail_at 200);
   Edit 2 8].
Lemma edge_ok_opt k e : (k = 1 \/ k = 2) -> In e (g_opt k) -> edge_ok ex_isout ex_insof e.
Proof.
  intros Hk He. simpl in He. destruct Hk; subst k;
  repeat (destruct He as [<-|He]; [repeat split; try reflexivity; simpl; intuition discriminate|]); destruct He.
Qed.
Example hypotheses_satisfiable :
  ok_history ex_exec ex_garbage ex_isout ex_insof init h_good /\
  snd (run all_run (hist h_good init) (g_opt 2)) = true.
Proof.
  split; [|vm_compute; reflexivity].
  unfold h_good. cbn [ok_history ok_op].
  repeat match goal with |- _ /\ _ => split end; try reflexivity; try exact I.
  all: cbn [ok_run g_opt]; repeat match goal with |- _ /\ _ => split end; try exact I;
    try solve [apply (edge_ok_opt 1); [auto|simpl; auto]]; try solve [apply (edge_ok_opt 2); [auto|simpl; auto]];
    try (intros _ Hd; vm_compute in Hd; discriminate).
  (* the truncating kill of step 101: its logged result is invalidated by the edited source 1 *)
  intros _ _. unfold trunc_safe. vm_compute. intros A.
  destruct (A 1 (or_introl eq_refl)) as (v & m & Hf & Hm). injection Hf as <- <-. apply Hm. reflexivity.
Qed.
