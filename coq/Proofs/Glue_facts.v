From Coq Require Import List Arith Bool Lia Permutation.
From Verif Require Import Model.Glue.
Import ListNotations.

Section Facts.
Variable G : Type.
Variable geqb : G -> G -> bool.
Hypothesis geqb_ok : forall a b, geqb a b = true <-> a = b.
Notation gmem := (gmem G geqb).
Notation pad_to := (pad_to G).
Notation place_svg := (place_svg G).

Lemma gmem_in g l : gmem g l = true <-> In g l.
Proof.
  induction l as [|x r IH]; simpl; [split; [discriminate|intros []]|].
  rewrite orb_true_iff, IH, geqb_ok. split; intros [H|H]; auto.
Qed.

(* padding only appends, takes its glyphs from the front of nonsvg, and reaches the gid *)
Lemma pad_to_spec fuel : forall gid new nonsvg new' nonsvg',
  pad_to fuel gid new nonsvg = Some (new', nonsvg') ->
  exists taken, new' = new ++ taken /\ nonsvg = taken ++ nonsvg' /\ gid <= length new'.
Proof.
  induction fuel as [|k IH]; intros gid new nonsvg new' nonsvg' H; simpl in H.
  - destruct (Nat.leb_spec gid (length new)); [|discriminate]. injection H as <- <-.
    exists []. rewrite app_nil_r. auto.
  - destruct (Nat.leb_spec gid (length new)).
    + injection H as <- <-. exists []. rewrite app_nil_r. auto.
    + destruct nonsvg as [|x r]; [discriminate|].
      destruct (IH _ _ _ _ _ H) as (t & E1 & E2 & E3). exists (x :: t).
      subst new' r. rewrite <- app_assoc. simpl. rewrite <- app_assoc in E3. auto.
Qed.
Lemma pad_to_exact fuel : forall gid new nonsvg new' nonsvg',
  length new <= gid -> pad_to fuel gid new nonsvg = Some (new', nonsvg') -> length new' = gid.
Proof.
  induction fuel as [|k IH]; intros gid new nonsvg new' nonsvg' Hl H; simpl in H.
  - destruct (Nat.leb_spec gid (length new)); [|discriminate]. injection H as <- <-. lia.
  - destruct (Nat.leb_spec gid (length new)).
    + injection H as <- <-. lia.
    + destruct nonsvg as [|x r]; [discriminate|]. apply (IH gid (new ++ [x]) r new' nonsvg'); [rewrite app_length; simpl; lia|exact H].
Qed.

(* strictly increasing gids, each at least the current length *)
Fixpoint increasing_from (lo : nat) (svg : list (nat * G)) : Prop :=
  match svg with [] => True | (g, _) :: r => lo <= g /\ increasing_from (S g) r end.

Lemma place_svg_spec svg : forall new nonsvg new' rest,
  increasing_from (length new) svg ->
  place_svg svg new nonsvg = Some (new', rest) ->
  (exists mid, new' = new ++ mid) /\
  (forall g n, In (g, n) svg -> nth_error new' g = Some n) /\
  Permutation (new' ++ rest) (new ++ nonsvg ++ map snd svg).
Proof.
  induction svg as [|[gid name] r IH]; intros new nonsvg new' rest Hinc H; simpl in H.
  - injection H as <- <-. split; [exists []; now rewrite app_nil_r|]. split; [intros ? ? []|].
    simpl. rewrite app_nil_r. reflexivity.
  - destruct Hinc as [Hlo Hr].
    destruct (pad_to gid gid new nonsvg) as [[n1 ns1]|] eqn:Ep; [|discriminate].
    destruct (pad_to_spec _ _ _ _ _ _ Ep) as (taken & E1 & E2 & _).
    pose proof (pad_to_exact _ _ _ _ _ _ Hlo Ep) as Elen.
    assert (Hinc' : increasing_from (length (n1 ++ [name])) r) by (rewrite app_length; simpl; rewrite Elen; replace (gid + 1) with (S gid) by lia; exact Hr).
    destruct (IH _ _ _ _ Hinc' H) as ((mid & Em) & Hnth & Hperm).
    split; [exists (taken ++ [name] ++ mid); rewrite Em, E1, <- !app_assoc; reflexivity|]. split.
    + intros g n [E|Hin].
      * injection E as <- <-. rewrite Em, <- app_assoc. rewrite nth_error_app2 by lia.
        rewrite Elen, Nat.sub_diag. reflexivity.
      * auto.
    + rewrite Hperm, E1, E2. simpl map. rewrite <- !app_assoc.
      apply Permutation_app_head. apply Permutation_app_head.
      change ([name] ++ ns1 ++ map snd r) with (name :: ns1 ++ map snd r).
      rewrite <- Permutation_middle. reflexivity.
Qed.

(* T1: when _copy_svg's order construction succeeds, every donor SVG glyph sits at its donor
   glyph id (the SVG table's ranges stay valid) and the new order is a permutation of the
   target's order -- provided the donor's SVG glyph names are distinct glyphs of the target *)
Theorem copy_svg_order_spec (target_order : list G) (svg : list (nat * G)) (new : list G) :
  increasing_from 0 svg -> NoDup target_order -> NoDup (map snd svg) ->
  (forall n, In n (map snd svg) -> In n target_order) ->
  copy_svg_order G geqb target_order svg = Some new ->
  (forall g n, In (g, n) svg -> nth_error new g = Some n) /\ Permutation new target_order.
Proof.
  intros Hinc Ht Hs Hsub H. unfold copy_svg_order in H.
  set (names := map snd svg) in *.
  set (nonsvg := filter (fun g => negb (gmem g names)) target_order) in *.
  destruct (place_svg svg [] nonsvg) as [[n1 rest]|] eqn:Ep; [|discriminate]. injection H as <-.
  destruct (place_svg_spec svg [] nonsvg n1 rest Hinc Ep) as (_ & Hnth & Hperm).
  split.
  - intros g n Hin. specialize (Hnth g n Hin). rewrite nth_error_app1; [exact Hnth|].
    apply nth_error_Some. congruence.
  - rewrite Hperm. simpl. fold names.
    (* target_order = its non-SVG part + its SVG part, and the SVG part is a permutation of names *)
    assert (Hsplit : Permutation target_order (nonsvg ++ filter (fun g => gmem g names) target_order)).
    { clear. unfold nonsvg. induction target_order as [|x r IH]; simpl; [reflexivity|].
      destruct (gmem x names); simpl; [apply Permutation_cons_app; exact IH|constructor; exact IH]. }
    rewrite Hsplit. apply Permutation_app_head. symmetry.
    apply NoDup_Permutation; [apply NoDup_filter; exact Ht|exact Hs|].
    intros x. rewrite filter_In, gmem_in. split; [tauto|]. intros Hx. split; [apply Hsub; exact Hx|exact Hx].
Qed.
End Facts.

(* ---------- gid naming: "{gid:05d}.svg" <-> glyph_order[int(stem)] ---------- *)
From Coq Require Import NArith.
From Verif Require Import Model.Csv.
Local Open Scope N_scope.

Lemma dec_val_digit d : d < 10 -> dec_val (48 + d) = Some d.
Proof.
  intros H. unfold dec_val.
  replace ((48 <=? 48 + d) && (48 + d <=? 57)) with true; [f_equal; lia|].
  symmetry. apply andb_true_iff. split; apply N.leb_le; lia.
Qed.
Lemma parse_dec_acc_snoc t : forall a c,
  parse_dec_acc a (t ++ [c]) =
  match parse_dec_acc a t with
  | Some v => match dec_val c with Some d => Some (v * 10 + d) | None => None end
  | None => None
  end.
Proof.
  induction t as [|x r IH]; intros a c; simpl.
  - destruct (dec_val c); reflexivity.
  - destruct (dec_val x); [apply IH|reflexivity].
Qed.
Lemma dec_rev_spec k : forall n, n < 2 ^ N.of_nat k ->
  dec_rev (S k) n <> [] /\ parse_dec_acc 0 (rev (dec_rev (S k) n)) = Some n.
Proof.
  induction k as [|k IH]; intros n Hn.
  - change (2 ^ N.of_nat 0) with 1 in Hn. assert (n = 0) by lia. subst.
    split; [discriminate|reflexivity].
  - cbn [dec_rev]. destruct (N.ltb_spec n 10).
    + split; [discriminate|]. cbn [rev app parse_dec_acc]. rewrite dec_val_digit by assumption. f_equal.
    + assert (Hd : n / 10 < 2 ^ N.of_nat k).
      { rewrite Nat2N.inj_succ, N.pow_succ_r' in Hn.
        apply N.div_lt_upper_bound; [lia|]. lia. }
      destruct (IH (n / 10) Hd) as [_ IHp]. split; [discriminate|].
      cbn [rev]. cbn [dec_rev] in IHp. rewrite parse_dec_acc_snoc, IHp.
      rewrite dec_val_digit by (apply N.mod_lt; lia).
      f_equal. pose proof (N.div_mod n 10 ltac:(lia)). lia.
Qed.
Lemma to_dec_spec n : to_dec n <> [] /\ parse_dec_acc 0 (to_dec n) = Some n.
Proof.
  unfold to_dec.
  assert (Hb : n < 2 ^ N.of_nat (S (N.to_nat (N.log2 n)))).
  { rewrite Nat2N.inj_succ, N2Nat.id. destruct n as [|p]; [simpl; lia|].
    apply N.log2_spec. lia. }
  destruct (dec_rev_spec _ n Hb) as [Hne Hp]. split; [|exact Hp].
  intros E. apply Hne. destruct (dec_rev _ n) as [|x l]; [reflexivity|].
  simpl in E. destruct (rev l); discriminate.
Qed.
Lemma parse_dec_acc_zeros k t : parse_dec_acc 0 (repeat 48 k ++ t) = parse_dec_acc 0 t.
Proof. induction k as [|k IH]; [reflexivity|]. simpl. exact IH. Qed.

(* T4a: the file stem written for a glyph id reads back as that glyph id, for every gid *)
Theorem gid_stem_roundtrip gid : stem_gid (gid_stem gid) = Some gid.
Proof.
  destruct (to_dec_spec gid) as [Hne Hp]. unfold stem_gid, gid_stem.
  destruct (repeat 48 (5 - length (to_dec gid)) ++ to_dec gid) eqn:E.
  - apply app_eq_nil in E. destruct E. contradiction.
  - rewrite <- E. rewrite parse_dec_acc_zeros. exact Hp.
Qed.
Corollary gid_stem_injective g1 g2 : gid_stem g1 = gid_stem g2 -> g1 = g2.
Proof. intros E. pose proof (gid_stem_roundtrip g1) as H1. rewrite E, gid_stem_roundtrip in H1. congruence. Qed.

(* ---------- _copy_colr ---------- *)
Section CopyColr.
Variable G : Type.
(* T2: every glyph of the target keeps its glyph id, every layer glyph gets one, and the new order
   names each glyph once -- provided the donor's layer glyph names are not names of the target
   (otherwise the target's outline of that name is overwritten: the code only asserts equal metrics) *)
Theorem copy_colr_order_spec (target layers : list G) :
  NoDup target -> NoDup layers -> (forall g, In g layers -> ~ In g target) ->
  NoDup (copy_colr_order target layers) /\
  (forall i g, nth_error target i = Some g -> nth_error (copy_colr_order target layers) i = Some g) /\
  (forall g, In g layers -> In g (copy_colr_order target layers)).
Proof.
  intros Ht Hl Hfresh. unfold copy_colr_order. pose proof I as Hl0. split; [|split].
  - clear Hl0. induction target as [|x r IH]; [exact Hl|]. inversion Ht as [|? ? Hx Hr]; subst. simpl. constructor.
    + intros Hin. apply in_app_or in Hin. destruct Hin as [Hin|Hin]; [contradiction|]. apply (Hfresh x Hin). left; reflexivity.
    + apply IH; [exact Hr|]. intros g Hg Hin. apply (Hfresh g Hg). right; exact Hin.
  - intros i g H. rewrite nth_error_app1; [exact H|]. apply nth_error_Some. congruence.
  - intros g H. apply in_or_app. right. exact H.
Qed.
(* the hypothesis matters: a shared name appears twice *)
Lemma copy_colr_order_clash (target layers : list G) g :
  In g target -> In g layers -> ~ NoDup (copy_colr_order target layers).
Proof.
  intros Ht Hl Hn. unfold copy_colr_order in Hn. 
  apply in_split in Ht. destruct Ht as (a & b & ->). rewrite <- app_assoc in Hn. apply NoDup_remove_2 in Hn.
  apply Hn. apply in_or_app. right. apply in_or_app. right. exact Hl.
Qed.
End CopyColr.
