From Coq Require Import ZArith QArith Qround Lia Lqa.
From Verif Require Import Model.Fixed Model.ViewBox Proofs.Bitmap_facts.
Local Open Scope Q_scope.

(* T2: the advance is the larger of the configured width and the rounded proportional
   width; it never undercuts the proportional width by more than the rounding, so the
   horizontal centring never shifts content left by more than a quarter unit *)
Theorem advance_rule asc desc width vbw vbh :
  let X := inject_Z (asc - desc) * vbw / vbh in
  let a := advance_width asc desc width vbw vbh in
  (width <= a)%Z /\ (py_round X <= a)%Z /\ (a = width \/ a = py_round X) /\
  X - (1#2) <= inject_Z a /\
  (a = py_round X -> inject_Z a <= X + (1#2)) /\
  - (1#4) <= (inject_Z a - X) * (1#2).
Proof.
  intros X a. unfold a, advance_width. fold X.
  pose proof (py_round_bounds X) as [H1 H2].
  set (r := py_round X) in *. clearbody r. clearbody X.
  assert (Hm : (width <= Z.max width r /\ r <= Z.max width r)%Z) by lia.
  destruct Hm as [Hw Hr]. rewrite Zle_Qle in Hr.
  split; [exact Hw|]. split; [lia|]. split; [lia|].
  split; [lra|]. split; [intros ->; lra|]. lra.
Qed.

Corollary advance_rule_simple asc desc width vbw vbh :
  let a := advance_width asc desc width vbw vbh in
  (width <= a)%Z /\ (a = width \/ a = py_round (inject_Z (asc - desc) * vbw / vbh)).
Proof. intros a. destruct (advance_rule asc desc width vbw vbh) as (H1 & _ & H3 & _). split; assumption. Qed.
