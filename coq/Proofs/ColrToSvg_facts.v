From Coq Require Import List ZArith Bool Field Ring.
From Verif Require Import Model.Field Model.Affine Model.ViewBox Model.ColrToSvg
  Proofs.Affine_facts Proofs.ViewBox_facts.
Import ListNotations.
Local Open Scope F_scope.

Section Facts.
Context {O : fops}.
Hypothesis Fth : field_theory (f0 O) (f1 O) (fadd O) (fmul O) (fsub O) (fopp O) (fdiv O) (finv O) eq.
Hypothesis Eqb : feqb_ok O.
Add Field FF6 : Fth.
Notation aff := (aff O).
Notation pt := (pt O).

Lemma place_det (vb : rect O) asc desc width :
  rh vb <> 0 -> adet (map_viewbox_to_font_space vb asc desc width aid) =
  - (((asc - desc) / rh vb) * ((asc - desc) / rh vb)).
Proof.
  intros Hh. unfold map_viewbox_to_font_space, scale_viewbox_to_font_metrics.
  rewrite !compose_ltr_cons, compose_ltr_nil, !(matmul_id_l Fth). unfold adet; simpl. field. exact Hh.
Qed.

(* T1: the font -> viewBox map undoes the source placement (so a glyph region equal to the
   viewBox gives exactly the y mirror) *)
Theorem font_to_vbox_inverts_place (vb : rect O) asc desc width (p : pt) :
  rh vb <> 0 -> asc - desc <> 0 ->
  map_point (font_to_vbox vb asc desc width) (map_point (map_viewbox_to_font_space vb asc desc width aid) p) = p.
Proof.
  intros Hh Hem. unfold font_to_vbox. apply (map_point_inverse Fth Eqb).
  rewrite place_det by assumption. intros E.
  assert (Hs : (asc - desc) / rh vb <> 0).
  { intros E0. apply Hem. transitivity ((asc - desc) / rh vb * rh vb); [field; exact Hh|rewrite E0; ring]. }
  apply (fmul_nonzero Fth _ _ Hs Hs). transitivity (- - ((asc - desc) / rh vb * ((asc - desc) / rh vb))); [ring|rewrite E; ring].
Qed.

(* T2: a path whose outline is drawn through V and that carries transform = V A V^-1 shows the
   outline where the COLR transform A puts it (then mapped by V) *)
Theorem path_transform_sem (V A : aff) (x : pt) :
  adet V <> 0 -> map_point (svg_transform_attr V A) (map_point V x) = map_point V (map_point A x).
Proof.
  intros Hd. unfold svg_transform_attr. rewrite (compose_ltr_three Fth).
  rewrite !(map_point_matmul Fth), (map_point_inverse Fth Eqb) by assumption. reflexivity.
Qed.

(* T3: the SVG linear gradient (P0, P3) with P3 the projection point has the same colour
   function as the COLR three-point gradient (P0, P1, P2), rotated P2 included *)
Theorem linear_p3_sem (p0 p1 p2 x : pt) :
  let n := perp (vsub p2 p0) in
  dot n n <> 0 -> dot (vsub p1 p0) n <> 0 ->
  svg_lin_t p0 (linear_p3 p0 p1 p2) x = lin_t p0 p1 p2 x.
Proof.
  intros n Hn Hd. unfold svg_lin_t, linear_p3, projection, lin_t, det2, dot, vsub, perp in *.
  destruct p0 as [x0 y0], p1 as [x1 y1], p2 as [x2 y2], x as [xx xy]; simpl in *.
  assert (Hd' : (x1 - x0) * (y2 - y0) - (y1 - y0) * (x2 - x0) <> 0).
  { intros E. apply Hd. rewrite <- E. ring. }
  field. split; [exact Hd'|]. split; [exact Hn|].
  set (D := (x1 - x0) * (y2 - y0) + (y1 - y0) * - (x2 - x0)) in *.
  set (NN := (y2 - y0) * (y2 - y0) + - (x2 - x0) * - (x2 - x0)) in *.
  match goal with |- ?e <> 0 => replace e with ((D * D) * NN) by (unfold D, NN; ring) end.
  apply (fmul_nonzero Fth); [apply (fmul_nonzero Fth); assumption|assumption].
Qed.
End Facts.
