From Coq Require Import List Arith Bool Lia Permutation.
From Verif Require Import Model.Palette.
Import ListNotations.

Local Arguments Nat.max : simpl never.
Section Facts.
Variable C : Type.
Variable ceqb : C -> C -> bool.
Variable cidx : C -> option nat.
Variable cltb : C -> C -> bool.
Variable black : C.
Hypothesis ceqb_ok : forall a b, ceqb a b = true <-> a = b.

Notation is_indexed := (is_indexed C cidx).
Notation idx_of := (idx_of C cidx).
Notation fill := (fill C cidx black).
Notation slot_loop := (slot_loop C cidx black).
Notation isort := (isort C).
Notation insert_by := (insert_by C).

(* ---------- insertion sort ---------- *)
Lemma insert_perm le x l : Permutation (insert_by le x l) (x :: l).
Proof.
  induction l as [|y r IH]; simpl; [reflexivity|].
  destruct (le x y); [reflexivity|].
  rewrite IH. apply perm_swap.
Qed.
Lemma isort_perm le l : Permutation (isort le l) l.
Proof.
  induction l as [|x r IH]; simpl; [reflexivity|].
  rewrite insert_perm. now constructor.
Qed.
Lemma isort_in le l c : In c (isort le l) <-> In c l.
Proof.
  split; apply Permutation_in; [apply isort_perm | symmetry; apply isort_perm].
Qed.
Lemma isort_length le l : length (isort le l) = length l.
Proof. apply Permutation_length, isort_perm. Qed.

(* sortedness w.r.t. a nat-valued key *)
Section KeySort.
Variable key : C -> nat.
Let le := fun a b => Nat.leb (key a) (key b).
Fixpoint ksorted (l : list C) : Prop :=
  match l with
  | [] => True
  | x :: r => (forall y, In y r -> key x <= key y) /\ ksorted r
  end.
Lemma insert_ksorted x l : ksorted l -> ksorted (insert_by le x l).
Proof.
  induction l as [|y r IH]; simpl; intros H.
  - split; [intros ? []|exact I].
  - destruct H as [Hy Hr]. unfold le at 1. destruct (Nat.leb_spec (key x) (key y)).
    + simpl. split; [|split; assumption].
      intros z [<-|Hz]; [assumption|]. specialize (Hy z Hz). lia.
    + simpl. split; [|apply IH; exact Hr].
      intros z Hz. apply (Permutation_in _ (insert_perm le x r)) in Hz.
      destruct Hz as [<-|Hz]; [lia|auto].
Qed.
Lemma isort_ksorted l : ksorted (isort le l).
Proof. induction l; simpl; [exact I|apply insert_ksorted; assumption]. Qed.
End KeySort.

(* strictly increasing by index, within [lo, hi) *)
Fixpoint strict_idx (l : list C) : Prop :=
  match l with
  | [] => True
  | x :: r => (forall y, In y r -> idx_of x < idx_of y) /\ strict_idx r
  end.

Lemma strict_bounded_length l lo hi :
  strict_idx l -> (forall c, In c l -> lo <= idx_of c < hi) -> length l <= hi - lo.
Proof.
  revert lo; induction l as [|x r IH]; simpl; intros lo Hs Hb; [lia|].
  destruct Hs as [Hx Hr].
  assert (length r <= hi - S (idx_of x)).
  { apply IH; [exact Hr|]. intros c Hc. specialize (Hx c Hc). specialize (Hb c (or_intror Hc)). lia. }
  specialize (Hb x (or_introl eq_refl)). lia.
Qed.

(* ---------- the loop invariant ---------- *)
Definition Inv (n i : nat) (I U : list C) : Prop :=
  Forall (fun c => is_indexed c = true) I /\
  Forall (fun c => is_indexed c = false) U /\
  strict_idx I /\
  (forall c, In c I -> i <= idx_of c < i + n) /\
  length I + length U <= n /\
  (length I + length U = n \/ exists c, In c I /\ idx_of c = i + n - 1).

Lemma indexed_cidx c : is_indexed c = true -> cidx c = Some (idx_of c).
Proof. unfold Palette.is_indexed, Palette.idx_of. destruct (cidx c); [reflexivity|discriminate]. Qed.
Lemma unindexed_cidx c : is_indexed c = false -> cidx c = None.
Proof. unfold Palette.is_indexed. destruct (cidx c); [discriminate|reflexivity]. Qed.

Lemma last_app_single (l : list C) u d : last (l ++ [u]) d = u.
Proof. induction l as [|x r IH]; simpl; [reflexivity|]. destruct (r ++ [u]) eqn:E; [destruct r; discriminate|exact IH]. Qed.
Lemma removelast_app_single (l : list C) u : removelast (l ++ [u]) = l.
Proof. rewrite removelast_app by discriminate. simpl. apply app_nil_r. Qed.
Lemma last_in (l : list C) d : l <> [] -> In (last l d) l.
Proof.
  induction l as [|x r IH]; [congruence|]. intros _. destruct r as [|y r']; [left; reflexivity|].
  right. apply IH. discriminate.
Qed.

Lemma Inv_step_head n i c I U :
  Inv (S n) i (c :: I) U -> idx_of c = i -> Inv n (S i) I U.
Proof.
  intros (HI & HU & (Hc & Hs) & Hb & Hl & Hd) E. simpl in Hl.
  repeat split; auto.
  - inversion HI; assumption.
  - specialize (Hc c0 H). lia.
  - specialize (Hb c0 (or_intror H)). lia.
  - lia.
  - destruct Hd as [Hd|(x & [<-|Hx] & Ex)].
    + left. simpl in Hd. lia.
    + left. assert (n = 0) by lia. subst n. lia.
    + right. exists x. split; [assumption|lia].
Qed.

Lemma head_min c I y : strict_idx (c :: I) -> In y (c :: I) -> idx_of c <= idx_of y.
Proof. intros [Hc _] [<-|Hy]; [lia|]. specialize (Hc y Hy). lia. Qed.

Lemma Inv_step_U n i c I u U :
  Inv (S n) i (c :: I) (u :: U) -> idx_of c <> i -> Inv n (S i) (c :: I) U.
Proof.
  intros (HI & HU & Hs & Hb & Hl & Hd) E. simpl in Hl.
  assert (Hgt : i < idx_of c) by (specialize (Hb c (or_introl eq_refl)); lia).
  repeat split; auto.
  - inversion HU; assumption.
  - destruct Hs; assumption.
  - destruct Hs; assumption.
  - pose proof (head_min c I c0 Hs H). lia.
  - specialize (Hb c0 H). lia.
  - simpl. lia.
  - destruct Hd as [Hd|(x & Hx & Ex)].
    + left. simpl in *. lia.
    + right. exists x. split; [assumption|lia].
Qed.

Lemma Inv_step_gap n i c I :
  Inv (S n) i (c :: I) [] -> idx_of c <> i -> Inv n (S i) (c :: I) [].
Proof.
  intros (HI & HU & Hs & Hb & Hl & Hd) E.
  assert (Hgt : i < idx_of c) by (specialize (Hb c (or_introl eq_refl)); lia).
  assert (Hb' : forall c0, In c0 (c :: I) -> S i <= idx_of c0 < S i + n).
  { intros c0 H. pose proof (head_min c I c0 Hs H). specialize (Hb c0 H). lia. }
  assert (Hlen : length (c :: I) <= n).
  { pose proof (strict_bounded_length (c :: I) (S i) (S i + n) Hs Hb'). lia. }
  repeat split; auto.
  - destruct Hs; assumption.
  - destruct Hs; assumption.
  - apply Hb'; assumption.
  - apply Hb'; assumption.
  - simpl in *. lia.
  - destruct Hd as [Hd|(x & Hx & Ex)].
    + simpl in *. lia.
    + right. exists x. split; [assumption|lia].
Qed.

Lemma Inv_step_noI n i u U :
  Inv (S n) i [] (u :: U) -> Inv n (S i) [] U.
Proof.
  intros (HI & HU & Hs & Hb & Hl & Hd).
  repeat split; auto.
  - inversion HU; assumption.
  - destruct H.
  - destruct H.
  - simpl in *. lia.
  - destruct Hd as [Hd|(x & [] & _)]. left. simpl in *. lia.
Qed.

Lemma Inv_nonempty n i I U : Inv (S n) i I U -> I <> [] \/ U <> [].
Proof.
  intros (_ & _ & _ & _ & _ & Hd). destruct I; [|left; discriminate].
  destruct U; [|right; discriminate]. destruct Hd as [Hd|(x & [] & _)]. simpl in Hd; lia.
Qed.

(* The deque loop, started on  I ++ rev U,  never indexes an empty deque, ends with an
   empty deque, and computes exactly [fill]. *)
Theorem slot_loop_fill n : forall i I U,
  Inv n i I U -> slot_loop n i (I ++ rev U) = Some (fill n i I U, []).
Proof.
  induction n as [|n IH]; intros i I U HInv.
  - destruct HInv as (_ & _ & _ & _ & Hl & _).
    destruct I; [|simpl in Hl; lia]. destruct U; [|simpl in Hl; lia]. reflexivity.
  - destruct I as [|c I].
    + (* no indexed colours left *)
      destruct U as [|u U]; [destruct (Inv_nonempty _ _ _ _ HInv); congruence|].
      pose proof (Inv_step_noI _ _ _ _ HInv) as HInv'.
      destruct HInv as (_ & HU & _).
      simpl app. simpl rev.
      destruct (rev U ++ [u]) as [|first rest] eqn:E; [destruct (rev U); discriminate|].
      cbn [Palette.slot_loop].
      assert (Hf : is_indexed first = false).
      { rewrite Forall_forall in HU. apply HU.
        assert (In first (rev U ++ [u])) by (rewrite E; left; reflexivity).
        apply in_app_or in H. destruct H as [H|[<-|[]]]; [right; apply in_rev; exact H|left; reflexivity]. }
      rewrite (unindexed_cidx _ Hf). rewrite <- E.
      rewrite last_app_single, removelast_app_single.
      assert (Hu : is_indexed u = false) by (inversion HU; assumption).
      rewrite Hu. cbn [negb]. specialize (IH (S i) [] U HInv'). simpl app in IH. rewrite IH.
      reflexivity.
    + pose proof HInv as (HI & HU & _).
      assert (Hc : is_indexed c = true) by (inversion HI; assumption).
      simpl app. cbn [Palette.slot_loop Palette.fill].
      rewrite (indexed_cidx _ Hc).
      destruct (Nat.eqb_spec i (idx_of c)) as [E|E].
      * rewrite (IH (S i) I U (Inv_step_head _ _ _ _ _ HInv (eq_sym E))). reflexivity.
      * destruct U as [|u U].
        -- simpl rev. rewrite app_nil_r.
           assert (Hl : is_indexed (last (c :: I) black) = true).
           { rewrite Forall_forall in HI. apply HI. apply last_in. discriminate. }
           rewrite Hl. cbn [negb].
           assert (E' : idx_of c <> i) by congruence.
           pose proof (IH (S i) (c :: I) [] (Inv_step_gap _ _ _ _ HInv E')) as IH'.
           simpl rev in IH'. rewrite app_nil_r in IH'. rewrite IH'. reflexivity.
        -- simpl rev. rewrite app_assoc.
           change (c :: (I ++ rev U) ++ [u]) with ((c :: I ++ rev U) ++ [u]).
           rewrite last_app_single, removelast_app_single.
           assert (Hu : is_indexed u = false) by (inversion HU; assumption).
           rewrite Hu. cbn [negb].
           assert (E' : idx_of c <> i) by congruence.
           pose proof (IH (S i) (c :: I) U (Inv_step_U _ _ _ _ _ _ HInv E')) as IH'.
           simpl app in IH'. rewrite IH'. reflexivity.
Qed.

(* ---------- what [fill] guarantees ---------- *)
Lemma fill_length n : forall i I U, length (fill n i I U) = n.
Proof.
  induction n as [|n IH]; intros i I U; [reflexivity|]. cbn [Palette.fill].
  destruct I as [|c I]; [destruct U|destruct (Nat.eqb i (idx_of c)); [|destruct U]];
    simpl; rewrite IH; reflexivity.
Qed.

Lemma fill_indexed_at n : forall i I U c,
  Inv n i I U -> In c I -> nth_error (fill n i I U) (idx_of c - i) = Some c.
Proof.
  induction n as [|n IH]; intros i I U c HInv Hc.
  - destruct HInv as (_ & _ & _ & _ & Hl & _). destruct I; [destruct Hc|simpl in Hl; lia].
  - destruct I as [|c0 I]; [destruct Hc|].
    pose proof HInv as (_ & _ & Hs & Hb & _).
    cbn [Palette.fill]. destruct (Nat.eqb_spec i (idx_of c0)) as [E|E].
    + destruct Hc as [<-|Hc].
      * rewrite <- E, Nat.sub_diag. reflexivity.
      * pose proof (Inv_step_head _ _ _ _ _ HInv (eq_sym E)) as HInv'.
        destruct Hs as [Hlt _]. specialize (Hlt c Hc).
        replace (idx_of c - i) with (S (idx_of c - S i)) by lia.
        simpl. apply IH; assumption.
    + assert (E' : idx_of c0 <> i) by congruence.
      assert (i < idx_of c).
      { pose proof (head_min c0 I c Hs Hc). specialize (Hb c0 (or_introl eq_refl)). lia. }
      replace (idx_of c - i) with (S (idx_of c - S i)) by lia.
      destruct U as [|u U]; simpl; apply IH; auto.
      * apply Inv_step_gap; assumption.
      * eapply Inv_step_U; eassumption.
Qed.

Lemma fill_contains n : forall i I U c,
  Inv n i I U -> In c I \/ In c U -> In c (fill n i I U).
Proof.
  induction n as [|n IH]; intros i I U c HInv Hc.
  - destruct HInv as (_ & _ & _ & _ & Hl & _).
    destruct I; [|simpl in Hl; lia]. destruct U; [|simpl in Hl; lia]. destruct Hc as [[]|[]].
  - cbn [Palette.fill]. destruct I as [|c0 I].
    + destruct U as [|u U]; [destruct Hc as [[]|[]]|].
      destruct Hc as [[]|[<-|Hc]]; [left; reflexivity|right].
      apply IH; [eapply Inv_step_noI; eassumption|right; assumption].
    + destruct (Nat.eqb_spec i (idx_of c0)) as [E|E].
      * destruct Hc as [[<-|Hc]|Hc]; [left; reflexivity|right|right];
          (apply IH; [eapply Inv_step_head; [eassumption|congruence]|auto]).
      * assert (E' : idx_of c0 <> i) by congruence.
        destruct U as [|u U].
        -- right. apply IH; [apply Inv_step_gap; assumption|].
           destruct Hc as [Hc|[]]. left; exact Hc.
        -- destruct Hc as [Hc|[<-|Hc]]; [right|left; reflexivity|right];
             (apply IH; [eapply Inv_step_U; eassumption|auto]).
Qed.


Lemma fill_only n : forall i I U c, In c (fill n i I U) -> In c I \/ In c U \/ c = black.
Proof.
  induction n as [|n IH]; intros i I U c H; [destruct H|].
  cbn [Palette.fill] in H. destruct I as [|c0 I].
  - destruct U as [|u U]; destruct H as [<-|H]; auto; try (right; left; left; reflexivity);
      apply IH in H; destruct H as [H|[H|H]]; auto. right; left; right; exact H.
  - destruct (Nat.eqb i (idx_of c0)).
    + destruct H as [<-|H]; [left; left; reflexivity|].
      apply IH in H. destruct H as [H|[H|H]]; auto. left; right; exact H.
    + destruct U as [|u U]; destruct H as [<-|H]; auto; try (right; left; left; reflexivity);
        apply IH in H; destruct H as [H|[H|H]]; auto. right; left; right; exact H.
Qed.

(* ---------- establishing the invariant for the real input ---------- *)
Notation mem := (mem C ceqb).
Notation dedup := (dedup C ceqb).
Notation has_conflict := (has_conflict C cidx).
Notation conflict_with := (conflict_with C cidx).
Notation indexed_sorted := (indexed_sorted C cidx).
Notation unindexed_sorted := (unindexed_sorted C cidx cltb).
Notation max_idx_plus1 := (max_idx_plus1 C cidx).

Lemma mem_in c l : mem c l = true <-> In c l.
Proof.
  induction l as [|x r IH]; simpl; [split; [discriminate|intros []]|].
  rewrite orb_true_iff, IH, ceqb_ok. split; intros [H|H]; auto.
Qed.
Lemma dedup_in c l : In c (dedup l) <-> In c l.
Proof.
  induction l as [|x r IH]; simpl; [reflexivity|].
  destruct (mem x r) eqn:E.
  - rewrite IH. apply mem_in in E. split; [auto|intros [<-|H]; auto].
  - simpl. rewrite IH. reflexivity.
Qed.
Lemma dedup_nodup l : NoDup (dedup l).
Proof.
  induction l as [|x r IH]; simpl; [constructor|].
  destruct (mem x r) eqn:E; [exact IH|]. constructor; [|exact IH].
  rewrite dedup_in, <- mem_in. congruence.
Qed.

Lemma conflict_with_false c l :
  conflict_with c l = false -> is_indexed c = true ->
  forall x, In x l -> is_indexed x = true -> idx_of c <> idx_of x.
Proof.
  induction l as [|y r IH]; simpl; intros H Hc x Hx Hxi; [destruct Hx|].
  apply orb_false_iff in H. destruct H as [H1 H2].
  destruct Hx as [<-|Hx]; [|eapply IH; eassumption].
  rewrite (indexed_cidx _ Hc), (indexed_cidx _ Hxi) in H1.
  apply Nat.eqb_neq in H1. exact H1.
Qed.

Lemma no_conflict_nodup l :
  has_conflict l = false -> NoDup (map idx_of (filter is_indexed l)).
Proof.
  induction l as [|x r IH]; simpl; intros H; [constructor|].
  apply orb_false_iff in H. destruct H as [H1 H2].
  destruct (is_indexed x) eqn:E; [|auto]. simpl. constructor; [|auto].
  intros Hin. apply in_map_iff in Hin. destruct Hin as (y & Ey & Hy).
  apply filter_In in Hy. destruct Hy as [Hy Hyi].
  exact (conflict_with_false x r H1 E y Hy Hyi (eq_sym Ey)).
Qed.

Lemma ksorted_nodup_strict l :
  ksorted idx_of l -> NoDup (map idx_of l) -> strict_idx l.
Proof.
  induction l as [|x r IH]; simpl; intros Hs Hn; [exact I|].
  destruct Hs as [Hx Hr]. inversion Hn as [|? ? Hnin Hn']; subst.
  split; [|auto]. intros y Hy. specialize (Hx y Hy).
  assert (idx_of x <> idx_of y) by (intros E; apply Hnin; rewrite E; apply in_map; exact Hy).
  lia.
Qed.

Lemma max_idx_bound l c : In c l -> is_indexed c = true -> idx_of c < max_idx_plus1 l.
Proof.
  induction l as [|x r IH]; simpl; intros Hc Hi; [destruct Hc|].
  destruct Hc as [<-|Hc].
  - unfold Palette.is_indexed in Hi. unfold Palette.idx_of. destruct (cidx x); [lia|discriminate].
  - specialize (IH Hc Hi). destruct (cidx x); lia.
Qed.
Lemma max_idx_attained l :
  0 < max_idx_plus1 l -> exists c, In c l /\ is_indexed c = true /\ S (idx_of c) = max_idx_plus1 l.
Proof.
  induction l as [|x r IH]; simpl; intros H; [lia|].
  destruct (cidx x) as [i|] eqn:E.
  - destruct (Nat.max_spec (S i) (max_idx_plus1 r)) as [[Hlt ->]|[Hle ->]].
    + destruct IH as (c & Hc & Hci & Ec); [lia|]. exists c. auto.
    + exists x. split; [left; reflexivity|]. unfold Palette.is_indexed, Palette.idx_of. rewrite E. auto.
  - destruct IH as (c & Hc & Hci & Ec); [assumption|]. exists c. auto.
Qed.

Lemma filter_partition_length (p : C -> bool) l :
  length (filter p l) + length (filter (fun c => negb (p c)) l) = length l.
Proof. induction l as [|x r IH]; simpl; [reflexivity|]. destruct (p x); simpl; lia. Qed.

Lemma initial_Inv all :
  has_conflict all = false ->
  Inv (Nat.max (length all) (max_idx_plus1 all)) 0 (indexed_sorted all) (unindexed_sorted all).
Proof.
  intros Hc. unfold Palette.indexed_sorted, Palette.unindexed_sorted.
  set (n := Nat.max (length all) (max_idx_plus1 all)).
  assert (HinI : forall c, In c (isort (idx_le C cidx) (filter is_indexed all)) ->
                           In c all /\ is_indexed c = true).
  { intros c H. apply isort_in in H. apply filter_In in H. exact H. }
  repeat split.
  - apply Forall_forall. intros c H. apply HinI in H. tauto.
  - apply Forall_forall. intros c H. apply isort_in in H. apply filter_In in H.
    destruct H as [_ H]. apply negb_true_iff in H. exact H.
  - apply ksorted_nodup_strict.
    + apply (isort_ksorted idx_of).
    + eapply Permutation_NoDup; [|apply no_conflict_nodup; exact Hc].
      apply Permutation_map. symmetry. apply isort_perm.
  - lia.
  - apply HinI in H. destruct H as [H1 H2]. pose proof (max_idx_bound _ _ H1 H2). lia.
  - rewrite !isort_length, filter_partition_length. lia.
  - rewrite !isort_length, filter_partition_length.
    destruct (Nat.max_spec (length all) (max_idx_plus1 all)) as [[Hlt E]|[Hle E]]; fold n in E.
    + right. destruct (max_idx_attained all) as (c & Hc1 & Hc2 & Hc3); [lia|].
      exists c. split; [apply isort_in, filter_In; auto|]. lia.
    + left. lia.
Qed.

Definition the_set (colors : list C) : list C :=
  match dedup colors with [] => [black] | s => s end.

Lemma the_set_nonempty colors : the_set colors <> [].
Proof. unfold the_set. destruct (dedup colors); discriminate. Qed.
Lemma the_set_in colors c :
  In c (the_set colors) <-> (In c colors \/ (colors = [] /\ c = black)).
Proof.
  unfold the_set. destruct (dedup colors) as [|x r] eqn:E.
  - assert (colors = []).
    { destruct colors as [|y ys]; [reflexivity|]. assert (In y (dedup (y :: ys))) by (apply dedup_in; left; reflexivity).
      rewrite E in H. destruct H. }
    subst. simpl. split; [intros [<-|[]]; auto|intros [[]|[_ ->]]; auto].
  - rewrite <- E, dedup_in. split; [auto|intros [H|[-> _]]; [exact H|discriminate]].
Qed.

(* The palette theorem. *)
Theorem palette_spec (colors : list C) :
  let all := the_set colors in
  let slots := Nat.max (length all) (max_idx_plus1 all) in
  (has_conflict all = true -> uniq_sort_cpal_colors C ceqb cidx cltb black colors = ErrConflict C) /\
  (has_conflict all = false ->
     let pal := fill slots 0 (indexed_sorted all) (unindexed_sorted all) in
     uniq_sort_cpal_colors C ceqb cidx cltb black colors = Palette C pal /\
     length pal = slots /\ pal <> [] /\
     (forall c, In c all -> In c pal) /\
     (forall c n, In c all -> cidx c = Some n -> nth_error pal n = Some c)).
Proof.
  intros all slots. unfold uniq_sort_cpal_colors. fold (the_set colors). fold all. fold slots.
  split; intros Hc; rewrite Hc; [reflexivity|].
  pose proof (initial_Inv all Hc) as HInv. fold slots in HInv.
  unfold Palette.sorted_deque. rewrite (slot_loop_fill _ _ _ _ HInv).
  split; [reflexivity|]. split; [apply fill_length|]. split.
  { intros E. pose proof (fill_length slots 0 (indexed_sorted all) (unindexed_sorted all)) as L.
    rewrite E in L. simpl in L. pose proof (the_set_nonempty colors). fold all in H.
    destruct all; [congruence|]. simpl in *. lia. }
  split.
  - intros c Hin. apply fill_contains; [exact HInv|].
    unfold Palette.indexed_sorted, Palette.unindexed_sorted.
    destruct (is_indexed c) eqn:E; [left|right]; apply isort_in, filter_In; split; auto.
    rewrite E; reflexivity.
  - intros c n Hin Hn.
    assert (Hi : is_indexed c = true) by (unfold Palette.is_indexed; rewrite Hn; reflexivity).
    assert (n = idx_of c - 0) by (unfold Palette.idx_of; rewrite Hn; lia). subst n.
    apply fill_indexed_at; [exact HInv|].
    unfold Palette.indexed_sorted. apply isort_in, filter_In. auto.
Qed.


(* nothing is invented: a palette entry is an input colour or the black filler *)
Theorem palette_only (colors pal : list C) :
  uniq_sort_cpal_colors C ceqb cidx cltb black colors = Palette C pal ->
  forall c, In c pal -> In c colors \/ c = black.
Proof.
  intros H c Hc. destruct (palette_spec colors) as [Hconf Hok].
  destruct (has_conflict (the_set colors)) eqn:E.
  - rewrite (Hconf eq_refl) in H. discriminate.
  - destruct (Hok eq_refl) as (Heq & _). rewrite Heq in H. injection H as <-.
    apply fill_only in Hc. unfold Palette.indexed_sorted, Palette.unindexed_sorted in Hc.
    destruct Hc as [Hc|[Hc|Hc]]; [| |right; exact Hc];
      apply isort_in, filter_In in Hc; destruct Hc as [Hc _];
      apply the_set_in in Hc; destruct Hc as [Hc|[_ Hc]]; auto.
Qed.

End Facts.
