(* nanoemoji.colors.uniq_sort_cpal_colors.

   The deque the code builds is  sorted(all_colors, key=_color_sort_key)  where the key
   puts indexed colours first in ascending index order and unindexed colours after them
   in *descending* rgba order.  The model builds that same deque as
       isort-by-index(indexed) ++ rev (isort-by-rgba(unindexed))
   (an equivalent formulation of the key; the equivalence is part of what the
   correspondence check tests) and then runs the slot loop exactly as written, on a
   list used as a deque: [hd], [last], [tl], [removelast].  IndexError on an empty
   deque and the final assertion are [None]. *)
From Coq Require Import List Arith Bool.
Import ListNotations.

Section Palette.
Variable C : Type.
Variable ceqb : C -> C -> bool.
Variable cidx : C -> option nat.     (* palette_index *)
Variable cltb : C -> C -> bool.      (* strict rgba order: (r,g,b,a) tuple comparison *)
Variable black : C.

Fixpoint mem (c : C) (l : list C) : bool :=
  match l with [] => false | x :: r => ceqb c x || mem c r end.
(* set(colors) *)
Fixpoint dedup (l : list C) : list C :=
  match l with [] => [] | x :: r => if mem x r then dedup r else x :: dedup r end.

Definition is_indexed (c : C) : bool := match cidx c with Some _ => true | None => false end.
Definition idx_of (c : C) : nat := match cidx c with Some i => i | None => 0 end.

(* "Palette entry N already maps to ...": two different colours of the set share an index *)
Fixpoint conflict_with (c : C) (l : list C) : bool :=
  match l with
  | [] => false
  | x :: r => (match cidx c, cidx x with Some i, Some j => Nat.eqb i j | _, _ => false end)
              || conflict_with c r
  end.
Fixpoint has_conflict (l : list C) : bool :=
  match l with [] => false | x :: r => conflict_with x r || has_conflict r end.

Fixpoint insert_by (le : C -> C -> bool) (x : C) (l : list C) : list C :=
  match l with
  | [] => [x]
  | y :: r => if le x y then x :: y :: r else y :: insert_by le x r
  end.
Fixpoint isort (le : C -> C -> bool) (l : list C) : list C :=
  match l with [] => [] | x :: r => insert_by le x (isort le r) end.

Definition idx_le (a b : C) : bool := Nat.leb (idx_of a) (idx_of b).
Definition rgba_le (a b : C) : bool := negb (cltb b a).

Definition indexed_sorted (s : list C) : list C := isort idx_le (filter is_indexed s).
Definition unindexed_sorted (s : list C) : list C :=
  isort rgba_le (filter (fun c => negb (is_indexed c)) s).
Definition sorted_deque (s : list C) : list C := indexed_sorted s ++ rev (unindexed_sorted s).

Definition max_idx_plus1 (s : list C) : nat :=
  fold_right (fun c m => match cidx c with Some i => Nat.max (S i) m | None => m end) 0 s.

(* the slot loop, on the deque as a list; returns (result, remaining deque) *)
Fixpoint slot_loop (n : nat) (i : nat) (dq : list C) : option (list C * list C) :=
  match n with
  | 0 => Some ([], dq)
  | S n' =>
    match dq with
    | [] => None                                        (* cpal_colors[0] -> IndexError *)
    | first :: rest =>
      if (match cidx first with Some j => Nat.eqb i j | None => false end) then
        match slot_loop n' (S i) rest with
        | Some (res, d) => Some (first :: res, d) | None => None end
      else
        let lastc := last dq black in
        if negb (is_indexed lastc) then
          match slot_loop n' (S i) (removelast dq) with
          | Some (res, d) => Some (lastc :: res, d) | None => None end
        else
          match slot_loop n' (S i) dq with
          | Some (res, d) => Some (black :: res, d) | None => None end
    end
  end.

Inductive outcome := Palette (p : list C) | ErrConflict | ErrIndex | ErrAssert.

Definition uniq_sort_cpal_colors (colors : list C) : outcome :=
  let all := match dedup colors with [] => [black] | s => s end in
  if has_conflict all then ErrConflict else
  let slots := Nat.max (length all) (max_idx_plus1 all) in
  match slot_loop slots 0 (sorted_deque all) with
  | None => ErrIndex
  | Some (res, []) => Palette res
  | Some (_, _ :: _) => ErrAssert
  end.

(* ---- the two-list view used by the proofs: I ascending by index, U ascending by rgba *)
Fixpoint fill (n i : nat) (I U : list C) : list C :=
  match n with
  | 0 => []
  | S n' =>
    match I with
    | c :: I' =>
      if Nat.eqb i (idx_of c) then c :: fill n' (S i) I' U
      else match U with
           | u :: U' => u :: fill n' (S i) I U'
           | [] => black :: fill n' (S i) I []
           end
    | [] => match U with
            | u :: U' => u :: fill n' (S i) [] U'
            | [] => black :: fill n' (S i) [] []
            end
    end
  end.

End Palette.
