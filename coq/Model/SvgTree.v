(* colr_to_svg._colr_v1_paint_to_svg: the traversal that turns a COLRv1 paint graph into SVG
   elements, written branch by branch after the Python; and, independently, what a COLRv1
   paint graph and an SVG element tree each paint.

   Python exceptions, unsupported paints and fuel exhaustion are [None].  A solid or gradient
   met outside a PaintGlyph would set attributes on a <g> or on the root: not a supported
   graph, [None] here.  Numbers live in any field: the three-decimal rounding of attribute
   values is a tolerance matter left to the end-to-end oracle. *)
From Coq Require Import List ZArith Bool String.
From Verif Require Import Model.Field Model.Affine Model.Color Model.Paint Model.ColrToSvg.
Import ListNotations.
Local Open Scope F_scope.

Section SvgTree.
Context {O : fops}.
Notation F := (F O).
Notation aff := (aff O).
Notation paint := (paint O).

(* <path transform=attr d=(glyph drawn through draw) fill=(leaf, its coordinates mapped by fmap)>,
   <g transform=m>, <g opacity=a> *)
Inductive svgel :=
| SPath (attr draw : aff) (glyph : string) (leaf : paint) (fmap : aff)
| SGroupT (m : aff) (kids : list svgel)
| SGroupO (a : F) (kids : list svgel).

(* one painted layer: glyph, where its outline lands, the fill paint as declared, where the
   fill's geometry lands, the group opacities above it (innermost first) *)
Definition layer := (string * aff * paint * aff * list F)%type.

(* the fill below a PaintGlyph: transforms down to one solid or gradient.
   descend(svg_path, ot_paint.Paint) with transform = identity *)
Fixpoint fill_of (p : paint) (t : aff) {struct p} : option (paint * aff) :=
  match p with
  | PSolid _ | PLinear _ _ _ _ _ | PRadial _ _ _ _ _ _ => Some (p, t)
  | PTransform _ q | PTranslate _ _ q | PScale _ _ q | PScaleAroundCenter _ _ _ q
  | PScaleUniform _ q | PScaleUniformAroundCenter _ _ q | PRotate _ _ q
  | PRotateAroundCenter _ _ _ q | PSkew _ _ q | PSkewAroundCenter _ _ _ q =>
      fill_of q (matmul t (gettransform p))      (* transform @= paint.gettransform() *)
  | _ => None
  end.

Fixpoint concat_opt {A} (l : list (option (list A))) : option (list A) :=
  match l with
  | [] => Some []
  | None :: _ => None
  | Some x :: r => match concat_opt r with Some y => Some (x ++ y) | None => None end
  end.

(* CompositeMode.SRC_IN = 5; the special case wants a solid backdrop whose colour is black *)
Definition group_opacity (mode : Z) (backdrop : paint) : option F :=
  match backdrop with
  | PSolid c => if (Z.eqb mode 5 && Z.eqb (cr c) 0 && Z.eqb (cg c) 0 && Z.eqb (cb c) 0)%bool
                then Some (calpha c) else None
  | _ => None
  end.

(* _apply_transform: no attribute for the identity, otherwise V^-1 ; T ; V (left to right) *)
Definition transform_attr (V t : aff) : aff :=
  if aff_eqb t aid then aid else svg_transform_attr V t.

Variable V : aff.                          (* font_to_vbox *)
Variable env : string -> option paint.     (* BaseGlyphPaintRecord lookup for PaintColrGlyph *)

Fixpoint to_svg (fuel : nat) (p : paint) (t : aff) {struct fuel} : option (list svgel) :=
  match fuel with
  | 0%nat => None
  | S n =>
    match p with
    | PColrLayers ls => concat_opt (map (fun q => to_svg n q t) ls)
    | PGlyph g q =>
        match fill_of q aid with
        | Some (leaf, ft) => Some [SPath (transform_attr V t) V g leaf (compose_ltr [ft; V])]
        | None => None
        end
    | PColrGlyph g =>
        match env g with
        | Some q =>
            if aff_eqb t aid then to_svg n q aid
            else match to_svg n q aid with
                 | Some kids => Some [SGroupT (svg_transform_attr V t) kids]
                 | None => None
                 end
        | None => None
        end
    | PComposite mode s b =>
        match group_opacity mode b with
        | Some a => match to_svg n s t with Some kids => Some [SGroupO a kids] | None => None end
        | None => None       (* "not supported at the moment; only BackdropPaint is kept" *)
        end
    | PTransform _ q | PTranslate _ _ q | PScale _ _ q | PScaleAroundCenter _ _ _ q
    | PScaleUniform _ q | PScaleUniformAroundCenter _ _ q | PRotate _ _ q
    | PRotateAroundCenter _ _ _ q | PSkew _ _ q | PSkewAroundCenter _ _ _ q =>
        to_svg n q (matmul t (gettransform p))
    | PSolid _ | PLinear _ _ _ _ _ | PRadial _ _ _ _ _ _ => None
    end
  end.

(* ---- what the SVG paints: the transform attribute of an element applies to its content
   (outline and userSpaceOnUse gradient alike) inside the user space of its parent *)
Fixpoint svg_sem (ctm : aff) (ops : list F) (e : svgel) {struct e} : list layer :=
  match e with
  | SPath attr draw g leaf fm =>
      [(g, matmul (matmul ctm attr) draw, leaf, matmul (matmul ctm attr) fm, ops)]
  | SGroupT m kids =>
      (fix go (l : list svgel) : list layer :=
         match l with [] => [] | x :: r => svg_sem (matmul ctm m) ops x ++ go r end) kids
  | SGroupO a kids =>
      (fix go (l : list svgel) : list layer :=
         match l with [] => [] | x :: r => svg_sem ctm (a :: ops) x ++ go r end) kids
  end.
Definition svg_sem_list (ctm : aff) (ops : list F) (l : list svgel) : list layer :=
  flat_map (svg_sem ctm ops) l.

(* ---- what the COLR graph paints, from the COLR specification: a transform paint maps its
   child's content (outer applied last); PaintGlyph fills its outline with the child; PaintColrGlyph
   paints another glyph's graph under the current transform; SRC_IN against a black solid
   multiplies the source's alpha.  Fuel because a malformed font may contain a cycle. *)
Fixpoint colr_sem (fuel : nat) (p : paint) (acc : aff) (ops : list F) {struct fuel} : option (list layer) :=
  match fuel with
  | 0%nat => None
  | S n =>
    match p with
    | PColrLayers ls => concat_opt (map (fun q => colr_sem n q acc ops) ls)
    | PGlyph g q =>
        match fill_of q aid with
        | Some (leaf, ft) => Some [(g, acc, leaf, matmul acc ft, ops)]
        | None => None
        end
    | PColrGlyph g => match env g with Some q => colr_sem n q acc ops | None => None end
    | PComposite mode s b =>
        match group_opacity mode b with
        | Some a => colr_sem n s acc (a :: ops)
        | None => None
        end
    | PTransform _ q | PTranslate _ _ q | PScale _ _ q | PScaleAroundCenter _ _ _ q
    | PScaleUniform _ q | PScaleUniformAroundCenter _ _ q | PRotate _ _ q
    | PRotateAroundCenter _ _ _ q | PSkew _ _ q | PSkewAroundCenter _ _ _ q =>
        colr_sem n q (matmul acc (gettransform p)) ops
    | PSolid _ | PLinear _ _ _ _ _ | PRadial _ _ _ _ _ _ => None
    end
  end.

(* a font-space layer seen in the viewBox *)
Definition through (l : layer) : layer :=
  let '(g, P, leaf, G, ops) := l in (g, matmul V P, leaf, matmul V G, ops).

End SvgTree.
Arguments svgel : clear implicits.
Arguments layer : clear implicits.
