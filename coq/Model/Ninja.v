(* C09: ninja's incremental re-execution over a build directory with history.

   Files, commands and contents are integers (as in Model/Build.v).  A file has a content and
   an mtime; ninja's log maps an output to the command that last *successfully* produced it
   and the time that command started (ninja >= 1.11 records the start time).

   ninja's dirtiness test (graph.cc, RecomputeOutputDirty), for an edge with one output:
     output missing                                   -> dirty
     some input newer than the output file            -> dirty
     no log entry                                     -> dirty
     logged command differs from the edge's command   -> dirty
     some input newer than the logged time            -> dirty
   (a missing input that no edge produces is an error).  An edge whose input was rebuilt in
   this run is dirty because the rebuilt input gets a fresh mtime. *)
From Coq Require Import List ZArith Bool.
From Verif Require Import Model.Build.
Import ListNotations.
Local Open Scope Z_scope.

Record logent := LogEnt { l_cmd : Z; l_t : Z }.
Record st := St {
  files : Z -> option (Z * Z);      (* path -> (content, mtime) *)
  nlog : Z -> option logent;        (* output -> last successful command *)
  clock : Z
}.
Definition fupd {A} (f : Z -> option A) (k : Z) (v : option A) : Z -> option A :=
  fun x => if Z.eqb x k then v else f x.
Definition content (s : st) (p : Z) : Z := match files s p with Some (v, _) => v | None => 0 end.
Definition mtime (s : st) (p : Z) : option Z := match files s p with Some (_, m) => Some m | None => None end.
Definition init : st := St (fun _ => None) (fun _ => None) 0.

(* ---- what the user does to sources ---- *)
Definition edit (s : st) (p c : Z) : st :=              (* add or modify: fresh mtime *)
  St (fupd (files s) p (Some (c, clock s + 1))) (nlog s) (clock s + 1).
Definition remove (s : st) (p : Z) : st := St (fupd (files s) p None) (nlog s) (clock s).
Definition rename (s : st) (p q : Z) : st :=            (* keeps content *and mtime* *)
  St (fupd (fupd (files s) q (files s p)) p None) (nlog s) (clock s).

(* ---- ninja ---- *)
Definition all_le (s : st) (ins : list Z) (t : Z) : bool :=
  forallb (fun i => match mtime s i with Some m => m <=? t | None => false end) ins.
Definition clean (s : st) (e : edge) : bool :=
  match files s (e_out e), nlog s (e_out e) with
  | Some (_, mo), Some le =>
      Z.eqb (l_cmd le) (e_cmd e) && all_le s (e_ins e) mo && all_le s (e_ins e) (l_t le)
  | _, _ => false
  end.

Section Exec.
Variable exec : Z -> list Z -> Z.
Variable garbage : Z.            (* what a killed step leaves behind *)

(* what happens to a dirty edge in this invocation *)
Inductive action := Run | Fail | Trunc | Skip.

Definition run_ok (s : st) (e : edge) : st :=
  let vals := map (content s) (e_ins e) in
  St (fupd (files s) (e_out e) (Some (exec (e_cmd e) vals, clock s + 1)))
     (fupd (nlog s) (e_out e) (Some (LogEnt (e_cmd e) (clock s))))
     (clock s + 1).
Definition run_trunc (s : st) (e : edge) : st :=
  St (fupd (files s) (e_out e) (Some (garbage, clock s + 1))) (nlog s) (clock s + 1).

Definition inputs_present (s : st) (e : edge) : bool :=
  forallb (fun i => match files s i with Some _ => true | None => false end) (e_ins e).

(* one edge; the boolean is "no failure so far" *)
Definition step (decide : edge -> action) (acc : st * bool) (e : edge) : st * bool :=
  let '(s, ok) := acc in
  if clean s e then (s, ok)
  else match decide e with
       | Run => if inputs_present s e then (run_ok s e, ok) else (s, false)
       | Fail => (s, false)
       | Trunc => (run_trunc s e, false)
       | Skip => (s, false)
       end.
(* the graph is given in a topological order; [decide] covers every schedule and every
   combination of failing, killed and not-started steps *)
Definition ninja_run (decide : edge -> action) (s : st) (g : list edge) : st * bool :=
  fold_left (step decide) g (s, true).
Definition all_run : edge -> action := fun _ => Run.

(* ---- histories ---- *)
Inductive op :=
| Edit (p c : Z)
| Remove (p : Z)
| Rename (p q : Z)
| Invoke (g : list edge) (decide : edge -> action).
Definition apply (s : st) (o : op) : st :=
  match o with
  | Edit p c => edit s p c
  | Remove p => remove s p
  | Rename p q => rename s p q
  | Invoke g d => fst (ninja_run d s g)
  end.
Definition run_history (h : list op) : st := fold_left apply h init.
End Exec.
