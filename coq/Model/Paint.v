(* nanoemoji.paint: the Paint IR, gettransform, breadth_first, the branching encoder
   [transformed], gradient transforms and overflow checks.  Written line by line after
   src/nanoemoji/paint.py; Python exceptions are [None]. *)
From Coq Require Import List ZArith Bool String.
From Coq Require QArith.
Notation Q := QArith_base.Q.
From Verif Require Import Model.Field Model.Affine Model.Color.
Import ListNotations.
Local Open Scope F_scope.

Inductive extend := EPad | ERepeat | EReflect.
Definition extend_eqb (a b : extend) : bool :=
  match a, b with EPad, EPad | ERepeat, ERepeat | EReflect, EReflect => true | _, _ => false end.

Section Paint.
Context {O : fops}.
Notation F := (F O).
Notation aff := (aff O).
Notation pt := (pt O).
Notation color := (color O).

Record stop := Stop { soff : F; scol : color }.

(* rotate/skew angles are carried as their (cos, sin) / tangents: trig is never computed *)
Inductive paint :=
| PColrLayers (ls : list paint)
| PSolid (c : color)
| PLinear (ext : extend) (stops : list stop) (p0 p1 p2 : pt)
| PRadial (ext : extend) (stops : list stop) (c0 c1 : pt) (r0 r1 : F)
| PGlyph (g : string) (p : paint)
| PColrGlyph (g : string)
| PTransform (t : aff) (p : paint)
| PTranslate (dx dy : F) (p : paint)
| PScale (sx sy : F) (p : paint)
| PScaleAroundCenter (sx sy : F) (c : pt) (p : paint)
| PScaleUniform (s : F) (p : paint)
| PScaleUniformAroundCenter (s : F) (c : pt) (p : paint)
| PRotate (co si : F) (p : paint)
| PRotateAroundCenter (co si : F) (c : pt) (p : paint)
| PSkew (tx ty : F) (p : paint)
| PSkewAroundCenter (tx ty : F) (c : pt) (p : paint)
| PComposite (mode : Z) (src backdrop : paint).

Definition children (p : paint) : list paint :=
  match p with
  | PColrLayers ls => ls
  | PGlyph _ q | PTransform _ q | PTranslate _ _ q | PScale _ _ q
  | PScaleAroundCenter _ _ _ q | PScaleUniform _ q | PScaleUniformAroundCenter _ _ q
  | PRotate _ _ q | PRotateAroundCenter _ _ _ q | PSkew _ _ q | PSkewAroundCenter _ _ _ q => [q]
  | PComposite _ s b => [s; b]
  | _ => []
  end.

Definition around (c : pt) (m : aff) : aff :=
  atranslate (matmul (atranslate aid (px c) (py c)) m) (- px c) (- py c).

Definition gettransform (p : paint) : aff :=
  match p with
  | PTransform t _ => t
  | PTranslate dx dy _ => atranslate aid dx dy
  | PScale sx sy _ => ascale aid sx sy
  | PScaleAroundCenter sx sy c _ => around c (Aff sx 0 0 sy 0 0)
  | PScaleUniform s _ => ascale aid s s
  | PScaleUniformAroundCenter s c _ => around c (Aff s 0 0 s 0 0)
  | PRotate co si _ => arotate_cs aid co si 0 0
  | PRotateAroundCenter co si c _ => arotate_cs aid co si (px c) (py c)
  | PSkew tx ty _ => askew_t aid tx ty
  | PSkewAroundCenter tx ty c _ => around c (Aff 1 ty tx 1 0 0)
  | _ => aid
  end.

(* ---- breadth_first: (paint, accumulated transform) in the order the generator yields.
   transform' = compose_ltr (transform, paint.gettransform()) exactly as written. *)
Fixpoint psize (p : paint) : nat :=
  S (match p with
     | PColrLayers ls => fold_right (fun q n => psize q + n)%nat 0%nat ls
     | PGlyph _ q | PTransform _ q | PTranslate _ _ q | PScale _ _ q
     | PScaleAroundCenter _ _ _ q | PScaleUniform _ q | PScaleUniformAroundCenter _ _ q
     | PRotate _ _ q | PRotateAroundCenter _ _ _ q | PSkew _ _ q
     | PSkewAroundCenter _ _ _ q => psize q
     | PComposite _ s b => psize s + psize b
     | _ => 0%nat
     end)%nat.

Fixpoint bfs (fuel : nat) (frontier : list (paint * aff)) : list (paint * aff) :=
  match fuel with
  | 0%nat => []
  | S n =>
    match frontier with
    | [] => []
    | (p, t) :: rest =>
      let t' := compose_ltr [t; gettransform p] in
      (p, t) :: bfs n (rest ++ map (fun q => (q, t')) (children p))
    end
  end.
Definition breadth_first (p : paint) : list (paint * aff) := bfs (S (psize p)) [(p, aid)].

(* ---- fixed.py range predicates; constants come from Generated/Consts.v via arguments *)
Record consts := Consts {
  k_min_int16 : Z; k_max_int16 : Z; k_min_uint16 : Z; k_max_uint16 : Z;
  k_min_f2dot14 : Q; k_max_f2dot14 : Q; k_min_fixed : Q; k_max_fixed : Q;
  k_almost_equal_tol : Q;         (* picosvg DEFAULT_ALMOST_EQUAL_TOLERANCE *)
  k_decomp_tol : Q                (* picosvg DECOMPOSITION_ALMOST_EQUAL_TOLERANCE *)
}.
Variable K : consts.

Definition between (lo hi x : F) : bool := fleb O lo x && fleb O x hi.
Definition aeq (x y : F) : bool := almost_equal (fofQ O (k_almost_equal_tol K)) x y.
Definition int16_safe1 (v : F) : bool :=
  aeq v (ftrunc O v) && between (fofZ O (k_min_int16 K)) (fofZ O (k_max_int16 K)) v.
Definition f2dot14_safe1 (v : F) : bool :=
  between (fofQ O (k_min_f2dot14 K)) (fofQ O (k_max_f2dot14 K)) v.
Definition fixed_safe1 (v : F) : bool :=
  between (fofQ O (k_min_fixed K)) (fofQ O (k_max_fixed K)) v.
Definition fixed_safe_aff (t : aff) : bool :=
  fixed_safe1 (aa t) && fixed_safe1 (ab t) && fixed_safe1 (ac t) &&
  fixed_safe1 (ad t) && fixed_safe1 (ae t) && fixed_safe1 (af t).

(* ---- transformed(transform, target) *)
Definition transformed (t : aff) (target : paint) : paint :=
  if aff_eqb t aid then target else
  let sx := aa t in let b := ab t in let c := ac t in
  let sy := ad t in let dx := ae t in let dy := af t in
  let general := PTransform t target in
  (* Int16 translation? *)
  if negb (feqb O dx 0 && feqb O dy 0) && aff_eqb (atranslate aid dx dy) t
     && int16_safe1 dx && int16_safe1 dy
  then PTranslate dx dy target
  else
  (* Scale? *)
  if negb (feqb O sx 1 && feqb O sy 1) && (feqb O b 0 && feqb O c 0)
     && (f2dot14_safe1 sx && f2dot14_safe1 sy)
  then
    if feqb O dx 0 && feqb O dy 0 then
      if aeq sx sy then PScaleUniform sx target else PScale sx sy target
    else
      if Bool.eqb (feqb O 1 sx) (feqb O 0 dx) && Bool.eqb (feqb O 1 sy) (feqb O 0 dy) then
        let cx := if feqb O sx 1 then 0 else dx / (1 - sx) in
        let cy := if feqb O sy 1 then 0 else dy / (1 - sy) in
        if int16_safe1 cx && int16_safe1 cy then
          if aeq sx sy then PScaleUniformAroundCenter sx (Pt cx cy) target
          else PScaleAroundCenter sx sy (Pt cx cy) target
        else general
      else general
  else general.

(* ---- PaintLinearGradient *)
Definition perpendicular (v : pt) : pt := Pt (py v) (- px v).
Definition linear_default_p2 (p0 p1 : pt) : pt :=
  let v := perpendicular (Pt (px p1 - px p0) (py p1 - py p0)) in Pt (px p0 + px v) (py p0 + py v).

Definition in_int16 (v : F) : bool := between (fofZ O (k_min_int16 K)) (fofZ O (k_max_int16 K)) v.
Definition in_uint16 (v : F) : bool := between (fofZ O (k_min_uint16 K)) (fofZ O (k_max_uint16 K)) v.
Definition pt_in_int16 (p : pt) : bool := in_int16 (px p) && in_int16 (py p).

(* check_overflows: None = OverflowError *)
Definition check_overflows (p : paint) : option paint :=
  match p with
  | PLinear _ _ p0 p1 p2 =>
      if pt_in_int16 p0 && pt_in_int16 p1 && pt_in_int16 p2 then Some p else None
  | PRadial _ _ c0 c1 r0 r1 =>
      if pt_in_int16 c0 && pt_in_int16 c1 && in_uint16 r0 && in_uint16 r1 then Some p else None
  | _ => Some p
  end.

Definition linear_apply_transform (t : aff) (check : bool) (p : paint) : option paint :=
  match p with
  | PLinear e s p0 p1 p2 =>
      let g := PLinear e s (map_point t p0) (map_point t p1) (map_point t p2) in
      if check then check_overflows g else Some g
  | _ => None
  end.

(* ---- Affine2D.decompose_scale with hypot as an oracle: (hx, hy) are the values the
   implementation's hypot(a,b), hypot(c,d) returned.  None = assertion failure. *)
Definition decompose_scale (hx hy : F) (t : aff) : option (aff * aff) :=
  let scale := Aff hx 0 0 hy 0 0 in
  let remaining := compose_ltr [ainverse scale; t] in
  let test := compose_ltr [scale; remaining] in
  if aff_almost_equals (fofQ O (k_decomp_tol K)) t test then Some (scale, remaining) else None.

(* ---- Affine2D.decompose_translation.  Division by zero (ZeroDivisionError) = None *)
Definition safe_div (x y : F) : option F := if feqb O y 0 then None else Some (x / y).
Definition decompose_translation (t : aff) : option (aff * aff) :=
  let t' := Aff (aa t) (ab t) (ac t) (ad t) 0 0 in
  if aff_almost_equals (fofQ O (k_almost_equal_tol K)) t t' then Some (aid, t') else
  let a := aa t in let b := ab t in let c := ac t in let d := ad t in
  let e := ae t in let f := af t in
  let r1 := e in let r2 := f in   (* map_point (0,0) *)
  let xy :=
    if negb (aeq a 0) then
      match safe_div (r1 * b) a, safe_div (b * c) a with
      | Some q1, Some q2 =>
        match safe_div (r2 - q1) (d - q2) with
        | Some y' => match safe_div (r1 - c * y') a with Some x' => Some (x', y') | None => None end
        | None => None
        end
      | _, _ => None
      end
    else
      match safe_div e c with
      | Some ec =>
        let y' := 0 + ec in
        match safe_div (d * 0) b, safe_div f b, safe_div (d * y') b with
        | Some q1, Some q2, Some q3 => Some (0 + q1 + q2 - q3, y')
        | _, _, _ => None
        end
      | None => None
      end in
  match xy with
  | None => None
  | Some (x', y') =>
    let translation := atranslate aid x' y' in
    let test := compose_ltr [translation; t'] in
    if aff_almost_equals (fofQ O (k_decomp_tol K)) t test then Some (translation, t') else None
  end.

Definition around9 (t : aff) : aff :=
  Aff (fround_nd O 9 (aa t)) (fround_nd O 9 (ab t)) (fround_nd O 9 (ac t))
      (fround_nd O 9 (ad t)) (fround_nd O 9 (ae t)) (fround_nd O 9 (af t)).

(* copysign(s, d): d >= 0 -> |s| ; d < 0 -> -|s|  (exact arithmetic has no -0) *)
Definition copysign (s d : F) : F := if fleb O 0 d then fabs O s else - fabs O s.

(* ---- _decompose_uniform_transform; (hx,hy) hypot oracle. Returns (uniform, remaining). *)
Definition decompose_uniform_transform (hx hy : F) (t : aff) : option (aff * aff) :=
  match decompose_scale hx hy t with
  | None => None
  | Some (scale, remaining) =>
    let s := fmax O (aa scale) (ad scale) in
    let uniform_scale := Aff s 0 0 (copysign s (ad t)) 0 0 in
    let remaining := compose_ltr [ainverse uniform_scale; scale; remaining] in
    match decompose_translation remaining with
    | None => None
    | Some (translate, remaining) =>
      Some (compose_ltr [uniform_scale; translate], around9 remaining)
    end
  end.

Definition radial_apply_transform (hx hy : F) (t : aff) (check : bool) (p : paint)
  : option paint :=
  match p with
  | PRadial e s c0 c1 r0 r1 =>
    match decompose_uniform_transform hx hy t with
    | None => None
    | Some (uni, rem) =>
      let g := PRadial e s (map_point uni c0) (map_point uni c1) (r0 * aa uni) (r1 * aa uni) in
      match (if check then check_overflows g else Some g) with
      | None => None
      | Some g => Some (transformed rem g)
      end
    end
  | _ => None
  end.

End Paint.
Arguments paint : clear implicits.
Arguments stop : clear implicits.
