(* color_glyph._painted_layers: the loop that rebuilds the paint tree from picosvg's
   depth-first context list, processed in reverse.  Shapes' paints are an abstract type P
   (what _paint_glyph returns), group opacity an abstract type A with the code's
   `0.0 < opacity < 1.0` check as [alpha_ok].  Assertion failures are None. *)
From Coq Require Import List Arith Bool.
Import ListNotations.

Section Compile.
Variables (P A : Type).
Variable alpha_ok : A -> bool.

(* picosvg-normal content: shapes are leaves, groups exist only for opacity *)
Inductive tree :=
| Leaf (p : P)
| Node (alpha : A) (cs : forest)
with forest :=
| FNil
| FCons (t : tree) (f : forest).

Fixpoint flen (f : forest) : nat := match f with FNil => 0 | FCons _ r => S (flen r) end.
Fixpoint forest_of (l : list tree) : forest := match l with [] => FNil | t :: r => FCons t (forest_of r) end.
Fixpoint list_of (f : forest) : list tree := match f with FNil => [] | FCons t r => t :: list_of r end.

(* SVG.depth_first(): (depth, element) in document order *)
Inductive ctx := CRoot | CDefs | CShape (p : P) | CGroup (alpha : A).
Fixpoint pre (d : nat) (t : tree) : list (nat * ctx) :=
  match t with
  | Leaf p => [(d, CShape p)]
  | Node a cs => (d, CGroup a) :: pre_forest (S d) cs
  end
with pre_forest (d : nat) (f : forest) : list (nat * ctx) :=
  match f with
  | FNil => []
  | FCons t r => pre d t ++ pre_forest d r
  end.
Definition depth_first (roots : forest) : list (nat * ctx) :=
  (0, CRoot) :: (1, CDefs) :: pre_forest 1 roots.

(* ---- the loop ---- *)
Definition layers := list (list tree).

Fixpoint pad (n : nat) (ls : layers) : layers :=      (* while len(layers) < n: layers.append([]) *)
  match n with
  | 0 => ls
  | S k => match ls with [] => [] :: pad k [] | l :: r => l :: pad k r end
  end.
Fixpoint append_at (i : nat) (x : tree) (ls : layers) : option layers :=   (* layers[i].append(x) *)
  match i, ls with
  | 0, l :: r => Some ((l ++ [x]) :: r)
  | S k, l :: r => match append_at k x r with Some r' => Some (l :: r') | None => None end
  | _, [] => None
  end.

Definition step (st : option (bool * layers)) (c : nat * ctx) : option (bool * layers) :=
  match st with
  | None => None
  | Some (defs_seen, ls) =>
    let '(d, e) := c in
    match e with
    | CRoot => if Nat.eqb d 0 then Some (defs_seen, ls) else None
    | CDefs => if defs_seen then None else Some (true, ls)
    | CShape p =>
        if Nat.eqb d 0 then Some (defs_seen, ls) else
        let ls' := pad d ls in
        if Nat.eqb (length ls') d then
          match append_at (d - 1) (Leaf p) ls' with Some l2 => Some (defs_seen, l2) | None => None end
        else None
    | CGroup a =>
        if Nat.eqb d 0 then Some (defs_seen, ls) else
        if negb (alpha_ok a) then None
        else if negb (Nat.eqb (length ls) (S d)) then None
        else
          let child_nodes := nth d ls [] in          (* layers.pop(depth) *)
          let rest := firstn d ls in
          if negb (Nat.ltb 1 (length child_nodes)) then None
          else match append_at (d - 1) (Node a (forest_of (rev child_nodes))) rest with
               | Some l2 => Some (defs_seen, l2) | None => None end
    end
  end.

Definition painted_layers (contexts : list (nat * ctx)) : option (list tree) :=
  match fold_left step (rev contexts) (Some (false, [])) with
  | None => None
  | Some (defs_seen, ls) =>
      if negb defs_seen then None
      else match ls with
           | [] => Some []
           | [l] => Some (rev l)
           | _ => None
           end
  end.

(* what the assertions demand of the source *)
Fixpoint wf (t : tree) : bool :=
  match t with
  | Leaf _ => true
  | Node a cs => alpha_ok a && Nat.ltb 1 (flen cs) && wf_forest cs
  end
with wf_forest (f : forest) : bool :=
  match f with FNil => true | FCons t r => wf t && wf_forest r end.

End Compile.
