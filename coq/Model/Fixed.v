(* OpenType numeric field ranges (from the OpenType spec, written by hand) and the
   check that the constants regenerated from src/nanoemoji/fixed.py agree with them. *)
From Coq Require Import ZArith QArith Qround Bool.
From Verif Require Import Model.Field Model.Paint.
Local Open Scope Q_scope.

(* int16, uint16, F2Dot14 = int16/2^14, Fixed = int32/2^16 *)
Definition spec_min_int16 : Z := (-32768)%Z.
Definition spec_max_int16 : Z := 32767%Z.
Definition spec_min_uint16 : Z := 0%Z.
Definition spec_max_uint16 : Z := 65535%Z.
Definition spec_min_f2dot14 : Q := (-32768) # 16384.
Definition spec_max_f2dot14 : Q := 32767 # 16384.
Definition spec_min_fixed_strict : Q := (-2147483648) # 65536.
Definition spec_max_fixed : Q := 2147483647 # 65536.

(* The code's constants may be narrower than the format allows, never wider; the
   comparison tolerances must be small (they bound the encoder's deliberate slack). *)
Definition consts_ok (K : consts) : bool :=
  Z.eqb (k_min_int16 K) spec_min_int16 && Z.eqb (k_max_int16 K) spec_max_int16 &&
  Z.eqb (k_min_uint16 K) spec_min_uint16 && Z.eqb (k_max_uint16 K) spec_max_uint16 &&
  Qeq_bool (k_min_f2dot14 K) spec_min_f2dot14 && Qeq_bool (k_max_f2dot14 K) spec_max_f2dot14 &&
  Qle_bool spec_min_fixed_strict (k_min_fixed K) && Qle_bool (k_min_fixed K) ((-32767) # 1) &&
  Qeq_bool (k_max_fixed K) spec_max_fixed &&
  Qle_bool 0 (k_almost_equal_tol K) && Qle_bool (k_almost_equal_tol K) (1 # 100000000) &&
  Qle_bool 0 (k_decomp_tol K) && Qle_bool (k_decomp_tol K) (1 # 1000).

(* a fixed reference copy used only to judge the *implementation's* outputs in the
   correspondence check (so a widened constant in the code shows as a property failure,
   not just as a proof failure) *)
Definition KSpec : consts := {|
  k_min_int16 := spec_min_int16; k_max_int16 := spec_max_int16;
  k_min_uint16 := spec_min_uint16; k_max_uint16 := spec_max_uint16;
  k_min_f2dot14 := spec_min_f2dot14; k_max_f2dot14 := spec_max_f2dot14;
  k_min_fixed := (-32768) # 1; k_max_fixed := spec_max_fixed;
  k_almost_equal_tol := 1 # 1000000000; k_decomp_tol := 1 # 10000 |}.

(* ---- quantisers ---- *)
(* fontTools otRound: floor(x + 0.5) *)
Definition otRound (x : Q) : Z := Qfloor (x + (1 # 2)).
(* Python round(x): half to even *)
Definition py_round (x : Q) : Z :=
  let f := Qfloor x in
  let r := x - inject_Z f in
  match Qcompare r (1 # 2) with
  | Lt => f
  | Gt => (f + 1)%Z
  | Eq => if Z.even f then f else (f + 1)%Z
  end.
(* value stored in an F2Dot14 / Fixed field: otRound(x * 2^k) / 2^k *)
Definition quantize (k : positive) (x : Q) : Q := inject_Z (otRound (x * inject_Z (Z.pow 2 (Zpos k)))) / inject_Z (Z.pow 2 (Zpos k)).
