(* colr_to_svg.py / svg.py: the geometric steps of COLR -> SVG conversion *)
From Coq Require Import List ZArith Bool.
From Verif Require Import Model.Field Model.Affine Model.ViewBox.
Import ListNotations.
Local Open Scope F_scope.

Section ColrToSvg.
Context {O : fops}.
Notation aff := (aff O).
Notation pt := (pt O).

(* map_font_space_to_viewbox(view_box, glyph_region): the inverse of the source placement with
   ascender = -region.y, descender = -(region.h - ascender), width = region.w, no user transform *)
Definition font_to_vbox (vb : rect O) (asc desc width : F O) : aff :=
  ainverse (map_viewbox_to_font_space vb asc desc width aid).

(* _apply_transform: an accumulated COLR transform A (font space) becomes the path's SVG
   transform attribute  V A V^-1  *)
Definition svg_transform_attr (V A : aff) : aff := compose_ltr [ainverse V; A; V].

(* _define_linear_gradient: P3 = P0 + projection of (P1 - P0) onto perpendicular(P2 - P0) *)
Definition perp (v : pt) : pt := Pt (py v) (- px v).
Definition vsub (a b : pt) : pt := Pt (px a - px b) (py a - py b).
Definition dot (a b : pt) : F O := px a * px b + py a * py b.
Definition projection (v onto : pt) : pt :=
  let k := dot v onto / dot onto onto in Pt (k * px onto) (k * py onto).
Definition linear_p3 (p0 p1 p2 : pt) : pt :=
  let pr := projection (vsub p1 p0) (perp (vsub p2 p0)) in Pt (px p0 + px pr) (py p0 + py pr).
(* an SVG linearGradient (x1,y1)-(x2,y2): t = orthogonal projection parameter *)
Definition svg_lin_t (a b x : pt) : F O := dot (vsub x a) (vsub b a) / dot (vsub b a) (vsub b a).
End ColrToSvg.
