(* nanoemoji.reorder_glyphs: _sort_by_gid, ReorderCoverage, ReorderList on an abstract
   subtable (coverage = list of glyphs, parallel array = list of records), and the rule
   table / schema types used by the completeness theorem. *)
From Coq Require Import List ZArith Bool String.
Import ListNotations.

Section Sort.
Context {A : Type}.
Variable key : A -> Z.
(* stable insertion sort by key, the order Python's sorted(..., key=) produces *)
Fixpoint insert_key (x : A) (l : list A) : list A :=
  match l with
  | [] => [x]
  | y :: r => if (key x <=? key y)%Z then x :: y :: r else y :: insert_key x r
  end.
Fixpoint sort_key (l : list A) : list A :=
  match l with [] => [] | x :: r => insert_key x (sort_key r) end.
End Sort.

Section Reorder.
Variables (G E : Type).
Variable gid : G -> Z.          (* font.getGlyphID after setGlyphOrder *)

(* _sort_by_gid(get_glyph_id, glyphs, parallel_list): `if parallel_list:` is false for None
   and for an empty list *)
Definition sort_by_gid (glyphs : list G) (par : option (list E)) : list G * option (list E) :=
  match par with
  | Some (e :: p) =>
      let s := sort_key (fun ge : G * E => gid (fst ge)) (combine glyphs (e :: p)) in
      (map fst s, Some (map snd s))
  | _ => (sort_key gid glyphs, par)
  end.

(* ReorderList: lst.sort(key = gid of the record's key glyph) *)
Definition reorder_list (keyglyph : E -> G) (l : list E) : list E :=
  sort_key (fun e => gid (keyglyph e)) l.
End Reorder.

(* ---- rule table (regenerated from _REORDER_RULES) and schema (from the OpenType spec) ---- *)
Inductive rule :=
| RCov (coverage_attr : string) (parallel_attr : option string)
| RList (list_attr : string) (key : string).
Definition rule_entry := (string * option Z * list rule)%type.      (* type name, Format, rules *)

(* schema: coverage fields with the array parallel to each (if any); inner lists ordered by
   a glyph *)
Record schema_entry := SE {
  se_type : string; se_format : option Z;
  se_coverages : list (string * option string);
  se_lists : list (string * string) }.

Definition optZ_eqb (a b : option Z) : bool :=
  match a, b with None, None => true | Some x, Some y => Z.eqb x y | _, _ => false end.
Definition optS_eqb (a b : option string) : bool :=
  match a, b with None, None => true | Some x, Some y => String.eqb x y | _, _ => false end.
Definition rule_is_cov (c : string) (p : option string) (r : rule) : bool :=
  match r with RCov c' p' => String.eqb c c' && optS_eqb p p' | _ => false end.
Definition rule_is_list (l k : string) (r : rule) : bool :=
  match r with RList l' k' => String.eqb l l' && String.eqb k k' | _ => false end.
Definition rules_for (t : list rule_entry) (ty : string) (fmt : option Z) : list rule :=
  flat_map (fun e => let '(ty', f', rs) := e in if String.eqb ty ty' && optZ_eqb fmt f' then rs else []) t.
(* every coverage of the schema entry is reordered together with exactly its parallel array,
   every gid-ordered inner list is re-sorted, and no rule names anything else *)
Definition entry_covered (t : list rule_entry) (s : schema_entry) : bool :=
  let rs := rules_for t (se_type s) (se_format s) in
  forallb (fun cp => existsb (rule_is_cov (fst cp) (snd cp)) rs) (se_coverages s) &&
  forallb (fun lk => existsb (rule_is_list (fst lk) (snd lk)) rs) (se_lists s) &&
  forallb (fun r => match r with
                    | RCov c p => existsb (fun cp => String.eqb c (fst cp) && optS_eqb p (snd cp)) (se_coverages s)
                    | RList l k => existsb (fun lk => String.eqb l (fst lk) && String.eqb k (snd lk)) (se_lists s)
                    end) rs.
Definition rules_complete (t : list rule_entry) (schema : list schema_entry) : bool :=
  forallb (entry_covered t) schema.
