(* glyph_reuse.GlyphReuseCache as a state machine.  picosvg's normalize and affine_between
   are oracles (section variables): the model receives their answers.  Paths and normal
   forms are identified by integers (the harness numbers the strings). *)
From Coq Require Import List ZArith Bool String.
From Verif Require Import Model.Field Model.Affine Model.Color Model.Paint.
Import ListNotations.

Section Reuse.
Context {O : fops}.
Variable K : consts.
Variable normalize : Z -> Z.                       (* path id -> normal-form id *)
Variable affine_between : Z -> Z -> option (aff O). (* donor path, path -> affine *)

Record cache := Cache {
  disabled : bool;                       (* reuse_tolerance == -1 *)
  reusable : list (Z * (string * Z));    (* normal form (or raw path when disabled) -> (glyph, path); newest first *)
  known : list string }.

Definition empty_cache (dis : bool) : cache := Cache dis [] [].

Fixpoint lookup (k : Z) (l : list (Z * (string * Z))) : option (string * Z) :=
  match l with [] => None | (k', v) :: r => if Z.eqb k k' then Some v else lookup k r end.

Definition try_reuse (c : cache) (path : Z) : option (string * aff O) :=
  if disabled c then None else
  match lookup (normalize path) (reusable c) with
  | None => None
  | Some (g, gp) =>
    match affine_between gp path with
    | None => None
    | Some a => if fixed_safe_aff K a then Some (g, a) else None
    end
  end.

Definition add_glyph (c : cache) (name : string) (path : Z) : cache :=
  let key := if disabled c then path else normalize path in
  Cache (disabled c) ((key, (name, path)) :: reusable c) (name :: known c).

Definition is_known_glyph (c : cache) (name : string) : bool := existsb (String.eqb name) (known c).

(* operations and observable results, for the correspondence *)
Inductive op := OpTry (path : Z) | OpAdd (name : string) (path : Z).
Inductive res := RTry (r : option (string * aff O)) | RAdd.
Definition step (c : cache) (o : op) : cache * res :=
  match o with
  | OpTry p => (c, RTry (try_reuse c p))
  | OpAdd n p => (add_glyph c n p, RAdd)
  end.
Fixpoint run (c : cache) (ops : list op) : list res :=
  match ops with [] => [] | o :: r => let '(c', x) := step c o in x :: run c' r end.

End Reuse.
