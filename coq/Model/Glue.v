(* glue_together._copy_svg: the glyph order that lets the donor's SVG glyph ids stay valid *)
From Coq Require Import List Arith Bool.
Import ListNotations.

Section Glue.
Variable G : Type.
Variable geqb : G -> G -> bool.
Fixpoint gmem (g : G) (l : list G) : bool := match l with [] => false | x :: r => geqb g x || gmem g r end.

(* while len(new_glyph_order) < svg_gid: new_glyph_order.append(non_svg.pop(0))
   -- pop(0) on an empty list is an IndexError = None *)
Fixpoint pad_to (fuel : nat) (gid : nat) (new nonsvg : list G) : option (list G * list G) :=
  match fuel with
  | 0 => if Nat.leb gid (length new) then Some (new, nonsvg) else None
  | S k =>
    if Nat.leb gid (length new) then Some (new, nonsvg)
    else match nonsvg with
         | [] => None
         | x :: r => pad_to k gid (new ++ [x]) r
         end
  end.

Fixpoint place_svg (svg : list (nat * G)) (new nonsvg : list G) : option (list G * list G) :=
  match svg with
  | [] => Some (new, nonsvg)
  | (gid, name) :: r =>
    match pad_to gid gid new nonsvg with
    | None => None
    | Some (new', nonsvg') => place_svg r (new' ++ [name]) nonsvg'
    end
  end.

(* svg: (gid, glyph name) of the donor's SVG documents, in docList order *)
Definition copy_svg_order (target_order : list G) (svg : list (nat * G)) : option (list G) :=
  let names := map snd svg in
  let nonsvg := filter (fun g => negb (gmem g names)) target_order in
  match place_svg svg [] nonsvg with
  | None => None
  | Some (new, rest) => Some (new ++ rest)
  end.
End Glue.

(* write_glyphmap_for_glyph_svgs: file "{gid:05d}.svg" is mapped to glyph_order[int(stem)] *)
From Coq Require Import NArith.
From Verif Require Import Model.Csv.
Local Open Scope N_scope.
Fixpoint dec_rev (fuel : nat) (n : N) : text :=
  match fuel with
  | O => []
  | S k => if n <? 10 then [48 + n] else (48 + n mod 10) :: dec_rev k (n / 10)
  end.
Definition to_dec (n : N) : text := rev (dec_rev (S (S (N.to_nat (N.log2 n)))) n).
(* f"{gid:05d}" *)
Definition gid_stem (gid : N) : text := let d := to_dec gid in repeat 48 (5 - length d) ++ d.
Definition dec_val (c : N) : option N := if (48 <=? c) && (c <=? 57) then Some (c - 48) else None.
Fixpoint parse_dec_acc (acc : N) (t : text) : option N :=
  match t with
  | [] => Some acc
  | c :: r => match dec_val c with Some d => parse_dec_acc (acc * 10 + d) r | None => None end
  end.
(* int(stem) *)
Definition stem_gid (t : text) : option N := match t with [] => None | _ => parse_dec_acc 0 t end.

(* glue_together._copy_colr: the donor's layer glyphs are appended to the target's glyph order *)
Definition copy_colr_order {G : Type} (target_order layer_glyphs : list G) : list G := target_order ++ layer_glyphs.
