(* svg.py: the pieces of the OT-SVG emitter that are nanoemoji's own arithmetic/bookkeeping:
   <use> placement, and the glyph reshuffle that makes sharing glyphs contiguous. *)
From Coq Require Import List ZArith Bool.
From Verif Require Import Model.Field Model.Affine.
Import ListNotations.
Local Open Scope F_scope.

Section Use.
Context {O : fops}.
(* _create_use_element(reuse_result): x, y = translation of R; transform = R.translate(-tx, -ty)
   (rounding to 3 decimals is applied when printing; not modelled here) *)
Definition use_attrs (R : aff O) : F O * F O * aff O :=
  (ae R, af R, atranslate R (- ae R) (- af R)).
(* SVG semantics of <use x y transform>: the referenced content is mapped by
   transform . translate(x, y) *)
Definition use_effective (u : F O * F O * aff O) : aff O :=
  let '(x, y, t) := u in matmul t (Aff 1 0 0 1 x y).
End Use.

Section Order.
Variable G : Type.
Variable geqb : G -> G -> bool.
Fixpoint gmem (g : G) (l : list G) : bool := match l with [] => false | x :: r => geqb g x || gmem g r end.
(* _ensure_groups_grouped_in_glyph_order: everything that is not in a group keeps its old
   order, then the groups in order; returns the new order and, per group, its first gid *)
Definition ensure_order (old : list G) (groups : list (list G)) : list G :=
  filter (fun g => negb (gmem g (concat groups))) old ++ concat groups.
Fixpoint group_ranges (start : nat) (groups : list (list G)) : list (nat * nat) :=   (* (first gid, count) *)
  match groups with [] => [] | g :: r => (start, length g) :: group_ranges (start + length g) r end.
Definition ranges (old : list G) (groups : list (list G)) : list (nat * nat) :=
  group_ranges (length (filter (fun g => negb (gmem g (concat groups))) old)) groups.
End Order.
