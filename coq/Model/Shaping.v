(* How text reaches glyphs in a nanoemoji font: cmap for single codepoints, the generated
   ligature feature (features.generate_fea) for sequences.  Glyph names are an abstract
   function [name] of the codepoint sequence (glyph.glyph_name). *)
From Coq Require Import List NArith Bool Arith.
Import ListNotations.

Section Shaping.
Variable G : Type.
Variable geqb : G -> G -> bool.
Variable name : list N -> G.

Definition single (c : N) : G := name [c].
(* generate_fea: one rule  sub <glyph of each codepoint> by <glyph of the sequence>  per
   multi-codepoint sequence *)
Definition rules (S : list (list N)) : list (list G * G) :=
  map (fun s => (map single s, name s)) (filter (fun s => Nat.ltb 1 (length s)) S).

Fixpoint is_prefix (p l : list G) : bool :=
  match p, l with
  | [], _ => true
  | x :: p', y :: l' => geqb x y && is_prefix p' l'
  | _ :: _, [] => false
  end.
(* ligature lookup at one position: the longest rule whose components match (a LigatureSet
   lists longer ligatures first) *)
Fixpoint best_rule (rs : list (list G * G)) (gl : list G) : option (list G * G) :=
  match rs with
  | [] => None
  | r :: rest =>
    let b := best_rule rest gl in
    if is_prefix (fst r) gl then
      match b with
      | Some r' => if Nat.ltb (length (fst r)) (length (fst r')) then Some r' else Some r
      | None => Some r
      end
    else b
  end.
Fixpoint apply_liga (fuel : nat) (rs : list (list G * G)) (gl : list G) : list G :=
  match fuel with
  | 0 => gl
  | S n =>
    match gl with
    | [] => []
    | g :: r =>
      match best_rule rs gl with
      | Some (comps, tgt) => tgt :: apply_liga n rs (skipn (length comps) gl)
      | None => g :: apply_liga n rs r
      end
    end
  end.
(* cmap every codepoint (each has a glyph: a source's own or a blank one), then ligate *)
Definition shape (seqs : list (list N)) (s : list N) : list G :=
  let gl := map single s in apply_liga (Datatypes.S (length gl)) (rules seqs) gl.
End Shaping.

(* write_font._ensure_codepoints_will_have_glyphs: codepoints that occur only inside
   multi-codepoint sequences get a blank glyph *)
Section Blanks.
Definition direct_cps (seqs : list (list N)) : list N :=
  flat_map (fun s => match s with [c] => [c] | _ => [] end) seqs.
Definition all_cps (seqs : list (list N)) : list N := concat seqs.
Definition need_blanks (seqs : list (list N)) : list N :=
  filter (fun c => negb (existsb (N.eqb c) (direct_cps seqs))) (all_cps seqs).
End Blanks.
