(* COLRv1 rendering semantics, first layer: where does each PaintGlyph outline land?
   Written from the COLR specification, independently of Paint.breadth_first:
   a transform paint maps its child's content by its matrix, so for nested transforms
   the *outer* one is applied last:  point |-> outer (inner point). *)
From Coq Require Import List ZArith Bool String.
From Verif Require Import Model.Field Model.Affine Model.Color Model.Paint.
Import ListNotations.

Section ColrSem.
Context {O : fops}.
Notation aff := (aff O).
Notation paint := (paint O).

(* (glyph name, placing affine, fill paint) in paint order (bottom-up z-order) *)
Fixpoint placements (p : paint) (acc : aff) {struct p} : list (string * aff * paint) :=
  match p with
  | PColrLayers ls =>
      (fix go (l : list paint) : list (string * aff * paint) :=
         match l with [] => [] | x :: r => placements x acc ++ go r end) ls
  | PGlyph g q => [(g, acc, q)]
  | PComposite _ s b => placements b acc ++ placements s acc
  | PTransform _ q | PTranslate _ _ q | PScale _ _ q | PScaleAroundCenter _ _ _ q
  | PScaleUniform _ q | PScaleUniformAroundCenter _ _ q | PRotate _ _ q
  | PRotateAroundCenter _ _ _ q | PSkew _ _ q | PSkewAroundCenter _ _ _ q =>
      placements q (matmul acc (gettransform p))
  | _ => []
  end.

(* number of transform paints on the way to each PaintGlyph is at most [n] *)
Fixpoint transform_depth_le (n : nat) (p : paint) {struct p} : bool :=
  match p with
  | PColrLayers ls => forallb (transform_depth_le n) ls
  | PGlyph _ _ => true
  | PComposite _ s b => transform_depth_le n s && transform_depth_le n b
  | PTransform _ q | PTranslate _ _ q | PScale _ _ q | PScaleAroundCenter _ _ _ q
  | PScaleUniform _ q | PScaleUniformAroundCenter _ _ q | PRotate _ _ q
  | PRotateAroundCenter _ _ _ q | PSkew _ _ q | PSkewAroundCenter _ _ _ q =>
      match n with 0%nat => false | S m => transform_depth_le m q end
  | _ => true
  end.

(* no PaintGlyph anywhere below (true of every fill nanoemoji emits) *)
Fixpoint no_glyph (p : paint) {struct p} : bool :=
  match p with
  | PColrLayers ls => forallb no_glyph ls
  | PGlyph _ _ => false
  | PComposite _ s b => no_glyph s && no_glyph b
  | PTransform _ q | PTranslate _ _ q | PScale _ _ q | PScaleAroundCenter _ _ _ q
  | PScaleUniform _ q | PScaleUniformAroundCenter _ _ q | PRotate _ _ q
  | PRotateAroundCenter _ _ _ q | PSkew _ _ q | PSkewAroundCenter _ _ _ q => no_glyph q
  | _ => true
  end.
(* every PaintGlyph's fill is glyph-free (no nested clipping) *)
Fixpoint simple_fills (p : paint) {struct p} : bool :=
  match p with
  | PColrLayers ls => forallb simple_fills ls
  | PGlyph _ q => no_glyph q
  | PComposite _ s b => simple_fills s && simple_fills b
  | PTransform _ q | PTranslate _ _ q | PScale _ _ q | PScaleAroundCenter _ _ _ q
  | PScaleUniform _ q | PScaleUniformAroundCenter _ _ q | PRotate _ _ q
  | PRotateAroundCenter _ _ _ q | PSkew _ _ q | PSkewAroundCenter _ _ _ q => simple_fills q
  | _ => true
  end.

(* what write_font._bounds feeds ControlBoundsPen: for each PaintGlyph context of
   breadth_first, the glyph's control points through the context transform (skipped
   when the transform almost-equals the identity) *)
Definition ctx_points (tol : F O) (genv : string -> list (pt O)) (ctx : paint * aff) : option (list (pt O)) :=
  match fst ctx with
  | PGlyph g _ =>
      Some (if aff_almost_equals tol (snd ctx) aid then genv g
            else map (map_point (snd ctx)) (genv g))
  | _ => None
  end.
Fixpoint keep_some {A} (l : list (option A)) : list A :=
  match l with [] => [] | Some x :: r => x :: keep_some r | None :: r => keep_some r end.
Definition bounds_points (tol : F O) (genv : string -> list (pt O)) (roots : list paint) : list (list (pt O)) :=
  List.concat (map (fun r => keep_some (map (ctx_points tol genv) (breadth_first r))) roots).

End ColrSem.
