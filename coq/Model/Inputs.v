(* Input acceptance (C17): what write_font._generate_color_font (after the duplicate-name
   fix) and config.load check before anything is written. *)
From Coq Require Import List Bool.
Import ListNotations.

Section Inputs.
Variable G : Type.
Variable geqb : G -> G -> bool.
Fixpoint gmem (g : G) (l : list G) : bool := match l with [] => false | x :: r => geqb g x || gmem g r end.
(* the loop over inputs: the first glyph name seen twice raises ValueError *)
Fixpoint first_duplicate (seen : list G) (names : list G) : option G :=
  match names with
  | [] => None
  | n :: r => if gmem n seen then Some n else first_duplicate (n :: seen) r
  end.
Definition inputs_accepted (names : list G) : bool :=
  match first_duplicate [] names with None => true | Some _ => false end.

(* config.load: source file names unique within a master; all masters have the same name set *)
Fixpoint nodupb (l : list G) : bool := match l with [] => true | x :: r => negb (gmem x r) && nodupb r end.
Definition same_set (a b : list G) : bool := forallb (fun x => gmem x b) a && forallb (fun x => gmem x a) b.
Definition masters_accepted (ms : list (list G)) : bool :=
  forallb nodupb ms && match ms with [] => false | m0 :: r => forallb (same_set m0) r end.
End Inputs.
