(* picosvg.svg_transform.Affine2D, as used by nanoemoji.
     | a c e |
     | b d f |
   [matmul s o] = s @ o (map by o first, then s);  compose_ltr = reduce(matmul, reversed(l), id) *)
From Coq Require Import List ZArith Bool.
From Verif Require Import Model.Field.
Import ListNotations.
Local Open Scope F_scope.

Section Affine.
Context {O : fops}.
Notation F := (F O).

Record aff := Aff { aa : F; ab : F; ac : F; ad : F; ae : F; af : F }.
Record pt := Pt { px : F; py : F }.

Definition aid : aff := Aff 1 0 0 1 0 0.
Definition adegenerate : aff := Aff 0 0 0 0 0 0.
Definition aflip_y : aff := Aff 1 0 0 (fopp O 1) 0 0.

Definition aff_eqb (s t : aff) : bool :=
  feqb O (aa s) (aa t) && feqb O (ab s) (ab t) && feqb O (ac s) (ac t) &&
  feqb O (ad s) (ad t) && feqb O (ae s) (ae t) && feqb O (af s) (af t).
Definition pt_eqb (p q : pt) : bool := feqb O (px p) (px q) && feqb O (py p) (py q).

Definition matmul (s o : aff) : aff :=
  Aff (aa s * aa o + ac s * ab o)
      (ab s * aa o + ad s * ab o)
      (aa s * ac o + ac s * ad o)
      (ab s * ac o + ad s * ad o)
      (aa s * ae o + ac s * af o + ae s)
      (ab s * ae o + ad s * af o + af s).

(* self.translate(tx,ty): returns self unchanged when (tx,ty) == (0,0) *)
Definition atranslate (s : aff) (tx ty : F) : aff :=
  if feqb O tx 0 && feqb O ty 0 then s else matmul s (Aff 1 0 0 1 tx ty).
Definition ascale (s : aff) (sx sy : F) : aff := matmul s (Aff sx 0 0 sy 0 0).
(* rotate with abstract cos / sin of the angle *)
Definition arotate_cs (s : aff) (co si cx cy : F) : aff :=
  atranslate (matmul (atranslate s cx cy) (Aff co si (- si) co 0 0)) (- cx) (- cy).
(* skew with abstract tangents *)
Definition askew_t (s : aff) (tanx tany : F) : aff := matmul s (Aff 1 tany tanx 1 0 0).

Definition adet (s : aff) : F := aa s * ad s - ab s * ac s.

(* inverse: identity -> self; degenerate (|det| <= eps, modelled as det = 0 in exact
   arithmetic) -> all-zero matrix; else the adjugate formula, as written in picosvg *)
Definition ainverse (s : aff) : aff :=
  if aff_eqb s aid then s
  else if feqb O (adet s) 0 then adegenerate
  else
    let det := adet s in
    let a := ad s / det in let b := - ab s / det in
    let c := - ac s / det in let d := aa s / det in
    Aff a b c d (- a * ae s - c * af s) (- b * ae s - d * af s).

Definition map_point (s : aff) (p : pt) : pt :=
  Pt (aa s * px p + ac s * py p + ae s) (ab s * px p + ad s * py p + af s).
Definition map_vector (s : aff) (p : pt) : pt :=
  Pt (aa s * px p + ac s * py p) (ab s * px p + ad s * py p).

Definition compose_ltr (l : list aff) : aff := fold_left matmul (rev l) aid.

(* Affine2D.product(first, second) == compose_ltr [first; second] == second @ first *)
Definition aproduct (first second : aff) : aff := matmul second first.

(* rect_to_rect(src, dst) with preserveAspectRatio = "none" *)
Record rect := Rect { rx : F; ry : F; rw : F; rh : F }.
Definition rect_empty (r : rect) : bool := feqb O (rw r) 0 || feqb O (rh r) 0.
Definition rect_to_rect (src dst : rect) : aff :=
  if rect_empty src then aid
  else if rect_empty dst then adegenerate
  else let sx := rw dst / rw src in let sy := rh dst / rh src in
       Aff sx 0 0 sy (rx dst - rx src * sx) (ry dst - ry src * sy).

Definition almost_equal (tol x y : F) : bool := fleb O (fabs O (x - y)) tol.
Definition aff_almost_equals (tol : F) (s t : aff) : bool :=
  almost_equal tol (aa s) (aa t) && almost_equal tol (ab s) (ab t) &&
  almost_equal tol (ac s) (ac t) && almost_equal tol (ad s) (ad t) &&
  almost_equal tol (ae s) (ae t) && almost_equal tol (af s) (af t).

End Affine.
Arguments aff : clear implicits.
Arguments pt : clear implicits.
Arguments rect : clear implicits.
