(* nanoemoji.bitmap_tables: ppem, pixel width, BitmapMetrics.create, the int8 nudge,
   CBDT offsets and the split of the gid-sorted glyph list into runs of consecutive gids.
   Integers are Z, quotients are exact rationals; Python's round is [py_round].
   None = AssertionError / ZeroDivisionError. *)
From Coq Require Import List ZArith QArith Qround Qminmax Bool.
From Verif Require Import Model.Fixed.
Import ListNotations.
Local Open Scope Q_scope.

Record bconfig := BConfig {
  b_upem : Z; b_ascender : Z; b_descender : Z; b_width : Z; b_resolution : Z }.

Definition zq (z : Z) : Q := inject_Z z.
Definition em (c : bconfig) : Z := (b_ascender c - b_descender c)%Z.

(* _ppem(config, h) = round(upem * h / (asc - desc)) *)
Definition ppem (c : bconfig) (h : Z) : option Z :=
  if (em c =? 0)%Z then None else Some (py_round (zq (b_upem c * h) / zq (em c))).

(* _width_in_pixels(config, (w, h)) *)
Definition width_in_pixels (c : bconfig) (w h : Z) : option Z :=
  if (h =? 0)%Z || (em c =? 0)%Z then None else
  let wf := Qmax (zq (b_width c)) (zq (w * em c) / zq h) in
  if Qle_bool wf 0 then None else Some (py_round (wf * zq h / zq (em c))).

Definition in_range (lo hi v : Z) : bool := (lo <=? v)%Z && (v <=? hi)%Z.
(* _nudge_into_range(range(lo, hi+1), v, max_move = 1) *)
Definition nudge (lo hi v : Z) : Z :=
  if in_range lo hi v then v
  else if (hi <? v)%Z && (v - 1 <=? hi)%Z then hi
  else if (v <? lo)%Z && (lo <=? v + 1)%Z then lo
  else v.

Record bmetrics := BMetrics { m_x_offset : Z; m_y_offset : Z; m_line_height : Z; m_line_ascent : Z }.

(* BitmapMetrics.create(config, image (w, h), ppem).
   [xref] is the size the horizontal centring subtracts from the pixel advance: the image
   width (after the fix recorded in known_findings.json; the original code used
   bitmap_resolution).  It is passed in by the caller so both variants can be stated. *)
Definition metrics_create_gen (xref : Z) (c : bconfig) (w h p : Z) : option bmetrics :=
  if (b_upem c =? 0)%Z then None else
  match width_in_pixels c w h with
  | None => None
  | Some wpx =>
    let line_height := py_round (zq ((b_ascender c - b_descender c) * p) / zq (b_upem c)) in
    let line_ascent := zq (b_ascender c * p) / zq (b_upem c) in
    let x := nudge (-128) 127 (Z.max (py_round (zq (wpx - xref) / 2)) 0) in
    let y := nudge (-128) 127 (py_round (line_ascent - (1 # 2) * zq (line_height - b_resolution c))) in
    if negb (in_range 0 255 (b_resolution c)) then None
    else if negb (in_range (-128) 127 y) then None
    else Some (BMetrics x y line_height (py_round line_ascent))
  end.

(* sbix placement derived from the metrics *)
Definition sbix_origin (m : bmetrics) : Z * Z := (m_x_offset m, (m_line_ascent m - m_line_height m)%Z).

(* raise_if_too_big_for_cbdt: max(size) not in range(0, 256) *)
Definition too_big_for_cbdt (w h : Z) : bool := negb (in_range 0 255 (Z.max w h)).

(* _cbdt_bitmapdata_offsets(initial, 17, glyphs): (start, end) per glyph; record = 9 + len *)
Fixpoint cbdt_offsets (off : Z) (lens : list Z) : list (Z * Z) :=
  match lens with
  | [] => []
  | n :: r => (off, off + 9 + n)%Z :: cbdt_offsets (off + 9 + n)%Z r
  end.

(* make_cbdt_table: split the gid-sorted glyph list into maximal runs of consecutive gids *)
Fixpoint take_run (prev : Z) (l : list Z) : list Z * list Z :=
  match l with
  | [] => ([], [])
  | g :: r => if (g =? prev + 1)%Z then let '(a, b) := take_run g r in (g :: a, b) else ([], l)
  end.
Fixpoint split_runs (fuel : nat) (l : list Z) : list (list Z) :=
  match fuel with
  | O => []
  | S n =>
    match l with
    | [] => []
    | g :: r => let '(a, b) := take_run g r in (g :: a) :: split_runs n b
    end
  end.
Definition cbdt_runs (gids : list Z) : list (list Z) := split_runs (length gids) gids.
