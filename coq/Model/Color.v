(* nanoemoji.colors.Color: rgb ints (-1,-1,-1 = currentColor sentinel), alpha, optional palette index *)
From Coq Require Import List ZArith Bool.
From Verif Require Import Model.Field.
Import ListNotations.

Section Color.
Context {O : fops}.

Record color := Color { cr : Z; cg : Z; cb : Z; calpha : F O; cidx : option Z }.

Definition optZ_eqb (a b : option Z) : bool :=
  match a, b with None, None => true | Some x, Some y => Z.eqb x y | _, _ => false end.
Definition color_eqb (x y : color) : bool :=
  Z.eqb (cr x) (cr y) && Z.eqb (cg x) (cg y) && Z.eqb (cb x) (cb y) &&
  feqb O (calpha x) (calpha y) && optZ_eqb (cidx x) (cidx y).

Definition black : color := Color 0 0 0 (f1 O) None.
Definition current_color (alpha : F O) : color := Color (-1) (-1) (-1) alpha None.
Definition is_current_color (c : color) : bool :=
  Z.eqb (cr c) (-1) && Z.eqb (cg c) (-1) && Z.eqb (cb c) (-1).
Definition opaque (c : color) : color := Color (cr c) (cg c) (cb c) (f1 O) (cidx c).
Definition without_palette_index (c : color) : color := Color (cr c) (cg c) (cb c) (calpha c) None.

End Color.
Arguments color : clear implicits.
