(* config.py: option resolution and the colour-format table *)
From Coq Require Import List String Bool.
Import ListNotations.

(* _pop_flag: command-line flag if set, else file value if present, else the default *)
Definition pop_flag {A} (flag file : option A) (default : A) : A :=
  match flag, file with
  | Some v, _ => v
  | None, Some v => v
  | None, None => default
  end.

Record fmt_row := FmtRow {
  f_name : string; f_bitmaps : bool; f_picosvgs : bool; f_untouched : bool; f_svgs : bool;
  f_otsvg : bool; f_otf : bool }.

(* the documented meaning of the 13 colour formats, written by hand:
   outline flavour decides .ttf/.otf; glyf/COLR formats consume picosvg-normalised input;
   picosvg*/untouchedsvg* are the OT-SVG formats; cbdt/sbix consume bitmaps *)
Definition format_spec : list fmt_row := [
  FmtRow "glyf"          false true  false true  false false;
  FmtRow "glyf_colr_0"   false true  false true  false false;
  FmtRow "glyf_colr_1"   false true  false true  false false;
  FmtRow "cff_colr_0"    false true  false true  false true;
  FmtRow "cff_colr_1"    false true  false true  false true;
  FmtRow "cff2_colr_0"   false true  false true  false true;
  FmtRow "cff2_colr_1"   false true  false true  false true;
  FmtRow "picosvg"       false true  false true  true  false;
  FmtRow "picosvgz"      false true  false true  true  false;
  FmtRow "untouchedsvg"  false false true  true  true  false;
  FmtRow "untouchedsvgz" false false true  true  true  false;
  FmtRow "cbdt"          true  false false false false false;
  FmtRow "sbix"          true  false false false false false ].

Definition row_eqb (a b : fmt_row) : bool :=
  String.eqb (f_name a) (f_name b) && Bool.eqb (f_bitmaps a) (f_bitmaps b) &&
  Bool.eqb (f_picosvgs a) (f_picosvgs b) && Bool.eqb (f_untouched a) (f_untouched b) &&
  Bool.eqb (f_svgs a) (f_svgs b) && Bool.eqb (f_otsvg a) (f_otsvg b) && Bool.eqb (f_otf a) (f_otf b).
(* same rows, in any order *)
Definition tables_agree (a b : list fmt_row) : bool :=
  Nat.eqb (List.length a) (List.length b) &&
  forallb (fun r => existsb (row_eqb r) b) a && forallb (fun r => existsb (row_eqb r) a) b.

(* ---- the path of every option: flag -> (file written by the driver) -> load -> FontConfig.
   One row per FontConfig field, regenerated on every run by calling the real config.write / config.load with two
   distinct probe values per option (harness/config_probe.py); until session 4 the rows were read off the text. *)
Record cfg_row := CfgRow {
  c_name : string;
  c_type : string;            (* annotation of the FontConfig field *)
  c_flag : string;            (* kind of the flag of the same name in absl's registry ("" = no flag) *)
  c_flag_unset_is_none : bool;(* the flag's default is None, so "not given" is distinguishable *)
  c_written : bool;           (* config.write stores the field's value under "<name>" (observed for both probes) *)
  c_loaded : bool;            (* config.load, flag not given: the file's value arrives in the field (both probes) *)
  c_cast : string;            (* an integer option given as 7.0 arrives as the int 7 / a float option given as 1 as 1.0 *)
  c_passed : bool;            (* config.load, flag given: the flag's value arrives, whatever the file says (both ways round, and with no file value) *)
  c_rebound : bool }.         (* the value that arrives has another type than the one given (the transform is parsed) *)

(* the documented options (README / --help) and the kind of value each takes; written by hand *)
Definition config_spec : list (string * string) := [
  ("family", "string"); ("output_file", "string"); ("color_format", "enum");
  ("upem", "integer"); ("width", "integer"); ("ascender", "integer"); ("descender", "integer");
  ("linegap", "integer"); ("transform", "string"); ("version_major", "integer");
  ("version_minor", "integer"); ("reuse_tolerance", "float"); ("ignore_reuse_error", "bool");
  ("keep_glyph_names", "bool"); ("clip_to_viewbox", "bool"); ("clipbox_quantization", "integer");
  ("pretty_print", "bool"); ("fea_file", "string"); ("glyphmap_generator", "string");
  ("bitmap_resolution", "integer"); ("use_zopflipng", "bool"); ("use_pngquant", "bool");
  ("pngquant_flags", "string") ]%string.
(* fields that are tables in the file ([axis.x] and [master.x]), not options *)
Definition config_structured : list string := ["axes"; "masters"; "source_names"]%string.

Definition str_in (s : string) (l : list string) : bool := existsb (String.eqb s) l.
Definition row_complete (r : cfg_row) : bool :=
  c_flag_unset_is_none r && c_written r && c_loaded r && c_passed r &&
  (* only the user transform is parsed again (from its string form) *)
  (negb (c_rebound r) || String.eqb (c_name r) "transform").
Definition config_paths_ok (rows : list cfg_row) (pop_rule : bool) (extra_written extra_passed : list string) : bool :=
  pop_rule &&
  (* every documented option is a field with a flag of the documented kind and a complete path *)
  forallb (fun o => existsb (fun r => String.eqb (c_name r) (fst o) && String.eqb (c_flag r) (snd o) && row_complete r) rows) config_spec &&
  (* every field is a documented option or one of the structured ones, and is listed once *)
  forallb (fun r => if String.eqb (c_flag r) "" then str_in (c_name r) config_structured
                    else str_in (c_name r) (map fst config_spec)) rows &&
  Nat.eqb (List.length rows) (List.length config_spec + List.length config_structured) &&
  (* nothing else is written or passed *)
  forallb (fun k => str_in k ["axis"; "master"]%string) extra_written &&
  match extra_passed with [] => true | _ => false end.
