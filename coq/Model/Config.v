(* config.py: option resolution and the colour-format table *)
From Coq Require Import List String Bool.
Import ListNotations.

(* _pop_flag: command-line flag if set, else file value if present, else the default *)
Definition pop_flag {A} (flag file : option A) (default : A) : A :=
  match flag, file with
  | Some v, _ => v
  | None, Some v => v
  | None, None => default
  end.

Record fmt_row := FmtRow {
  f_name : string; f_bitmaps : bool; f_picosvgs : bool; f_untouched : bool; f_svgs : bool;
  f_otsvg : bool; f_otf : bool }.

(* the documented meaning of the 13 colour formats, written by hand:
   outline flavour decides .ttf/.otf; glyf/COLR formats consume picosvg-normalised input;
   picosvg*/untouchedsvg* are the OT-SVG formats; cbdt/sbix consume bitmaps *)
Definition format_spec : list fmt_row := [
  FmtRow "glyf"          false true  false true  false false;
  FmtRow "glyf_colr_0"   false true  false true  false false;
  FmtRow "glyf_colr_1"   false true  false true  false false;
  FmtRow "cff_colr_0"    false true  false true  false true;
  FmtRow "cff_colr_1"    false true  false true  false true;
  FmtRow "cff2_colr_0"   false true  false true  false true;
  FmtRow "cff2_colr_1"   false true  false true  false true;
  FmtRow "picosvg"       false true  false true  true  false;
  FmtRow "picosvgz"      false true  false true  true  false;
  FmtRow "untouchedsvg"  false false true  true  true  false;
  FmtRow "untouchedsvgz" false false true  true  true  false;
  FmtRow "cbdt"          true  false false false false false;
  FmtRow "sbix"          true  false false false false false ].

Definition row_eqb (a b : fmt_row) : bool :=
  String.eqb (f_name a) (f_name b) && Bool.eqb (f_bitmaps a) (f_bitmaps b) &&
  Bool.eqb (f_picosvgs a) (f_picosvgs b) && Bool.eqb (f_untouched a) (f_untouched b) &&
  Bool.eqb (f_svgs a) (f_svgs b) && Bool.eqb (f_otsvg a) (f_otsvg b) && Bool.eqb (f_otf a) (f_otf b).
(* same rows, in any order *)
Definition tables_agree (a b : list fmt_row) : bool :=
  Nat.eqb (List.length a) (List.length b) &&
  forallb (fun r => existsb (row_eqb r) b) a && forallb (fun r => existsb (row_eqb r) a) b.
