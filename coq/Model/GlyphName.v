(* glyph.glyph_name for names that fit in 63 characters (longer names are replaced by a
   base32 SHA-1 digest: an oracle outside the model).  Text is a list of code points. *)
From Coq Require Import List NArith Bool.
From Verif Require Import Model.Csv.
Import ListNotations.
Local Open Scope N_scope.

Definition USCORE := 95.
Definition is_ascii_alpha (c : N) : bool := ((65 <=? c) && (c <=? 90)) || ((97 <=? c) && (c <=? 122)).
(* _name(cp): the letter itself for ASCII letters, else "%x" % cp *)
Definition name_tok (cp : N) : text := if is_ascii_alpha cp then [cp] else to_hex cp.
Fixpoint join_us (ts : list text) : text :=
  match ts with
  | [] => []
  | [t] => t
  | t :: r => t ++ USCORE :: join_us r
  end.
Definition raw_name (cps : list N) : text := join_us (map name_tok cps).
Definition starts_alpha (t : text) : bool := match t with c :: _ => is_ascii_alpha c | [] => false end.
Definition prefixed (r : text) : text := if starts_alpha r then r else 103 :: USCORE :: r.   (* "g_" *)
(* None = the name is too long and is hashed *)
Definition glyph_name (cps : list N) : option text :=
  let r := raw_name cps in
  let max_len := if starts_alpha r then 63%nat else 61%nat in
  if Nat.ltb max_len (length r) then None else Some (prefixed r).
