(* Abstract field interface used by every geometric model.
   Models are functions of an [fops] record; theorems are proved for every
   [fops] whose operations satisfy [field_theory] (hence over Q, R, ...);
   the executable instance is [QcOps] (canonical rationals, Leibniz equality). *)
From Coq Require Import ZArith QArith Qcanon Qround Field Bool.

Record fops := {
  F :> Type;
  f0 : F; f1 : F;
  fadd : F -> F -> F; fmul : F -> F -> F; fsub : F -> F -> F;
  fopp : F -> F; fdiv : F -> F -> F; finv : F -> F;
  feqb : F -> F -> bool;
  fleb : F -> F -> bool;
  ffloor : F -> Z      (* only used by rounding / int() in models; uninterpreted in proofs *)
}.

Declare Scope F_scope.
Delimit Scope F_scope with F.
Notation "x + y" := (fadd _ x y) : F_scope.
Notation "x * y" := (fmul _ x y) : F_scope.
Notation "x - y" := (fsub _ x y) : F_scope.
Notation "x / y" := (fdiv _ x y) : F_scope.
Notation "- x" := (fopp _ x) : F_scope.
Notation "0" := (f0 _) : F_scope.
Notation "1" := (f1 _) : F_scope.

Definition fth (O : fops) :=
  field_theory (f0 O) (f1 O) (fadd O) (fmul O) (fsub O) (fopp O) (fdiv O) (finv O) eq.

Definition feqb_ok (O : fops) := forall x y : O, feqb O x y = true <-> x = y.

(* integers and decimal constants inside any field *)
Fixpoint fofpos (O : fops) (p : positive) : O :=
  match p with
  | xH => f1 O
  | xO q => fmul O (fadd O (f1 O) (f1 O)) (fofpos O q)
  | xI q => fadd O (f1 O) (fmul O (fadd O (f1 O) (f1 O)) (fofpos O q))
  end.
Definition fofZ (O : fops) (z : Z) : O :=
  match z with Z0 => f0 O | Zpos p => fofpos O p | Zneg p => fopp O (fofpos O p) end.
Definition fofQ (O : fops) (q : Q) : O := fdiv O (fofZ O (Qnum q)) (fofpos O (Qden q)).

Definition fltb (O : fops) (x y : O) : bool := negb (fleb O y x).
Definition fabs (O : fops) (x : O) : O := if fleb O (f0 O) x then x else fopp O x.
Definition fmax (O : fops) (x y : O) : O := if fleb O x y then y else x.
Definition fmin (O : fops) (x y : O) : O := if fleb O x y then x else y.

(* Python int(x): truncation toward zero *)
Definition ftruncZ (O : fops) (x : O) : Z :=
  if fleb O (f0 O) x then ffloor O x else Z.opp (ffloor O (fopp O x)).
Definition ftrunc (O : fops) (x : O) : O := fofZ O (ftruncZ O x).
(* Python round(x) (half to even) *)
Definition froundZ (O : fops) (x : O) : Z :=
  let f := ffloor O x in
  let r := fsub O x (fofZ O f) in
  let half := fdiv O (f1 O) (fofZ O 2) in
  if feqb O r half then (if Z.even f then f else f + 1)%Z
  else if fleb O r half then f else (f + 1)%Z.
(* Python round(x, ndigits) for ndigits >= 0 *)
Definition fround_nd (O : fops) (nd : positive) (x : O) : O :=
  let k := fofZ O (Z.pow 10 (Zpos nd)) in
  fdiv O (fofZ O (froundZ O (fmul O x k))) k.

(* executable instance *)
Definition Qcleb (x y : Qc) : bool := Qle_bool (this x) (this y).
Definition QcOps : fops := {|
  F := Qc; f0 := 0%Qc; f1 := 1%Qc;
  fadd := Qcplus; fmul := Qcmult; fsub := Qcminus; fopp := Qcopp;
  fdiv := Qcdiv; finv := Qcinv; feqb := Qc_eq_bool; fleb := Qcleb;
  ffloor := fun x => Qfloor (this x) |}.

Lemma QcOps_fth : fth QcOps.
Proof. exact Qcft. Qed.

Lemma QcOps_eqb : feqb_ok QcOps.
Proof.
  intros x y; split.
  - apply Qc_eq_bool_correct.
  - intros ->. unfold feqb; simpl. unfold Qc_eq_bool. destruct (Qc_eq_dec y y); congruence.
Qed.
