(* Table constraints renderers and sanitisers rely on, as executable predicates over
   abstracted tables.  They are evaluated (vm_compute) on data read from every font the
   end-to-end harness builds, and proved of the model's own constructions where nanoemoji
   builds the structure itself. *)
From Coq Require Import List Arith NArith Bool.
Import ListNotations.

(* SVG document records (start gid, end gid): sorted by start, pairwise disjoint, in range *)
Fixpoint svg_ranges_ok_from (lo : nat) (docs : list (nat * nat)) (nglyphs : nat) : bool :=
  match docs with
  | [] => true
  | (s, e) :: r => Nat.leb lo s && Nat.leb s e && Nat.ltb e nglyphs && svg_ranges_ok_from (S e) r nglyphs
  end.
Definition valid_svg_doclist (docs : list (nat * nat)) (nglyphs : nat) : bool :=
  svg_ranges_ok_from 0 docs nglyphs.

(* (first gid, count) ranges as produced by the reshuffle -> (start, end) records *)
Definition to_records (rs : list (nat * nat)) : list (nat * nat) :=
  map (fun r => (fst r, fst r + snd r - 1)) rs.

(* COLR: base glyph ids strictly increasing and in range; every layer glyph id and palette
   index in range (0xFFFF = foreground is allowed) *)
Fixpoint strictly_increasing (l : list nat) : bool :=
  match l with a :: ((b :: _) as r) => Nat.ltb a b && strictly_increasing r | _ => true end.
Definition valid_colr (base_gids layer_gids : list nat) (palette_idx : list N) (nglyphs : nat) (npalette : N) : bool :=
  strictly_increasing base_gids && forallb (fun g => Nat.ltb g nglyphs) base_gids &&
  forallb (fun g => Nat.ltb g nglyphs) layer_gids &&
  forallb (fun i => N.ltb i npalette || N.eqb i 65535%N) palette_idx.

(* CBLC: each strike's index subtable covers exactly start..end, consecutive, one bitmap each *)
Fixpoint consecutive_from (g : nat) (l : list nat) : bool :=
  match l with [] => true | x :: r => Nat.eqb x g && consecutive_from (S g) r end.
Definition valid_cblc_strike (st : nat * nat * list nat) : bool :=
  let '(s, e, gids) := st in
  consecutive_from s gids && Nat.eqb (s + length gids) (S e) && negb (Nat.eqb (length gids) 0).
(* ... and the strikes (all of one size: nanoemoji writes one ppem) come in increasing glyph-id order and do not
   overlap: no glyph has two bitmaps of one size *)
Fixpoint strikes_apart_from (lo : nat) (strikes : list (nat * nat * list nat)) : bool :=
  match strikes with
  | [] => true
  | st :: r => Nat.leb lo (fst (fst st)) && Nat.leb (fst (fst st)) (snd (fst st)) && strikes_apart_from (S (snd (fst st))) r
  end.
Definition valid_cblc (strikes : list (nat * nat * list nat)) (nglyphs : nat) : bool :=
  forallb valid_cblc_strike strikes && forallb (fun st => Nat.ltb (snd (fst st)) nglyphs) strikes &&
  strikes_apart_from 0 strikes.

(* glyph-set agreement: hmtx, outlines, maxp, post (when it has names) all have nglyphs entries;
   every cmap target is a glyph *)
Definition glyphset_agree (nglyphs n_hmtx n_outlines n_maxp : nat) (n_post : option nat) (cmap_gids : list nat) : bool :=
  Nat.eqb n_hmtx nglyphs && Nat.eqb n_outlines nglyphs && Nat.eqb n_maxp nglyphs &&
  (match n_post with Some n => Nat.eqb n nglyphs | None => true end) &&
  forallb (fun g => Nat.ltb g nglyphs) cmap_gids.
